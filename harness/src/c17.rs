//! C17: pipelines are selected and compiled independently.
//!
//! request : C17.select \t <dx|vk|vkba|msl> \t <all|name=X|nopipeline> \t <pipes> \t <program seed> \t bare=<ok|err>
//!   pipes : `P0:Compute=cs_0;P1!:Vertex=vs_1,Pixel=ps_2` (what the generated file defines, in order; `!` = this
//!           pipeline fails to build when it is the only one in the file; bare = no-pipeline build of the bare file)
//! observe : ok:[Stage(entry),...][...] | err:none | err:unknown:X | err:build | panic:<site>
//! oracle  : (independent of the model) metamorphic comparison on the real compile():
//!           whole-file result i == result of compiling pipeline i by name == result of compiling a
//!           file in which the other Pipeline definitions were deleted; unknown name / no pipeline are
//!           clean errors; no-pipeline mode returns exactly one result.
//!
//! request : C17.typer \t <on|off> \t <program>        (program: see c17/wgen.rs; on/off = API define WIDE_ON)
//! observe : ok:P0{g=2;Compute=cs_0@8,4,1;-}P1{g=0;Vertex=vs_1@-,Pixel=ps_2@-;rt=[..];depth=..;cull=..;wind=..;blend=[..]}
//!           | err:<Kind>@<pipeline>.<path> | err:other:<first line>      (IR pipeline list of the real type checker)
//! oracle  : every IR pipeline of the whole file equals the IR pipeline of the file in which the other Pipeline
//!           blocks were deleted (name, default bind group, stages with entry *names* and sizes, state)
//!
//! request : C17.wide \t <tgt> \t <mode> \t <on|off>[,inc][,vl] \t <program> \t <fails: names joined by , or -> \t bare=<ok|err>
//! observe : ok:[Stage(entry)@x,y,z,..|state].. | err:front | err:none | err:unknown:X | err:build | panic:<site>
//! oracle  : as C17.select, on the real compile() with the request's options (API define, include file, layout
//!           validation); plus: a front-end rejection is the same text whatever the selection mode.
use crate::compile_util::*;
use crate::progen::*;
use crate::util::*;

pub mod wgen;
use wgen::*;

fn show_outcome(o: &CompileOutcome) -> String {
    match o {
        CompileOutcome::Ok(ps) => {
            let mut s = String::from("ok:");
            for p in ps {
                let st: Vec<String> = p.stages.iter().map(|(st, e, _)| format!("{}({})", st, e)).collect();
                s.push_str(&format!("[{}]", st.join(",")));
            }
            s
        }
        CompileOutcome::Err(e) => {
            if e == "Shader does not contain a single pipeline" {
                "err:none".into()
            } else if let Some(n) = e.strip_prefix("Shader does not contain the pipeline: ") {
                format!("err:unknown:{}", n)
            } else {
                "err:build".into()
            }
        }
        CompileOutcome::Panic(p) => format!("panic:{}", p),
    }
}

fn describe(o: &CompileOutcome) -> String {
    match o {
        CompileOutcome::Ok(ps) => format!("Ok({} pipelines, {})", ps.len(), o.digest()),
        CompileOutcome::Err(e) => format!("Err({})", one_line(&e.chars().take(80).collect::<String>())),
        CompileOutcome::Panic(p) => format!("Panic({})", p),
    }
}

/// Results of compiling each pipeline alone in the file (the other Pipeline definitions deleted), and
/// of no-pipeline mode on the file without any Pipeline definition: the `build` parameter of the model.
struct Alone {
    each: Vec<CompileOutcome>,
    bare: CompileOutcome,
}

fn alone_results(prog: &Program, tgt: Tgt) -> Alone {
    let each = (0..prog.pipes.len())
        .map(|i| compile_src(&render(prog, &|k| k == i), tgt, Mode::All))
        .collect();
    let bare = compile_src(&render(prog, &|_| false), tgt, Mode::NoPipeline);
    Alone { each, bare }
}

fn run_one(seed: u64, tgt: Tgt, mode: &Mode, out: &mut Out, hist: &mut Hist) {
    let mut rng = Rng::new(seed);
    let prog = gen_program(&mut rng, &GenOpts::default());
    let src = render(&prog, &|_| true);
    let alone = alone_results(&prog, tgt);
    // pipelines whose own build fails are flagged with `!` (input of the model: which builds fail)
    let pipes: Vec<String> = describe_pipes(&prog, &|_| true)
        .split(';')
        .filter(|s| !s.is_empty())
        .enumerate()
        .map(|(i, d)| {
            if matches!(alone.each[i], CompileOutcome::Ok(_)) { d.to_string() } else { d.replacen(':', "!:", 1) }
        })
        .collect();
    let bare_flag = if matches!(alone.bare, CompileOutcome::Ok(_)) { "bare=ok" } else { "bare=err" };
    let req = format!(
        "C17.select\t{}\t{}\t{}\t{}\t{}",
        tgt.name(),
        mode.show(),
        pipes.join(";"),
        seed,
        bare_flag
    );
    let result = compile_src(&src, tgt, mode.clone());
    let obs = show_outcome(&result);
    hist.add(&format!("pipes={}", prog.pipes.len()));
    hist.add(&format!("mode={}", match mode { Mode::All => "all", Mode::Named(_) => "named", Mode::NoPipeline => "nopipeline" }));
    hist.add(&format!("outcome={}", obs.split(':').take(2).collect::<Vec<_>>().join(":").split('[').next().unwrap_or("")));
    let mut fails: Vec<String> = Vec::new();
    if let CompileOutcome::Panic(p) = &result {
        fails.push(format!("panic {}", p));
    }
    match mode {
        Mode::All => {
            if prog.pipes.is_empty() {
                if result != CompileOutcome::Err("Shader does not contain a single pipeline".into()) {
                    fails.push(format!("file without pipelines: {}", describe(&result)));
                }
            }
            // every pipeline: by name == alone in the file == position i of the whole-file result
            for (i, pipe) in prog.pipes.iter().enumerate() {
                let named = compile_src(&src, tgt, Mode::Named(pipe.name.clone()));
                let alone = alone.each[i].clone();
                if named != alone {
                    fails.push(format!(
                        "pipeline {} by name {} but alone in the file {}",
                        pipe.name,
                        describe(&named),
                        describe(&alone)
                    ));
                }
                if let CompileOutcome::Ok(all) = &result {
                    if all.len() != prog.pipes.len() {
                        fails.push(format!("{} results for {} pipelines", all.len(), prog.pipes.len()));
                        break;
                    }
                    if named != CompileOutcome::Ok(vec![all[i].clone()]) {
                        fails.push(format!(
                            "pipeline {} differs between whole-file result and by-name result {}",
                            pipe.name,
                            describe(&named)
                        ));
                    }
                } else if let CompileOutcome::Err(_) = &result {
                    // the whole file fails only if some pipeline fails on its own
                    hist.add("whole-file-error");
                }
            }
            if let CompileOutcome::Err(e) = &result {
                if !prog.pipes.is_empty() {
                    let any_alone_fails = prog.pipes.iter().any(|p| {
                        !matches!(compile_src(&src, tgt, Mode::Named(p.name.clone())), CompileOutcome::Ok(_))
                    });
                    if !any_alone_fails {
                        fails.push(format!("whole file fails ({}) but every pipeline compiles by name", one_line(e)));
                    }
                }
            }
        }
        Mode::Named(n) => {
            let exists = prog.pipes.iter().any(|p| &p.name == n);
            if !exists {
                let want = CompileOutcome::Err(format!("Shader does not contain the pipeline: {}", n));
                if result != want {
                    fails.push(format!("unknown name {}: {}", n, describe(&result)));
                }
            } else if let CompileOutcome::Ok(v) = &result {
                if v.len() != 1 {
                    fails.push(format!("{} results for one name", v.len()));
                }
            }
        }
        Mode::NoPipeline => match &result {
            CompileOutcome::Ok(v) if v.len() == 1 && v[0].stages.is_empty() => {
                // same output when the file defines no pipelines at all
                if alone.bare != result {
                    fails.push("no-pipeline output depends on the pipeline definitions in the file".into());
                }
            }
            CompileOutcome::Ok(v) => fails.push(format!("no-pipeline mode returned {} results", v.len())),
            CompileOutcome::Err(_) => hist.add("nopipeline-error"),
            CompileOutcome::Panic(_) => {}
        },
    }
    let oracle = if fails.is_empty() { "ok".to_string() } else { format!("FAIL:{}", fails[0]) };
    out.case(&req, &obs, &oracle);
}

fn parse_mode(s: &str) -> Option<Mode> {
    if s == "all" {
        Some(Mode::All)
    } else if s == "nopipeline" {
        Some(Mode::NoPipeline)
    } else {
        s.strip_prefix("name=").map(|n| Mode::Named(n.to_string()))
    }
}

/// debugging aid: `harness c17 probe FILE [tgt] [mode]` compiles a file from disk and prints what comes back
fn probe(args: &Args) {
    let Some(path) = args.extra.get(1) else { return };
    let src = std::fs::read_to_string(path).unwrap_or_default();
    let tgts: Vec<Tgt> = match args.extra.get(2).and_then(|t| Tgt::parse(t)) {
        Some(t) => vec![t],
        None => ALL_TARGETS.to_vec(),
    };
    let mode = args.extra.get(3).and_then(|m| parse_mode(m)).unwrap_or(Mode::All);
    let verbose = args.extra.iter().any(|a| a == "-v");
    for t in tgts {
        match compile_src(&src, t, mode.clone()) {
            CompileOutcome::Ok(ps) => {
                for p in ps {
                    println!("==== {} {:?} state={:016x} slots={:?}", t.name(), p.stages, fnv64(p.state.as_bytes()), p.slots);
                    if verbose {
                        println!("{}", p.state);
                    }
                    if verbose {
                        println!("{}", p.text());
                    }
                }
            }
            CompileOutcome::Err(e) => println!("==== {} ERR {}", t.name(), one_line(&e)),
            CompileOutcome::Panic(e) => println!("==== {} PANIC {}", t.name(), e),
        }
    }
}

pub fn run(args: &Args, out: &mut Out) {
    let mut hist = Hist::default();
    if args.extra.first().map(|s| s.as_str()) == Some("probe") {
        probe(args);
        return;
    }
    if let Some(lines) = args.request_lines() {
        for line in lines {
            let f: Vec<&str> = line.split('\t').collect();
            if f[0] == "C17.typer" || f[0] == "C17.wide" {
                run_wide_line(&f, out, &mut hist);
                continue;
            }
            if f.len() != 6 || f[0] != "C17.select" {
                continue;
            }
            let (Some(t), Some(m), Ok(seed)) = (Tgt::parse(f[1]), parse_mode(f[2]), f[4].parse::<u64>()) else {
                continue;
            };
            run_one(seed, t, &m, out, &mut hist);
        }
        out.stat(&format!("{{\"mode\":\"replay\",\"hist\":{}}}", hist.json()));
        return;
    }
    let n = args.n.unwrap_or(if args.thorough() { 3500 } else { 300 });
    let mut rng = Rng::new(args.seed);
    for _ in 0..n {
        let seed = rng.next() >> 16;
        let probe = gen_program(&mut Rng::new(seed), &GenOpts::default());
        for tgt in ALL_TARGETS {
            run_one(seed, tgt, &Mode::All, out, &mut hist);
            // one existing name, one unknown name, no-pipeline mode
            if !probe.pipes.is_empty() {
                let k = rng.below(probe.pipes.len() as u64) as usize;
                run_one(seed, tgt, &Mode::Named(probe.pipes[k].name.clone()), out, &mut hist);
            }
            if tgt == Tgt::Dx || rng.chance(1, 4) {
                run_one(seed, tgt, &Mode::Named("Nope".into()), out, &mut hist);
                run_one(seed, tgt, &Mode::NoPipeline, out, &mut hist);
            }
        }
    }
    generate_wide(args, out, &mut hist);
    out.stat(&format!("{{\"programs\":{},\"hist\":{}}}", n, hist.json()));
}

// ------------------------------------------------------------------------------------------------ wide programs

fn show_tgs(t: &Option<(u32, u32, u32)>) -> String {
    match t {
        Some((x, y, z)) => format!("{},{},{}", x, y, z),
        None => "-".into(),
    }
}

/// canonical rendering of the graphics state (mirrored by Driver/C17.lean)
pub fn show_state(st: &Option<rssl::ir::GraphicsPipelineState>) -> String {
    let Some(g) = st else { return "-".into() };
    let rt: Vec<String> = g.render_target_formats.iter().map(|f| f.clone().unwrap_or_else(|| "-".into())).collect();
    let def = rssl::ir::BlendAttachmentState::default();
    let att: Vec<String> = g
        .blend_state
        .attachments
        .iter()
        .map(|a| {
            if *a == def {
                "d".to_string()
            } else {
                format!(
                    "{}:{:?}:{:?}:{:?}:{:?}:{:?}:{:?}:{}",
                    if a.blend_enabled { 1 } else { 0 },
                    a.src_blend,
                    a.dst_blend,
                    a.blend_op,
                    a.src_blend_alpha,
                    a.dst_blend_alpha,
                    a.blend_op_alpha,
                    a.write_mask.0
                )
            }
        })
        .collect();
    format!(
        "rt=[{}];depth={};cull={:?};wind={:?};blend=[{}]",
        rt.join(","),
        g.depth_target_format.clone().unwrap_or_else(|| "-".into()),
        g.cull_mode,
        g.winding_order,
        att.join("/")
    )
}

/// map a rendered diagnostic to `Kind@pipeline.path`
fn classify_front_error(text: &str, r: &Rendered) -> String {
    let first = text.lines().next().unwrap_or("");
    const KINDS: [(&str, &str); 12] = [
        ("pipeline with the same name is already defined", "AlreadyDefined"),
        ("pipeline must have at least one entry point", "NoEntryPoint"),
        ("pipeline has an invalid combination of stages", "InvalidStageCombination"),
        ("unknown function for entry point", "EntryUnknown"),
        ("unknown property", "PropertyUnknown"),
        ("property declared multiple times", "PropertyDuplicate"),
        ("graphics pipeline state may only be applied to a graphics pipeline", "RequiresGraphics"),
        ("state requires a string argument", "RequiresString"),
        ("state requires an identifier argument", "RequiresIdentifier"),
        ("state requires an integer argument", "RequiresInteger"),
        ("state requires a float argument", "RequiresFloat"),
        ("state set to invalid value", "ArgumentUnknown"),
    ];
    // `<file>:<line>:<col>: error: <message>`
    let mut parts = first.splitn(4, ':');
    let (file, line) = (parts.next().unwrap_or(""), parts.next().unwrap_or("").parse::<usize>().unwrap_or(0));
    let msg = first.split("error: ").nth(1).unwrap_or("");
    if let Some(p) = r.path_of(file, line) {
        if p.starts_with("R:") {
            // a declaration the generator made invalid on purpose
            return format!("err:decl@{}", p.trim_end_matches(".0"));
        }
        for (m, k) in KINDS {
            if msg.starts_with(m) {
                return format!("err:{}@{}", k, p);
            }
        }
    }
    format!("err:other:{}", one_line(first))
}

/// one IR pipeline as the model prints it
fn show_ir_pipeline(m: &rssl::ir::Module, p: &rssl::ir::PipelineDefinition) -> String {
    let st: Vec<String> = p
        .stages
        .iter()
        .map(|s| format!("{:?}={}@{}", s.stage, m.function_registry.get_function_name(s.entry_point), show_tgs(&s.thread_group_size)))
        .collect();
    format!("{}{{g={};{};{}}}", p.name.node, p.default_bind_group_index, st.join(","), show_state(&p.graphics_pipeline_state))
}

fn front_of(prog: &WProgram, on: bool, include: bool) -> (Result<Vec<String>, String>, Rendered) {
    let r = render_wide(prog, &RenderOpts { include });
    let defs: Vec<(&str, &str)> = if on { vec![("WIDE_ON", "1")] } else { Vec::new() };
    let res = guard(|| match front_end("main.rssl", &r.files, &defs) {
        Ok(m) => Ok(m.pipelines.iter().map(|p| show_ir_pipeline(&m, p)).collect::<Vec<_>>()),
        Err(e) => Err(if e.stage() == "parse" { format!("parse-error {}", e.text()) } else { e.text().to_string() }),
    });
    let res = match res {
        Ok(x) => x,
        Err(p) => Err(format!("panic {}", p)),
    };
    (res, r)
}

fn run_typer(on: bool, prog_s: &str, out: &mut Out, hist: &mut Hist) {
    let req = format!("C17.typer\t{}\t{}", if on { "on" } else { "off" }, prog_s);
    let Some(prog) = WProgram::parse(prog_s) else {
        out.case(&req, "", "SKIP:bad program");
        return;
    };
    let (res, r) = front_of(&prog, on, false);
    let mut fails: Vec<String> = Vec::new();
    let obs = match &res {
        Ok(ps) => format!("ok:{}", ps.join("")),
        Err(e) if e.starts_with("panic ") => {
            fails.push(e.clone());
            format!("panic:{}", &e[6..])
        }
        Err(e) if e.starts_with("parse-error ") => "err:parse".to_string(),
        Err(e) => classify_front_error(e, &r),
    };
    hist.add(&format!("typer={}", if obs.starts_with("ok:") { "ok" } else { obs.split('@').next().unwrap_or("") }));
    let act = prog.active(on);
    hist.add(&format!("typer-pipes={}", act.pipes().len()));
    if let Ok(ps) = &res {
        if ps.len() != act.pipes().len() {
            fails.push(format!("{} IR pipelines for {} definitions", ps.len(), act.pipes().len()));
        }
        // the active pipelines are numbered among *all* pipeline items of the program
        let mut k = 0;
        let all = prog.pipes();
        for (i, p) in all.iter().enumerate() {
            let active = !(p.flags.contains('D') && !on) && !(p.flags.contains('E') && on);
            if !active {
                continue;
            }
            let (alone, _) = front_of(&prog.keep_pipes(&|j| j == i), on, false);
            match alone {
                Ok(a) if a.len() == 1 && Some(&a[0]) == ps.get(k) => {}
                Ok(a) => fails.push(format!("pipeline {} alone in the file is {:?}, in the whole file {:?}", p.name, a, ps.get(k))),
                Err(e) => fails.push(format!("pipeline {} alone in the file is rejected: {}", p.name, one_line(&e))),
            }
            k += 1;
        }
    }
    let oracle = if fails.is_empty() { "ok".to_string() } else { format!("FAIL:{}", fails[0]) };
    out.case(&req, &obs, &oracle);
}

#[derive(Clone, Copy, PartialEq)]
struct WOpts {
    on: bool,
    include: bool,
    validate_layout: bool,
    /// ask for buffer addresses whatever the target is (an argument error unless the target is Vulkan)
    force_ba: bool,
}

impl WOpts {
    fn parse(s: &str) -> Option<WOpts> {
        let mut o = WOpts { on: false, include: false, validate_layout: false, force_ba: false };
        for (i, x) in s.split(',').enumerate() {
            match (i, x) {
                (0, "on") => o.on = true,
                (0, "off") => {}
                (_, "inc") if i > 0 => o.include = true,
                (_, "vl") if i > 0 => o.validate_layout = true,
                (_, "ba") if i > 0 => o.force_ba = true,
                _ => return None,
            }
        }
        Some(o)
    }
    fn show(&self) -> String {
        format!(
            "{}{}{}{}",
            if self.on { "on" } else { "off" },
            if self.include { ",inc" } else { "" },
            if self.validate_layout { ",vl" } else { "" },
            if self.force_ba { ",ba" } else { "" }
        )
    }
}

/// compile() on a wide program: the outcome in the shared canonical form plus the rendered state of every result
fn compile_wide(prog: &WProgram, o: WOpts, tgt: Tgt, mode: &Mode) -> (CompileOutcome, Vec<String>) {
    let r = render_wide(prog, &RenderOpts { include: o.include });
    let defs: Vec<(&str, &str)> = if o.on { vec![("WIDE_ON", "1")] } else { Vec::new() };
    let res = guard(|| {
        let mut inc = MemFiles(r.files.clone());
        let mut args = rssl::CompileArgs::new("main.rssl", &mut inc, tgt.target())
            .defines(&defs)
            .support_buffer_address(tgt.buffer_address() || o.force_ba)
            .validate_layout_consistency(o.validate_layout);
        match mode {
            Mode::All => {}
            Mode::Named(n) => args = args.pipeline_name(Some(n.as_str())),
            Mode::NoPipeline => args = args.no_pipeline_mode(),
        }
        match rssl::compile(args) {
            Ok(ps) => {
                let states: Vec<String> = ps.iter().map(|p| show_state(&p.graphics_pipeline_state)).collect();
                let outs = ps
                    .into_iter()
                    .map(|p| PipeOut {
                        data: p.data,
                        stages: p.stages.iter().map(|s| (format!("{:?}", s.stage), s.entry_point.clone(), s.thread_group_size)).collect(),
                        slots: slots_of(&p.metadata),
                        metadata: format!("{:?}", p.metadata),
                        state: format!("{:?}", p.graphics_pipeline_state),
                    })
                    .collect::<Vec<_>>();
                Ok((outs, states))
            }
            Err(e) => Err(format!("{}", e)),
        }
    });
    match res {
        Ok(Ok((v, s))) => (CompileOutcome::Ok(v), s),
        Ok(Err(e)) => (CompileOutcome::Err(e), Vec::new()),
        Err(p) => (CompileOutcome::Panic(p), Vec::new()),
    }
}

fn is_front_error(e: &str) -> bool {
    !(e == "Shader does not contain a single pipeline"
        || e == "InvalidArgs"
        || e.starts_with("Shader does not contain the pipeline: ")
        || e.starts_with("error: metal generate:")
        || e.starts_with("error: metal format:")
        || e.starts_with("error: hlsl generate:")
        || e.starts_with("error: hlsl format:")
        || e.starts_with("error: interpolator required by pixel stage has not been provided"))
}

fn show_wide(o: &CompileOutcome, states: &[String]) -> String {
    match o {
        CompileOutcome::Ok(ps) => {
            let mut s = String::from("ok:");
            for (i, p) in ps.iter().enumerate() {
                let st: Vec<String> = p.stages.iter().map(|(st, e, t)| format!("{}({})@{}", st, e, show_tgs(t))).collect();
                s.push_str(&format!("[{}|{}]", st.join(","), states.get(i).cloned().unwrap_or_default()));
            }
            s
        }
        CompileOutcome::Err(e) => {
            if e == "Shader does not contain a single pipeline" {
                "err:none".into()
            } else if let Some(n) = e.strip_prefix("Shader does not contain the pipeline: ") {
                format!("err:unknown:{}", n)
            } else if e == "InvalidArgs" {
                "err:args".into()
            } else if is_front_error(e) {
                "err:front".into()
            } else {
                "err:build".into()
            }
        }
        CompileOutcome::Panic(p) => format!("panic:{}", p),
    }
}

/// names of the active pipelines that do not build when they are the only pipeline of the file, and the bare build
fn wide_alone(prog: &WProgram, o: WOpts, tgt: Tgt) -> (Vec<(String, CompileOutcome)>, CompileOutcome) {
    let all = prog.pipes();
    let mut each = Vec::new();
    for (i, p) in all.iter().enumerate() {
        let active = !(p.flags.contains('D') && !o.on) && !(p.flags.contains('E') && o.on);
        if active {
            each.push((p.name.clone(), compile_wide(&prog.keep_pipes(&|j| j == i), o, tgt, &Mode::All).0));
        }
    }
    let bare = compile_wide(&prog.keep_pipes(&|_| false), o, tgt, &Mode::NoPipeline).0;
    (each, bare)
}

fn run_wide(tgt: Tgt, mode: &Mode, o: WOpts, prog_s: &str, out: &mut Out, hist: &mut Hist) {
    let Some(prog) = WProgram::parse(prog_s) else {
        out.case(&format!("C17.wide\t{}\t{}\t{}\t{}\t-\tbare=err", tgt.name(), mode.show(), o.show(), prog_s), "", "SKIP:bad program");
        return;
    };
    let (alone, bare) = wide_alone(&prog, o, tgt);
    let failing: Vec<String> = alone.iter().filter(|(_, r)| !matches!(r, CompileOutcome::Ok(_))).map(|(n, _)| n.clone()).collect();
    let req = format!(
        "C17.wide\t{}\t{}\t{}\t{}\t{}\tbare={}",
        tgt.name(),
        mode.show(),
        o.show(),
        prog_s,
        if failing.is_empty() { "-".to_string() } else { failing.join(",") },
        if matches!(bare, CompileOutcome::Ok(_)) { "ok" } else { "err" }
    );
    let (result, states) = compile_wide(&prog, o, tgt, mode);
    let obs = show_wide(&result, &states);
    hist.add(&format!("wide-pipes={}", alone.len()));
    hist.add(&format!("wide-outcome={}", if obs.starts_with("err:unknown") { "err:unknown" } else { obs.split('[').next().unwrap_or("") }));
    hist.add(&format!("wide-opts={}", o.show()));
    {
        // same-named functions in the active file, and stage reports that carry a generated (renamed) entry name
        let act = prog.active(o.on);
        let fnames: Vec<String> = act.funcs().iter().filter(|f| !f.flags.contains('d')).map(|f| f.name.clone()).collect();
        if fnames.iter().enumerate().any(|(i, n)| fnames[..i].contains(n)) {
            hist.add("wide-same-named-functions");
        }
        if obs.starts_with("ok:") && !matches!(tgt, Tgt::Msl) {
            let renamed = obs.split('(').skip(1).filter_map(|x| x.split(')').next()).any(|n| !act.funcs().iter().any(|f| f.name == n));
            if renamed {
                hist.add("wide-renamed-entry-reported");
            }
        }
    }
    let mut fails: Vec<String> = Vec::new();
    if let CompileOutcome::Panic(p) = &result {
        fails.push(format!("panic {}", p));
    }
    // an argument error comes before anything else, whatever the file and the selection are
    if o.force_ba && !matches!(tgt, Tgt::Vk | Tgt::VkBa) {
        if result != CompileOutcome::Err("InvalidArgs".into()) {
            fails.push(format!("buffer addresses requested for {}: {}", tgt.name(), describe(&result)));
        }
        let oracle = if fails.is_empty() { "ok".to_string() } else { format!("FAIL:{}", fails[0]) };
        out.case(&req, &obs, &oracle);
        return;
    }
    // a front-end rejection does not depend on the selection
    let front_err = match &result {
        CompileOutcome::Err(e) if is_front_error(e) => Some(e.clone()),
        _ => None,
    };
    if matches!(mode, Mode::All) {
        for m in [Mode::NoPipeline, Mode::Named("Nope".into())] {
            let (other, _) = compile_wide(&prog, o, tgt, &m);
            let other_front = match &other {
                CompileOutcome::Err(e) if is_front_error(e) => Some(e.clone()),
                _ => None,
            };
            if other_front != front_err {
                fails.push(format!("front-end verdict depends on the selection mode: all {:?} / {} {:?}", front_err, m.show(), other_front));
            }
        }
    }
    match mode {
        Mode::All if front_err.is_none() => {
            if alone.is_empty() && result != CompileOutcome::Err("Shader does not contain a single pipeline".into()) {
                fails.push(format!("file without pipelines: {}", describe(&result)));
            }
            for (i, (name, alone_r)) in alone.iter().enumerate() {
                let (named, _) = compile_wide(&prog, o, tgt, &Mode::Named(name.clone()));
                if &named != alone_r {
                    fails.push(format!("pipeline {} by name {} but alone in the file {}", name, describe(&named), describe(alone_r)));
                }
                if let CompileOutcome::Ok(all) = &result {
                    if all.len() != alone.len() {
                        fails.push(format!("{} results for {} pipelines", all.len(), alone.len()));
                        break;
                    }
                    if named != CompileOutcome::Ok(vec![all[i].clone()]) {
                        fails.push(format!("pipeline {} differs between whole-file result and by-name result {}", name, describe(&named)));
                    }
                }
            }
            if let CompileOutcome::Err(e) = &result {
                if !alone.is_empty() && failing.is_empty() {
                    fails.push(format!("whole file fails ({}) but every pipeline compiles alone", one_line(e)));
                }
            }
        }
        Mode::Named(n) if front_err.is_none() => {
            let exists = alone.iter().any(|(x, _)| x == n);
            if !exists {
                let want = CompileOutcome::Err(format!("Shader does not contain the pipeline: {}", n));
                if result != want {
                    fails.push(format!("unknown name {}: {}", n, describe(&result)));
                }
            } else {
                let alone_r = &alone.iter().find(|(x, _)| x == n).unwrap().1;
                if &result != alone_r {
                    fails.push(format!("pipeline {} by name {} but alone in the file {}", n, describe(&result), describe(alone_r)));
                }
                if let CompileOutcome::Ok(v) = &result {
                    if v.len() != 1 {
                        fails.push(format!("{} results for one name", v.len()));
                    }
                }
            }
        }
        Mode::NoPipeline if front_err.is_none() => match &result {
            CompileOutcome::Ok(v) if v.len() == 1 && v[0].stages.is_empty() => {
                if bare != result {
                    fails.push("no-pipeline output depends on the pipeline definitions in the file".into());
                }
            }
            CompileOutcome::Ok(v) => fails.push(format!("no-pipeline mode returned {} results", v.len())),
            CompileOutcome::Err(_) => {
                hist.add("wide-nopipeline-error");
                if matches!(bare, CompileOutcome::Ok(_)) {
                    fails.push("no-pipeline mode fails although the file without Pipeline blocks builds".into());
                }
            }
            CompileOutcome::Panic(_) => {}
        },
        _ => {}
    }
    let oracle = if fails.is_empty() { "ok".to_string() } else { format!("FAIL:{}", fails[0]) };
    out.case(&req, &obs, &oracle);
}

fn run_wide_line(f: &[&str], out: &mut Out, hist: &mut Hist) {
    match f[0] {
        "C17.typer" if f.len() == 3 => run_typer(f[1] == "on", f[2], out, hist),
        "C17.wide" if f.len() == 7 => {
            if let (Some(t), Some(m), Some(o)) = (Tgt::parse(f[1]), parse_mode(f[2]), WOpts::parse(f[3])) {
                run_wide(t, &m, o, f[4], out, hist);
            }
        }
        _ => {}
    }
}

fn generate_wide(args: &Args, out: &mut Out, hist: &mut Hist) {
    let n = args.n.unwrap_or(if args.thorough() { 6000 } else { 800 });
    let mut rng = Rng::new(args.seed ^ 0x17_17);
    for i in 0..n {
        let mut prng = rng.fork();
        let prog = gen_wide(&mut prng, &WideOpts { allow_mesh: i % 3 != 0, unsized_arrays: i % 5 == 0, ..WideOpts::default() });
        let s = prog.show();
        let on = rng.chance(1, 2);
        run_typer(on, &s, out, hist);
        if rng.chance(1, 4) {
            run_typer(!on, &s, out, hist);
        }
        let o = WOpts { on, include: rng.chance(1, 5), validate_layout: rng.chance(1, 6), force_ba: rng.chance(1, 25) };
        let names: Vec<String> = prog.active(on).pipes().iter().map(|p| p.name.clone()).collect();
        // one or two targets per program, every mode
        let t0 = ALL_TARGETS[(i % 4) as usize];
        let mut tgts = vec![t0];
        if rng.chance(1, 3) {
            tgts.push(ALL_TARGETS[((i + 1 + rng.below(3)) % 4) as usize]);
        }
        for tgt in tgts {
            run_wide(tgt, &Mode::All, o, &s, out, hist);
            if !names.is_empty() {
                // first, middle, last by turns
                let k = match rng.below(3) {
                    0 => 0,
                    1 => names.len() / 2,
                    _ => names.len() - 1,
                };
                run_wide(tgt, &Mode::Named(names[k].clone()), o, &s, out, hist);
            }
            if rng.chance(1, 3) {
                // a name that is not there: never defined / defined only under the other setting of the define
                let inactive: Vec<String> = prog.pipes().iter().map(|p| p.name.clone()).filter(|n| !names.contains(n)).collect();
                let n = if !inactive.is_empty() && rng.chance(1, 2) {
                    inactive[0].clone()
                } else if !names.is_empty() && rng.chance(2, 3) {
                    // a prefix / an extension / a case variant of a name that exists
                    let base = rng.pick(&names).clone();
                    let cand = match rng.below(4) {
                        0 => format!("{}0", base),
                        1 => base[..base.len() - 1].to_string(),
                        2 => base.to_lowercase(),
                        _ => base.to_uppercase(),
                    };
                    if cand.is_empty() { "Nope".to_string() } else { cand }
                } else {
                    "Nope".to_string()
                };
                run_wide(tgt, &Mode::Named(n), o, &s, out, hist);
            }
            if rng.chance(1, 3) {
                run_wide(tgt, &Mode::NoPipeline, o, &s, out, hist);
            }
        }
    }
}

import RsslVerif.Spec.Overload
/-! Helper lemmas for C16: the lexicographic order of count vectors, the `best_order` fold, permutation
invariance of each stage of `resolveRanked`. Core Lean only. -/
namespace RsslVerif.Lemmas.Overload
open RsslVerif.Gen.RankTable RsslVerif.Model.Conv RsslVerif.Model.Overload RsslVerif.Spec.Overload

/-! ## tables -/

theorem isWorse_iff (c a : NumRank) : isWorse c a = true ↔ a.order < c.order := by
  cases c <;> cases a <;> decide

theorem isWorse_false_iff (c a : NumRank) : isWorse c a = false ↔ c.order ≤ a.order := by
  cases c <;> cases a <;> decide

theorem order_eq_badness (r : NumRank) : r.order = numBadness r := by
  cases r <;> rfl

theorem order_zero_iff (r : NumRank) : r.order = 0 ↔ r = .exact := by
  cases r <;> decide

/-! ## `Vec<usize>` order -/

theorem lexLt_irrefl : ∀ a, lexLt a a = false
  | [] => rfl
  | x :: xs => by simp [lexLt, lexLt_irrefl xs]

theorem lexLt_trans : ∀ a b c, lexLt a b = true → lexLt b c = true → lexLt a c = true
  | [], [], _ => by simp [lexLt]
  | [], _ :: _, [] => by simp [lexLt]
  | [], _ :: _, _ :: _ => by simp [lexLt]
  | _ :: _, [], _ => by simp [lexLt]
  | _ :: _, _ :: _, [] => by simp [lexLt]
  | x :: xs, y :: ys, z :: zs => by
    simp only [lexLt, Bool.or_eq_true, Bool.and_eq_true, decide_eq_true_eq, beq_iff_eq]
    intro h1 h2
    rcases h1 with h1 | ⟨h1, h1'⟩ <;> rcases h2 with h2 | ⟨h2, h2'⟩
    · left; omega
    · left; omega
    · left; omega
    · right; exact ⟨by omega, lexLt_trans xs ys zs h1' h2'⟩

theorem lexLt_antisymm : ∀ a b, lexLt a b = false → lexLt b a = false → a = b
  | [], [] => by simp
  | [], _ :: _ => by simp [lexLt]
  | _ :: _, [] => by simp [lexLt]
  | x :: xs, y :: ys => by
    simp only [lexLt, Bool.or_eq_false_iff, Bool.and_eq_false_iff, decide_eq_false_iff_not, beq_eq_false_iff_ne]
    intro h1 h2
    have hxy : x = y := by omega
    subst hxy
    have := lexLt_antisymm xs ys (by simpa using h1.2) (by simpa using h2.2)
    rw [this]

/-! ## the `best_order` fold -/

theorem bestOrder_spec (first : List Nat) (os : List (List Nat)) :
    (bestOrder first os = first ∨ bestOrder first os ∈ os) ∧
    lexLt first (bestOrder first os) = false ∧ ∀ o ∈ os, lexLt o (bestOrder first os) = false := by
  induction os generalizing first with
  | nil => simp [bestOrder, lexLt_irrefl]
  | cons o os ih =>
    simp only [bestOrder, List.foldl_cons]
    by_cases h : lexLt o first = true
    · simp only [h, if_true]
      have ⟨hm, hf, ha⟩ := ih o
      simp only [bestOrder] at hm hf ha
      refine ⟨?_, ?_, ?_⟩
      · rcases hm with hm | hm
        · right; rw [hm]; exact List.mem_cons_self
        · right; exact List.mem_cons_of_mem _ hm
      · -- first is not below the result: otherwise o < first < result, contradiction with hf
        cases hc : lexLt first (List.foldl (fun best o => if lexLt o best = true then o else best) o os) with
        | false => rfl
        | true =>
          have := lexLt_trans _ _ _ h hc
          rw [hf] at this; exact absurd this (by simp)
      · intro x hx
        rcases List.mem_cons.mp hx with hx | hx
        · subst hx; exact hf
        · exact ha x hx
    · have h' : lexLt o first = false := by simpa using h
      simp only [h', Bool.false_eq_true, if_false]
      have ⟨hm, hf, ha⟩ := ih first
      simp only [bestOrder] at hm hf ha
      refine ⟨?_, hf, ?_⟩
      · rcases hm with hm | hm
        · left; exact hm
        · right; exact List.mem_cons_of_mem _ hm
      · intro x hx
        rcases List.mem_cons.mp hx with hx | hx
        · subst hx
          -- x ≥ first ≥ result
          cases hc : lexLt x (List.foldl (fun best o => if lexLt o best = true then o else best) first os) with
          | false => rfl
          | true =>
            -- x < result; result ≤ ... we need a contradiction with first ≤ x? use totality via antisymm
            exfalso
            -- from hf: ¬ first < result.  from h': ¬ x < first.  from hc: x < result.
            -- if result < first then x < first by trans: contradiction. Otherwise result = first by antisymm, so x < first.
            cases hr : lexLt (List.foldl (fun best o => if lexLt o best = true then o else best) first os) first with
            | true =>
              have := lexLt_trans _ _ _ hc hr
              rw [h'] at this; exact absurd this (by simp)
            | false =>
              have e := lexLt_antisymm _ _ hf hr
              rw [← e] at hc
              rw [h'] at hc; exact absurd hc (by simp)
        · exact ha x hx

/-- the minimum is characterised by membership + lower bound, hence independent of the order -/
theorem min_unique (os : List (List Nat)) (a b : List Nat)
    (ha : a ∈ os) (hb : b ∈ os) (la : ∀ o ∈ os, lexLt o a = false) (lb : ∀ o ∈ os, lexLt o b = false) : a = b :=
  lexLt_antisymm a b (lb a ha) (la b hb)

/-! ## permutation invariance, stage by stage -/

theorem all_perm {α : Type} {l l' : List α} (h : List.Perm l l') (f : α → Bool) : l.all f = l'.all f := by
  rw [Bool.eq_iff_iff]
  simp [List.all_eq_true, h.mem_iff]

theorem any_perm {α : Type} {l l' : List α} (h : List.Perm l l') (f : α → Bool) : l.any f = l'.any f := by
  rw [Bool.eq_iff_iff]
  simp [List.any_eq_true, h.mem_iff]

theorem mem_winners {l : List (Nat × List Rank)} {x : Nat × List Rank} :
    x ∈ winners l ↔ x ∈ l ∧ ∀ a ∈ l, a.1 = x.1 ∨ notWorse x.2 a.2 = true := by
  simp [winners, List.mem_filter, List.all_eq_true]

theorem winners_perm {l l' : List (Nat × List Rank)} (h : List.Perm l l') :
    List.Perm (winners l) (winners l') := by
  unfold winners
  have e : (fun c : Nat × List Rank => l.all fun a => a.1 == c.1 || notWorse c.2 a.2) =
           (fun c : Nat × List Rank => l'.all fun a => a.1 == c.1 || notWorse c.2 a.2) := by
    funext c; exact all_perm h _
  rw [e]
  exact h.filter _

/-- `finals` keeps exactly the winners whose count vector is minimal -/
theorem finals_eq (w : List (Nat × List Rank)) :
    finals w = w.filter fun x => w.all fun y => !lexLt (order y.2) (order x.2) := by
  cases w with
  | nil => rfl
  | cons c t =>
    simp only [finals]
    apply List.filter_congr
    intro x hx
    have ⟨hm, _, hlow⟩ := bestOrder_spec (order c.2) (List.map (fun x => order x.2) (c :: t))
    have hmem : bestOrder (order c.2) (List.map (fun x => order x.2) (c :: t)) ∈
        List.map (fun x => order x.2) (c :: t) := by
      rcases hm with hm | hm
      · rw [hm]; exact List.mem_map.mpr ⟨c, List.mem_cons_self, rfl⟩
      · exact hm
    rw [Bool.eq_iff_iff]
    simp only [beq_iff_eq, List.all_eq_true, Bool.not_eq_true']
    constructor
    · intro e y hy
      rw [e]
      exact hlow _ (List.mem_map.mpr ⟨y, hy, rfl⟩)
    · intro hmin
      apply min_unique (List.map (fun x => order x.2) (c :: t)) _ _
        (List.mem_map.mpr ⟨x, hx, rfl⟩) hmem
      · intro o ho
        obtain ⟨y, hy, rfl⟩ := List.mem_map.mp ho
        exact hmin y hy
      · exact hlow

theorem mem_finals {w : List (Nat × List Rank)} {x : Nat × List Rank} :
    x ∈ finals w ↔ x ∈ w ∧ ∀ y ∈ w, lexLt (order y.2) (order x.2) = false := by
  rw [finals_eq]
  simp [List.mem_filter, List.all_eq_true]

theorem finals_perm {w w' : List (Nat × List Rank)} (h : List.Perm w w') :
    List.Perm (finals w) (finals w') := by
  rw [finals_eq, finals_eq]
  have e : (fun x : Nat × List Rank => w.all fun y => !lexLt (order y.2) (order x.2)) =
           (fun x : Nat × List Rank => w'.all fun y => !lexLt (order y.2) (order x.2)) := by
    funext x; exact all_perm h _
  rw [e]
  exact h.filter _

theorem resolveRanked_perm {l l' : List (Nat × List Rank)} (h : List.Perm l l') :
    Outcome.Equiv (resolveRanked l) (resolveRanked l') := by
  have hf := finals_perm (winners_perm h)
  unfold resolveRanked
  generalize finals (winners l) = f at hf
  generalize finals (winners l') = f' at hf
  match f, f', hf with
  | [], f', hf =>
    have := hf.nil_eq; subst this; simp [Outcome.Equiv]
  | [c], f', hf =>
    have : [c] = f' := List.singleton_perm.mp hf
    subst this; simp [Outcome.Equiv]
  | c :: d :: t, [], hf => exact absurd hf.eq_nil (by simp)
  | c :: d :: t, [x], hf => exact absurd (List.perm_singleton.mp hf) (by simp)
  | c :: d :: t, x :: y :: u, hf =>
    simp only [Outcome.Equiv]
    exact hf.map _

/-! ## rank lists: counts, pointwise comparisons -/

theorem countByRank_nil (v : VecRank) : countByRank [] v = 0 := rfl

theorem countByRank_cons (r : Rank) (rs : List Rank) (v : VecRank) :
    countByRank (r :: rs) v = (if r.vec = v then 1 else 0) + countByRank rs v := by
  unfold countByRank
  by_cases h : r.vec = v
  · simp [h]; omega
  · simp [h]

theorem order_eq (rs : List Rank) :
    order rs = [countByRank rs .contract, countByRank rs .expand, countByRank rs .exact] := rfl

theorem count_sum (rs : List Rank) :
    countByRank rs .contract + countByRank rs .expand + countByRank rs .exact = rs.length := by
  induction rs with
  | nil => rfl
  | cons r rs ih =>
    simp only [countByRank_cons, List.length_cons]
    cases hv : r.vec <;> simp <;> omega

/-- pointwise equal numeric ranks -/
def NumEq : List Rank → List Rank → Prop
  | d :: ds, c :: cs => d.num.order = c.num.order ∧ NumEq ds cs
  | [], [] => True
  | _, _ => False

/-- pointwise: `d`'s vector rank at least as good -/
def VecLe : List Rank → List Rank → Prop
  | d :: ds, c :: cs => vecBadness d.vec ≤ vecBadness c.vec ∧ VecLe ds cs
  | [], [] => True
  | _, _ => False

def VecSomeLt : List Rank → List Rank → Prop
  | d :: ds, c :: cs => vecBadness d.vec < vecBadness c.vec ∨ VecSomeLt ds cs
  | _, _ => False

theorem notWorse_of_numExact : ∀ (c a : List Rank), (∀ r ∈ c, r.num = .exact) → notWorse c a = true
  | [], _, _ => by simp [notWorse]
  | _ :: _, [], _ => by simp [notWorse]
  | c :: cs, a :: as, h => by
    have hc : c.num = .exact := h c List.mem_cons_self
    have : isWorse c.num a.num = false := by
      rw [isWorse_false_iff, hc]; exact Nat.zero_le _
    simp only [notWorse, this, Bool.not_false, Bool.true_and]
    exact notWorse_of_numExact cs as (fun r hr => h r (List.mem_cons_of_mem _ hr))

theorem numExact_of_notWorse : ∀ (d c : List Rank), notWorse d c = true → (∀ r ∈ c, r.num = .exact) →
    d.length = c.length → ∀ r ∈ d, r.num = .exact
  | [], _, _, _, _ => by simp
  | _ :: _, [], _, _, hl => by simp at hl
  | d :: ds, c :: cs, h, hc, hl => by
    simp only [notWorse, Bool.and_eq_true, Bool.not_eq_true'] at h
    have h1 : d.num.order ≤ c.num.order := (isWorse_false_iff _ _).mp h.1
    have hc0 : c.num = .exact := hc c List.mem_cons_self
    rw [hc0] at h1
    have hd : d.num = .exact := (order_zero_iff _).mp (Nat.le_zero.mp h1)
    intro r hr
    rcases List.mem_cons.mp hr with hr | hr
    · rw [hr]; exact hd
    · exact numExact_of_notWorse ds cs h.2 (fun r hr => hc r (List.mem_cons_of_mem _ hr))
        (by simpa using hl) r hr

theorem notWorse_congr : ∀ (d c a : List Rank), NumEq d c → notWorse d a = notWorse c a
  | [], [], _, _ => rfl
  | [], _ :: _, _, h => by simp [NumEq] at h
  | _ :: _, [], _, h => by simp [NumEq] at h
  | d :: ds, c :: cs, [], _ => by simp [notWorse]
  | d :: ds, c :: cs, a :: as, h => by
    simp only [NumEq] at h
    have e : isWorse d.num a.num = isWorse c.num a.num := by
      rw [Bool.eq_iff_iff, isWorse_iff, isWorse_iff, h.1]
    simp only [notWorse, e, notWorse_congr ds cs as h.2]

theorem notWorse_of_numEq : ∀ (d c : List Rank), NumEq d c → notWorse d c = true
  | [], [], _ => rfl
  | [], _ :: _, h => by simp [NumEq] at h
  | _ :: _, [], h => by simp [NumEq] at h
  | d :: ds, c :: cs, h => by
    simp only [NumEq] at h
    have : isWorse d.num c.num = false := by rw [isWorse_false_iff]; omega
    simp only [notWorse, this, Bool.not_false, Bool.true_and]
    exact notWorse_of_numEq ds cs h.2

/-- a dominating candidate that the selected one is not numerically worse than has the same numeric ranks -/
theorem dominates_split : ∀ (d c : List Rank), AllLe d c → notWorse c d = true → NumEq d c ∧ VecLe d c
  | [], [], _, _ => ⟨trivial, trivial⟩
  | [], _ :: _, h, _ => by simp [AllLe] at h
  | _ :: _, [], h, _ => by simp [AllLe] at h
  | d :: ds, c :: cs, h, hn => by
    simp only [AllLe] at h
    simp only [notWorse, Bool.and_eq_true, Bool.not_eq_true'] at hn
    have h1 : c.num.order ≤ d.num.order := (isWorse_false_iff _ _).mp hn.1
    have ⟨ih1, ih2⟩ := dominates_split ds cs h.2 hn.2
    have hle := h.1
    unfold Rank.le at hle
    rw [← order_eq_badness, ← order_eq_badness] at hle
    rcases hle with hlt | ⟨he, hv⟩
    · omega
    · exact ⟨⟨he, ih1⟩, ⟨hv, ih2⟩⟩

theorem someLt_split : ∀ (d c : List Rank), NumEq d c → SomeLt d c → VecSomeLt d c
  | [], [], _, h => by simp [SomeLt] at h
  | [], _ :: _, h, _ => by simp [NumEq] at h
  | _ :: _, [], h, _ => by simp [NumEq] at h
  | d :: ds, c :: cs, hn, h => by
    simp only [NumEq] at hn
    simp only [SomeLt] at h
    rcases h with h | h
    · unfold Rank.lt at h
      rw [← order_eq_badness, ← order_eq_badness] at h
      rcases h with h | ⟨_, h⟩
      · omega
      · exact Or.inl h
    · exact Or.inr (someLt_split ds cs hn.2 h)

theorem vec_counts : ∀ (d c : List Rank), VecLe d c →
    countByRank d .contract ≤ countByRank c .contract ∧
    countByRank d .contract + countByRank d .expand ≤ countByRank c .contract + countByRank c .expand
  | [], [], _ => by simp [countByRank_nil]
  | [], _ :: _, h => by simp [VecLe] at h
  | _ :: _, [], h => by simp [VecLe] at h
  | d :: ds, c :: cs, h => by
    simp only [VecLe] at h
    have ⟨i1, i2⟩ := vec_counts ds cs h.2
    have hv := h.1
    simp only [countByRank_cons]
    cases hd : d.vec <;> cases hc : c.vec <;> simp [hd, hc, vecBadness] at hv ⊢ <;> omega

theorem vec_counts_lt : ∀ (d c : List Rank), VecLe d c → VecSomeLt d c →
    countByRank d .contract < countByRank c .contract ∨
    countByRank d .contract + countByRank d .expand < countByRank c .contract + countByRank c .expand
  | [], [], _, h => by simp [VecSomeLt] at h
  | [], _ :: _, h, _ => by simp [VecLe] at h
  | _ :: _, [], h, _ => by simp [VecLe] at h
  | d :: ds, c :: cs, h, hs => by
    simp only [VecLe] at h
    simp only [VecSomeLt] at hs
    have ⟨i1, i2⟩ := vec_counts ds cs h.2
    have hv := h.1
    simp only [countByRank_cons]
    rcases hs with hs | hs
    · cases hd : d.vec <;> cases hc : c.vec <;> simp [hd, hc, vecBadness] at hv hs ⊢ <;> omega
    · have := vec_counts_lt ds cs h.2 hs
      cases hd : d.vec <;> cases hc : c.vec <;> simp [hd, hc, vecBadness] at hv ⊢ <;> omega

theorem vecLe_length : ∀ (d c : List Rank), VecLe d c → d.length = c.length
  | [], [], _ => rfl
  | [], _ :: _, h => by simp [VecLe] at h
  | _ :: _, [], h => by simp [VecLe] at h
  | _ :: ds, _ :: cs, h => by
    simp only [VecLe] at h
    simp [vecLe_length ds cs h.2]

/-- pointwise better-or-equal vector ranks with one strict improvement give a smaller count vector -/
theorem order_lt_of_vec (d c : List Rank) (h : VecLe d c) (hs : VecSomeLt d c) :
    lexLt (order d) (order c) = true := by
  have ⟨i1, i2⟩ := vec_counts d c h
  have i3 := vec_counts_lt d c h hs
  have s1 := count_sum d
  have s2 := count_sum c
  have hl := vecLe_length d c h
  rw [order_eq, order_eq]
  simp only [lexLt, Bool.or_eq_true, Bool.and_eq_true, decide_eq_true_eq, beq_iff_eq, Bool.or_false,
    Bool.and_false]
  omega

theorem counts_of_exact (rs : List Rank) (h : ∀ r ∈ rs, r.vec = .exact) :
    countByRank rs .contract = 0 ∧ countByRank rs .expand = 0 ∧ countByRank rs .exact = rs.length := by
  induction rs with
  | nil => simp [countByRank_nil]
  | cons r rs ih =>
    have ⟨a, b, c⟩ := ih (fun x hx => h x (List.mem_cons_of_mem _ hx))
    have hr : r.vec = .exact := h r List.mem_cons_self
    simp [countByRank_cons, hr, a, b, c]; omega

theorem vec_exact_of_counts (rs : List Rank) (h1 : countByRank rs .contract = 0) (h2 : countByRank rs .expand = 0) :
    ∀ r ∈ rs, r.vec = .exact := by
  induction rs with
  | nil => simp
  | cons r rs ih =>
    simp only [countByRank_cons] at h1 h2
    intro x hx
    rcases List.mem_cons.mp hx with hx | hx
    · subst hx
      cases hv : x.vec <;> simp [hv] at h1 h2 ⊢
    · exact ih (by omega) (by omega) x hx

/-! ## the ranked stage: soundness, exact matches, domination -/

/-- entries of a list with pairwise distinct ids are determined by their id -/
theorem eq_of_id_eq {l : List (Nat × List Rank)} (hnd : (l.map (·.1)).Nodup) {x y : Nat × List Rank}
    (hx : x ∈ l) (hy : y ∈ l) (h : x.1 = y.1) : x = y := by
  induction l with
  | nil => simp at hx
  | cons a t ih =>
    simp only [List.map_cons, List.nodup_cons, List.mem_map, not_exists, not_and] at hnd
    rcases List.mem_cons.mp hx with hx1 | hx1 <;> rcases List.mem_cons.mp hy with hy1 | hy1
    · rw [hx1, hy1]
    · rw [hx1] at h; exact absurd h.symm (hnd.1 y hy1)
    · rw [hy1] at h; exact absurd h (hnd.1 x hx1)
    · exact ih hnd.2 hx1 hy1

theorem nodup_of_ids {l : List (Nat × List Rank)} (hnd : (l.map (·.1)).Nodup) : l.Nodup := by
  induction l with
  | nil => simp
  | cons a t ih =>
    simp only [List.map_cons, List.nodup_cons, List.mem_map, not_exists, not_and] at hnd
    rw [List.nodup_cons]
    exact ⟨fun hm => hnd.1 a hm rfl, ih hnd.2⟩

theorem finals_subset {w : List (Nat × List Rank)} {x : Nat × List Rank} (h : x ∈ finals w) : x ∈ w :=
  (mem_finals.mp h).1

theorem winners_subset {l : List (Nat × List Rank)} {x : Nat × List Rank} (h : x ∈ winners l) : x ∈ l :=
  (mem_winners.mp h).1

theorem finals_winners_nodup {l : List (Nat × List Rank)} (hnd : l.Nodup) : (finals (winners l)).Nodup := by
  rw [finals_eq]
  unfold winners
  exact (hnd.filter _).filter _

/-- a list without duplicates all of whose members equal `x`, and which contains `x`, is `[x]` -/
theorem eq_singleton_of_nodup {α : Type} {l : List α} {x : α} (hnd : l.Nodup) (hx : x ∈ l)
    (hall : ∀ y ∈ l, y = x) : l = [x] := by
  match l, hnd, hx, hall with
  | [], _, hx, _ => simp at hx
  | [a], _, _, hall => rw [hall a List.mem_cons_self]
  | a :: b :: t, hnd, _, hall =>
    have ha := hall a List.mem_cons_self
    have hb := hall b (List.mem_cons_of_mem _ List.mem_cons_self)
    rw [List.nodup_cons] at hnd
    exact absurd (by rw [ha, hb]; exact List.mem_cons_self) hnd.1

/-- what `resolveRanked` answers, in terms of the final list -/
theorem resolveRanked_selected {l : List (Nat × List Rank)} {i : Nat} (h : resolveRanked l = .selected i) :
    ∃ rc, finals (winners l) = [(i, rc)] := by
  unfold resolveRanked at h
  match hf : finals (winners l), h with
  | [], h => simp at h
  | [c], h =>
    simp only [Outcome.selected.injEq] at h
    exact ⟨c.2, by rw [← h]⟩
  | _ :: _ :: _, h => simp at h

theorem resolveRanked_of_singleton {l : List (Nat × List Rank)} {x : Nat × List Rank}
    (h : finals (winners l) = [x]) : resolveRanked l = .selected x.1 := by
  unfold resolveRanked; rw [h]

theorem resolveRanked_ambiguous_of_two {l : List (Nat × List Rank)} {x y : Nat × List Rank}
    (hx : x ∈ finals (winners l)) (hy : y ∈ finals (winners l)) (hne : x ≠ y) :
    resolveRanked l = .ambiguous ((finals (winners l)).map (·.1)) := by
  unfold resolveRanked
  match hf : finals (winners l), hx, hy with
  | [], hx, _ => simp at hx
  | [c], hx, hy =>
    simp only [List.mem_singleton] at hx hy
    exact absurd (hx.trans hy.symm) hne
  | _ :: _ :: _, _, _ => rfl

/-- the selected candidate is not dominated by any ranked candidate -/
theorem ranked_not_dominated {l : List (Nat × List Rank)} (hnd : (l.map (·.1)).Nodup) {i : Nat}
    (h : resolveRanked l = .selected i) :
    ∃ rc, (i, rc) ∈ l ∧ ∀ d ∈ l, ¬ Dominates d.2 rc := by
  obtain ⟨rc, hf⟩ := resolveRanked_selected h
  have hxf : (i, rc) ∈ finals (winners l) := by rw [hf]; exact List.mem_cons_self
  have hxw : (i, rc) ∈ winners l := finals_subset hxf
  have hxl : (i, rc) ∈ l := winners_subset hxw
  refine ⟨rc, hxl, ?_⟩
  intro d hd hdom
  obtain ⟨hall, hsome⟩ := hdom
  -- the selected candidate is not numerically worse than d (or d is the selected candidate itself)
  have hnw : notWorse rc d.2 = true := by
    rcases (mem_winners.mp hxw).2 d hd with hid | hnw
    · have : d = (i, rc) := eq_of_id_eq hnd hd hxl hid
      rw [this]
      -- a list dominates itself only if some rank is strictly better than itself: impossible, but we only need
      -- notWorse rc rc, which holds by reflexivity of the numeric comparison
      have hrefl : ∀ rs : List Rank, NumEq rs rs := by
        intro rs; induction rs with
        | nil => trivial
        | cons r rs ih => exact ⟨rfl, ih⟩
      exact notWorse_of_numEq rc rc (hrefl rc)
    · exact hnw
  have ⟨hne, hvl⟩ := dominates_split d.2 rc hall hnw
  have hvs := someLt_split d.2 rc hne hsome
  have hlt := order_lt_of_vec d.2 rc hvl hvs
  -- d is a winner too
  have hdw : d ∈ winners l := by
    rw [mem_winners]
    refine ⟨hd, ?_⟩
    intro a ha
    rcases (mem_winners.mp hxw).2 a ha with hid | hnwa
    · have : a = (i, rc) := eq_of_id_eq hnd ha hxl hid
      right; rw [this]; exact notWorse_of_numEq d.2 rc hne
    · right; rw [notWorse_congr d.2 rc a.2 hne]; exact hnwa
  have := (mem_finals.mp hxf).2 d hdw
  rw [hlt] at this
  exact absurd this (by simp)

/-- if an exactly matching candidate exists, the final list consists of exactly the exactly matching candidates -/
theorem mem_finals_winners_iff_exact {l : List (Nat × List Rank)} (hnd : (l.map (·.1)).Nodup) {n : Nat}
    (hlen : ∀ y ∈ l, y.2.length = n) {x : Nat × List Rank} (hx : x ∈ l) (hex : RankExact x.2)
    (y : Nat × List Rank) : y ∈ finals (winners l) ↔ y ∈ l ∧ RankExact y.2 := by
  have numx : ∀ r ∈ x.2, r.num = .exact := fun r hr => by rw [hex r hr]
  have vecx : ∀ r ∈ x.2, r.vec = .exact := fun r hr => by rw [hex r hr]
  have key : ∀ z ∈ l, RankExact z.2 → z ∈ finals (winners l) := by
    intro z hz hze
    have numz : ∀ r ∈ z.2, r.num = .exact := fun r hr => by rw [hze r hr]
    have vecz : ∀ r ∈ z.2, r.vec = .exact := fun r hr => by rw [hze r hr]
    have hzw : z ∈ winners l :=
      mem_winners.mpr ⟨hz, fun a _ => Or.inr (notWorse_of_numExact z.2 a.2 numz)⟩
    rw [mem_finals]
    refine ⟨hzw, ?_⟩
    intro w hw
    have ⟨c1, c2, c3⟩ := counts_of_exact z.2 vecz
    have s := count_sum w.2
    have lw := hlen w (winners_subset hw)
    have lz := hlen z hz
    rw [order_eq, order_eq, c1, c2, c3]
    simp only [lexLt, Bool.or_eq_false_iff, Bool.and_eq_false_iff, decide_eq_false_iff_not, beq_eq_false_iff_ne,
      Bool.or_false, Bool.and_false]
    omega
  constructor
  · intro hy
    have hyw := finals_subset hy
    have hyl := winners_subset hyw
    refine ⟨hyl, ?_⟩
    have hxf := key x hx hex
    -- y is minimal, x is a winner: order x is not below order y, and order x = [0,0,n]
    have hmin := (mem_finals.mp hy).2 x (finals_subset hxf)
    have ⟨c1, c2, c3⟩ := counts_of_exact x.2 vecx
    have s := count_sum y.2
    have ly := hlen y hyl
    have lx := hlen x hx
    rw [order_eq, order_eq, c1, c2, c3] at hmin
    simp only [lexLt, Bool.or_eq_false_iff, Bool.and_eq_false_iff, decide_eq_false_iff_not, beq_eq_false_iff_ne,
      Bool.or_false, Bool.and_false] at hmin
    have vecy : ∀ r ∈ y.2, r.vec = .exact := vec_exact_of_counts y.2 (by omega) (by omega)
    have numy : ∀ r ∈ y.2, r.num = .exact := by
      rcases (mem_winners.mp hyw).2 x hx with hid | hnw
      · have : x = y := eq_of_id_eq hnd hx hyl hid
        rw [← this]; exact numx
      · exact numExact_of_notWorse y.2 x.2 hnw numx (by rw [ly, lx])
    intro r hr
    have a := numy r hr
    have b := vecy r hr
    cases r; simp_all
  · intro ⟨hyl, hye⟩
    exact key y hyl hye

/-! ## from candidates to the ranked list -/

/-- the viable candidates with their ranks, in declaration order -/
def rankedList (cands : List Cand) (args : List ETy) : List (Nat × List Rank) :=
  (cands.map (rankCand args)).filterMap CandResult.ranked?

theorem resolve_of_noPanic {cands : List Cand} {args : List ETy} (h : NoPanic cands args) :
    resolve cands args = resolveRanked (rankedList cands args) := by
  simp only [resolve, rankedList]
  have : (List.map (rankCand args) cands).any CandResult.isPanic = false := by
    rw [Bool.eq_false_iff]
    intro hp
    rw [List.any_eq_true] at hp
    obtain ⟨r, hr, hp⟩ := hp
    obtain ⟨c, hc, rfl⟩ := List.mem_map.mp hr
    rw [h c hc] at hp
    exact absurd hp (by simp)
  simp [this]

theorem resolve_cases (cands : List Cand) (args : List ETy) :
    resolve cands args = .panic ∨ resolve cands args = resolveRanked (rankedList cands args) := by
  simp only [resolve, rankedList]
  by_cases hp : (List.map (rankCand args) cands).any CandResult.isPanic = true
  · left; simp [hp]
  · right; simp [hp]

theorem mem_rankedList {cands : List Cand} {args : List ETy} {j : Nat} {rd : List Rank} :
    (j, rd) ∈ rankedList cands args ↔ ∃ c ∈ cands, rankCand args c = .ranked j rd := by
  simp only [rankedList, List.mem_filterMap, List.mem_map]
  constructor
  · rintro ⟨r, ⟨c, hc, rfl⟩, hr⟩
    refine ⟨c, hc, ?_⟩
    cases hrc : rankCand args c with
    | notViable => rw [hrc] at hr; simp [CandResult.ranked?] at hr
    | panic s => rw [hrc] at hr; simp [CandResult.ranked?] at hr
    | ranked id rs =>
      rw [hrc] at hr
      simp only [CandResult.ranked?, Option.some.injEq, Prod.mk.injEq] at hr
      rw [hr.1, hr.2]
  · rintro ⟨c, hc, hr⟩
    exact ⟨_, ⟨c, hc, rfl⟩, by rw [hr]; rfl⟩

theorem rankCand_id {args : List ETy} {c : Cand} {j : Nat} {rd : List Rank}
    (h : rankCand args c = .ranked j rd) : j = c.id := by
  unfold rankCand at h
  split at h
  · split at h <;> simp at h
    exact h.1.symm
  · simp at h

theorem zipRanks_length : ∀ (ps : List Param) (as : List ETy) (rs : List Rank),
    zipRanks ps as = .ok (some rs) → rs.length = min ps.length as.length
  | [], _, rs, h => by
    simp only [zipRanks, Except.ok.injEq, Option.some.injEq] at h
    rw [← h]; simp
  | _ :: _, [], rs, h => by
    simp only [zipRanks, Except.ok.injEq, Option.some.injEq] at h
    rw [← h]; simp
  | p :: ps, a :: as, rs, h => by
    simp only [zipRanks] at h
    split at h
    · simp at h
    · simp at h
    · split at h
      · simp at h
      · simp at h
      · rename_i rs' hrs'
        split at h
        · simp at h
        · simp only [Except.ok.injEq, Option.some.injEq] at h
          rw [← h]
          simp only [List.length_cons]
          rw [zipRanks_length ps as rs' hrs']
          omega

theorem rankCand_length {args : List ETy} {c : Cand} {j : Nat} {rd : List Rank}
    (h : rankCand args c = .ranked j rd) : rd.length = args.length := by
  unfold rankCand at h
  split at h
  · rename_i hg
    split at h
    · simp at h
    · simp at h
    · rename_i rs hrs
      simp only [CandResult.ranked.injEq] at h
      rw [← h.2, zipRanks_length _ _ _ hrs]
      omega
  · simp at h

theorem rankedList_ids_subset {cands : List Cand} {args : List ETy} {j : Nat}
    (h : j ∈ (rankedList cands args).map (·.1)) : j ∈ cands.map (·.id) := by
  obtain ⟨⟨j', rd⟩, hm, rfl⟩ := List.mem_map.mp h
  obtain ⟨c, hc, hr⟩ := mem_rankedList.mp hm
  exact List.mem_map.mpr ⟨c, hc, (rankCand_id hr).symm⟩

theorem rankedList_cons (c : Cand) (t : List Cand) (args : List ETy) :
    rankedList (c :: t) args =
      (match (rankCand args c).ranked? with | some x => [x] | none => []) ++ rankedList t args := by
  simp only [rankedList, List.map_cons, List.filterMap_cons]
  cases (rankCand args c).ranked? <;> rfl

theorem rankedList_ids_nodup {cands : List Cand} {args : List ETy} (h : (cands.map (·.id)).Nodup) :
    ((rankedList cands args).map (·.1)).Nodup := by
  induction cands with
  | nil => simp [rankedList]
  | cons c t ih =>
    simp only [List.map_cons, List.nodup_cons] at h
    rw [rankedList_cons]
    cases hr : (rankCand args c).ranked? with
    | none => simpa using ih h.2
    | some x =>
      simp only [List.singleton_append, List.map_cons, List.nodup_cons]
      refine ⟨?_, ih h.2⟩
      intro hm
      have hx : x.1 = c.id := by
        cases hrc : rankCand args c with
        | notViable => rw [hrc] at hr; simp [CandResult.ranked?] at hr
        | panic s => rw [hrc] at hr; simp [CandResult.ranked?] at hr
        | ranked id rs =>
          rw [hrc] at hr
          simp only [CandResult.ranked?, Option.some.injEq] at hr
          rw [← hr]; exact rankCand_id hrc
      rw [hx] at hm
      exact h.1 (rankedList_ids_subset hm)

/-! ## the printed verdict -/

theorem insertSorted_comm (x y : Nat) : ∀ l, insertSorted x (insertSorted y l) = insertSorted y (insertSorted x l)
  | [] => by
    simp only [insertSorted]
    by_cases h1 : x ≤ y <;> by_cases h2 : y ≤ x <;> simp [h1, h2]
    · omega
    · omega
  | z :: zs => by
    have ih := insertSorted_comm x y zs
    by_cases hxz : x ≤ z <;> by_cases hyz : y ≤ z <;> by_cases hxy : x ≤ y <;> by_cases hyx : y ≤ x <;>
      simp [insertSorted, hxz, hyz, hxy, hyx, ih] <;> omega

theorem sortIds_perm {l l' : List Nat} (h : List.Perm l l') : sortIds l = sortIds l' := by
  induction h with
  | nil => rfl
  | cons x _ ih => simp only [sortIds, List.foldr_cons] at ih ⊢; rw [ih]
  | swap x y l => simp only [sortIds, List.foldr_cons]; exact insertSorted_comm y x _
  | trans _ _ ih1 ih2 => rw [ih1, ih2]

theorem normalize_eq_of_equiv {o o' : Outcome} (h : Outcome.Equiv o o') : o.normalize = o'.normalize := by
  cases o <;> cases o' <;> simp_all [Outcome.Equiv, Outcome.normalize]
  exact sortIds_perm h

end RsslVerif.Lemmas.Overload

import RsslVerif.Model.Lexer
import RsslVerif.Model.LitFormat
import RsslVerif.Model.SourceMap
import RsslVerif.Driver.Util
/-! Line-protocol front end of the C10 model (lexer + exact decimal→binary reference). -/
namespace RsslVerif.Driver.C10
open RsslVerif.Gen.LexTables RsslVerif.Model.Lexer RsslVerif.Driver

def hexPad (width n : Nat) : String :=
  let rec go : Nat → Nat → List Char → List Char
    | 0, _, acc => acc
    | k + 1, n, acc => go k (n / 16) (hexNibble (n % 16) :: acc)
  String.ofList (go width n [])

def showFb : FollowedBy → String
  | .token => "T"
  | .whitespace => "W"

def showTok : Token → String
  | .simple s => s.name
  | .id n => "Id:" ++ hex n
  | .litInt v => "Int:" ++ toString v
  | .litIntU32 v => "IntU32:" ++ toString v
  | .litIntU64 v => "IntU64:" ++ toString v
  | .litIntS64 v => "IntS64:" ++ toString v
  | .litFloat b => "Float:" ++ hexPad 16 b
  | .litFloat16 b => "Float16:" ++ hexPad 8 b
  | .litFloat32 b => "Float32:" ++ hexPad 8 b
  | .litFloat64 b => "Float64:" ++ hexPad 16 b
  | .litString s => "String:" ++ hex s
  | .reservedWord s => "ReservedWord:" ++ hex s
  | .headerName s => "HeaderName:" ++ hex s
  | .leftAngle f => "LeftAngleBracket:" ++ showFb f
  | .rightAngle f => "RightAngleBracket:" ++ showFb f

def showPTok (t : PTok) : String := showTok t.tok ++ " " ++ toString t.start ++ " " ++ toString t.stop

/-- `t<0|1>i<0|1>b<N>` -/
def parseFlags (s : String) : Option (Bool × Bool) :=
  match s.toList with
  | 't' :: t :: 'i' :: i :: 'b' :: _ => do
    let t ← bit? t
    let i ← bit? i
    pure (t, i)
  | _ => none

def parseHexNat (s : String) : Option Nat :=
  if s.isEmpty then none
  else s.toList.foldl (fun acc c => do
    let a ← acc
    let d ← hexDigit? c
    pure (a * 16 + d)) (some 0)

/-- `name_hex:contents_hex` joined by `,`: the files in the order they were added to the manager -/
def parseFiles (s : String) : Option Model.SourceMap.SourceManager :=
  sequenceOpt ((s.splitOn ",").map fun p =>
    match p.splitOn ":" with
    | [n, c] => do
      let nb ← unhex? n
      let cb ← unhex? c
      pure (⟨String.fromUTF8! (ByteArray.mk nb.toArray), cb⟩ : Model.SourceMap.SourceFile)
    | _ => none)

/-- `get_file_offset_from_source_location` and `get_file_location` on one raw location -/
def showLoc (sm : Model.SourceMap.SourceManager) (raw : Nat) : String :=
  match Model.SourceMap.getFileOffset sm raw, Model.SourceMap.getFileLocation sm raw with
  | some (i, off), .known _ l c => s!"{i}:{off}:{l}:{c}"
  | some (i, off), .unknown => s!"{i}:{off}:0:0"
  | none, _ => "none"

def handle (op : String) (args : List String) : String :=
  match op, args with
  | "C10.lex", [flags, hx] =>
    match parseFlags flags, unhex? hx with
    | some (trail, inc), some bytes =>
      let r := readAll bytes trail true inc
      let toks := ";".intercalate (r.1.map showPTok)
      match r.2 with
      | .ok () => toks
      | .error (.lexer reason off) => toks ++ " !err " ++ reason.name ++ " " ++ toString off
      | .error (.panic site) => toks ++ " !panic " ++ site
      | .error .outOfFuel => toks ++ " !model-out-of-fuel"
    | _, _ => "bad-request"
  | "C10.num", nh :: dh :: more =>
    -- a numeral followed by `d<hex>`, optionally preceded by `p<hex>`: the token line of `C10.lex t1i0b0` on
    -- prefix ++ numeral ++ follower
    let pre : Option (List UInt8) := match more with
      | [] => some []
      | [ph] => unhex? (String.ofList (ph.toList.drop 1))
      | _ => none
    match unhex? nh, unhex? (String.ofList (dh.toList.drop 1)), pre with
    | some nb, some db, some pb =>
      let r := readAll (pb ++ nb ++ db) true true false
      let toks := ";".intercalate (r.1.map showPTok)
      match r.2 with
      | .ok () => toks
      | .error (.lexer reason off) => toks ++ " !err " ++ reason.name ++ " " ++ toString off
      | .error (.panic site) => toks ++ " !panic " ++ site
      | .error .outOfFuel => toks ++ " !model-out-of-fuel"
    | _, _, _ => "bad-request"
  | "C10.fmt", tgt :: kind :: bitsHex :: disp :: more =>
    -- `more` = the `Display` of the value as a double: present for the single-precision kinds (`Float16`, `Float32`)
    let d64 : Option String := match more with
      | [] => if kind == "Float16" || kind == "Float32" then none else some ""
      | [d] => some d
      | _ => none
    match Model.LitFormat.Kind.ofName kind, parseHexNat bitsHex, d64 with
    | some k, some bits, some disp64 =>
      match Model.LitFormat.fmtLiteral k (tgt == "msl") bits disp.toUTF8.toList disp64.toUTF8.toList with
      | .ok t => String.ofList (t.map fun b => Char.ofNat b.toNat)
      | .error e => if e.startsWith "unsupported" then e else "!" ++ e
    | some _, some _, none => "unsupported: the Display of the value as a double is missing"
    | _, _, _ => "bad-request"
  | "C10.loc", [files, raws] =>
    match parseFiles files, sequenceOpt ((if raws == "" then [] else raws.splitOn ",").map String.toNat?) with
    | some sm, some locs => ",".intercalate (locs.map (showLoc sm))
    | _, _ => "bad-request"
  | _, _ => "unsupported-op"

end RsslVerif.Driver.C10

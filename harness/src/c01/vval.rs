//! Value and type domain of the vector / struct / array / enum stream: shapes over the scalar values of `sx.rs`.
#![allow(dead_code)]
use super::sx::*;
use std::collections::HashMap;

#[derive(Clone, PartialEq, Debug)]
pub enum Ty {
    Void,
    S(T),
    V(T, usize),
    M(T, usize, usize),
    Struct(String),
    Arr(Box<Ty>, usize),
    Enum(String),
}

fn scalar_of_name(s: &str) -> Option<T> {
    match s {
        "bool" => Some(T::Bool),
        "int" => Some(T::Int),
        "uint" => Some(T::Uint),
        "float" => Some(T::Float),
        "lit" => Some(T::Lit),
        "flit" => Some(T::Flit),
        _ => None,
    }
}

/// `float3`, `int2x2`, `bool`, … (only the four 32-bit scalar kinds and the two literal kinds)
pub fn numeric_type_of_name(s: &str) -> Option<Ty> {
    if s == "void" {
        return Some(Ty::Void);
    }
    if let Some(t) = scalar_of_name(s) {
        return Some(Ty::S(t));
    }
    for base in ["bool", "int", "uint", "float"] {
        if let Some(rest) = s.strip_prefix(base) {
            let t = scalar_of_name(base)?;
            let r: Vec<char> = rest.chars().collect();
            let dim = |c: char| if ('1'..='4').contains(&c) { Some(c as usize - '0' as usize) } else { None };
            if r.len() == 1 {
                return Some(Ty::V(t, dim(r[0])?));
            }
            if r.len() == 3 && r[1] == 'x' {
                return Some(Ty::M(t, dim(r[0])?, dim(r[2])?));
            }
        }
    }
    None
}

impl Ty {
    /// `user`: does this atom name a struct / enum (text side), and which
    pub fn parse(sx: &Sx, user: &dyn Fn(&str) -> Option<Ty>) -> Option<Ty> {
        match sx {
            Sx::A(s) => numeric_type_of_name(s).or_else(|| user(s)),
            Sx::L(_) => match sx.head() {
                "struct" => Some(Ty::Struct(sx.args()[0].atom().to_string())),
                "enum" => Some(Ty::Enum(sx.args()[0].atom().to_string())),
                "arr" => Some(Ty::Arr(Box::new(Ty::parse(&sx.args()[0], user)?), sx.args()[1].atom().parse().ok()?)),
                _ => None,
            },
        }
    }
    pub fn show(&self) -> String {
        match self {
            Ty::Void => "void".into(),
            Ty::S(t) => t.name().into(),
            Ty::V(t, n) => format!("{}{}", t.name(), n),
            Ty::M(t, r, c) => format!("{}{}x{}", t.name(), r, c),
            Ty::Struct(s) => format!("(struct {})", s),
            Ty::Enum(s) => format!("(enum {})", s),
            Ty::Arr(e, n) => format!("(arr {} {})", e.show(), n),
        }
    }
    pub fn scalar(&self) -> Option<T> {
        match self {
            Ty::S(t) | Ty::V(t, _) | Ty::M(t, _, _) => Some(*t),
            _ => None,
        }
    }
    pub fn is_numeric(&self) -> bool {
        self.scalar().is_some()
    }
    pub fn with_scalar(&self, t: T) -> Ty {
        match self {
            Ty::S(_) => Ty::S(t),
            Ty::V(_, n) => Ty::V(t, *n),
            Ty::M(_, r, c) => Ty::M(t, *r, *c),
            other => other.clone(),
        }
    }
    /// number of scalar components of a numeric type
    pub fn count(&self) -> usize {
        match self {
            Ty::S(_) => 1,
            Ty::V(_, n) => *n,
            Ty::M(_, r, c) => r * c,
            _ => 0,
        }
    }
}

#[derive(Clone, PartialEq, Debug)]
pub enum VV {
    S(V),
    V(Vec<V>),
    /// rows, columns, row-major components
    M(usize, usize, Vec<V>),
    St(Vec<VV>),
    Ar(Vec<VV>),
}

impl VV {
    pub fn show(&self) -> String {
        let list = |xs: &[V]| xs.iter().map(|x| x.show()).collect::<Vec<_>>().join(" ");
        let listv = |xs: &[VV]| xs.iter().map(|x| x.show()).collect::<Vec<_>>().join(" ");
        match self {
            VV::S(v) => v.show(),
            VV::V(xs) => format!("V({})", list(xs)),
            VV::M(r, c, xs) => format!("M{}x{}({})", r, c, list(xs)),
            VV::St(xs) => format!("S({})", listv(xs)),
            VV::Ar(xs) => format!("A({})", listv(xs)),
        }
    }

    pub fn parse(s: &str) -> Option<VV> {
        let toks = tokenize(s);
        let mut pos = 0;
        let v = parse_vv(&toks, &mut pos)?;
        if pos == toks.len() { Some(v) } else { None }
    }

    pub fn scalar(&self) -> Option<V> {
        match self {
            VV::S(v) => Some(*v),
            _ => None,
        }
    }

    /// numeric components in order (scalar, vector, matrix)
    pub fn comps(&self) -> Option<Vec<V>> {
        match self {
            VV::S(v) => Some(vec![*v]),
            VV::V(xs) | VV::M(_, _, xs) => Some(xs.clone()),
            _ => None,
        }
    }

    /// same shape, other components
    pub fn rebuild(&self, xs: Vec<V>) -> Option<VV> {
        match self {
            VV::S(_) if xs.len() == 1 => Some(VV::S(xs[0])),
            VV::V(old) if old.len() == xs.len() => Some(VV::V(xs)),
            VV::M(r, c, old) if old.len() == xs.len() => Some(VV::M(*r, *c, xs)),
            _ => None,
        }
    }

    pub fn same_shape(&self, o: &VV) -> bool {
        match (self, o) {
            (VV::S(_), VV::S(_)) => true,
            (VV::V(x), VV::V(y)) => x.len() == y.len(),
            (VV::M(r, c, _), VV::M(r2, c2, _)) => r == r2 && c == c2,
            _ => false,
        }
    }
}

fn tokenize(s: &str) -> Vec<String> {
    let mut out = Vec::new();
    let mut cur = String::new();
    for ch in s.chars() {
        match ch {
            '(' | ')' | ' ' => {
                if !cur.is_empty() {
                    out.push(std::mem::take(&mut cur));
                }
                if ch != ' ' {
                    out.push(ch.to_string());
                }
            }
            c => cur.push(c),
        }
    }
    if !cur.is_empty() {
        out.push(cur);
    }
    out
}

fn parse_vv(t: &[String], pos: &mut usize) -> Option<VV> {
    let head = t.get(*pos)?.clone();
    *pos += 1;
    if t.get(*pos).map(|s| s.as_str()) == Some("(") && !head.contains(':') {
        *pos += 1;
        let mut items = Vec::new();
        while t.get(*pos)?.as_str() != ")" {
            items.push(parse_vv(t, pos)?);
        }
        *pos += 1;
        let scalars = |items: &[VV]| items.iter().map(|x| x.scalar()).collect::<Option<Vec<V>>>();
        return match head.as_str() {
            "V" => Some(VV::V(scalars(&items)?)),
            "S" => Some(VV::St(items)),
            "A" => Some(VV::Ar(items)),
            h if h.starts_with('M') => {
                let (r, c) = h[1..].split_once('x')?;
                let (r, c): (usize, usize) = (r.parse().ok()?, c.parse().ok()?);
                let xs = scalars(&items)?;
                if xs.len() == r * c { Some(VV::M(r, c, xs)) } else { None }
            }
            _ => None,
        };
    }
    V::parse(&head).map(VV::S)
}

/// component-wise application of a scalar operation to values of one shape
pub fn lift1(f: &dyn Fn(V) -> Option<V>, x: &VV) -> Option<VV> {
    let xs = x.comps()?;
    x.rebuild(xs.into_iter().map(f).collect::<Option<Vec<V>>>()?)
}
pub fn lift2(f: &dyn Fn(V, V) -> Option<V>, x: &VV, y: &VV) -> Option<VV> {
    if !x.same_shape(y) {
        return None;
    }
    let (xs, ys) = (x.comps()?, y.comps()?);
    x.rebuild(xs.into_iter().zip(ys).map(|(p, q)| f(p, q)).collect::<Option<Vec<V>>>()?)
}

// ------------------------------------------------------------------------------------------------ declared types
#[derive(Default, Clone)]
pub struct Types {
    /// struct key → members (name, type)
    pub structs: HashMap<String, Vec<(String, Ty)>>,
    /// enum key → (underlying scalar, values (name, value))
    pub enums: HashMap<String, (T, Vec<(String, V)>)>,
}

impl Types {
    /// the value of an uninitialised object of this type (every scalar slot is `Void`)
    pub fn undef(&self, t: &Ty) -> Option<VV> {
        Some(match t {
            Ty::Void => return None,
            Ty::S(_) | Ty::Enum(_) => VV::S(V::Void),
            Ty::V(_, n) => VV::V(vec![V::Void; *n]),
            Ty::M(_, r, c) => VV::M(*r, *c, vec![V::Void; r * c]),
            Ty::Struct(k) => VV::St(self.structs.get(k)?.iter().map(|(_, mt)| self.undef(mt)).collect::<Option<Vec<_>>>()?),
            Ty::Arr(e, n) => VV::Ar((0..*n).map(|_| self.undef(e)).collect::<Option<Vec<_>>>()?),
        })
    }
}

// ------------------------------------------------------------------------------------------------ places
#[derive(Clone, PartialEq, Debug)]
pub enum Acc {
    Field(usize),
    Idx(usize),
    Swz(Vec<usize>),
    MSwz(Vec<(usize, usize)>),
}

pub fn get_acc(v: &VV, acc: &Acc) -> Option<VV> {
    match (acc, v) {
        (Acc::Field(i), VV::St(xs)) => xs.get(*i).cloned(),
        (Acc::Idx(i), VV::Ar(xs)) => xs.get(*i).cloned(),
        (Acc::Idx(i), VV::V(xs)) => xs.get(*i).map(|x| VV::S(*x)),
        (Acc::Idx(i), VV::M(r, c, xs)) if i < r => Some(VV::V(xs[i * c..(i + 1) * c].to_vec())),
        (Acc::Swz(sl), VV::V(xs)) => {
            let picked = sl.iter().map(|i| xs.get(*i).copied()).collect::<Option<Vec<V>>>()?;
            Some(if picked.len() == 1 { VV::S(picked[0]) } else { VV::V(picked) })
        }
        (Acc::Swz(sl), VV::S(x)) if sl.iter().all(|i| *i == 0) => Some(if sl.len() == 1 { VV::S(*x) } else { VV::V(vec![*x; sl.len()]) }),
        (Acc::MSwz(sl), VV::M(r, c, xs)) => {
            let picked = sl.iter().map(|(i, j)| if i < r && j < c { xs.get(i * c + j).copied() } else { None }).collect::<Option<Vec<V>>>()?;
            Some(if picked.len() == 1 { VV::S(picked[0]) } else { VV::V(picked) })
        }
        _ => None,
    }
}

pub fn put_acc(v: &mut VV, acc: &Acc, new: VV) -> Option<()> {
    match (acc, v) {
        (Acc::Field(i), VV::St(xs)) => *xs.get_mut(*i)? = new,
        (Acc::Idx(i), VV::Ar(xs)) => *xs.get_mut(*i)? = new,
        (Acc::Idx(i), VV::V(xs)) => *xs.get_mut(*i)? = new.scalar()?,
        (Acc::Idx(i), VV::M(r, c, xs)) if *i < *r => match new {
            VV::V(row) if row.len() == *c => xs[*i * *c..(*i + 1) * *c].copy_from_slice(&row),
            _ => return None,
        },
        (Acc::Swz(sl), VV::V(xs)) => {
            let vals = new.comps()?;
            if vals.len() != sl.len() {
                return None;
            }
            for (i, x) in sl.iter().zip(vals) {
                *xs.get_mut(*i)? = x;
            }
        }
        (Acc::Swz(sl), whole @ VV::S(_)) if sl.len() == 1 && sl[0] == 0 => *whole = VV::S(new.scalar()?),
        (Acc::MSwz(sl), VV::M(r, c, xs)) => {
            let vals = new.comps()?;
            if vals.len() != sl.len() {
                return None;
            }
            for ((i, j), x) in sl.iter().zip(vals) {
                if i >= r || j >= c {
                    return None;
                }
                xs[i * *c + j] = x;
            }
        }
        _ => return None,
    }
    Some(())
}

pub fn get_path(v: &VV, path: &[Acc]) -> Option<VV> {
    let mut cur = v.clone();
    for acc in path {
        cur = get_acc(&cur, acc)?;
    }
    Some(cur)
}

pub fn set_path(v: &mut VV, path: &[Acc], new: VV) -> Option<()> {
    match path.split_first() {
        None => {
            *v = new;
            Some(())
        }
        Some((acc, rest)) => {
            let mut sub = get_acc(v, acc)?;
            set_path(&mut sub, rest, new)?;
            put_acc(v, acc, sub)
        }
    }
}

pub fn swizzle_slots(s: &str) -> Option<Vec<usize>> {
    s.chars()
        .map(|c| match c {
            'x' | 'r' => Some(0),
            'y' | 'g' => Some(1),
            'z' | 'b' => Some(2),
            'w' | 'a' => Some(3),
            _ => None,
        })
        .collect()
}

/// `_m00_m11` (zero based) or `_11_22` (one based)
pub fn matrix_swizzle_slots(s: &str) -> Option<Vec<(usize, usize)>> {
    let mut out = Vec::new();
    let mut rest = s;
    while !rest.is_empty() {
        rest = rest.strip_prefix('_')?;
        let (zero_based, r2) = match rest.strip_prefix('m') {
            Some(r) => (true, r),
            None => (false, rest),
        };
        let mut ch = r2.chars();
        let (a, b) = (ch.next()?.to_digit(10)? as usize, ch.next()?.to_digit(10)? as usize);
        rest = &r2[2..];
        if zero_based {
            out.push((a, b));
        } else {
            out.push((a.checked_sub(1)?, b.checked_sub(1)?));
        }
    }
    if out.is_empty() { None } else { Some(out) }
}

#[derive(Clone, PartialEq, Debug)]
pub struct VOutcome {
    pub ret: Option<VV>,
    pub params: Vec<VV>,
    pub globals: Vec<VV>,
}

impl VOutcome {
    pub fn show(&self) -> String {
        format!(
            "r={} p={} g={}",
            self.ret.as_ref().map(|v| v.show()).unwrap_or_else(|| "v".into()),
            self.params.iter().map(|v| v.show()).collect::<Vec<_>>().join(","),
            self.globals.iter().map(|v| v.show()).collect::<Vec<_>>().join(",")
        )
    }
}

pub fn show_voutcome(o: &Option<VOutcome>) -> String {
    match o {
        Some(o) => o.show(),
        None => "none".to_string(),
    }
}

// ------------------------------------------------------------------------------------------------ built-ins
/// the pure built-ins of the vector stream: HLSL name, `ir::Intrinsic` variant, how the result type follows from the
/// (first) argument type.  Their *values* are uninterpreted (`vintr`): both evaluators apply the same function to the same
/// arguments, so what is checked is which built-in is invoked, on which arguments, in which order, at which types.
#[derive(Clone, Copy, PartialEq, Debug)]
pub enum RetRule {
    /// same type as the first argument
    Same,
    /// shape of the first argument, this scalar kind
    Shape(T),
    /// a scalar of the first argument's kind
    ScalarOfKind,
    /// a scalar of this kind
    Scalar(T),
    /// type of the second argument (`select(c, a, b)`)
    Second,
}

pub const VBUILTINS: &[(&str, &str, RetRule)] = &[
    ("abs", "Abs", RetRule::Same), ("acos", "Acos", RetRule::Same), ("asin", "Asin", RetRule::Same), ("atan", "Atan", RetRule::Same),
    ("atan2", "Atan2", RetRule::Same), ("cos", "Cos", RetRule::Same), ("cosh", "Cosh", RetRule::Same), ("sin", "Sin", RetRule::Same),
    ("sinh", "Sinh", RetRule::Same), ("tan", "Tan", RetRule::Same), ("tanh", "Tanh", RetRule::Same), ("sqrt", "Sqrt", RetRule::Same),
    ("rsqrt", "RcpSqrt", RetRule::Same), ("pow", "Pow", RetRule::Same), ("exp", "Exp", RetRule::Same), ("exp2", "Exp2", RetRule::Same),
    ("log", "Log", RetRule::Same), ("log2", "Log2", RetRule::Same), ("log10", "Log10", RetRule::Same), ("floor", "Floor", RetRule::Same),
    ("ceil", "Ceil", RetRule::Same), ("trunc", "Trunc", RetRule::Same), ("round", "Round", RetRule::Same), ("frac", "Frac", RetRule::Same),
    ("fmod", "Fmod", RetRule::Same), ("rcp", "Rcp", RetRule::Same), ("saturate", "Saturate", RetRule::Same),
    ("sign", "Sign", RetRule::Shape(T::Int)), ("min", "Min", RetRule::Same), ("max", "Max", RetRule::Same), ("step", "Step", RetRule::Same),
    ("clamp", "Clamp", RetRule::Same), ("lerp", "Lerp", RetRule::Same), ("smoothstep", "SmoothStep", RetRule::Same),
    ("isnan", "IsNaN", RetRule::Shape(T::Bool)), ("isinf", "IsInfinite", RetRule::Shape(T::Bool)), ("isfinite", "IsFinite", RetRule::Shape(T::Bool)),
    ("asint", "AsInt", RetRule::Shape(T::Int)), ("asuint", "AsUInt", RetRule::Shape(T::Uint)), ("asfloat", "AsFloat", RetRule::Shape(T::Float)),
    ("countbits", "CountBits", RetRule::Shape(T::Uint)), ("reversebits", "ReverseBits", RetRule::Same),
    ("firstbithigh", "FirstBitHigh", RetRule::Shape(T::Uint)), ("firstbitlow", "FirstBitLow", RetRule::Shape(T::Uint)),
    ("f16tof32", "F16ToF32", RetRule::Shape(T::Float)), ("f32tof16", "F32ToF16", RetRule::Shape(T::Uint)),
    ("dot", "Dot", RetRule::ScalarOfKind), ("length", "Length", RetRule::ScalarOfKind), ("distance", "Distance", RetRule::ScalarOfKind),
    ("normalize", "Normalize", RetRule::Same), ("cross", "Cross", RetRule::Same), ("reflect", "Reflect", RetRule::Same),
    ("any", "Any", RetRule::Scalar(T::Bool)), ("all", "All", RetRule::Scalar(T::Bool)),
    ("and", "And", RetRule::Same), ("or", "Or", RetRule::Same), ("select", "Select", RetRule::Second),
];

pub fn is_vector_builtin(variant: &str) -> bool {
    VBUILTINS.iter().any(|b| b.1 == variant)
}

pub fn vbuiltin_of_name(name: &str) -> Option<(&'static str, RetRule)> {
    VBUILTINS.iter().find(|b| b.0 == name).map(|b| (b.1, b.2))
}

pub fn ret_by_rule(rule: RetRule, args: &[Ty]) -> Option<Ty> {
    let first = args.first()?;
    Some(match rule {
        RetRule::Same => first.clone(),
        RetRule::Shape(k) => first.with_scalar(k),
        RetRule::ScalarOfKind => Ty::S(first.scalar()?),
        RetRule::Scalar(k) => Ty::S(k),
        RetRule::Second => args.get(1)?.clone(),
    })
}

/// the uninterpreted value of built-in `variant` applied at parameter types `ptys` to `args`, of type `ret`
pub fn vintr(variant: &str, ptys: &[String], args: &[VV], ret: &Ty) -> Option<VV> {
    let step = |h: u32, x: u32| (h ^ x).wrapping_mul(16777619);
    let mut h: u32 = 2166136261;
    for b in variant.bytes() {
        h = step(h, b as u32);
    }
    for t in ptys {
        for b in t.bytes() {
            h = step(h, b as u32);
        }
        h = step(h, 0x2c);
    }
    for a in args {
        for c in a.comps()? {
            let x = match c {
                V::B(x) => x as u32,
                V::I(x) | V::U(x) | V::F(x) => x,
                _ => return None,
            };
            h = step(h, x);
        }
        h = step(h, 0x3b);
    }
    let k = ret.scalar()?;
    let one = |i: u32| -> Option<V> {
        let v = step(h, 0x100 + i).rotate_left(7) ^ h;
        Some(match k {
            T::Bool => V::B(v & 1 == 1),
            T::Int => V::I(v),
            T::Uint => V::U(v),
            T::Float => V::F(v),
            _ => return None,
        })
    };
    Some(match ret {
        Ty::S(_) => VV::S(one(0)?),
        Ty::V(_, n) => VV::V((0..*n as u32).map(one).collect::<Option<Vec<V>>>()?),
        Ty::M(_, r, c) => VV::M(*r, *c, (0..(*r * *c) as u32).map(one).collect::<Option<Vec<V>>>()?),
        _ => return None,
    })
}

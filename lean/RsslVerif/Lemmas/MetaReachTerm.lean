import RsslVerif.Lemmas.MetaReach
/-!
# `GlobalUsageAnalysis::recurse` terminates

Every pass that reports `modified` strictly enlarges, for some key, the set of symbols stored for it, and the
stored sets only ever contain keys (the symbols `calculate_local` inserted).  With `n` keys the total number of
(key, stored key) pairs is at most `n * n`, so the loop stops after at most `n * n` modifying passes:
`recurse (n * n + 1) keys direct` never runs out of fuel.  Sets are lists read through membership; the measure
counts, for every key, how many keys are members of its list.
-/
namespace RsslVerif.Lemmas.MetaReachTerm
open RsslVerif.Model.MetaReach RsslVerif.Lemmas.MetaReach

/-- how many of `keys` are members of `l` -/
def cnt (keys l : List Sym) : Nat := (keys.filter fun s => l.contains s).length

/-- total number of (key, stored key) pairs -/
def mu (keys : List Sym) (req : Sym → List Sym) : Nat := (keys.map fun k => cnt keys (req k)).sum

/-- everything stored for a key is a key -/
def Closed (keys : List Sym) (req : Sym → List Sym) : Prop := ∀ k ∈ keys, ∀ s ∈ req k, s ∈ keys

theorem cnt_le (keys l : List Sym) : cnt keys l ≤ keys.length := List.length_filter_le _ _

theorem sum_map_le_mul {α : Type} (l : List α) (f : α → Nat) (b : Nat) (h : ∀ x ∈ l, f x ≤ b) :
    (l.map f).sum ≤ l.length * b := by
  induction l with
  | nil => simp
  | cons a r ih =>
    have h1 := h a (List.mem_cons_self ..)
    have h2 := ih (fun x hx => h x (List.mem_cons_of_mem _ hx))
    simp only [List.map_cons, List.sum_cons, List.length_cons]
    rw [Nat.succ_mul]
    omega

theorem mu_le (keys : List Sym) (req : Sym → List Sym) : mu keys req ≤ keys.length * keys.length :=
  sum_map_le_mul keys _ _ (fun k _ => cnt_le keys (req k))

theorem cnt_mono {l l' : List Sym} (h : ∀ s, s ∈ l → s ∈ l') : ∀ keys : List Sym, cnt keys l ≤ cnt keys l' := by
  intro keys
  induction keys with
  | nil => simp [cnt]
  | cons a r ih =>
    unfold cnt at ih ⊢
    simp only [List.filter_cons]
    by_cases ha : l.contains a = true
    · have ha' : l'.contains a = true := by
        simpa using h a (by simpa using ha)
      simp only [ha, ha', if_true, List.length_cons]
      omega
    · simp only [ha]
      by_cases ha' : l'.contains a = true
      · simp only [ha', if_true, List.length_cons]; simp at ih ⊢; omega
      · simp only [ha']; simpa using ih

theorem cnt_lt {l l' : List Sym} (h : ∀ s, s ∈ l → s ∈ l') {s0 : Sym} (h1 : s0 ∈ l') (h2 : s0 ∉ l) :
    ∀ keys : List Sym, s0 ∈ keys → cnt keys l < cnt keys l' := by
  intro keys
  induction keys with
  | nil => intro hm; cases hm
  | cons a r ih =>
    intro hm
    have hmono := cnt_mono h r
    unfold cnt at ih hmono ⊢
    simp only [List.filter_cons]
    rcases List.mem_cons.1 hm with rfl | hm'
    · have ha : l.contains s0 = false := by simpa using h2
      have ha' : l'.contains s0 = true := by simpa using h1
      simp only [ha, ha', if_true, List.length_cons]
      simp at hmono ⊢
      omega
    · have := ih hm'
      by_cases ha : l.contains a = true
      · have ha' : l'.contains a = true := by simpa using h a (by simpa using ha)
        simp only [ha, ha', if_true, List.length_cons]
        omega
      · simp only [ha]
        by_cases ha' : l'.contains a = true
        · simp only [ha', if_true, List.length_cons]; simp at this ⊢; omega
        · simp only [ha']; simpa using this

theorem sum_map_le {α : Type} (l : List α) (f g : α → Nat) (h : ∀ x ∈ l, f x ≤ g x) :
    (l.map f).sum ≤ (l.map g).sum := by
  induction l with
  | nil => simp
  | cons a r ih =>
    have h1 := h a (List.mem_cons_self ..)
    have h2 := ih (fun x hx => h x (List.mem_cons_of_mem _ hx))
    simp only [List.map_cons, List.sum_cons]
    omega

theorem sum_map_lt {α : Type} (l : List α) (f g : α → Nat) (h : ∀ x ∈ l, f x ≤ g x) {a : α} (ha : a ∈ l)
    (hlt : f a < g a) : (l.map f).sum < (l.map g).sum := by
  induction l with
  | nil => cases ha
  | cons b r ih =>
    have h1 := h b (List.mem_cons_self ..)
    have hr : ∀ x ∈ r, f x ≤ g x := fun x hx => h x (List.mem_cons_of_mem _ hx)
    simp only [List.map_cons, List.sum_cons]
    rcases List.mem_cons.1 ha with rfl | ha'
    · have := sum_map_le r f g hr; omega
    · have := ih hr ha'; omega

/-- replacing the set of one key by a superset keeps the measure; a superset with a new key raises it -/
theorem mu_update_le {keys : List Sym} {req : Sym → List Sym} {k : Sym} {v : List Sym}
    (hsub : ∀ s, s ∈ req k → s ∈ v) : mu keys req ≤ mu keys (update req k v) := by
  unfold mu
  apply sum_map_le
  intro x _
  unfold update
  split
  · rename_i hx; subst hx; exact cnt_mono hsub keys
  · exact Nat.le_refl _

theorem mu_update_lt {keys : List Sym} {req : Sym → List Sym} {k : Sym} {v : List Sym}
    (hk : k ∈ keys) (hsub : ∀ s, s ∈ req k → s ∈ v) {s0 : Sym} (hs0 : s0 ∈ keys) (h1 : s0 ∈ v) (h2 : s0 ∉ req k) :
    mu keys req < mu keys (update req k v) := by
  unfold mu
  apply sum_map_lt (a := k) _ _ _ _ hk
  · simp only [update, if_true]
    exact cnt_lt hsub h1 h2 keys hs0
  · intro x _
    unfold update
    split
    · rename_i hx; subst hx; exact cnt_mono hsub keys
    · exact Nat.le_refl _

theorem sub_newSet (req : Sym → List Sym) (k : Sym) : ∀ s, s ∈ req k → s ∈ newSet req k :=
  fun _ h => mem_newSet.2 (Or.inl h)

theorem grows_witness {req : Sym → List Sym} {k : Sym} (h : grows req k = true) :
    ∃ s0, s0 ∈ newSet req k ∧ s0 ∉ req k := by
  unfold grows at h
  have : ¬ (newSet req k).all (fun s => (req k).contains s) = true := by simpa using h
  rw [List.all_eq_true] at this
  have : ∃ s, s ∈ newSet req k ∧ ¬ (req k).contains s = true := by
    apply Classical.byContradiction
    intro hn
    apply this
    intro s hs
    apply Classical.byContradiction
    intro hc
    exact hn ⟨s, hs, hc⟩
  obtain ⟨s, hs, hc⟩ := this
  exact ⟨s, hs, by simpa using hc⟩

theorem closed_newSet {keys : List Sym} {req : Sym → List Sym} (hc : Closed keys req) {k : Sym} (hk : k ∈ keys) :
    ∀ s ∈ newSet req k, s ∈ keys := by
  intro s hs
  rcases mem_newSet.1 hs with h | ⟨o, ho, h⟩
  · exact hc k hk s h
  · exact hc o (hc k hk o ho) s h

theorem closed_update {keys : List Sym} {req : Sym → List Sym} (hc : Closed keys req) {k : Sym} (hk : k ∈ keys) :
    Closed keys (update req k (newSet req k)) := by
  intro x hx s hs
  unfold update at hs
  split at hs
  · exact closed_newSet hc hk s hs
  · exact hc x hx s hs

/-- one pass: the stored sets stay inside the keys, the measure never drops, and it rises when the pass reports
    a modification it made itself -/
theorem pass_measure {keys : List Sym} :
    ∀ (ks : List Sym), (∀ k ∈ ks, k ∈ keys) → ∀ (req : Sym → List Sym) (m : Bool), Closed keys req →
      Closed keys (pass ks req m).1 ∧ mu keys req ≤ mu keys (pass ks req m).1 ∧
      (m = false → (pass ks req m).2 = true → mu keys req < mu keys (pass ks req m).1) := by
  intro ks
  induction ks with
  | nil =>
    intro _ req m hc
    refine ⟨hc, Nat.le_refl _, ?_⟩
    intro hm hflag
    simp [pass, hm] at hflag
  | cons k r ih =>
    intro hsub req m hc
    have hk : k ∈ keys := hsub k (List.mem_cons_self ..)
    have hr : ∀ x ∈ r, x ∈ keys := fun x hx => hsub x (List.mem_cons_of_mem _ hx)
    unfold pass
    split
    · rename_i hg
      obtain ⟨s0, h1, h2⟩ := grows_witness hg
      have hlt := mu_update_lt hk (sub_newSet req k) (closed_newSet hc hk s0 h1) h1 h2
      obtain ⟨c, hle, _⟩ := ih hr (update req k (newSet req k)) true (closed_update hc hk)
      exact ⟨c, by omega, fun _ _ => by omega⟩
    · obtain ⟨c, hle, hflag⟩ := ih hr req m hc
      exact ⟨c, hle, hflag⟩

/-- the outer loop stops before the fuel `n * n - (pairs already stored) + 1` is used up -/
theorem recurse_some {keys : List Sym} :
    ∀ (fuel : Nat) (req : Sym → List Sym), Closed keys req →
      keys.length * keys.length - mu keys req < fuel → ∃ res, recurse fuel keys req = some res := by
  intro fuel
  induction fuel with
  | zero => intro req _ h; omega
  | succ n ih =>
    intro req hc hb
    unfold recurse
    obtain ⟨c, _, hflag⟩ := pass_measure (keys := keys) keys (fun _ h => h) req false hc
    split
    · rename_i req' heq
      have h1 : (pass keys req false).1 = req' := by rw [heq]
      have h2 : (pass keys req false).2 = true := by rw [heq]
      rw [h1] at c hflag
      have hlt := hflag rfl h2
      have hle := mu_le keys req'
      exact ih req' c (by omega)
    · exact ⟨_, rfl⟩

/-- **Termination**: started from the directly mentioned symbols (all of which are keys), the loop of
    `GlobalUsageAnalysis::recurse` ends within `n * n + 1` passes over `n` keys. -/
theorem recurse_terminates {direct : Sym → List Sym} {keys : List Sym}
    (hk : ∀ k ∈ keys, ∀ s ∈ direct k, s ∈ keys) :
    ∃ res, recurse (keys.length * keys.length + 1) keys direct = some res :=
  recurse_some _ direct hk (by omega)

end RsslVerif.Lemmas.MetaReachTerm

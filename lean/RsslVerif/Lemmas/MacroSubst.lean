import RsslVerif.Lemmas.MacroTerm
/-!
Lemmas for the substitution theorems: tokens that cannot start any operation are left alone (`Inert`),
`split_macro_args` splits exactly at the commas outside nested parentheses (`IsArg`), which entry of the macro list
an identifier selects.
-/
namespace RsslVerif.Lemmas.MacroSubst
open RsslVerif.Model.Macro RsslVerif.Lemmas.MacroTerm

/-- a token on which `find_single_macro` never stops: not the name of any macro of the list, not `Concat` -/
def InertTok (env : List Entry) (t : PTok) : Prop :=
  match t.tok with
  | .id n => ∀ e ∈ env, e.m.name ≠ n
  | .concat => False
  | _ => True

def Inert (env : List Entry) (ts : List PTok) : Prop := ∀ t ∈ ts, InertTok env t

theorem matchMacro_none (toks : List PTok) (i : Nat) (name : String) (sp : SearchPos) (k : Nat)
    (env : List Entry) (h : ∀ e ∈ env, e.m.name ≠ name) : matchMacro toks i name sp k env = none := by
  induction env generalizing k with
  | nil => rfl
  | cons e es ih =>
    have he : name ≠ e.m.name := fun hh => h e (by simp) hh.symm
    have ih' := ih (k + 1) (fun x hx => h x (by simp [hx]))
    unfold matchMacro
    simp only [he, if_false, ih', ite_self]

theorem scanFrom_inert (toks : List PTok) (sp : SearchPos) (env : List Entry) (suffix : List PTok) (i : Nat)
    (h : Inert env suffix) : scanFrom toks sp env suffix i = .ok .none := by
  induction suffix generalizing i with
  | nil => rfl
  | cons t rest ih =>
    have ht : InertTok env t := h t (by simp)
    have ih' := ih (i + 1) (fun x hx => h x (by simp [hx]))
    unfold scanFrom
    unfold InertTok at ht
    split
    · rename_i name hn
      simp only [hn] at ht
      rw [matchMacro_none _ _ _ _ _ _ ht]
      exact ih'
    · rename_i hn
      simp only [hn] at ht
    · exact ih'

/-- nothing to do: the loop returns its input -/
theorem applyLoop_inert (env : List Entry) (toks : List PTok) (sp : SearchPos) (he : sp.early ≤ sp.next)
    (h : Inert env (toks.drop sp.early)) : applyLoop env toks sp = .ok toks := by
  rw [applyLoop]
  split
  · simp only [findSingle, he, if_true, scanFrom_inert _ _ _ _ _ h]
  · rfl

theorem inert_append {env : List Entry} {a b : List PTok} (ha : Inert env a) (hb : Inert env b) :
    Inert env (a ++ b) := by
  intro t ht
  rcases List.mem_append.mp ht with h | h
  · exact ha t h
  · exact hb t h

theorem inert_of_sublist {env : List Entry} {a b : List PTok} (hs : a.Sublist b) (hb : Inert env b) :
    Inert env a := fun t ht => hb t (hs.subset ht)

theorem inert_trim {env : List Entry} {a : List PTok} (h : Inert env a) : Inert env (trim a) := by
  apply inert_of_sublist _ h
  unfold trim trimEnd trimStart
  have h1 : (List.dropWhile (fun t : PTok => t.tok.isBlank) a).Sublist a := List.dropWhile_sublist _
  have h2 : ((List.dropWhile (fun t : PTok => t.tok.isBlank) a).reverse.dropWhile
      (fun t : PTok => t.tok.isBlank)).Sublist (List.dropWhile (fun t : PTok => t.tok.isBlank) a).reverse :=
    List.dropWhile_sublist _
  have h3 := List.Sublist.reverse h2
  simp only [List.reverse_reverse] at h3
  exact List.Sublist.trans h3 h1

/-- disabling entries does not change the names -/
theorem inert_disable {env : List Entry} {a : List PTok} (mi : Nat) (h : Inert env a) :
    Inert (disable env mi) a := by
  intro t ht
  have := h t ht
  unfold InertTok at this ⊢
  split
  · rename_i n hn
    simp only [hn] at this
    intro e he
    unfold disable at he
    rw [List.mem_iff_getElem?] at he
    obtain ⟨j, hj⟩ := he
    rw [List.getElem?_modify] at hj
    cases hget : env[j]? with
    | none => simp [hget] at hj
    | some e0 =>
      simp only [hget, Option.map_eq_map, Option.map_some, Option.some.injEq] at hj
      have hmem : e0 ∈ env := List.mem_of_getElem? hget
      have := this e0 hmem
      rw [← hj]
      split <;> exact this
  · rename_i hn
    simp only [hn] at this
  · trivial

/-! ## argument splitting -/

/-- parenthesis depth after reading `a` from depth `d`; `none` if `a` contains a comma or a closing parenthesis
at depth 0 (a delimiter of the enclosing argument list) -/
def argDepth : Nat → List PTok → Option Nat
  | d, [] => some d
  | d, t :: r =>
    match t.tok with
    | .lparen => argDepth (d + 1) r
    | .rparen => if d = 0 then none else argDepth (d - 1) r
    | .comma => if d = 0 then none else argDepth d r
    | _ => argDepth d r

/-- one macro argument: parentheses balanced, commas only inside them -/
def IsArg (a : List PTok) : Prop := argDepth 0 a = some 0

theorem scanArgs_through (a rest cur : List PTok) (args : List (List PTok)) (d d' : Nat)
    (h : argDepth d a = some d') :
    scanArgs (a ++ rest) cur args d = scanArgs rest (cur ++ a) args d' := by
  induction a generalizing cur d with
  | nil => simp only [argDepth, Option.some.injEq] at h; subst h; simp
  | cons t ts ih =>
    simp only [List.cons_append]
    cases htk : t.tok with
    | lparen =>
      simp only [argDepth, htk] at h
      simp only [scanArgs, htk]
      rw [ih _ _ h]; simp
    | rparen =>
      simp only [argDepth, htk] at h
      simp only [scanArgs, htk]
      split at h
      · cases h
      · rename_i hd
        simp only [hd, if_false]
        rw [ih _ _ h]; simp
    | comma =>
      simp only [argDepth, htk] at h
      simp only [scanArgs, htk]
      split at h
      · cases h
      · rename_i hd
        simp only [hd, if_false]
        rw [ih _ _ h]; simp
    | _ =>
      simp only [argDepth, htk] at h
      simp only [scanArgs, htk]
      rw [ih _ _ h]; simp

/-- the argument list `a₁ , a₂ , … , aₙ )` -/
def joinArgs : List (List PTok) → List PTok
  | [] => []
  | [a] => a
  | a :: b :: r => a ++ ⟨.comma, true⟩ :: joinArgs (b :: r)

theorem scanArgs_join (as : List (List PTok)) (hne : as ≠ []) (hargs : ∀ a ∈ as, IsArg a) (b : Bool)
    (after : List PTok) (acc : List (List PTok)) :
    scanArgs (joinArgs as ++ ⟨.rparen, b⟩ :: after) [] acc 0 = .ok (after, acc ++ as.map trim) := by
  induction as generalizing acc with
  | nil => exact absurd rfl hne
  | cons a r ih =>
    have ha : IsArg a := hargs a (by simp)
    cases r with
    | nil =>
      simp only [joinArgs]
      rw [scanArgs_through a _ [] acc 0 0 ha]
      simp [scanArgs]
    | cons a2 r2 =>
      simp only [joinArgs, List.append_assoc, List.cons_append]
      rw [scanArgs_through a _ [] acc 0 0 ha]
      simp only [scanArgs, List.nil_append, if_true]
      have := ih (by simp) (fun x hx => hargs x (by simp [hx])) (acc ++ [trim a])
      simp only [List.append_assoc] at this
      rw [this]
      simp

/-! ## which entry an identifier selects -/

/-- the entry at `pre.length` is the first one called `m.name` -/
theorem matchMacro_object (toks : List PTok) (i : Nat) (sp : SearchPos) (k : Nat) (pre post : List Entry)
    (m : Macro) (hpre : ∀ e ∈ pre, e.m.name ≠ m.name) (hobj : m.isFunction = false) (hi : sp.next ≤ i) :
    matchMacro toks i m.name sp k (pre ++ ⟨m, false⟩ :: post) = some (k + pre.length) := by
  induction pre generalizing k with
  | nil =>
    simp only [List.nil_append, List.length_nil, Nat.add_zero]
    unfold matchMacro
    have : ¬ i < sp.next := by omega
    simp [hobj, this]
  | cons e es ih =>
    have he : m.name ≠ e.m.name := fun hh => hpre e (by simp) hh.symm
    have ih' := ih (k + 1) (fun x hx => hpre x (by simp [hx]))
    simp only [List.cons_append, List.length_cons]
    unfold matchMacro
    simp only [he, if_false, ih', ite_self]
    congr 1; omega

theorem matchMacro_function (toks : List PTok) (i : Nat) (sp : SearchPos) (k : Nat) (pre post : List Entry)
    (m : Macro) (hpre : ∀ e ∈ pre, e.m.name ≠ m.name) (hfn : m.isFunction = true)
    (hlast : sp.lastFn = none) (act : Nat) (hpa : parenAfter toks i = some act) (hact : sp.next ≤ act) :
    matchMacro toks i m.name sp k (pre ++ ⟨m, false⟩ :: post) = some (k + pre.length) := by
  induction pre generalizing k with
  | nil =>
    simp only [List.nil_append, List.length_nil, Nat.add_zero]
    unfold matchMacro
    have : ¬ act < sp.next := by omega
    simp [hfn, hlast, hpa, this]
  | cons e es ih =>
    have he : m.name ≠ e.m.name := fun hh => hpre e (by simp) hh.symm
    have ih' := ih (k + 1) (fun x hx => hpre x (by simp [hx]))
    simp only [List.cons_append, List.length_cons]
    unfold matchMacro
    simp only [he, if_false, ih', ite_self]
    congr 1; omega

theorem scanFrom_skip_inert (toks : List PTok) (sp : SearchPos) (env : List Entry) (a rest : List PTok) (i : Nat)
    (h : Inert env a) : scanFrom toks sp env (a ++ rest) i = scanFrom toks sp env rest (i + a.length) := by
  induction a generalizing i with
  | nil => simp
  | cons t ts ih =>
    have ht : InertTok env t := h t (by simp)
    have ih' := ih (i + 1) (fun x hx => h x (by simp [hx]))
    simp only [List.cons_append, List.length_cons]
    have : i + (ts.length + 1) = i + 1 + ts.length := by omega
    rw [this, ← ih']
    unfold InertTok at ht
    cases htk : t.tok with
    | id name =>
      simp only [htk] at ht
      simp [scanFrom, htk, matchMacro_none _ _ _ _ _ _ ht]
    | concat => simp only [htk] at ht
    | _ => simp [scanFrom, htk]

theorem substitute_inert {env : List Entry} (body : List PTok) (args : List (List PTok)) (out : List PTok)
    (hb : ∀ t ∈ body, (∃ i, t.tok = .arg i) ∨ InertTok env t) (ha : ∀ a ∈ args, Inert env a)
    (h : substitute body args = .ok out) : Inert env out := by
  induction body generalizing out with
  | nil => simp only [substitute] at h; cases h; intro t ht; cases ht
  | cons t ts ih =>
    have hts : ∀ t ∈ ts, (∃ i, t.tok = .arg i) ∨ InertTok env t := fun x hx => hb x (by simp [hx])
    unfold substitute at h
    split at h
    · rename_i i hti
      split at h
      · cases h
      · rename_i a hget
        cases hs : substitute ts args with
        | error e => simp [hs] at h
        | ok r =>
          simp only [hs] at h
          cases h
          exact inert_append (ha a (List.mem_of_getElem? hget)) (ih r hts hs)
    · rename_i hnarg
      cases hs : substitute ts args with
      | error e => simp [hs] at h
      | ok r =>
        simp only [hs] at h
        cases h
        intro x hx
        rcases List.mem_cons.mp hx with rfl | hx
        · rcases hb x (by simp) with ⟨i, hi⟩ | hin
          · exact absurd hi (hnarg i)
          · exact hin
        · exact ih r hts hs x hx

theorem mapE_congr {α β : Type} (f g : α → Except Err β) (l : List α) (h : ∀ a ∈ l, f a = g a) :
    mapE f l = mapE g l := by
  induction l with
  | nil => rfl
  | cons a as ih =>
    simp only [mapE, h a (by simp), ih (fun x hx => h x (by simp [hx]))]

/-- what an invocation found by `find_single_macro` implies about its arguments and its end -/
theorem user_bounds (env : List Entry) (toks : List PTok) (sp : SearchPos) (mi p : Nat) (e : Entry)
    (rest : List PTok) (args : List (List PTok))
    (hf : findSingle toks sp env = .ok (.user mi p)) (hmi : env[mi]? = some e)
    (hra : readArgs e.m (toks.drop (p + 1)) = .ok (rest, args)) :
    p < toks.length - rest.length ∧ sp.next < toks.length - rest.length ∧
    ∀ a ∈ args, a.length < toks.length - sp.next := by
  obtain ⟨hp, e', hget, hd, hc⟩ := findSingle_user _ _ _ _ _ hf
  rw [hmi] at hget
  cases hget
  have hs := readArgs_spec e.m _ rest args hra
  cases hfn : e.m.isFunction with
  | true =>
    simp only [hfn, if_true] at hs hc
    obtain ⟨b, tail, htrim, hrest, hargs⟩ := hs
    obtain ⟨b', tail', htrim', hnext⟩ := hc
    rw [htrim] at htrim'
    cases htrim'
    have htl : tail.length + 1 ≤ toks.length - (p + 1) := by
      have := trimStartAll_length_le (toks.drop (p + 1))
      rw [htrim] at this
      simpa using this
    refine ⟨by omega, by omega, ?_⟩
    intro a ha
    have := hargs a ha
    omega
  | false =>
    simp only [hfn, Bool.false_eq_true, if_false] at hs hc
    have hlen : rest.length = toks.length - (p + 1) := by rw [hs.1]; simp
    refine ⟨by omega, by omega, ?_⟩
    intro a ha
    rw [hs.2] at ha
    cases ha

/-- one successful iteration of the loop on a macro invocation, with the guards discharged -/
theorem applyLoop_user_step (env : List Entry) (toks : List PTok) (sp : SearchPos) (mi p : Nat) (e : Entry)
    (rest : List PTok) (args args' : List (List PTok)) (output output' : List PTok)
    (hlt : sp.next < toks.length)
    (hf : findSingle toks sp env = .ok (.user mi p)) (hmi : env[mi]? = some e)
    (hra : readArgs e.m (toks.drop (p + 1)) = .ok (rest, args))
    (hm : mapE (fun a => applyLoop env a SearchPos.start) args = .ok args')
    (hsub : substitute e.m.body args' = .ok output)
    (hbody : applyLoop (disable env mi) output SearchPos.start = .ok output') :
    applyLoop env toks sp =
      applyLoop env (splice toks p (toks.length - rest.length) output')
        ⟨p + output'.length, p, if e.m.isFunction then some mi else none⟩ := by
  obtain ⟨hb1, hb2, hb3⟩ := user_bounds env toks sp mi p e rest args hf hmi hra
  have hd : e.disabled = false := by
    obtain ⟨_, e', hget, hd, _⟩ := findSingle_user _ _ _ _ _ hf
    rw [hmi] at hget; cases hget; exact hd
  have hm' : mapE (fun a =>
      if _ha : a.length < toks.length - sp.next then applyLoop env a SearchPos.start
      else .error (.guard "argument not shorter than the unscanned suffix")) args = .ok args' := by
    rw [← hm]
    apply mapE_congr
    intro a ha
    simp [hb3 a ha]
  rw [applyLoop]
  simp only [hlt, dif_pos]
  split
  · rename_i heq; rw [hf] at heq; cases heq
  · rename_i heq; rw [hf] at heq; cases heq
  · rename_i heq; rw [hf] at heq; cases heq
  · rename_i mi' p' heq
    rw [hf] at heq
    cases heq
    split
    · rename_i heq; rw [hmi] at heq; cases heq
    · rename_i e' heq
      rw [hmi] at heq
      cases heq
      split
      · rename_i heq; rw [hra] at heq; cases heq
      · rename_i rest' args'' heq
        rw [hra] at heq
        cases heq
        split
        · rename_i heq; rw [hm'] at heq; cases heq
        · rename_i a'' heq
          rw [hm'] at heq
          cases heq
          split
          · rename_i heq; rw [hsub] at heq; cases heq
          · rename_i o heq
            rw [hsub] at heq
            cases heq
            simp only [hd, dif_pos]
            split
            · rename_i heq; rw [hbody] at heq; cases heq
            · rename_i o' heq
              rw [hbody] at heq
              cases heq
              simp only [hb1, hb2, dif_pos]

/-- the scan passes over an inert prefix and stops at the identifier that selects entry `mi` -/
theorem findSingle_at (T before rest : List PTok) (env : List Entry) (n : String) (b : Bool) (mi : Nat)
    (hT : T = before ++ ⟨.id n, b⟩ :: rest) (hbefore : Inert env before)
    (hm : matchMacro T before.length n SearchPos.start 0 env = some mi) :
    findSingle T SearchPos.start env = .ok (.user mi before.length) := by
  have h1 : scanFrom T SearchPos.start env T 0 =
      scanFrom T SearchPos.start env (before ++ ⟨.id n, b⟩ :: rest) 0 := by rw [← hT]
  have h2 : scanFrom T SearchPos.start env (⟨.id n, b⟩ :: rest) (0 + before.length) =
      .ok (.user mi before.length) := by
    rw [scanFrom]
    simp only [Nat.zero_add, hm]
  unfold findSingle
  simp only [SearchPos.start, Nat.le_refl, if_true, List.drop_zero] at h1 h2 ⊢
  rw [h1, scanFrom_skip_inert _ _ _ _ _ _ hbefore, h2]

theorem substitute_noargs (body : List PTok) (args : List (List PTok))
    (h : ∀ t ∈ body, ∀ i, t.tok ≠ .arg i) : substitute body args = .ok body := by
  induction body with
  | nil => rfl
  | cons t ts ih =>
    have iht := ih (fun x hx => h x (by simp [hx]))
    unfold substitute
    split
    · rename_i i hi; exact absurd hi (h t (by simp) i)
    · simp [iht]

theorem substitute_ok (body : List PTok) (args : List (List PTok))
    (h : ∀ t ∈ body, ∀ i, t.tok = .arg i → i < args.length) : ∃ out, substitute body args = .ok out := by
  induction body with
  | nil => exact ⟨[], rfl⟩
  | cons t ts ih =>
    obtain ⟨r, hr⟩ := ih (fun x hx => h x (by simp [hx]))
    unfold substitute
    split
    · rename_i i hi
      have hlt := h t (by simp) i hi
      have : args[i]? = some args[i] := List.getElem?_eq_getElem hlt
      simp only [this, hr]
      exact ⟨_, rfl⟩
    · simp only [hr]
      exact ⟨_, rfl⟩

theorem mapE_inert (env : List Entry) (l : List (List PTok)) (h : ∀ a ∈ l, Inert env a) :
    mapE (fun a => applyLoop env a SearchPos.start) l = .ok l := by
  induction l with
  | nil => rfl
  | cons a as ih =>
    have ha : applyLoop env a SearchPos.start = .ok a :=
      applyLoop_inert env a SearchPos.start (Nat.le_refl _) (by simpa [SearchPos.start] using h a (by simp))
    simp only [mapE, ha, ih (fun x hx => h x (by simp [hx]))]

theorem trimStart_blanks (blanks rest : List PTok) (h : ∀ t ∈ blanks, t.tok = .ws) (t : PTok)
    (ht : t.tok.isBlank = false) : trimStart (blanks ++ t :: rest) = t :: rest := by
  induction blanks with
  | nil => simp [trimStart, List.dropWhile, ht]
  | cons x xs ih =>
    have hx : x.tok = .ws := h x (by simp)
    have := ih (fun y hy => h y (by simp [hy]))
    unfold trimStart at this ⊢
    have hb : x.tok.isBlank = true := by rw [hx]; rfl
    rw [List.cons_append, List.dropWhile_cons]
    simp only [hb, if_true]
    exact this

/-- `trim_whitespace_and_endlines_start`: white space of every kind (blanks, comments, line ends) in front of a token
that is not white space is removed, the token stays -/
theorem trimStartAll_whitespace (blanks rest : List PTok) (h : ∀ t ∈ blanks, t.tok.isWhitespace = true) (t : PTok)
    (ht : t.tok.isWhitespace = false) : trimStartAll (blanks ++ t :: rest) = t :: rest := by
  induction blanks with
  | nil => simp [trimStartAll, List.dropWhile, ht]
  | cons x xs ih =>
    have hb : x.tok.isWhitespace = true := h x (by simp)
    have := ih (fun y hy => h y (by simp [hy]))
    unfold trimStartAll at this ⊢
    rw [List.cons_append, List.dropWhile_cons]
    simp only [hb, if_true]
    exact this

/-- the analogue of `trimStart_blanks` for `trimStartAll` -/
theorem trimStartAll_blanks (blanks rest : List PTok) (h : ∀ t ∈ blanks, t.tok = .ws) (t : PTok)
    (ht : t.tok.isWhitespace = false) : trimStartAll (blanks ++ t :: rest) = t :: rest :=
  trimStartAll_whitespace blanks rest (fun x hx => by rw [h x hx]; rfl) t ht

theorem splice_middle (before mid after out : List PTok) :
    splice (before ++ mid ++ after) before.length ((before ++ mid ++ after).length - after.length) out =
      before ++ out ++ after := by
  unfold splice
  have h1 : (before ++ mid ++ after).take before.length = before := by simp [List.append_assoc]
  have h2 : (before ++ mid ++ after).length - after.length = (before ++ mid).length := by
    simp only [List.length_append]; omega
  rw [h1, h2, List.drop_left]

end RsslVerif.Lemmas.MacroSubst

#!/bin/sh
# Build the framework from files on disk only (offline): Lean library + model driver, Rust harness.
set -e
cd "$(dirname "$0")"
export CARGO_NET_OFFLINE=true
mkdir -p build evidence replays
python3 tools/translate.py >/dev/null
(cd lean && lake build RsslVerif rsslmodel 2>&1 | grep -v conda | tail -5)
(cd harness && cargo build --offline 2>&1 | grep -v conda | tail -3)
echo "setup done"

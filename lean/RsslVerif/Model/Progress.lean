/-!
# Small models behind C08 (compilation is total)

Three self-contained loops of the front end whose termination is a progress argument:

* the parser's list combinators (`parser/src/parser.rs`: `parse_list_base`, `parse_optional`,
  the root-definition loop of `parse_internal`) over an *abstract* element parser,
* `TokenStream::next` / `end_of_stream` / `read_to_end` (`preprocess/src/lexer.rs`) over an *abstract*
  single-token lexer (the byte-level lexer is C10's model),
* `ConditionChain` (`preprocess/src/preprocess.rs`) driven by a directive sequence.

Rust `loop`/`while` are fuelled functions returning `none` when the fuel runs out (= the Rust loop would
still be running); the theorems bound the fuel.  Rust panics are explicit results, never defaults.
-/
namespace RsslVerif.Model.Progress

/-! ## parser list combinators -/

/-- `ParseResult<'t, T>`: `Ok((rest, value))` or `Err(ParseErrorContext(rest, ..))` — both carry the
    remaining input; the combinators compare *lengths* of remaining inputs, so does the model -/
abbrev PR (τ ε α : Type) := Except (List τ × ε) (List τ × α)

abbrev Parser (τ ε α : Type) := List τ → PR τ ε α

/-- the `while let Ok((after_sep, _)) = parse_separator(input) { match parse_element(after_sep) {..} }`
    loop of `parse_list_base`; `acc` is `values` in reverse -/
def listLoop {τ ε α γ : Type} (sep : Parser τ ε γ) (elem : Parser τ ε α) :
    Nat → List τ → List α → Option (PR τ ε (List α))
  | 0, _, _ => none
  | fuel + 1, input, acc =>
    match sep input with
    | .error _ => some (.ok (input, acc.reverse))
    | .ok (afterSep, _) =>
      match elem afterSep with
      | .ok (rest, e) => listLoop sep elem fuel rest (e :: acc)
      | .error (rest, err) =>
        -- `Err(ParseErrorContext(rest, _, _)) if rest.len() == after_sep.len() => break`
        if rest.length == afterSep.length then some (.ok (input, acc.reverse))
        else some (.error (rest, err))

/-- `parse_list_base(parse_separator, parse_element, allow_empty)` -/
def parseListBase {τ ε α γ : Type} (sep : Parser τ ε γ) (elem : Parser τ ε α) (allowEmpty : Bool)
    (fuel : Nat) (input : List τ) : Option (PR τ ε (List α)) :=
  match elem input with
  | .ok (rest, e) => listLoop sep elem fuel rest [e]
  | .error (rest, err) =>
    if allowEmpty && rest.length == input.length then some (.ok (input, []))
    else some (.error (rest, err))

/-- `parse_multiple(parse_element)` = `parse_list_base(|i| Ok((i, ())), parse_element, true)` -/
def parseMultiple {τ ε α : Type} (elem : Parser τ ε α) (fuel : Nat) (input : List τ) :
    Option (PR τ ε (List α)) :=
  parseListBase (γ := Unit) (fun i => .ok (i, ())) elem true fuel input

/-- `parse_optional(parse_element)` (no loop) -/
def parseOptional {τ ε α : Type} (elem : Parser τ ε α) (input : List τ) : PR τ ε (Option α) :=
  match elem input with
  | .ok (rest, e) => .ok (rest, some e)
  | .error (rest, err) => if rest.length == input.length then .ok (input, none) else .error (rest, err)

/-- the `loop { .. }` of `parse_internal`: root definitions until one fails; then either exactly the
    `Eof` token is left (success) or the failure is the result -/
def rootLoop {τ ε α : Type} (root : Parser τ ε α) (isEof : τ → Bool) :
    Nat → List τ → List α → Option (PR τ ε (List α))
  | 0, _, _ => none
  | fuel + 1, rest, acc =>
    match root rest with
    | .ok (remaining, r) => rootLoop root isEof fuel remaining (r :: acc)
    | .error err =>
      match rest with
      | [t] => if isEof t then some (.ok ([], acc.reverse)) else some (.error err)
      | _ => some (.error err)

/-! ## TokenStream -/

/-- `TokenStream` without the bytes: total length, `current_offset`, the two flags -/
structure Stream where
  len : Nat
  off : Nat
  addTrailing : Bool
  lastEndl : Bool
  deriving DecidableEq, Repr

/-- `TokenStream::new` -/
def Stream.new (len : Nat) : Stream := { len := len, off := 0, addTrailing := true, lastEndl := true }

/-- the abstract `token_intermediate`: lexing at an offset gives the offset after the token
    (`input_bytes.len() - remaining.len()`) and whether the token is `Token::Endline`, or fails -/
abbrev Lex := Nat → Option (Nat × Bool)

structure Span where
  start : Nat
  stop : Nat
  endl : Bool
  deriving DecidableEq, Repr

inductive NextResult where
  | token (sp : Span) (s : Stream)
  | lexError
  /-- `assert!(!self.last_was_endline)` in the synthetic-endline branch -/
  | panicAssertEndline
  /-- `debug_assert!(self.current_offset < next_location)` -/
  | panicNoProgress
  deriving Repr

/-- `TokenStream::end_of_stream` -/
def Stream.endOfStream (s : Stream) : Bool :=
  decide (s.off ≥ s.len) && (s.lastEndl || !s.addTrailing)

/-- `TokenStream::next` -/
def Stream.next (lex : Lex) (s : Stream) : NextResult :=
  if s.addTrailing && s.off == s.len then
    if s.lastEndl then .panicAssertEndline
    else .token ⟨s.off, s.off, true⟩ { s with lastEndl := true }
  else
    match lex s.off with
    | none => .lexError
    | some (nl, endl) =>
      if s.off < nl then .token ⟨s.off, nl, endl⟩ { s with off := nl, lastEndl := endl }
      else .panicNoProgress

inductive ReadResult where
  | tokens (l : List Span)
  | lexError
  | panicAssertEndline
  | panicNoProgress
  deriving Repr, DecidableEq

/-- `TokenStream::read_to_end` (`acc` = `tokens` in reverse) -/
def readToEnd (lex : Lex) : Nat → Stream → List Span → Option ReadResult
  | 0, _, _ => none
  | fuel + 1, s, acc =>
    if s.endOfStream then some (.tokens acc.reverse)
    else
      match s.next lex with
      | .token sp s' => readToEnd lex fuel s' (sp :: acc)
      | .lexError => some .lexError
      | .panicAssertEndline => some .panicAssertEndline
      | .panicNoProgress => some .panicNoProgress

/-- progress measure of the stream: bytes left (twice) + the pending synthetic endline -/
def Stream.measure (s : Stream) : Nat :=
  2 * (s.len - s.off) + (if s.addTrailing && !s.lastEndl then 1 else 0)

/-! ## ConditionChain -/

inductive CS where
  | enabled
  | disabledInner
  | disabledOuter
  deriving DecidableEq, Repr

/-- the directives that touch the chain; `ifD`/`elif` carry the value of their condition -/
inductive Dir where
  | ifD (active : Bool)
  | elif (active : Bool)
  | els
  | endif
  | text (id : Nat)
  deriving DecidableEq, Repr

inductive PErr where
  | elseNotMatched
  | endIfNotMatched
  | notFinished
  deriving DecidableEq, Repr

/-- `ConditionChain::is_active` (the head of the list is the top of the Rust vector) -/
def isActive (st : List CS) : Bool := st.all (· == .enabled)

/-- `ConditionChain::switch` -/
def switch (st : List CS) (active : Bool) : Except PErr (List CS) :=
  match st with
  | [] => .error .elseNotMatched
  | v :: rest =>
    .ok ((match v with
          | .enabled => .disabledOuter
          | .disabledInner => if active then .enabled else .disabledInner
          | .disabledOuter => .disabledOuter) :: rest)

/-- `ConditionChain::pop` -/
def pop (st : List CS) : Except PErr (List CS) :=
  match st with
  | [] => .error .endIfNotMatched
  | _ :: rest => .ok rest

/-- one directive (`preprocess_command` restricted to the chain) or text line; returns the new chain
    and the text ids emitted -/
def step (st : List CS) : Dir → Except PErr (List CS × List Nat)
  | .ifD a =>
    if isActive st then .ok ((if a then CS.enabled else CS.disabledInner) :: st, [])
    else .ok (CS.disabledInner :: st, [])
  | .elif a => match switch st a with | .ok st' => .ok (st', []) | .error e => .error e
  | .els => match switch st true with | .ok st' => .ok (st', []) | .error e => .error e
  | .endif => match pop st with | .ok st' => .ok (st', []) | .error e => .error e
  | .text id => .ok (st, if isActive st then [id] else [])

def run : List Dir → List CS → List Nat → Except PErr (List CS × List Nat)
  | [], st, out => .ok (st, out)
  | d :: ds, st, out =>
    match step st d with
    | .error e => .error e
    | .ok (st', o) => run ds st' (out ++ o)

/-- a whole file: the chain must be empty at the end (`ConditionChainNotFinished`) -/
def runFile (ds : List Dir) : Except PErr (List Nat) :=
  match run ds [] [] with
  | .error e => .error e
  | .ok (st, out) => if st.isEmpty then .ok out else .error .notFinished

/-- what the property needs of the chain, by depth alone: the depth after the directives or the error -/
def depthSpec : List Dir → Nat → Except PErr Nat
  | [], d => .ok d
  | .ifD _ :: ds, d => depthSpec ds (d + 1)
  | .elif _ :: ds, d => if d = 0 then .error .elseNotMatched else depthSpec ds d
  | .els :: ds, d => if d = 0 then .error .elseNotMatched else depthSpec ds d
  | .endif :: ds, d => if d = 0 then .error .endIfNotMatched else depthSpec ds (d - 1)
  | .text _ :: ds, d => depthSpec ds d

end RsslVerif.Model.Progress

import RsslVerif.Lemmas.GenSemStmt
import RsslVerif.Spec.SemIeee
/-!
# C01 — HLSL export preserves the meaning of every accepted program (scalar subset)

Theorems about `Model.GenHlsl` (the exporter) against `Spec.Sem` (typed IR semantics vs C-like semantics of the
emitted syntax), for every interpretation `P : Prim` of float arithmetic, conversions and integer division.
-/
namespace RsslVerif.Thm.C01
open RsslVerif.Gen.HlslGenTables RsslVerif.Gen.HlslIntrinsicTables RsslVerif.Model RsslVerif.Model.GenHlsl RsslVerif.Spec.Sem RsslVerif.Lemmas.GenSem
open RsslVerif.Model.Ir (Ty Var Const Dir)

/-- `generate_intrinsic_op`'s table (re-extracted from the source on every run) maps every typed operator to the syntax
operator whose C meaning is the RSSL meaning of the typed operator; the operators it panics on have no meaning here. -/
theorem op_table_is_identity :
    (∀ o u, opForm o = .unary u → astUnSem u = irOpSem o) ∧
    (∀ o b, opForm o = .binary b → astBinSem b = irOpSem o) ∧
    (∀ o, opForm o = .unexpected → irOpSem o = .unsupported) := by
  refine ⟨?_, ?_, ?_⟩
  · intro o u h; cases o <;> simp [opForm] at h <;> subst h <;> rfl
  · intro o b h; cases o <;> simp [opForm] at h <;> subst h <;> rfl
  · intro o h; cases o <;> simp [opForm] at h <;> rfl

/-- no typed operator is printed as the comma operator, and every syntax operator except `,`, `*x`, `&x` is the image
of exactly one typed operator (the table is injective: no two operators are merged). -/
theorem op_table_injective : ∀ a b : IntrinsicOp, opForm a = opForm b → opForm a ≠ .unexpected → a = b := by
  intro a b; cases a <;> cases b <;> decide

/-- `generate_intrinsic_function`'s table (243 intrinsics, re-extracted on every run) invokes every modelled pure
math / bit intrinsic under the name HLSL gives exactly that built-in, and `Form::Invoke` passes the arguments in order -/
theorem intrinsic_table_is_identity :
    (∀ p ∈ Ast.builtins, intrinsicForm p.2 = .invoke p.1 ∧ Ast.hlslBuiltin p.1 = some p.2) ∧
    invokeFormAsModelled = true :=
  ⟨builtins_table_ok, by decide⟩

/-- the expansion of the two forms, the `Sequence` fold, the `Cast` arm and the ternary arm of the source have the
shape `Model.GenHlsl` mirrors, and so has the label handling of `generate_scope_block` / `generate_statement`
(textual facts re-extracted on every run).  `statementArmsAsModelled`: `match &statement.kind` has exactly one arm per
`ir::StatementKind`, none guarded, each textually the modelled one; `ifElseArmAsModelled`: the one IfElse arm emits the
condition unmodified and both blocks in order, whether or not a block is empty (seeded mutant C01-3 put a guarded arm
in front that emits `if (<opposite of c>) B` for an empty first block: both facts become `false`);
`expressionArmsAsModelled`: the same for `match expr` of `generate_expression` (one unguarded arm per `ir::Expression`
variant; leaf, operator, call and ternary arms textually as modelled). -/
theorem exporter_shape_as_modelled :
    unaryFormAsModelled = true ∧ binaryFormAsModelled = true ∧ sequenceRightNested = true ∧
    sequenceAssertsTwo = true ∧ castDropsOnlyLiteralTargets = true ∧ ternaryInOrder = true ∧
    scopeBlockAsModelled = true ∧ labelsEmittedEmpty = true ∧
    statementArmsAsModelled = true ∧ ifElseArmAsModelled = true ∧ statementWrapperAsModelled = true ∧
    forInitAsModelled = true ∧ expressionArmsAsModelled = true ∧ helperBodiesAsModelled = true := by decide

/-- **statement attributes** (`[branch]`, `[flatten]`, `[unroll]`, `[unroll(n)]`, `[loop]`, `[fastopt]`,
`[allow_uav_condition]`; hints without a meaning in either semantics, outside `Ir.Stmt`): the exporter's table and the
type checker's table (both re-extracted) are inverse to each other — every attribute variant is emitted under a name the
type checker reads back as that very variant, every variant is emitted, no two variants share a name, and only
`Unroll(Some(v))` carries an argument (the count `v` as an unsuffixed literal).  So the attribute written in the source
is the attribute emitted; that it stays on its statement is `statementWrapperAsModelled` (and the harness's oracle). -/
theorem statement_attribute_names_roundtrip :
    (∀ e ∈ statementAttributeEmitted, (e.2.2.1, e.1) ∈ statementAttributeParsed) ∧
    (∀ k ∈ statementAttributeKinds, ∃ e ∈ statementAttributeEmitted, e.1 = k) ∧
    (∀ e ∈ statementAttributeEmitted, e.1 ∈ statementAttributeKinds) ∧
    (∀ e₁ ∈ statementAttributeEmitted, ∀ e₂ ∈ statementAttributeEmitted, e₁.2.2.1 = e₂.2.2.1 → e₁.1 = e₂.1) ∧
    (∀ p₁ ∈ statementAttributeParsed, ∀ p₂ ∈ statementAttributeParsed, p₁.1 = p₂.1 → p₁.2 = p₂.2) ∧
    (∀ e ∈ statementAttributeEmitted, (e.2.2.2 = "count" ↔ (e.1 = "Unroll" ∧ e.2.1 = "Some(v)"))) := by decide

/-- **literals**: whatever `generate_literal` emits for a constant has the constant's value, and its static type is the
constant's type — except that a typed `Int32` constant becomes an *unsuffixed* literal (static type "literal int"),
with the same integer value (`Sim` / `astTy` / `astVal`).  Covers `-0` (`IntLiteral 0`), negative values (printed as
unary minus applied to the magnitude), `u32::MAX`, `i32::MAX`, and every 32-bit float pattern incl. `-0.0f`, NaNs. -/
theorem literal_value_preserved (W : World) (env : Ast.Env) (c : Const) (a : HlslAst.Expr)
    (hg : genLiteral c = .ok a) : Sim W env (.lit c) a c.ty :=
  sim_lit W env c a hg

/-- the literal function is **total** on the modelled constants (since fix b1ff3d2 also on `Int32(i32::MIN)`); only an
`IntLiteral` of magnitude above `u64::MAX` has no tree (since fix 6017bad a reported export error, see
`literal_never_panics`; reachable from source text only through constant folding, e.g. `case 1 << 100:`) -/
theorem literal_total (c : Const) (h2 : ∀ v, c = .intLit v → -u64Max ≤ v ∧ v ≤ u64Max) : ∃ a, genLiteral c = .ok a := by
  cases c with
  | bool b => simp [genLiteral, Const.kind, Const.intValue, findArm_bool, mkLit, Except.map]
  | float32 x => simp [genLiteral, Const.kind, Const.intValue, findArm_f32, mkLit, Except.map]
  | floatLit x => simp [genLiteral, Const.kind, Const.intValue, findArm_flit, mkLit, Except.map]
  | uint32 v => simp [genLiteral, Const.kind, Const.intValue, findArm_uint, mkLit, Except.map]
  | intLit v =>
    have := h2 v rfl
    by_cases hn : v < 0
    · simp [genLiteral, Const.kind, Const.intValue, findArm_intLit_neg v hn (by omega), negMagnitude]
    · simp [genLiteral, Const.kind, Const.intValue, findArm_intLit_nonneg v (by omega) this.2, mkLit, Except.map]
  | int32 v =>
    by_cases hn : v.toInt < 0
    · simp [genLiteral, Const.kind, Const.intValue, findArm_int32_neg _ hn, negMagnitude]
    · simp [genLiteral, Const.kind, Const.intValue, findArm_int32_nonneg _ hn, mkLit, Except.map]

/-- **`generate_literal` never panics** on a modelled constant (since fix 6017bad): every constant is either exported or —
exactly when it is an `IntLiteral` of magnitude above `u64::MAX` — refused with `Err(GenerateError::IntLiteralOutOfRange)`,
i.e. the program is rejected with a diagnostic instead of `panic!("cannot represent …")`. -/
theorem literal_never_panics :
    (∀ c : Const, (∃ a, genLiteral c = .ok a) ∨ genLiteral c = .error (.diag "IntLiteralOutOfRange")) ∧
    (∀ v : Int, (v < -u64Max ∨ u64Max < v) → genLiteral (.intLit v) = .error (.diag "IntLiteralOutOfRange")) ∧
    (∀ (c : Const) m, genLiteral c ≠ .error (.panic m)) := by
  have big : ∀ v : Int, (v < -u64Max ∨ u64Max < v) → genLiteral (.intLit v) = .error (.diag "IntLiteralOutOfRange") := by
    intro v hv
    have h1 : ¬ (v < 0 ∧ -v ≤ u64Max) := by simp only [u64Max] at hv ⊢; omega
    have h2 : ¬ (0 ≤ v ∧ v ≤ u64Max) := by simp only [u64Max] at hv ⊢; omega
    simp [genLiteral, Const.kind, Const.intValue, findArm_intLit_big v h1 h2]
  have all : ∀ c : Const, (∃ a, genLiteral c = .ok a) ∨ genLiteral c = .error (.diag "IntLiteralOutOfRange") := by
    intro c
    by_cases h : ∀ v, c = .intLit v → -u64Max ≤ v ∧ v ≤ u64Max
    · exact .inl (literal_total c h)
    · right
      have ⟨v, hv⟩ : ∃ v, c = .intLit v ∧ ¬ (-u64Max ≤ v ∧ v ≤ u64Max) := by
        false_or_by_contra
        rename_i hc
        exact h (fun v hv => by
          false_or_by_contra
          rename_i hn
          exact hc ⟨v, hv, hn⟩)
      rw [hv.1]
      exact big v (by have := hv.2; omega)
  refine ⟨all, big, fun c m hm => ?_⟩
  rcases all c with ⟨a, ha⟩ | hd
  · rw [ha] at hm; cases hm
  · rw [hd] at hm; cases hm

/-- `i32::MIN` is emitted as unary minus applied to the *unsuffixed* literal `2147483648`.  Under the C-like semantics of
`Spec.Sem` an unsuffixed literal is a literal int (exact integer, as in HLSL / in RSSL's own `IntLiteral`), so the
operand has value 2147483648 and type literal int, the negation is exact, and the value -2147483648 converts to `int`
without loss wherever the exporter places it: meaning **is** preserved for this constant too — it is an instance of
`literal_value_preserved` (no special case is left). -/
theorem literal_int32_min (W : World) (env : Ast.Env) :
    genLiteral (.int32 (BitVec.intMin 32)) = .ok (.un .Minus (.lit (.intUntyped 2147483648))) ∧
    Ast.typeOf W.sig env (.un .Minus (.lit (.intUntyped 2147483648))) = some .lit ∧
    (∀ σ, Ast.eval W env (.un .Minus (.lit (.intUntyped 2147483648))) σ = some (.lit (-2147483648), σ)) ∧
    castVal W.P .int (.lit (-2147483648)) = some (.i (BitVec.intMin 32)) := by
  have h : (BitVec.intMin 32).toInt < 0 := by decide
  have hg : genLiteral (.int32 (BitVec.intMin 32)) = .ok (.un .Minus (.lit (.intUntyped 2147483648))) := by
    simp [genLiteral, Const.kind, Const.intValue, findArm_int32_neg _ h, negMagnitude]
    decide
  have hs := (sim_lit W env _ _ hg).lit
  refine ⟨hg, hs.1, fun σ => ?_, ?_⟩
  · rw [hs.2 σ]; rfl
  · simp [castVal]; decide

/-! ## meaning preservation: expressions, statements, functions, programs

Hypotheses, in the property's words: *the type checker accepted the program* = `Ir.typeOf … = some t` / `Ir.wtStmts`
(mirrors `get_type` + the assertions of `get_return_type`), with the side conditions spelled out in `Spec/SemWT`
(`litOK`: an operator never has *only* unsuffixed typed `Int32` constants as operands; no cast *to* a literal type);
*the emitted names denote the IR's entities* = `Agree cx env` (the conclusion of property C15, an input here).
Everything is for an arbitrary `W : World`, i.e. for every interpretation `W.P` of the float/conversion/division
primitives, every meaning `W.phi` of the callable functions and every signature table. -/

/-- **expressions**: the emitted expression has a static type `ta` under C rules, and — converted to the IR's type `t`,
which is what every context the exporter places it in does — evaluates to exactly the IR's value and store, from every
store.  (`ta = t` unless the expression is an unsuffixed `Int32` constant, see `gen_sem_expr_plain`.)  All expression
constructors of the model: constants, locals, globals, every unary/binary/assignment/increment operator, `?:`,
`Sequence`, casts, calls of user functions with in/out/inout arguments. -/
theorem gen_sem_expr {W : World} {env : Ast.Env} {cx : Ctx} (hag : Agree cx env)
    (e : Ir.Expr) (a : HlslAst.Expr) (t : Ty)
    (hg : genExpr cx e = .ok a) (ht : Ir.typeOf W.sig cx.vty e = some t) (hl : Ir.litOK e = true) :
    ∃ ta, Ast.typeOf W.sig env a = some ta ∧ ∀ σ, Ast.convR W.P ta t (Ast.eval W env a σ) = Ir.eval W e σ :=
  ⟨astTy e t, (sim_expr hag e a t hg ht hl).1, fun σ => (sim_expr hag e a t hg ht hl).conv ht σ⟩

/-- …and without any conversion when the expression is not a bare `Int32` constant: same static type, same result. -/
theorem gen_sem_expr_plain {W : World} {env : Ast.Env} {cx : Ctx} (hag : Agree cx env)
    (e : Ir.Expr) (a : HlslAst.Expr) (t : Ty)
    (hg : genExpr cx e = .ok a) (ht : Ir.typeOf W.sig cx.vty e = some t) (hl : Ir.litOK e = true)
    (hn : Ir.litlike e = false) :
    Ast.typeOf W.sig env a = some t ∧ ∀ σ, Ast.eval W env a σ = Ir.eval W e σ :=
  (sim_expr hag e a t hg ht hl).plain hn

/-- **statements** (expression statement, declaration with initialiser, block, if, if/else, for with every kind of init,
while, do-while, break, continue, return, `switch`, `case` and `default` labels): same control-flow outcome and same
store, from every store, *for every fuel* (iterations allowed per loop) and *for every way of entering the statement*
(`m`: executing, or looking for the `case`/`default` label of the enclosing `switch` — C's jump into the block). -/
theorem gen_sem_stmt {W : World} {env : Ast.Env} {cx : Ctx} (hag : Agree cx env) (rt : Ty) (lt : Option Ty)
    (s : Ir.Stmt) (s' : HlslAst.Stmt) (hg : genStmt cx s = .ok s') (hwt : Ir.wtStmt W.sig cx.vty rt lt s = true)
    (m : Mode) (hm : ModeOK lt m) :
    ∀ fuel σ, Ast.exec W env rt fuel m s' σ = Ir.exec W fuel m s σ :=
  sim_stmt hag rt s s' lt hg hwt m hm

/-- **statement lists** = `generate_scope_block`, including its label handling (the IR has `CaseLabel`/`DefaultLabel` as
statements of their own; the exporter makes each label own the statement that follows it, leaves `case 2: ;` for a
label followed by another label, and appends otherwise): the restructured list means the same as the flat one, in
every mode — in particular fall-through, `break`, `default` in any position and consecutive labels are preserved. -/
theorem gen_sem_stmts {W : World} {env : Ast.Env} {cx : Ctx} (hag : Agree cx env) (rt : Ty) (lt : Option Ty)
    (b : Ir.Stmts) (b' : HlslAst.Stmts) (hg : genStmts cx b = .ok b') (hwt : Ir.wtStmts W.sig cx.vty rt lt b = true)
    (m : Mode) (hm : ModeOK lt m) :
    ∀ fuel σ, Ast.execs W env rt fuel m b' σ = Ir.execs W fuel m b σ := by
  intro fuel σ
  have := sim_acc hag rt b .nil b' lt hg hwt m hm fuel σ
  rw [this]
  cases m <;> simp [Ast.execs, endOf, bindS]

/-- the label-filling step of `generate_scope_block` alone, for *any* statements (not only generated ones): pushing `s`
onto the statements so far means "…and then `s`" -/
theorem scope_block_push_is_append (W : World) (env : Ast.Env) (rt : Ty) (fuel : Nat) (s : HlslAst.Stmt)
    (acc : HlslAst.Stmts) (m : Mode) (σ : Store) :
    Ast.execs W env rt fuel m (HlslAst.pushStmt acc s) σ =
      bindS m (Ast.execs W env rt fuel m acc σ) (fun m' σ' => Ast.execs W env rt fuel m' (.cons s .nil) σ') :=
  execs_push W env rt fuel s acc m σ

/-- **functions**: for all argument values and every initial store the emitted definition yields the same return
value, the same final parameter values (`out`/`inout`) and the same final store (static globals). -/
theorem gen_sem_func {W : World} {env : Ast.Env} {cx : Ctx} (hag : Agree cx env)
    (fn : Ir.Func) (afn : HlslAst.Func) (hg : genFunc cx fn = .ok afn)
    (hwt : Ir.wtStmts W.sig cx.vty fn.ret none fn.body = true) :
    ∀ fuel vals σ, Ast.callFunc W env fuel afn vals σ = Ir.callFunc W fuel fn vals σ :=
  sim_func hag hg hwt

/-- **programs**: with the callee semantics no longer a parameter — the functions of the emitted program, run by the
C-like semantics against the signature table a C front end builds from the emitted definitions, compute what the
functions of the typed program compute, at every call depth, every loop fuel, for every `Prim`.
(One name environment for the module: emitted names unique across functions; `gen_sem_func` needs only one function's.) -/
theorem gen_sem_program {env : Ast.Env} {cx : Ctx} (hag : Agree cx env)
    (prog : List Ir.Func) (astProg : List HlslAst.Func) (hg : genProg cx prog = .ok astProg)
    (hwt : ∀ fn ∈ prog, Ir.wtStmts (Ir.sigOf prog) cx.vty fn.ret none fn.body = true) (P : Prim) (fuel d : Nat) :
    Ast.phi P env astProg fuel d = Ir.phi P prog fuel d :=
  sim_phi hag hg hwt P fuel d

/-! ## where the full statement fails: the dropped cast to a literal type (negation with a concrete witness) -/

def P0 : Prim where
  fbin _ x _ := x
  fcmp _ _ _ := false
  fneg x := x
  fstep _ x := x
  idiv _ x _ := x
  imod _ x _ := x
  i2f x := x
  u2f x := x
  f2i x := x
  f2u x := x
  f2b _ := false
  d2f _ := 0
  intr _ _ _ := none

def W0 : World := { P := P0, phi := fun _ _ _ => none, sig := fun _ => none }

def cx0 : Ctx where
  locName n := String.ofList (List.replicate (n + 1) 'l')
  globName n := String.ofList ('g' :: List.replicate n 'g')
  funcName n := String.ofList ('Z' :: List.replicate n 'Z')
  vty
    | .loc 0 => .bool
    | .loc 1 => .int
    | .loc _ => .uint
    | .glob _ => .int

def env0 : Ast.Env where
  res s := match s.toList with
    | 'l' :: r => some (.loc r.length)
    | 'g' :: r => some (.glob r.length)
    | _ => none
  vty := cx0.vty
  fres s := match s.toList with
    | 'Z' :: r => some r.length
    | _ => none

theorem agree0 : Agree cx0 env0 where
  res x := by
    cases x <;> simp [Ctx.name, cx0, env0, List.replicate_succ]
  vty := rfl
  fres f := by simp [cx0, env0]
  builtin := by decide


/-- `(2147483647 + t) > 0` with `t : bool`, as the type checker elaborates it: `Cast(IntLiteral, t)` -/
def eWitness : Ir.Expr :=
  .op .GreaterThan (.cons (.op .Add (.cons (.lit (.intLit 2147483647)) (.cons (.cast .lit (.var 0)) .nil))) (.cons (.lit (.intLit 0)) .nil))

def σt : Store := fun _ => .b true

/-- `generate_expression` drops a cast whose target is a literal type ("they occur only where they would get implicitly
converted").  For `Cast(IntLiteral, bool)` that is not an identity: the IR computes `2147483647 + 1` exactly (`true`),
the emitted `2147483647 + t > 0` is 32-bit arithmetic under C rules (`false`).  So meaning preservation is **false** for
the exporter as it is, outside the hypothesis "no cast to a literal type".  Replayed on the real compiler: corpus/C01.txt
`bool f1(bool t) { return (2147483647 + t) > 0; }` with `t = true` (known finding). -/
theorem cast_to_literal_dropped_changes_meaning :
    ∃ a, genExpr cx0 eWitness = .ok a ∧
      (Ir.eval W0 eWitness σt).map (·.1) = some (.b true) ∧ (Ast.eval W0 env0 a σt).map (·.1) = some (.b false) := by
  refine ⟨.bin .GreaterThan (.bin .Add (.lit (.intUntyped 2147483647)) (.ident "l")) (.lit (.intUntyped 0)), rfl, ?_, ?_⟩ <;> decide

/-! ## the comparisons of a `Prim` are not each other's negations (seeded mutant C01-3) -/

/-- `P0` with the IEEE-754 comparisons and conversions (`Spec/SemIeee`, the drivers' concrete interpretation) -/
def Pnan : Prim := P0.withIeee
def Wnan : World := { P := Pnan, phi := fun _ _ _ => none, sig := fun _ => none }

/-- quiet NaN and 1.0 -/
def qnan : BitVec 32 := 0x7FC00000#32
def one32 : BitVec 32 := 0x3F800000#32

/-- `gen_sem_*` quantify over every `Prim`, and a `Prim` has six independent comparison functions: nothing relates `>=`
to `<`.  Under the IEEE-754 interpretation with a NaN operand `a >= b` is *not* `!(a < b)` (both are false), likewise
for the other three ordering pairs, and `a == a`, `a <= a` are false.  So an exporter may not replace a comparison by
"the opposite comparison" of the negated condition: the theorems would not hold for that exporter, and this is the
interpretation that separates them. -/
theorem opposite_comparison_is_not_negation :
    ∃ (P : Prim) (a b : BitVec 32),
      P.fcmp .ge a b ≠ (!P.fcmp .lt a b) ∧ P.fcmp .gt a b ≠ (!P.fcmp .le a b) ∧
      P.fcmp .le a b ≠ (!P.fcmp .gt a b) ∧ P.fcmp .lt a b ≠ (!P.fcmp .ge a b) ∧
      P.fcmp .eq a a = false ∧ P.fcmp .le a a = false ∧ P.fcmp .ne a a = true :=
  ⟨Pnan, qnan, one32, by decide⟩

/-- float locals `l`, `ll`, int local `lll` -/
def cxF : Ctx := { cx0 with vty := fun x => match x with | .loc 0 => .float | .loc 1 => .float | _ => .int }
def envF : Ast.Env := { env0 with vty := cxF.vty }

/-- `if (l < ll) { } else { lll = 1; }` -/
def sIfElse : Ir.Stmt :=
  .ifElse (.op .LessThan (.cons (.var 0) (.cons (.var 1) .nil))) .nil
    (.cons (.expr (.op .Assignment (.cons (.var 2) (.cons (.lit (.int32 1)) .nil)))) .nil)

/-- what seeded mutant C01-3 emits for it: `if (l >= ll) { lll = 1; }` -/
def aOpposite : HlslAst.Stmt :=
  .ifThen (.bin .GreaterEqual (.ident "l") (.ident "ll"))
    (.block (.cons (.expr (.bin .Assignment (.ident "lll") (.lit (.intUntyped 1)))) .nil))

/-- `l` = NaN, `ll` = 1.0, `lll` = 0 -/
def σnan : Store := fun x => match x with | .loc 0 => .f qnan | .loc 1 => .f one32 | _ => .i 0

/-- the flow and the final value of `lll` -/
def obs3 (r : SR) : Option (Flow × Val) := r.map fun p => (p.1, p.2 (.loc 2))

/-- **negation witness for the rewrite of seeded mutant C01-3.**  The exporter as modelled emits
`if (l < ll) { } else { lll = 1; }` for the IR statement (both blocks, in order, the condition unmodified) and that tree
means what the IR means (an instance of `gen_sem_stmt`: `lll = 1` when `l` is NaN); the tree with the "opposite"
condition and only the second block, `if (l >= ll) { lll = 1; }`, leaves `lll = 0` on the same store. -/
theorem ifelse_opposite_condition_changes_meaning :
    ∃ a, genStmt cxF sIfElse = .ok a ∧
      a = .ifElse (.bin .LessThan (.ident "l") (.ident "ll")) (.block .nil)
            (.block (.cons (.expr (.bin .Assignment (.ident "lll") (.lit (.intUntyped 1)))) .nil)) ∧
      obs3 (Ir.exec Wnan 1 .run sIfElse σnan) = some (.normal, .i 1) ∧
      obs3 (Ast.exec Wnan envF .int 1 .run a σnan) = some (.normal, .i 1) ∧
      obs3 (Ast.exec Wnan envF .int 1 .run aOpposite σnan) = some (.normal, .i 0) := by
  refine ⟨_, rfl, rfl, ?_, ?_, ?_⟩ <;> decide

/-! ## non-vacuity -/

/-- `int f(inout uint p2) { for (int v1 = 0; v1 < 3; ++v1) { p2 += 1u; g0 = g0 + v1; } return (int)p2 - -5; }` -/
def fEx : Ir.Func where
  id := 7
  ret := .int
  params := [(2, .inout, .uint)]
  body :=
    .cons (.for (.defs [(1, some (.lit (.int32 0)))])
        (some (.op .LessThan (.cons (.var 1) (.cons (.lit (.int32 3)) .nil))))
        (some (.op .PrefixIncrement (.cons (.var 1) .nil)))
        (.cons (.expr (.op .SumAssignment (.cons (.var 2) (.cons (.lit (.uint32 1)) .nil))))
          (.cons (.expr (.op .Assignment (.cons (.global 0) (.cons (.op .Add (.cons (.global 0) (.cons (.var 1) .nil))) .nil)))) .nil)))
      (.cons (.ret (some (.op .Subtract (.cons (.cast .int (.var 2)) (.cons (.lit (.int32 (-5))) .nil))))) .nil)

/-- `switch (v1) { case 1: g0 = 10; break; case 2: case -3: g0 = g0 + 5; default: g0 = g0 + 7; }` (fall-through,
consecutive labels, a negative label, `default` last) -/
def swEx : Ir.Stmts :=
  .cons (.switch .int (.var 1)
    (.cons (.caseLabel (.intLit 1))
    (.cons (.expr (.op .Assignment (.cons (.global 0) (.cons (.lit (.int32 10)) .nil))))
    (.cons .break
    (.cons (.caseLabel (.intLit 2))
    (.cons (.caseLabel (.intLit (-3)))
    (.cons (.expr (.op .Assignment (.cons (.global 0) (.cons (.op .Add (.cons (.global 0) (.cons (.lit (.int32 5)) .nil))) .nil))))
    (.cons .defaultLabel
    (.cons (.expr (.op .Assignment (.cons (.global 0) (.cons (.op .Add (.cons (.global 0) (.cons (.lit (.int32 7)) .nil))) .nil))))
    .nil))))))))) .nil

example : Ir.wtStmts W0.sig cx0.vty .int none swEx = true := by decide
/-- what the exporter makes of it: `case 1:` owns its assignment; `case 2:` owns `case -3:`, which keeps the empty
statement (`case 2: case -3: ;`), and the assignment that follows is appended as a sibling; `default:` owns its statement -/
example : ∃ c1 c2 c3 d, genStmts cx0 swEx = .ok (.cons (.switch (.ident "ll") (.block
    (.cons (.caseLabel (.lit (.intUntyped 1)) c1)
    (.cons .break
    (.cons (.caseLabel (.lit (.intUntyped 2)) (.caseLabel (.un .Minus (.lit (.intUntyped 3))) c2))
    (.cons c3
    (.cons (.defaultLabel d) .nil))))))) .nil) := ⟨_, _, _, _, rfl⟩

/-- the hypotheses of the theorems hold for a loop with an `inout` parameter, a static global, an unsuffixed negative
constant and a cast; the names agree (`agree0`); the exporter produces a definition for it -/
example : Ir.wtStmts W0.sig cx0.vty fEx.ret none fEx.body = true := by decide
example : ∃ afn, genFunc cx0 fEx = .ok afn := ⟨_, rfl⟩
example : Agree cx0 env0 := agree0
/-- `max(v1, 3)` at `int`, `sqrt((float)v1)`: accepted, exported, and covered by `gen_sem_expr` -/
example : Ir.typeOf W0.sig cx0.vty (.intr .Max .int .int (.cons (.var 1) (.cons (.lit (.int32 3)) .nil))) = some .int ∧
    Ir.litOK (.intr .Max .int .int (.cons (.var 1) (.cons (.lit (.int32 3)) .nil))) = true ∧
    genExpr cx0 (.intr .Max .int .int (.cons (.var 1) (.cons (.lit (.int32 3)) .nil))) =
      .ok (.call "max" (.cons (.ident "ll") (.cons (.lit (.intUntyped 3)) .nil))) := ⟨by decide, by decide, rfl⟩
/-- …and the instance of `gen_sem_func` it yields -/
example (afn : HlslAst.Func) (h : genFunc cx0 fEx = .ok afn) (fuel : Nat) (vals : List Val) (σ : Store) :
    Ast.callFunc W0 env0 fuel afn vals σ = Ir.callFunc W0 fuel fEx vals σ :=
  gen_sem_func agree0 fEx afn h (by decide) fuel vals σ

/-! ### non-vacuity of the literal theorems -/
example : genLiteral (.int32 (-5)) = .ok (.un .Minus (.lit (.intUntyped 5))) := by rfl
example : genLiteral (.intLit 0) = .ok (.lit (.intUntyped 0)) := by rfl
example : genLiteral (.uint32 0xFFFFFFFF) = .ok (.lit (.intUnsigned32 4294967295)) := by rfl
example : genLiteral (.int32 (BitVec.intMin 32 + 1)) = .ok (.un .Minus (.lit (.intUntyped 2147483647))) := by rfl
example : genLiteral (.float32 0x80000000) = .ok (.lit (.float32 0x80000000)) := by rfl

end RsslVerif.Thm.C01

import RsslVerif.Model.Names
/-!
# How the two exporters consume the name map (hlsl/src/ast_generate.rs, msl/src/generator.rs + generator/pipeline.rs)

Executable, core Lean only.  Input: the module as the type checker leaves it (flat list of root definitions, each
with the namespace it lives in — `ir::Module::root_definitions` is flat as well, the exporters rebuild the
namespace blocks and merge adjacent ones), the target configuration and the pipeline.  Output (`emit`): the sequence
of **declarations and uses of identifiers** of the emitted program, in the order of the syntax tree handed to
the formatter, as the token list the harness extracts from the real tree:

    N:n ( … )   namespace block          S:n ( M:m … m:f ( ) … )  struct with members and methods
    E:n ( V:v … )  enum                   G:n  global variable      C:n ( D:m … )  cbuffer block (HLSL)
    F:n ( P:p … L:x … ( … ) … )  function: parameters, locals, nested blocks
    ?a::b  use of a value by (relative) path     ?:a::b  use of a type     .m  member of a struct of the program

What is mirrored:

* every namespace / struct / enum / enum value / global / function / local is printed with the leaf name
  `NameMap::get_name_leaf` returns, uses with `get_name_qualified` (all components from the root, relative base);
  **struct members, cbuffer blocks and cbuffer members are printed with their source names** (they never enter the map),
  a cbuffer member is referenced by its leaf name only;
* HLSL for Vulkan with buffer addresses: every `BufferAddress` / `RWBufferAddress` global that is not an array becomes
  a member **named by the global's leaf name** of the generated `struct InlineDescriptor<set>`; a generated
  `g_inlineDescriptor<set>` of that type follows; the global itself is initialised with `g_inlineDescriptor<set>.<leaf>`;
* Metal: `simplify_cbuffers` first turns every cbuffer `X` into `struct XType` + a global `X` (both then go through
  the map); globals that are not compile-time constants (`static const`, static samplers) are **threaded**: every
  function receives, after its own parameters, one parameter **named by the leaf name** per global it needs
  (transitively, ascending id), a call passes them on by leaf name; with a pipeline, one `struct ArgumentBuffer<i>`
  per bind group (members named by leaf name) and the wrapper `ComputeShaderEntry` follow: it repeats the entry
  point's parameter, takes `set<i>`, declares the static / groupshared globals the entry needs as locals (leaf
  names) and calls the entry point by its qualified name;
* reflection: binding names are the names of the emitted declarations (HLSL: cbuffer source name, global leaf name;
  Metal: argument-buffer member), the entry point is the emitted function name (HLSL) / `ComputeShaderEntry`.

The name map itself is `Model.Names.build` on the registries the exporter sees (`namesInput`).
Vertex / pixel pipelines are outside the model (`supported`).
-/
namespace RsslVerif.Model.NamesEmit
open RsslVerif.Model.Names

inductive Target where
  | dx | vk | vkba | msl
  deriving DecidableEq, Repr, Inhabited

def Target.isMsl : Target → Bool
  | .msl => true
  | _ => false

/-- a reference written in a function body -/
inductive Ref where
  | glob (k : Nat) | func (k : Nat) | loc (k : Nat) | enumVal (v : Nat) | cbMember (c i : Nat)
  | structTy (k : Nat) | enumTy (k : Nat) | nothing
  deriving DecidableEq, Repr, Inhabited

/-- function bodies are kept flat: declaration of local `k`, block open / close, a use -/
inductive BTok where
  | lv (k : Nat) | op | cl | use (r : Ref)
  deriving DecidableEq, Repr, Inhabited

structure ResOpts where
  array : Bool := false
  group : Option Nat := none
  elem : Option Nat := none
  deriving DecidableEq, Repr, Inhabited

inductive DefKind where
  | struct (ord : Nat) (members : List String) (methods : List Nat)
  | enum (ord : Nat) (values : List Nat)
  /-- `static int` (s), `static const int` (c), `groupshared int` (g) -/
  | glob (ord : Nat) (storage : Char)
  | res (ord : Nat) (kind : String) (opts : ResOpts)
  | cbuf (ord : Nat) (name : String) (group : Option Nat) (members : List String)
  /-- `entry = some 'c'`: compute entry point (one parameter) -/
  | func (ord : Nat) (params : List Nat) (body : List BTok) (entry : Option Char)
  deriving Repr, Inhabited

structure Def where
  ns : Option Nat
  kind : DefKind
  deriving Repr, Inhabited

structure Program where
  nss : List (Option Nat × String)
  defs : List Def
  /-- source names by ordinal -/
  structNames : List String
  enumNames : List String
  /-- enum values: (enum ordinal, name), numbered through all enums -/
  valueNames : List (Nat × String)
  globalNames : List String
  funcNames : List String
  /-- methods: function ordinals that are struct methods -/
  methods : List Nat
  localNames : List String
  /-- namespace of every struct / enum / global / function / cbuffer by ordinal -/
  structNs : List (Option Nat)
  enumNs : List (Option Nat)
  globalNs : List (Option Nat)
  funcNs : List (Option Nat)
  cbufNs : List (Option Nat)
  cbufNames : List String
  /-- the entry points of the pipeline (function ordinals) and its default bind group; `none` = no pipeline -/
  pipeline : Option (List Nat × Option Nat)
  deriving Repr, Inhabited

/-! ## facts about globals -/

def globalDef (p : Program) (k : Nat) : Option DefKind :=
  (p.defs.find? fun d => match d.kind with
    | .glob o _ => o == k
    | .res o _ _ => o == k
    | _ => false).map (·.kind)

def cbufDef (p : Program) (c : Nat) : Option DefKind :=
  (p.defs.find? fun d => match d.kind with
    | .cbuf o _ _ _ => o == c
    | _ => false).map (·.kind)

def numGlobals (p : Program) : Nat := p.globalNames.length
def numStructs (p : Program) : Nat := p.structNames.length
def numCbufs (p : Program) : Nat := p.cbufNames.length

/-- Metal numbers the global made from cbuffer `c` after all globals of the source -/
def cbGlobal (p : Program) (c : Nat) : Nat := numGlobals p + c
def cbStruct (p : Program) (c : Nat) : Nat := numStructs p + c

def defaultGroup (p : Program) : Nat :=
  match p.pipeline with
  | some (_, some d) => d
  | _ => 0

/-- does the (Metal) global keep a file-scope declaration (compile-time constant)? -/
def isConstantGlobal (p : Program) (g : Nat) : Bool :=
  match globalDef p g with
  | some (.glob _ s) => s == 'c'
  | some (.res _ kind _) => kind == "ssamp"
  | _ => false

def isExternResource (p : Program) (g : Nat) : Bool :=
  if g ≥ numGlobals p then true else
  match globalDef p g with
  | some (.res _ _ _) => true
  | _ => false

/-- bind group of a resource / cbuffer global (Metal numbering of cbuffer globals) -/
def groupOf (p : Program) (g : Nat) : Nat :=
  if g ≥ numGlobals p then
    match cbufDef p (g - numGlobals p) with
    | some (.cbuf _ _ (some s) _) => s
    | _ => defaultGroup p
  else
    match globalDef p g with
    | some (.res _ _ o) => o.group.getD (defaultGroup p)
    | _ => defaultGroup p

/-- Vulkan with buffer addresses: the global lives in the inline descriptor struct -/
def isInline (p : Program) (g : Nat) : Bool :=
  match globalDef p g with
  | some (.res _ kind o) => (kind == "ba" || kind == "rwba") && !o.array
  | _ => false

/-- the struct a resource's type mentions (`ConstantBuffer<S>`, `StructuredBuffer<S>`) -/
def elemStruct (p : Program) (g : Nat) : Option Nat :=
  match globalDef p g with
  | some (.res _ kind o) => if kind == "cbs" || kind == "sbs" then o.elem else none
  | _ => none

/-! ## the registries `NameMap::build` sees -/

def mkEntries (k : Kind) (names : List String) (nss : List (Option Nat)) : List Entry :=
  (List.range names.length).map fun i => ⟨⟨k, i⟩, (nss.getD i none), names.getD i ""⟩

/-- enums, each followed by its values (symbols of the scope that contains the enum) -/
def enumEntries (p : Program) : List Entry :=
  (List.range p.enumNames.length).flatMap fun e =>
    ⟨⟨.enum, e⟩, p.enumNs.getD e none, p.enumNames.getD e ""⟩ ::
      ((List.range p.valueNames.length).filterMap fun v =>
        match p.valueNames[v]? with
        | some (e', n) => if e' == e then some ⟨⟨.enumValue, v⟩, p.enumNs.getD e none, n⟩ else none
        | none => none)

def bodyUses (body : List BTok) : List Ref :=
  body.filterMap fun t => match t with
    | .use r => some r
    | _ => none

def funcBodies (p : Program) : List (Nat × List BTok) :=
  p.defs.filterMap fun d => match d.kind with
    | .func o _ b _ => some (o, b)
    | _ => none

/-- the usage analysis: every function / global some function body mentions; on Metal a use of a cbuffer member is a
use of the global made from the cbuffer, on HLSL cbuffers are skipped (`UsageSymbol::ConstantBuffer => continue`) -/
def usedSyms (t : Target) (p : Program) : List Sym :=
  (funcBodies p).flatMap fun fb => (bodyUses fb.2).filterMap fun r =>
    match r with
    | .glob k => some ⟨.global, k⟩
    | .func k => if p.methods.contains k then none else some ⟨.func, k⟩
    | .cbMember c _ => if t.isMsl then some ⟨.global, cbGlobal p c⟩ else none
    | _ => none

def namesInput (t : Target) (p : Program) : Input :=
  let structs := mkEntries .struct p.structNames p.structNs ++
    (if t.isMsl then (List.range (numCbufs p)).map fun c =>
        (⟨⟨.struct, cbStruct p c⟩, p.cbufNs.getD c none, p.cbufNames.getD c "" ++ "Type"⟩ : Entry) else [])
  let globals := mkEntries .global p.globalNames p.globalNs ++
    (if t.isMsl then (List.range (numCbufs p)).map fun c =>
        (⟨⟨.global, cbGlobal p c⟩, p.cbufNs.getD c none, p.cbufNames.getD c ""⟩ : Entry) else [])
  -- methods are named in the root scope whatever namespace holds the struct
  let funcs := (List.range p.funcNames.length).map fun i =>
    (⟨⟨.func, i⟩, (if p.methods.contains i then none else p.funcNs.getD i none), p.funcNames.getD i ""⟩ : Entry)
  { nss := p.nss
    entries := structs ++ enumEntries p ++ globals ++ funcs
    used := usedSyms t p
    locals := p.localNames }

/-! ## names -/

def leaf (names : List Named) (s : Sym) : String :=
  match lookup names s with
  | some n => n.name
  | none => "<no name>"

def pathOf (names : List Named) (s : Sym) : List String :=
  match qualified names s with
  | .ok q => q
  | .error _ => ["<no name>"]

def showPath (q : List String) : String := "::".intercalate q

/-- `get_enum_value_name_full`: the enum's qualified name followed by the value's leaf name -/
def valuePath (names : List Named) (p : Program) (v : Nat) : List String :=
  match p.valueNames[v]? with
  | some (e, _) => pathOf names ⟨.enum, e⟩ ++ [leaf names ⟨.enumValue, v⟩]
  | none => ["<no value>"]

def nsPath (names : List Named) (ns : Option Nat) : List String :=
  match ns with
  | none => []
  | some i => pathOf names ⟨.ns, i⟩

/-! ## Metal: the globals a function needs -/

def insertNat (n : Nat) : List Nat → List Nat
  | [] => [n]
  | m :: r => if n < m then n :: m :: r else if n == m then m :: r else m :: insertNat n r

def unionSorted (a b : List Nat) : List Nat := a.foldl (fun acc n => insertNat n acc) b

/-- the threaded globals a body mentions directly -/
def directGlobals (p : Program) (body : List BTok) : List Nat :=
  (bodyUses body).foldl (fun acc r =>
    match r with
    | .glob k => if isConstantGlobal p k then acc else insertNat k acc
    | .cbMember c _ => insertNat (cbGlobal p c) acc
    | _ => acc) []

/-- required globals of every function, in definition order (a body only calls functions defined before it) -/
def requiredAll (p : Program) : List (Nat × List Nat) :=
  (funcBodies p).foldl (fun acc fb =>
    let callees := (bodyUses fb.2).filterMap fun r => match r with
      | .func k => some k
      | _ => none
    let fromCalls := callees.foldl (fun a k =>
      match acc.find? (·.1 == k) with
      | some x => unionSorted x.2 a
      | none => a) []
    acc ++ [(fb.1, unionSorted (directGlobals p fb.2) fromCalls)]) []

def required (p : Program) (f : Nat) : List Nat :=
  match (requiredAll p).find? (·.1 == f) with
  | some x => x.2
  | none => []

/-! ## token emission -/

/-- the type tokens in front of a declaration of global `g` (a user struct named by the type) -/
def typeToks (names : List Named) (p : Program) (g : Nat) : List String :=
  if g ≥ numGlobals p then ["?:" ++ showPath (pathOf names ⟨.struct, cbStruct p (g - numGlobals p)⟩)]
  else match elemStruct p g with
    | some s => ["?:" ++ showPath (pathOf names ⟨.struct, s⟩)]
    | none => []

def memberTok (p : Program) (g : Nat) : List String :=
  match globalDef p g with
  | some (.res _ kind o) =>
    if kind == "cbs" then
      match o.elem with
      | some s =>
        match p.defs.findSome? (fun d => match d.kind with
          | .struct o' ms _ => if o' == s then some ms else none
          | _ => none) with
        | some (m :: _) => ["." ++ m]
        | _ => []
      | none => []
    else []
  | _ => []

def cbMemberName (p : Program) (c i : Nat) : String :=
  match cbufDef p c with
  | some (.cbuf _ _ _ ms) => ms.getD i "<no member>"
  | _ => "<no cbuffer>"

def useToks (t : Target) (names : List Named) (p : Program) : Ref → List String
  | .glob k =>
    if t.isMsl && !isConstantGlobal p k then ["?" ++ leaf names ⟨.global, k⟩] ++ memberTok p k
    else ["?" ++ showPath (pathOf names ⟨.global, k⟩)] ++ memberTok p k
  | .func k =>
    if p.methods.contains k then [] else
    ["?" ++ showPath (pathOf names ⟨.func, k⟩)] ++
      (if t.isMsl then (required p k).map fun g => "?" ++ leaf names ⟨.global, g⟩ else [])
  | .loc k => ["?" ++ leaf names ⟨.localVar, k⟩]
  | .enumVal v => ["?" ++ showPath (valuePath names p v)]
  | .cbMember c i =>
    if t.isMsl then ["?" ++ leaf names ⟨.global, cbGlobal p c⟩, "." ++ cbMemberName p c i]
    else ["?" ++ cbMemberName p c i]
  | .structTy k => ["?:" ++ showPath (pathOf names ⟨.struct, k⟩)]
  | .enumTy k => ["?:" ++ showPath (pathOf names ⟨.enum, k⟩)]
  | .nothing => []

def bodyToks (t : Target) (names : List Named) (p : Program) (body : List BTok) : List String :=
  body.flatMap fun b => match b with
    | .lv k => ["L:" ++ leaf names ⟨.localVar, k⟩]
    | .op => ["("]
    | .cl => [")"]
    | .use r => useToks t names p r

/-- the tokens of one root definition (without its namespace blocks) -/
def defToks (t : Target) (names : List Named) (p : Program) (d : Def) : List String :=
  match d.kind with
  | .struct o ms fs =>
    ["S:" ++ leaf names ⟨.struct, o⟩, "("] ++ ms.map ("M:" ++ ·) ++
      fs.flatMap (fun f => ["m:" ++ leaf names ⟨.func, f⟩, "(", ")"]) ++ [")"]
  | .enum o vs =>
    ["E:" ++ leaf names ⟨.enum, o⟩, "("] ++ vs.map (fun v => "V:" ++ leaf names ⟨.enumValue, v⟩) ++ [")"]
  | .glob o s =>
    if t.isMsl && s != 'c' then [] else ["G:" ++ leaf names ⟨.global, o⟩]
  | .res o kind _ =>
    if t.isMsl then (if kind == "ssamp" then ["G:" ++ leaf names ⟨.global, o⟩] else [])
    else
      typeToks names p o ++ ["G:" ++ leaf names ⟨.global, o⟩] ++
        (if t == .vkba && isInline p o then
          ["?g_inlineDescriptor" ++ toString (groupOf p o), "." ++ leaf names ⟨.global, o⟩] else [])
  | .cbuf c name _ ms =>
    if t.isMsl then ["S:" ++ leaf names ⟨.struct, cbStruct p c⟩, "("] ++ ms.map ("M:" ++ ·) ++ [")"]
    else ["C:" ++ name, "("] ++ ms.map ("D:" ++ ·) ++ [")"]
  | .func o ps body _ =>
    ["F:" ++ leaf names ⟨.func, o⟩, "("] ++ ps.map (fun l => "P:" ++ leaf names ⟨.localVar, l⟩) ++
      (if t.isMsl then (required p o).flatMap fun g => typeToks names p g ++ ["P:" ++ leaf names ⟨.global, g⟩] else []) ++
      bodyToks t names p body ++ [")"]

def defNs (d : Def) : Option Nat := d.ns

def commonPrefix : List String → List String → List String
  | a :: r, b :: s => if a == b then a :: commonPrefix r s else []
  | _, _ => []

/-- `generate_root_definitions` + `simplify_namespaces`: every definition is wrapped in its namespace chain and
adjacent blocks of one name are merged -/
def wrap : List String → List (List String × List String) → List String
  | cur, [] => cur.map fun _ => ")"
  | cur, (path, toks) :: rest =>
    let c := commonPrefix cur path
    (List.replicate (cur.length - c.length) ")") ++
      ((path.drop c.length).flatMap fun n => ["N:" ++ n, "("]) ++ toks ++ wrap path rest

def globalOrds (p : Program) : List Nat :=
  p.defs.filterMap fun d => match d.kind with
    | .glob o _ => some o
    | .res o _ _ => some o
    | _ => none

/-- the resources in root-definition order, cbuffers under their Metal global number -/
def boundInOrder (p : Program) : List Nat :=
  p.defs.filterMap fun d => match d.kind with
    | .res o _ _ => some o
    | .cbuf c _ _ _ => some (cbGlobal p c)
    | _ => none

def inlineSets (p : Program) : List Nat :=
  ((boundInOrder p).filter (fun g => g < numGlobals p && isInline p g)).foldl
    (fun acc g => insertNat (groupOf p g) acc) []

/-- Vulkan with buffer addresses: `struct InlineDescriptor<s> { … }; ConstantBuffer<InlineDescriptor<s>> g_inlineDescriptor<s>;` -/
def inlinePrelude (names : List Named) (p : Program) : List String :=
  (inlineSets p).flatMap fun s =>
    ["S:InlineDescriptor" ++ toString s, "("] ++
      (((boundInOrder p).filter fun g => g < numGlobals p && isInline p g && groupOf p g == s).map
        fun g => "M:" ++ leaf names ⟨.global, g⟩) ++
      [")", "?:InlineDescriptor" ++ toString s, "G:g_inlineDescriptor" ++ toString s]

/-- Metal: the globals with a binding slot (extern, not a static sampler) -/
def mslBound (p : Program) : List Nat :=
  (boundInOrder p).filter fun g => !isConstantGlobal p g

def mslGroups (p : Program) : Nat :=
  (mslBound p).foldl (fun m g => max m (groupOf p g + 1)) 0

def entryParam (p : Program) (e : Nat) : Option Nat :=
  p.defs.findSome? fun d => match d.kind with
    | .func o (l :: _) _ (some 'c') => if o == e then some l else none
    | _ => none

/-- Metal with a compute pipeline: argument buffer structs and the entry wrapper -/
def mslEpilogue (names : List Named) (p : Program) : List String :=
  match p.pipeline with
  | some ([e], _) =>
    let groups := List.range (mslGroups p)
    (groups.flatMap fun i =>
      ["S:ArgumentBuffer" ++ toString i, "("] ++
        (((mslBound p).filter fun g => groupOf p g == i).flatMap fun g =>
          typeToks names p g ++ ["M:" ++ leaf names ⟨.global, g⟩]) ++ [")"]) ++
    ["F:ComputeShaderEntry", "("] ++
      (match entryParam p e with
       | some l => ["P:" ++ leaf names ⟨.localVar, l⟩]
       | none => []) ++
      (groups.flatMap fun i => ["?:ArgumentBuffer" ++ toString i, "P:set" ++ toString i]) ++
      ((required p e).flatMap fun g =>
        if isExternResource p g then [] else ["L:" ++ leaf names ⟨.global, g⟩]) ++
      ["?" ++ showPath (pathOf names ⟨.func, e⟩)] ++
      (match entryParam p e with
       | some l => ["?" ++ leaf names ⟨.localVar, l⟩]
       | none => []) ++
      ((required p e).flatMap fun g =>
        if isExternResource p g then ["?set" ++ toString (groupOf p g), "." ++ leaf names ⟨.global, g⟩]
        else ["?" ++ leaf names ⟨.global, g⟩]) ++ [")"]
  | _ => []

/-- the declarations and uses of the emitted program -/
def emit (t : Target) (names : List Named) (p : Program) : List String :=
  (if t == .vkba then inlinePrelude names p else []) ++
  wrap [] (p.defs.map fun d => (nsPath names d.ns, defToks t names p d)) ++
  (if t.isMsl then mslEpilogue names p else [])

/-! ## reflection -/

def groupsUpTo (gs : List Nat) : List Nat := List.range (gs.foldl (fun m g => max m (g + 1)) 0)

/-- `(bind group, reported name)` in the order of the metadata -/
def reflection (t : Target) (names : List Named) (p : Program) : List (Nat × String) :=
  if t.isMsl then
    (groupsUpTo ((mslBound p).map (groupOf p))).flatMap fun i =>
      ((mslBound p).filter fun g => groupOf p g == i).map fun g => (i, leaf names ⟨.global, g⟩)
  else
    (groupsUpTo ((boundInOrder p).map (groupOf p))).flatMap fun i =>
      ((boundInOrder p).filter fun g => groupOf p g == i).map fun g =>
        if g ≥ numGlobals p then (i, p.cbufNames.getD (g - numGlobals p) "") else (i, leaf names ⟨.global, g⟩)

def entryNames (t : Target) (names : List Named) (p : Program) : List String :=
  match p.pipeline with
  | some (es, _) => es.map fun e => if t.isMsl then "ComputeShaderEntry" else leaf names ⟨.func, e⟩
  | none => []

/-- pipelines with vertex / pixel stages are outside the model -/
def supported (p : Program) : Bool :=
  (p.defs.all fun d => match d.kind with
    | .func _ _ _ (some c) => c == 'c'
    | _ => true) &&
  (match p.pipeline with
   | some ([e], _) => p.defs.any fun d => match d.kind with
     | .func o _ _ (some 'c') => o == e
     | _ => false
   | some _ => false
   | none => true)

end RsslVerif.Model.NamesEmit

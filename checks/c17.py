"""C17 — pipelines are selected and compiled independently."""
T = "RsslVerif.Thm.C17."


def nontrivial(req, obs):
    # at least two pipelines defined in the file
    f = req.split("\t")
    if f[0] == "C17.typer":
        return len(f) > 2 and f[2].count("| P ") + (1 if f[2].startswith("P ") else 0) >= 2
    if f[0] == "C17.wide":
        return len(f) > 4 and f[4].count("| P ") + (1 if f[4].startswith("P ") else 0) >= 2
    return len(f) > 3 and f[3].count(";") >= 1


SPEC = {
    "id": "C17",
    "gens": ["CompileTables", "PipelineTables"],
    "lean_modules": ["RsslVerif.Thm.C17"],
    "theorems": [T + n for n in [
        "loop_shape_as_modelled", "pipelines_reads_covered", "one_per_pipeline_in_order",
        "named_selects_exactly", "independent_of_other_pipelines", "all_agrees_with_named",
        "unknown_name_error", "no_pipeline_error", "no_pipeline_mode_single", "no_multiple_panic",
        "Typer.typer_shape_as_modelled", "Typer.typer_context_uses_covered", "Typer.typer_tables_sane",
        "Typer.registry_ignores_pipelines", "Typer.typeCheck_pipelines_map", "Typer.typeCheck_names_nodup",
        "Typer.typeCheck_delete_others", "Typer.independent_of_other_pipelines_file",
        "Typer.whole_file_one_result_per_block", "Typer.front_error_independent_of_mode"]],
    "harness": "c17",
    "nontrivial": nontrivial,
    "rule": "generated shader files (0-4 pipelines: compute, vertex+pixel, mesh+pixel, task+mesh; shared and private entry "
            "points, shared resources, helper call graphs) x {dx, vk, vk+buffer-address, msl} x {all, an existing name, "
            "unknown name, no-pipeline}; the oracle compares, on the real compile(), every pipeline compiled by name, "
            "as part of the whole file, and alone in a file whose other Pipeline definitions were deleted "
            "(bytes, stages, metadata, pipeline state); non-trivial = the file defines at least two pipelines",
    "level_text": "Proof: compile()'s selection loop is modelled for an arbitrary build function and proved, for any number of "
                  "pipelines with distinct names, to return one result per definition in source order, exactly the named "
                  "pipeline (independently of what else the file defines or whether the others build), clean errors for an "
                  "unknown name / empty file, exactly one result in no-pipeline mode, and never the 'multiple pipelines' panic. "
                  "The loop's syntactic shape and every textual reader of Module.pipelines are re-extracted from the source on "
                  "each run; the claim that build_pipeline depends only on the selected pipeline is carried by the type of the "
                  "model's build parameter, by that reader inventory, and by the metamorphic run on the real compiler.",
    "trusted_base": [
        "Lean 4.33 kernel; axioms propext / Classical.choice / Quot.sound only",
        "tools/gens/c17.py: regex facts about compile()/build_pipeline and the inventory of `.pipelines` uses",
        "modelling assumption: build_pipeline reads the pipeline list only through the selected index "
        "(inventory + metamorphic correspondence; not a theorem about the Rust code)",
        "distinct pipeline names (enforced by the type checker since fix f147da8)",
    ],
    "assumptions": ["HashMap iteration order does not influence outputs (C07)"],
}

import RsslVerif.Model.GenMsl
import RsslVerif.Spec.SemMslWT
import RsslVerif.Driver.C01
/-!
Line-protocol front end of the semantic half of the C02 model.

`C02.gen <source> <function> <argument vectors> <ctx> <ir>`: parses the IR s-expressions the harness produced from the
real `ir::Module` (the serialisation of C01), recomputes `function_required_globals` / `called_functions`, recomputes the
Metal exporter's definitions for the requested function with `GenMsl.genFuncs` (trampoline target, trampoline), prints
them, and runs `Ir.phi` (typed semantics) on every argument vector with the concrete primitive interpretation the
harness uses.
-/
namespace RsslVerif.Driver.C02Sem
open RsslVerif.Gen.HlslGenTables RsslVerif.Model RsslVerif.Model.GenMsl RsslVerif.Spec.Sem RsslVerif.Driver
open RsslVerif.Model.Ir (Ty Var Const Dir)
open RsslVerif.Driver.C01 (Sx parseAll parseFunc? parseVectors tyOf? parseVal? showStmts showOutcome showVal concretePrim FUEL DEPTH stmtsVars)

structure Info where
  base : C01.Info
  /-- global id ↦ threaded as a parameter (static, not const) -/
  paramMode : List (Nat × Bool)

def parseCtx? (s : String) : Option Info := do
  let parts := s.splitOn ";"
  let field (k : String) : Option String :=
    (parts.find? (·.startsWith (k ++ "="))).map fun p => (p.drop (k.length + 1)).toString
  let items (t : String) : List String := if t.isEmpty then [] else t.splitOn ","
  let vars ← sequenceOpt ((items (← field "vars")).map fun it =>
    match it.splitOn ":" with
    | [i, n, t] => do pure ((← i.toNat?), n, (← tyOf? t))
    | _ => none)
  let globs ← sequenceOpt ((items (← field "globs")).map fun it =>
    match it.splitOn ":" with
    | [i, n, t, m, k, v] => do pure ((← i.toNat?), n, (← tyOf? t), m == "P", (← parseVal? (k ++ ":" ++ v)))
    | [i, n, t, m, "v"] => do pure ((← i.toNat?), n, (← tyOf? t), m == "P", Val.void)
    | _ => none)
  let funcs ← sequenceOpt ((items (← field "funcs")).map fun it =>
    match it.splitOn ":" with
    | [i, n] => do pure ((← i.toNat?), n)
    | _ => none)
  let target ← (← field "target").toNat?
  pure { base := { vars := vars, globs := globs.map (fun g => (g.1, g.2.1, g.2.2.1, g.2.2.2.2)), funcs := funcs, target := target },
         paramMode := globs.map fun g => (g.1, g.2.2.2.1) }

def Info.isParamMode (inf : Info) (g : Nat) : Bool := ((inf.paramMode.find? (·.1 == g)).map (·.2)).getD false

def Info.ctx (inf : Info) (prog : List Ir.Func) : GenMsl.Ctx :=
  let c := inf.base.ctx
  { locName := c.locName, globName := c.globName, funcName := c.funcName, vty := c.vty,
    retTy := fun f => (prog.find? (·.id == f)).map (·.ret),
    req := reqOf prog inf.isParamMode,
    called := calledOf prog }

def showParam : MslAst.Param → String
  | .val t n => "(val " ++ t ++ " " ++ n ++ ")"
  | .ref s t n => "(ref " ++ s ++ " " ++ t ++ " " ++ n ++ ")"
  | .tag t => "(tag " ++ t ++ ")"

def showFunc (f : MslAst.Func) : String :=
  "(fn " ++ f.name ++ " " ++ f.ret ++ " (" ++ " ".intercalate ("params" :: f.params.map showParam) ++ ") (block" ++ showStmts f.body ++ "))"

def panicCategory (site : String) : String :=
  if (site.splitOn "negate with overflow").length > 1 then "negate-overflow"
  else if (site.splitOn "cannot represent").length > 1 then "cannot-represent"
  else if (site.splitOn "assertion").length > 1 then "assert"
  else if (site.splitOn "unwrap").length > 1 then "unwrap"
  else "other"

/-! ### running the model's own Metal tree under `Spec.SemMsl` (the reading the theorems are about) -/

/-- frame slots: a function's locals and by-value parameters at the IR's variable ids, the trampoline's `__p` at the
parameter's id, its `out` at a slot of its own; file-scope constants at their global ids -/
def outSlot (f : Nat) : Var := .loc (1000000 + f)

def Info.layout (inf : Info) (prog : List Ir.Func) : Msl.Layout :=
  let cx := inf.ctx prog
  { frame := fun fname s =>
      match prog.find? (fun fn => cx.funcName fn.id == fname) with
      | none => none
      | some fn =>
        let locals := fn.params.map (·.1) ++ stmtsVars fn.body
        match (inf.base.vars.filter fun v => locals.contains v.1).find? (·.2.1 == s) with
        | some v => some (.loc v.1)
        | none =>
          match fn.params.find? (fun p => trampLocal cx p.1 == s) with
          | some p => some (.loc p.1)
          | none =>
            if s == Gen.MslGenTables.trampolineResultName then some (outSlot fn.id)
            else
              -- constants at file scope; statics threaded as parameters are *not* in the frame
              match inf.base.globs.find? (fun g => g.2.1 == s && !inf.isParamMode g.1) with
              | some g => some (.glob g.1)
              | none => none
    vty := fun x =>
      match x with
      | .loc n =>
        if n ≥ 2000000 then
          -- the caller's variables of the function under test: typed like the parameter they are passed to
          ((prog.find? (fun fn => fn.id == inf.base.target)).bind fun fn => (fn.params[n - 2000000]?).map (·.2.2)).getD .void
        else if n ≥ 1000000 then ((prog.find? (fun fn => fn.id == n - 1000000)).map (·.ret)).getD .void
        else cx.vty x
      | _ => cx.vty x
    fres := fun s => (inf.base.funcs.find? (·.2 == s)).map (·.1)
    scratch := fun fname =>
      match prog.find? (fun fn => cx.funcName fn.id == fname) with
      | some fn => if needsTrampoline cx fn then [outSlot fn.id] else []
      | none => [] }

/-- call the emitted function the way code outside the module would: values for `in` parameters, fresh variables of the
caller (holding the argument values) for out/inout parameters, the statics by reference -/
def runMsl (inf : Info) (prog : List Ir.Func) (mprog : List MslAst.Func) (fn : Ir.Func) (gs : List Nat)
    (vals : List Val) (σ0 : Store) : String :=
  let L := inf.layout prog
  let idx := List.range fn.params.length
  let margs : List Msl.MArg := (List.zip idx (List.zip fn.params vals)).map fun (i, p, v) =>
    if p.2.1 = .in_ then .val v else .ref (.loc (2000000 + i))
  let σ1 : Store := (List.zip idx (List.zip fn.params vals)).foldl
    (fun σ (i, p, v) => if p.2.1 = .in_ then σ else σ.set (.loc (2000000 + i)) v) σ0
  match Msl.phi concretePrim L mprog FUEL DEPTH fn.id false (margs ++ gs.map (fun g => Msl.MArg.ref (.glob g))) σ1 with
  | none => "none"
  | some (ret, σ2) =>
    let finals := (List.zip idx fn.params).filterMap fun (i, p) =>
      if p.2.1 = .in_ then none else some (showVal (σ2 (.loc (2000000 + i))))
    "r=" ++ showVal ret ++ " o=" ++ ",".intercalate finals ++
    " g=" ++ ",".intercalate (inf.base.globs.map fun g => showVal (σ2 (.glob g.1)))

def handleGen (vectors ctx ir : String) : String :=
  let items := parseAll ir
  if items.any (Sx.hasHead "unsupported") || items.any (Sx.hasHead "intr") || (ctx.splitOn "unsupported").length > 1 then "unsupported" else
  match parseCtx? ctx, sequenceOpt (items.map parseFunc?), parseVectors vectors with
  | some inf, some prog, some vecs =>
    match prog.find? (·.id == inf.base.target) with
    | none => "bad-request: target"
    | some fn =>
      let cx := inf.ctx prog
      -- the exporter generates every function of the module: the first failure is what the caller sees
      let gens := prog.map fun f => (f.id, genFuncs cx f)
      let firstErr : Option GenHlsl.GenErr := gens.findSome? (fun g => match g.2 with | .error e => some e | .ok _ => none)
      match firstErr with
      | some (.panic site) => "panic " ++ panicCategory site
      | some (.diag e) => "diagnostic GenerateError(" ++ e ++ ")"
      | some (.unsupported _) => "unsupported"
      | none =>
        match gens.find? (·.1 == fn.id) with
        | some (_, .ok defs) =>
          let σ0 : Store := fun x => match x with
            | .glob n => ((inf.base.globs.find? (·.1 == n)).map (·.2.2.2)).getD .void
            | .loc _ => .void
          let mprog : List MslAst.Func := gens.flatMap fun g => match g.2 with | .ok ds => ds | .error _ => []
          let gs := (cx.req fn.id).getD []
          let outs := vecs.map fun v => showOutcome inf.base (Ir.phi concretePrim prog FUEL DEPTH fn.id v σ0)
          let mouts := vecs.map fun v => runMsl inf prog mprog fn gs v σ0
          "ast " ++ " ".intercalate (defs.map showFunc) ++ " ;; run " ++ " | ".intercalate outs ++
            " ;; msl " ++ " | ".intercalate mouts
        | _ => "bad-request: gen"
  | _, _, _ => "bad-request"

/-- do the hypotheses of `gen_sem_stmts` / `gen_sem_program` hold for every function of the request?  (statistics only) -/
def handleWt (ctx ir : String) : String :=
  let items := parseAll ir
  if items.any (Sx.hasHead "unsupported") || items.any (Sx.hasHead "intr") then "unsupported" else
  match parseCtx? ctx, sequenceOpt (items.map parseFunc?) with
  | some inf, some prog =>
    let cx := inf.ctx prog
    let S : Ir.Side :=
      { sig := Ir.sigOf prog, vty := cx.vty, vis := fun _ => true, req := cx.req,
        rsv := fun f => match prog.find? (·.id == f) with
          | some fn => outSlot f :: fn.params.map (fun p => Var.loc p.1)
          | none => [],
        called := cx.called }
    if prog.all fun fn => Ir.wtStmtsM S fn.ret none fn.body && fn.params.all fun p => decide (cx.vty (.loc p.1) = p.2.2) then "wt" else "not-wt"
  | _, _ => "unsupported"

def handle (op : String) (args : List String) : String :=
  match op, args with
  | "C02.wt", [_src, _name, _vectors, ctx, ir] => handleWt ctx ir
  | "C02.gen", [_src, name, vectors, ctx, ir] => if name == "-" then "skip" else handleGen vectors ctx ir
  | "C02.gen", _ => "skip"
  | _, _ => "unsupported-op"

end RsslVerif.Driver.C02Sem

import RsslVerif.Model.Compile
/-!
# C17 — pipelines are selected and compiled independently

Theorems about `Model.Compile.compileLoop` for an arbitrary `build` function, any number of pipelines.
-/
namespace RsslVerif.Thm.C17
open RsslVerif.Gen.CompileTables RsslVerif.Model.Compile

variable {ρ β ε : Type}

/-- Tie to the source: compile()'s loop has the shape the model mirrors (every regex fact holds). -/
theorem loop_shape_as_modelled :
    loopShape = ⟨true, true, true, true, true, true, true, true⟩ ∧
    buildClonesAndSelectsByName = true ∧ hlslReportsEmittedName = true := by decide

/-- use classes of `.pipelines` that keep the selected pipeline the only one read after type checking:
    indexing by the selected index, the selection loop itself, the driver loop, construction -/
def allowedUses : List (String × String × String) := [
  ("hlsl/src/ast_generate.rs", "context.module", "index:pipeline"),
  -- generate_module: names of the selected pipeline's entry functions (index = module.selected_pipeline)
  ("hlsl/src/ast_generate.rs", "module", "index:pipeline"),
  ("ir/src/ir_module.rs", "self", "index:index"),
  ("ir/src/ir_module.rs", "self", "method:iter"),
  ("msl/src/generator.rs", "module", "index:selected_pipeline"),
  ("msl/src/lib.rs", "module", "index:selected_pipeline"),
  ("msl/src/rewrite_mesh_output.rs", "module", "index:pipeline_index"),
  ("src/compile.rs", "ir", "plain"),
  ("typer/src/typer/pipelines.rs", "context.module", "method:iter"),
  ("typer/src/typer/pipelines.rs", "context.module", "method:push")]

/-- Tie to the source: no reader of `Module.pipelines` exists beyond the ones the model accounts for
    (a new reader makes this obligation fail until it is reviewed). -/
theorem pipelines_reads_covered : pipelineUses.all (fun u => allowedUses.contains u) = true := by decide

theorem buildLoop_all_ok (build : Option (Pipeline ρ) → Except ε β) (f : Pipeline ρ → β)
    (ps : List (Pipeline ρ)) (h : ∀ p ∈ ps, build (some p) = .ok (f p)) :
    buildLoop build (fun _ => true) ps = .ok (ps.map f) := by
  induction ps with
  | nil => rfl
  | cons p ps ih =>
    have hp := h p (by simp)
    have ht := ih (fun q hq => h q (by simp [hq]))
    simp [buildLoop, hp, ht]

/-- One result per pipeline definition, in source order. -/
theorem one_per_pipeline_in_order (build : Option (Pipeline ρ) → Except ε β) (f : Pipeline ρ → β)
    (ps : List (Pipeline ρ)) (hne : ps ≠ []) (h : ∀ p ∈ ps, build (some p) = .ok (f p)) :
    compileLoop build ps .all = .ok (ps.map f) := by
  simp only [compileLoop]
  rw [buildLoop_all_ok build f ps h]
  cases ps with
  | nil => exact absurd rfl hne
  | cons p ps => rfl

theorem buildLoop_skip (build : Option (Pipeline ρ) → Except ε β) (n : String)
    (ps : List (Pipeline ρ)) (h : ∀ p ∈ ps, p.name ≠ n) :
    buildLoop build (fun p => p.name == n) ps = .ok [] := by
  induction ps with
  | nil => rfl
  | cons p ps ih =>
    have hp : (p.name == n) = false := by simpa using h p (by simp)
    simp [buildLoop, hp, ih (fun q hq => h q (by simp [hq]))]

/-- With distinct pipeline names the named loop builds exactly the named pipeline — whatever the
    other pipelines are and whether or not *they* would build. -/
theorem buildLoop_named (build : Option (Pipeline ρ) → Except ε β) (ps : List (Pipeline ρ))
    (hnd : (ps.map (·.name)).Nodup) (p : Pipeline ρ) (hp : p ∈ ps) :
    buildLoop build (fun q => q.name == p.name) ps =
      match build (some p) with
      | .error e => .error e
      | .ok b => .ok [b] := by
  induction ps with
  | nil => cases hp
  | cons q qs ih =>
    simp only [List.map_cons, List.nodup_cons] at hnd
    rcases List.mem_cons.1 hp with rfl | hq
    · have hskip := buildLoop_skip build p.name qs (by
        intro r hr e; exact hnd.1 (by rw [← e]; exact List.mem_map_of_mem hr))
      simp only [buildLoop, beq_self_eq_true, if_true, hskip]
      cases build (some p) <;> rfl
    · have hne : (q.name == p.name) = false := by
        have : q.name ≠ p.name := by
          intro e; exact hnd.1 (by rw [e]; exact List.mem_map_of_mem hq)
        simpa using this
      simp only [buildLoop, hne]
      exact ih hnd.2 hq

/-- Exactly the pipeline with the requested name. -/
theorem named_selects_exactly (build : Option (Pipeline ρ) → Except ε β) (ps : List (Pipeline ρ))
    (hnd : (ps.map (·.name)).Nodup) (p : Pipeline ρ) (hp : p ∈ ps) (b : β)
    (hb : build (some p) = .ok b) :
    compileLoop build ps (.named p.name) = .ok [b] := by
  simp only [compileLoop]
  rw [buildLoop_named build ps hnd p hp, hb]

/-- Independence: the result for a named pipeline does not depend on which other pipelines the file
    defines (same outcome in any two pipeline lists that contain it with distinct names). -/
theorem independent_of_other_pipelines (build : Option (Pipeline ρ) → Except ε β)
    (ps ps' : List (Pipeline ρ)) (hnd : (ps.map (·.name)).Nodup) (hnd' : (ps'.map (·.name)).Nodup)
    (p : Pipeline ρ) (hp : p ∈ ps) (hp' : p ∈ ps') :
    compileLoop build ps (.named p.name) = compileLoop build ps' (.named p.name) := by
  simp only [compileLoop]
  rw [buildLoop_named build ps hnd p hp, buildLoop_named build ps' hnd' p hp']

/-- Compiling the whole file gives, at each position, what compiling that pipeline alone by name
    gives. -/
theorem all_agrees_with_named (build : Option (Pipeline ρ) → Except ε β) (f : Pipeline ρ → β)
    (ps : List (Pipeline ρ)) (hnd : (ps.map (·.name)).Nodup)
    (h : ∀ p ∈ ps, build (some p) = .ok (f p)) (hne : ps ≠ []) :
    compileLoop build ps .all = .ok (ps.map f) ∧
    ∀ p ∈ ps, compileLoop build ps (.named p.name) = .ok [f p] :=
  ⟨one_per_pipeline_in_order build f ps hne h,
   fun p hp => named_selects_exactly build ps hnd p hp (f p) (h p hp)⟩

/-- A name that no pipeline has is a clean error. -/
theorem unknown_name_error (build : Option (Pipeline ρ) → Except ε β) (ps : List (Pipeline ρ))
    (n : String) (h : ∀ p ∈ ps, p.name ≠ n) :
    compileLoop build ps (.named n) = .errUnknown n := by
  simp only [compileLoop]
  rw [buildLoop_skip build n ps h]

/-- A file without pipelines is a clean error unless no-pipeline mode is requested. -/
theorem no_pipeline_error (build : Option (Pipeline ρ) → Except ε β) :
    compileLoop build [] .all = .errNone := rfl

/-- No-pipeline mode returns exactly one result, whatever pipelines the file defines. -/
theorem no_pipeline_mode_single (build : Option (Pipeline ρ) → Except ε β) (ps : List (Pipeline ρ))
    (b : β) (h : build none = .ok b) : compileLoop build ps .noPipeline = .ok [b] := by
  simp [compileLoop, h]

/-- With distinct names the "multiple pipelines" panic is unreachable. -/
theorem no_multiple_panic (build : Option (Pipeline ρ) → Except ε β) (ps : List (Pipeline ρ))
    (hnd : (ps.map (·.name)).Nodup) (m : Mode) :
    (match compileLoop build ps m with | .panicMultiple => False | _ => True) := by
  cases m with
  | all =>
    simp only [compileLoop]
    cases buildLoop build (fun _ => true) ps with
    | error e => trivial
    | ok bs => cases bs <;> trivial
  | noPipeline =>
    simp only [compileLoop]
    cases build none <;> trivial
  | named n =>
    by_cases hex : ∃ p ∈ ps, p.name = n
    · obtain ⟨p, hp, rfl⟩ := hex
      simp only [compileLoop, buildLoop_named build ps hnd p hp]
      cases build (some p) <;> trivial
    · have : ∀ p ∈ ps, p.name ≠ n := fun p hp e => hex ⟨p, hp, e⟩
      rw [unknown_name_error build ps n this]
      trivial

/-! Non-vacuity -/
example : compileLoop (ε := Unit) (fun p => .ok (p.map (·.payload)))
    [⟨"A", 1⟩, ⟨"B", 2⟩, ⟨"C", 3⟩] (.named "B") = .ok [some 2] := rfl
example : (["A", "B", "C"] : List String).Nodup := by decide

end RsslVerif.Thm.C17

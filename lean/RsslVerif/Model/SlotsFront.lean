import RsslVerif.Model.Slots
/-!
# Model of the front half of binding: how every bound global gets its language-level binding
# (`lang_slot` / `lang_binding`, whose `set` is the "explicit group" the slot allocator reads)

Mirrors typer/src/typer/globals.rs:

* `parse_attributes_for_global` — the attributes of a DECLARATION are folded into one
  `GlobalAttributeResult` (a later attribute overwrites an earlier one);
* `parse_rootdefinition_globalvariable` — the loop over the declarators of one declaration: every declarator
  inserts a NEW global whose `lang_slot` is `LanguageBinding::default()`, runs its OWN location annotations over
  that fresh slot (register class check, "repeated annotations must agree"), then applies the declaration's
  attribute overrides and the static-sampler check;
* `parse_rootdefinition_constantbuffer` — the same for the single name of a `cbuffer`.

The statements mirrored here are fingerprinted by `Gen.SlotCompile.compileShape` (`langSlotFreshPerDeclarator`,
`annotationLoopShape`, `attributeOverridesAfterAnnotations`, `staticSamplerNeedsExtern`, `attributeFoldLaterWins`,
`storageClassLoopShape`, `cbufferAnnotationLoopShape`).
Rejections of the type checker are explicit `FrontErr` results (ill-formed attributes included: wrong argument count,
unknown name, an argument that is no `u32` constant).  `parse_globaltype`'s storage-class loop is `storageLoop`.
-/
namespace RsslVerif.Model.SlotsFront
open RsslVerif.Gen.SlotTables RsslVerif.Model.Slots

/-- `ir::LanguageBinding` -/
structure LangBinding where
  set : Option Nat
  index : Option Nat
  deriving DecidableEq, Repr, Inhabited

/-- `LanguageBinding::default()` -/
def LangBinding.default : LangBinding := { set := none, index := none }

/-- `ast::Register`: `slot` = (register class, index) when the annotation names a slot -/
structure Register where
  slot : Option (RegT × Nat)
  space : Option Nat
  deriving DecidableEq, Repr, Inhabited

/-- `ast::LocationAnnotation` -/
inductive Annotation where
  | register (r : Register)
  | packOffset
  | semantic
  deriving DecidableEq, Repr, Inhabited

/-- an attribute as `parse_attributes_for_global` classifies it -/
inductive Attr where
  /-- `[[rssl::bind_group(g)]]` -/
  | bindGroup (g : Nat)
  /-- `[[rssl::bindless]]` -/
  | bindless
  /-- `[[vk::binding(i)]]` / `[[vk::binding(i, g)]]` -/
  | vkBinding (i : Nat) (g : Option Nat)
  /-- one of the three with a wrong number of arguments: `GlobalAttributeUnexpectedArgumentCount(leaf)` -/
  | badCount (leaf : String)
  /-- anything else: `GlobalAttributeUnknown(name)` (`name` = the leaf under `rssl::` / `vk::`, the first path segment
      otherwise) -/
  | unknown (name : String)
  /-- an argument that does not evaluate to a `u32` constant: `ExpressionIsNotConstantExpression` (`at` = the
      identifier or number the reported location points at) -/
  | notConstant («at» : String)
  deriving DecidableEq, Repr, Inhabited

/-- `GlobalAttributeResult` -/
structure AttrResult where
  indexOverride : Option Nat
  groupOverride : Option Nat
  bindless : Bool
  deriving DecidableEq, Repr, Inhabited

def AttrResult.empty : AttrResult := { indexOverride := none, groupOverride := none, bindless := false }

/-- what a well-formed attribute writes into the result -/
def attrStep (r : AttrResult) : Attr → AttrResult
  | .bindGroup g => { r with groupOverride := some g }
  | .bindless => { r with bindless := true }
  | .vkBinding i none => { r with indexOverride := some i }
  | .vkBinding i (some g) => { r with indexOverride := some i, groupOverride := some g }
  | _ => r

inductive FrontErr where
  /-- `TyperError::InvalidRegisterType(used, expected, name.location)` -/
  | invalidRegisterType (used expected : RegT) (name : String)
  /-- `TyperError::InvalidRegisterAnnotation(type, name.location)`: "register() is not allowed on '<type>'" -/
  | invalidRegisterAnnotation (name : String)
  /-- `TyperError::UnexpectedRegisterAnnotation`: "register() is not allowed here" (cbuffer) -/
  | unexpectedRegisterAnnotation (name : String)
  | unexpectedPackOffset (name : String)
  | unexpectedSemantic (name : String)
  | staticSamplerUnexpectedBindingIndex (name : String)
  | staticSamplerUnexpectedStorageClass (name : String)
  | attributeArgumentCount (leaf : String)
  /-- `GlobalAttributeUnknown(name)`; also what `[[rssl::bindless]]` on a cbuffer gives (`name = "bindless"`) -/
  | attributeUnknown (name : String)
  | attributeNotConstant («at» : String)
  /-- `ModifierConflict(new, .., current)`: "modifier '<new>' may not be used with '<current>'" -/
  | modifierConflict (new current : String)
  deriving DecidableEq, Repr, Inhabited

/-- `for attribute in attributes` of `parse_attributes_for_global`: the first ill-formed attribute aborts, a
    well-formed one overwrites what an earlier one said -/
def attrLoop : AttrResult → List Attr → Except FrontErr AttrResult
  | r, [] => .ok r
  | _, .badCount leaf :: _ => .error (.attributeArgumentCount leaf)
  | _, .unknown name :: _ => .error (.attributeUnknown name)
  | _, .notConstant w :: _ => .error (.attributeNotConstant w)
  | r, a :: rest => attrLoop (attrStep r a) rest

def parseAttributes (as : List Attr) : Except FrontErr AttrResult := attrLoop AttrResult.empty as

/-- the storage-class keywords of a global's type (`parse_globaltype`) -/
inductive StorageMod where
  | extern
  | static
  | groupShared
  deriving DecidableEq, Repr, Inhabited

def StorageMod.keyword : StorageMod → String
  | .extern => "extern"
  | .static => "static"
  | .groupShared => "groupshared"

/-- the loop over the modifiers: the same keyword twice is accepted, two different ones are a conflict -/
def storageLoop : Option StorageMod → List StorageMod → Except FrontErr (Option StorageMod)
  | cur, [] => .ok cur
  | none, m :: ms => storageLoop (some m) ms
  | some c, m :: ms =>
    if c = m then storageLoop (some c) ms else .error (.modifierConflict m.keyword c.keyword)

/-- `global_storage…unwrap_or(GlobalStorage::Extern)`: is the storage class `Extern`? -/
def isExternStorage (mods : List StorageMod) : Except FrontErr Bool :=
  match storageLoop none mods with
  | .error e => .error e
  | .ok none => .ok true
  | .ok (some m) => .ok (decide (m = .extern))

/-- the `let index = if let Some(slot) = &register.slot { .. }` block: class check, then the index -/
def registerIndex (expected : RegT) (name : String) (r : Register) : Except FrontErr (Option Nat) :=
  match r.slot with
  | some (t, i) => if t ≠ expected then .error (.invalidRegisterType t expected name) else .ok (some i)
  | none => .ok none

/-- `for location_annotation in &….location_annotations` over the slot `slot` of ONE name.
    `expected` = the register class of the (unmodified) base type, `none` when the base type is not an object with
    a register class (then every `register(..)` is rejected); `conflict` = the error of "a second annotation that
    says something else" (`InvalidRegisterAnnotation` on a global, `UnexpectedRegisterAnnotation` on a cbuffer). -/
def annotate (expected : Option RegT) (conflict : FrontErr) (name : String) :
    LangBinding → List Annotation → Except FrontErr LangBinding
  | slot, [] => .ok slot
  | slot, .register r :: rest =>
    match expected with
    | none => .error conflict
    | some e =>
      match registerIndex e name r with
      | .error err => .error err
      | .ok index =>
        let newBinding : LangBinding := { set := r.space, index := index }
        if slot ≠ LangBinding.default ∧ slot ≠ newBinding then .error conflict
        else annotate expected conflict name newBinding rest
  | _, .packOffset :: _ => .error (.unexpectedPackOffset name)
  | _, .semantic :: _ => .error (.unexpectedSemantic name)

/-- "Override binding index / group with value from attribute" -/
def applyOverrides (attr : AttrResult) (slot : LangBinding) : LangBinding :=
  let slot := match attr.indexOverride with
    | some i => { slot with index := some i }
    | none => slot
  match attr.groupOverride with
  | some g => { slot with set := some g }
  | none => slot

/-- one `ast::InitDeclarator` of a global-variable declaration as far as binding goes; `shape` is everything else the
    declarator says (array dimensions …) and is carried through untouched -/
structure Declarator (σ : Type) where
  name : String
  annotations : List Annotation
  /-- the initialiser is `StaticSampler { .. }` -/
  staticSampler : Bool
  shape : σ
  deriving Repr

/-- the fields of the new `ir::GlobalVariable` this function writes -/
structure GlobalVar (σ : Type) where
  name : String
  shape : σ
  langSlot : LangBinding
  staticSampler : Bool
  bindless : Bool
  deriving Repr

/-- the body of `for global_variable in &gv.defs` for one declarator; `registry` = `module.global_registry` -/
def declaratorStep {σ : Type} (expected : Option RegT) (isExtern : Bool) (attr : AttrResult)
    (registry : List (GlobalVar σ)) (d : Declarator σ) : Except FrontErr (List (GlobalVar σ)) :=
  if d.staticSampler && !isExtern then .error (.staticSamplerUnexpectedStorageClass d.name) else
  -- `context.insert_global(..)`: a new entry at the end of the registry, `lang_slot: LanguageBinding::default()`;
  -- `gv_ir = &mut global_registry[var_id]` is that entry
  let gv : GlobalVar σ :=
    { name := d.name, shape := d.shape, langSlot := LangBinding.default, staticSampler := false, bindless := false }
  match annotate expected (.invalidRegisterAnnotation d.name) d.name gv.langSlot d.annotations with
  | .error e => .error e
  | .ok slot =>
    let slot := applyOverrides attr slot
    if d.staticSampler && slot.index.isSome then .error (.staticSamplerUnexpectedBindingIndex d.name)
    else .ok (registry ++ [{ gv with langSlot := slot, staticSampler := d.staticSampler, bindless := attr.bindless }])

/-- the loop `for global_variable in &gv.defs` of `parse_rootdefinition_globalvariable` -/
def declaratorLoop {σ : Type} (expected : Option RegT) (isExtern : Bool) (attr : AttrResult) :
    List (GlobalVar σ) → List (Declarator σ) → Except FrontErr (List (GlobalVar σ))
  | registry, [] => .ok registry
  | registry, d :: ds =>
    match declaratorStep expected isExtern attr registry d with
    | .error e => .error e
    | .ok registry' => declaratorLoop expected isExtern attr registry' ds

/-- `parse_rootdefinition_globalvariable`: attributes once per declaration, then the declarators in order.
    `base` = the object kind of the declaration's base type (`none`: not an object). -/
def parseGlobalVariable {σ : Type} (attrs : List Attr) (base : Option ObjKind) (isExtern : Bool)
    (registry : List (GlobalVar σ)) (ds : List (Declarator σ)) : Except FrontErr (List (GlobalVar σ)) :=
  match parseAttributes attrs with
  | .error e => .error e
  | .ok attr => declaratorLoop (base.bind registerType) isExtern attr registry ds

/-- `for location_annotation in &def.location_annotations` of ONE member of a cbuffer: a register or a semantic is
    rejected, the first packoffset is kept (`seen`), a second one rejected; nothing else is written -/
def memberAnnotations (name : String) : Bool → List Annotation → Except FrontErr Unit
  | _, [] => .ok ()
  | _, .register _ :: _ => .error (.unexpectedRegisterAnnotation name)
  | seen, .packOffset :: rest => if seen then .error (.unexpectedPackOffset name) else memberAnnotations name true rest
  | _, .semantic :: _ => .error (.unexpectedSemantic name)

/-- `for member in &cb.members { for def in &member.defs {..} }` as far as annotations go: members in source order, the
    first rejection aborts -/
def memberLoop : List (String × List Annotation) → Except FrontErr Unit
  | [] => .ok ()
  | (n, anns) :: rest =>
    match memberAnnotations n false anns with
    | .error e => .error e
    | .ok () => memberLoop rest

/-- `parse_rootdefinition_constantbuffer` as far as binding goes: the `lang_binding` of the new cbuffer.
    Order as in the code: the attributes, then the members (their annotations can only reject), then the block's own
    annotations on a fresh `lang_binding`, the overrides, the bindless check. -/
def parseConstantBuffer (name : String) (attrs : List Attr) (members : List (String × List Annotation))
    (anns : List Annotation) : Except FrontErr LangBinding :=
  match parseAttributes attrs with
  | .error e => .error e
  | .ok attr =>
    match memberLoop members with
    | .error e => .error e
    | .ok () =>
      match annotate (some .B) (.unexpectedRegisterAnnotation name) name LangBinding.default anns with
      | .error e => .error e
      | .ok slot =>
        let slot := applyOverrides attr slot
        -- "A constant buffer block can not be bindless so the attribute has no meaning here"
        if attr.bindless then .error (.attributeUnknown "bindless") else .ok slot

/-! ## A whole file: root definitions in source order -/

/-- what a declarator says besides its binding: one sized array layer (`len`), and whether after peeling the
    modifier and ONE sized array layer the type is the object type itself (`false` for `name[]` and `name[n][m]`) -/
structure Shape where
  len : Option Nat
  peelable : Bool
  deriving DecidableEq, Repr, Inhabited

inductive RootItem where
  /-- struct / function / …: a root definition that is never bound -/
  | other (name : String)
  /-- a cbuffer: attributes, the annotations of its members (name, annotations) in source order, its own annotations -/
  | cbuffer (name : String) (attrs : List Attr) (members : List (String × List Annotation)) (annotations : List Annotation)
  /-- one global-variable declaration: attributes, base type, storage-class keywords, declarators -/
  | globals (attrs : List Attr) (base : Option ObjKind) (mods : List StorageMod) (ds : List (Declarator Shape))
  deriving Repr

/-- what the slot allocator sees of a global (`Model.Slots.Decl`): only an `Extern` global whose type peels to an
    object is looked at by `process_definition` -/
def GlobalVar.toDecl (base : Option ObjKind) (isExtern : Bool) (g : GlobalVar Shape) : Decl :=
  .global g.langSlot.set g.staticSampler (if isExtern && g.shape.peelable then base else none)
    (if g.shape.peelable then g.shape.len else none)

/-- root definitions in source order → (reported name, allocator declaration) in the same order;
    the first rejection aborts the type check -/
def frontItems : List RootItem → Except FrontErr (List (String × Decl))
  | [] => .ok []
  | item :: rest =>
    let here : Except FrontErr (List (String × Decl)) :=
      match item with
      | .other n => .ok [(n, .other)]
      | .cbuffer n attrs members anns =>
        match parseConstantBuffer n attrs members anns with
        | .error e => .error e
        | .ok slot => .ok [(n, .cbuffer slot.set)]
      | .globals attrs base mods ds =>
        -- `parse_globaltype` (storage class) comes first, then the attributes, then the declarators
        match isExternStorage mods with
        | .error e => .error e
        | .ok isExtern =>
          match parseGlobalVariable attrs base isExtern [] ds with
          | .error e => .error e
          | .ok gs => .ok (gs.map fun g => (g.name, g.toDecl base isExtern))
    match here with
    | .error e => .error e
    | .ok xs =>
      match frontItems rest with
      | .error e => .error e
      | .ok ys => .ok (xs ++ ys)

end RsslVerif.Model.SlotsFront

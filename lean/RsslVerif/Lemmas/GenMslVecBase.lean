import RsslVerif.Lemmas.GenMslVecShape
import RsslVerif.Lemmas.GenMslSim
import RsslVerif.Lemmas.GenSemVec
import RsslVerif.Model.GenMslVec
/-! Vector layer of C02: names, conversions, `get_type`, the side conditions — what the per-constructor lemmas share. -/
namespace RsslVerif.Lemmas.GenMslVec
open RsslVerif.Gen.HlslGenTables RsslVerif.Gen.HlslVecTables RsslVerif.Gen.MslGenTables RsslVerif.Gen.MslVecTables
open RsslVerif.Model RsslVerif.Model.IrVec RsslVerif.Model.GenMsl RsslVerif.Model.GenMslVec
open RsslVerif.Spec.Sem RsslVerif.Spec.SemVec RsslVerif.Spec.SemMslVec RsslVerif.Lemmas.GenMsl
open RsslVerif.Model.Ir (Ty Var Const Dir)

/-- the emitted names denote the entities the IR referred to (C15's conclusion), for the variables in scope, also the
vector-typed ones -/
structure VAgreeM (cx : Ctx) (vis : Var → Bool) (env : VAst.VEnv) (vvty : Var → VTy) : Prop where
  base : AgreeM cx vis env.base
  vres : ∀ x, vis x = true → env.vres (cx.name x) = some x
  vvty : env.vvty = vvty

/-- emitted vector expression `a` simulates `e` of type `t`: same static type, same value and store from every store -/
def VSimM (W : World) (M : Msl.MWorld) (env : VAst.VEnv) (ρ : VStore) (e : VExpr) (a : VAExpr) (t : VTy) : Prop :=
  VMsl.typeOf M.msig env a = some t ∧ ∀ σ, VMsl.eval M env ρ a σ = VIr.eval W ρ e σ

theorem mslSwizzleChar_eq : mslSwizzleChar = swizzleChar := by
  funext s; cases s <;> rfl

theorem swizzleName_eq (sl : List SwizzleSlot) : GenMslVec.swizzleName sl = GenHlslVec.swizzleName sl := by
  simp [GenMslVec.swizzleName, GenHlslVec.swizzleName, mslSwizzleChar_eq]

theorem parse_mslSwizzleName (sl : List SwizzleSlot) : VAst.parseSwizzle (GenMslVec.swizzleName sl) = some (sl.map slotIdx) := by
  rw [swizzleName_eq]; exact GenSemVec.parse_swizzleName sl

theorem swzTy_eq (t : Ty) (k : Nat) : GenMslVec.swzTy t k = Spec.SemVec.swzTy t k := rfl

theorem basicK_cases {k : Ty} (h : VOk.basicK k = true) : k = .bool ∨ k = .int ∨ k = .uint ∨ k = .float := by
  cases k <;> simp [VOk.basicK] at h <;> simp

/-- `generate_type_impl` names a Metal-nameable type by the name Metal reads back as that type -/
theorem vtypeName_vtyOfName {ty : VTy} {n : String} (h : GenMslVec.vtypeName ty = .ok n) (hok : VOk.tyOKM ty = true) :
    VMsl.vtyOfName n = some ty := by
  cases ty with
  | sc t =>
    rcases basicK_cases (by simpa [VOk.tyOKM] using hok) with rfl | rfl | rfl | rfl <;>
      simp [GenMslVec.vtypeName, GenMsl.typeName, GenHlsl.scalarKey, mslScalarTypeName] at h <;> subst h <;> decide
  | vec t k =>
    simp only [VOk.tyOKM, Bool.and_eq_true, decide_eq_true_eq] at hok
    obtain ⟨⟨hk, h2⟩, h4⟩ := hok
    have hk' : k = 2 ∨ k = 3 ∨ k = 4 := by omega
    rcases basicK_cases hk with rfl | rfl | rfl | rfl <;> rcases hk' with rfl | rfl | rfl <;>
      simp [GenMslVec.vtypeName, GenMsl.typeName, GenHlsl.scalarKey, mslScalarTypeName, GenMslVec.dimSuffix] at h <;> subst h <;> decide

theorem castM_eq {P : Prim} {f t : Ty} (hf : VOk.basicK f = true) (ht : VOk.basicK t = true) (v : Val) :
    Msl.castM P f t v = castVal P t v := by
  rcases basicK_cases hf with rfl | rfl | rfl | rfl <;> rcases basicK_cases ht with rfl | rfl | rfl | rfl <;> simp [Msl.castM]

theorem mapOpt_congr {α β : Type} {f g : α → Option β} (h : ∀ x, f x = g x) (xs : List α) : mapOpt f xs = mapOpt g xs := by
  induction xs with
  | nil => rfl
  | cons x r ih => simp [mapOpt, h x, ih]

theorem shaped_sc {k : Ty} {v : VVal} (h : VOk.shaped (.sc k) v = true) : ∃ x, v = .sc x := by
  cases v with
  | sc x => exact ⟨x, rfl⟩
  | vec xs => simp [VOk.shaped] at h

theorem shaped_vec {k : Ty} {n : Nat} {v : VVal} (h : VOk.shaped (.vec k n) v = true) : ∃ xs, v = .vec xs ∧ xs.length = n := by
  cases v with
  | sc x => simp [VOk.shaped] at h
  | vec xs => exact ⟨xs, rfl, by simpa [VOk.shaped] using h⟩

/-- `Expression::get_type` agrees with the type checker's type -/
theorem getTy_ok {W : World} {cx : Ctx} {vvty : Var → VTy}
    (hret : ∀ f rt ps, W.sig f = some (rt, ps) → cx.retTy f = some rt) :
    ∀ (e : VExpr) (t : VTy), VIr.typeOf W.sig cx.vty vvty e = some t → getTy cx vvty e = some t
  | .sc e, t, h => by
    cases hte : Ir.typeOf W.sig cx.vty e with
    | none => simp [VIr.typeOf, hte] at h
    | some t' =>
      simp [VIr.typeOf, hte] at h; subst h
      simp [getTy, exprTy_ok hret e t' hte]
  | .vvar id, t, h => by simpa [VIr.typeOf, getTy] using h
  | .vglobal id, t, h => by simpa [VIr.typeOf, getTy] using h
  | .cast ty x, t, h => by
    simp only [VIr.typeOf] at h
    cases htx : VIr.typeOf W.sig cx.vty vvty x with
    | none => simp [htx] at h
    | some tx =>
      simp only [htx] at h
      split at h
      · simp at h
      · simpa [getTy] using h
  | .swz x sl, t, h => by
    simp only [VIr.typeOf] at h
    cases htx : VIr.typeOf W.sig cx.vty vvty x with
    | none => simp [htx] at h
    | some tx =>
      have hx := getTy_ok hret x tx htx
      cases tx with
      | sc k => simp only [htx] at h; split at h <;> simp at h; subst h; simp [getTy, hx, swzTy_eq, VTy.scalar]
      | vec k n => simp only [htx] at h; split at h <;> simp at h; subst h; simp [getTy, hx, swzTy_eq, VTy.scalar]
  | .ctor ty slots, t, h => by
    simp only [VIr.typeOf] at h
    cases hso : VIr.slotsOK W.sig cx.vty vvty ty.scalar slots with
    | none => simp [hso] at h
    | some total =>
      simp only [hso] at h
      split at h
      · simpa [getTy] using h
      · simp at h
  | .tern c f g, t, h => by
    simp only [VIr.typeOf] at h
    cases htc : VIr.typeOf W.sig cx.vty vvty c with
    | none => simp [htc] at h
    | some tc =>
      cases htf : VIr.typeOf W.sig cx.vty vvty f with
      | none => simp [htc, htf] at h
      | some tf =>
        cases htg : VIr.typeOf W.sig cx.vty vvty g with
        | none => simp [htc, htf, htg] at h
        | some tg =>
          simp only [htc, htf, htg] at h
          have : tf = t := by
            cases tc with
            | vec k n => simp at h
            | sc k =>
              cases k <;> simp at h
              obtain ⟨⟨h1, _⟩, h3⟩ := h
              subst h1; exact h3
          subst this
          simp [getTy, getTy_ok hret f tf htf]
  | .op o .nil, t, h => by simp [VIr.typeOf] at h
  | .op o (.cons x .nil), t, h => by
    simp only [VIr.typeOf] at h
    cases htx : VIr.typeOf W.sig cx.vty vvty x with
    | none => simp only [htx] at h; split at h <;> simp_all
    | some tx =>
      have hx := getTy_ok hret x tx htx
      simp only [htx] at h
      cases hm : irOpSem o with
      | un m =>
        rw [hm] at h
        have htt : t = tx ∧ (m = .lnot → tx.scalar = .bool) := by
          cases m <;> simp at h
          all_goals first
            | exact ⟨h.2.symm, fun _ => h.1.1⟩
            | exact ⟨h.2.symm, by simp⟩
        obtain ⟨rfl, hb⟩ := htt
        simp only [getTy, getTyFirst, hx, Option.map]
        congr 1
        have : opRetTy o t.scalar = t.scalar := by
          cases o <;> simp [irOpSem] at hm <;> first | rfl | (subst hm; simp [opRetTy, hb rfl])
        rw [this]; exact GenSemVec.withScalar_self rfl
      | _ => rw [hm] at h; simp at h
  | .op o (.cons x (.cons y .nil)), t, h => by
    simp only [VIr.typeOf] at h
    cases htx : VIr.typeOf W.sig cx.vty vvty x with
    | none => simp only [htx] at h; split at h <;> simp_all
    | some tx =>
      have hx := getTy_ok hret x tx htx
      cases hty : VIr.typeOf W.sig cx.vty vvty y with
      | none => simp only [htx, hty] at h; split at h <;> simp_all
      | some ty =>
        simp only [htx, hty] at h
        simp only [getTy, getTyFirst, hx, Option.map]
        cases hm : irOpSem o with
        | bin m =>
          rw [hm] at h
          simp only [] at h
          split at h
          · cases hcmp : m.isCmp with
            | true =>
              simp [hcmp] at h; subst h
              have : opRetTy o tx.scalar = .bool := by
                cases o <;> simp [irOpSem] at hm <;> subst hm <;> simp [MBin.isCmp] at hcmp <;> rfl
              rw [this]
            | false =>
              simp [hcmp] at h; subst h
              have : opRetTy o tx.scalar = tx.scalar := by
                cases o <;> simp [irOpSem] at hm <;> subst hm <;> simp [MBin.isCmp] at hcmp <;> rfl
              rw [this]; congr 1; exact GenSemVec.withScalar_self rfl
          · simp at h
        | land =>
          rw [hm] at h
          have : tx = .sc .bool ∧ t = .sc .bool := by
            cases tx with
            | vec k n => simp at h
            | sc k =>
              cases ty with
              | vec k2 n2 => cases k <;> simp at h
              | sc k2 => cases k <;> cases k2 <;> simp at h <;> exact ⟨rfl, h.symm⟩
          obtain ⟨rfl, rfl⟩ := this
          have : opRetTy o .bool = .bool := by cases o <;> rfl
          simp [VTy.scalar, VTy.withScalar, this]
        | lor =>
          rw [hm] at h
          have : tx = .sc .bool ∧ t = .sc .bool := by
            cases tx with
            | vec k n => simp at h
            | sc k =>
              cases ty with
              | vec k2 n2 => cases k <;> simp at h
              | sc k2 => cases k <;> cases k2 <;> simp at h <;> exact ⟨rfl, h.symm⟩
          obtain ⟨rfl, rfl⟩ := this
          have : opRetTy o .bool = .bool := by cases o <;> rfl
          simp [VTy.scalar, VTy.withScalar, this]
        | _ => rw [hm] at h; simp at h
  | .op o (.cons x (.cons y (.cons z r))), t, h => by simp [VIr.typeOf] at h

end RsslVerif.Lemmas.GenMslVec

"""C07 — compilation is deterministic."""
T = "RsslVerif.Thm.C07."


def custom(ctx):
    if not ctx.harness_build():
        return
    import os
    corpus = os.path.join(os.path.dirname(os.path.dirname(os.path.abspath(__file__))), "corpus", "C07.txt")
    if os.path.exists(corpus) and os.path.getsize(corpus) > 0:
        cases, _ = ctx.run_harness(["c07", "--requests", corpus])
        ctx.correspond(cases, compare_model=False)
    cases, stats = ctx.run_harness(["c07", "--tier", ctx.tier, "--seed", str(ctx.seed)])
    ctx.stats.extend(stats)
    ctx.correspond(cases, compare_model=False)
    ctx.extra["model_comparison"] = "none: the model has no bytes to predict; the run below is the property's own oracle"


def nontrivial(req, obs):
    # accepted-program streams: the compilation succeeded; diagnostics streams: the program really is rejected
    if "\tdiag:" in req or "\tsrc:" in req:
        return obs.startswith("err")
    return obs.startswith("ok")


SPEC = {
    "id": "C07",
    "gens": ["HashSites", "EnumRange"],
    "lean_modules": ["RsslVerif.Thm.C07", "RsslVerif.Lemmas.EnumRange", "RsslVerif.Thm.C02", "RsslVerif.Thm.C15"],
    "theorems": [T + n for n in [
        "sort_perm_invariant", "collectSort_perm_invariant", "sortBy_key_perm_invariant",
        "lookup_perm_invariant", "fold_perm_invariant", "firstFailure_ok_perm_invariant", "firstFailure_perm_invariant",
        # tie: inventory of hash-ordered traversals, each with the fingerprint and the effects of its body
        "hash_sites_covered", "site_effects_reviewed", "classified_all_current",
        "scoped_declarations_unobserved", "no_other_nondeterminism",
        # worked example of a commutative fold: Context::end_enum transcribed (Model/EnumRange.lean)
        "end_enum_shape_as_modelled", "end_enum_type_or_error_order_independent", "end_enum_panics_order_independent",
        "gather_panic_message_order_dependent", "end_enum_order_independent", "blame_first_order_dependent"]] + [
        "RsslVerif.Lemmas.EnumRange.foldl_perm_of_invariant",
        # the two non-trivial sites are proved order independent over the models of the code itself
        "RsslVerif.Thm.C02.closure_order_independent",      # usage-analysis fixpoint (recurse) vs key iteration order
        "RsslVerif.Thm.C02.required_order_independent",     # required_globals collect + sort
        "RsslVerif.Thm.C15.build_scope_order_independent",  # NameMap::build vs scope-map and key-map iteration order
    ],
    "harness": "c07",
    "custom": custom,
    "nontrivial": nontrivial,
    "rule": "generated shader files (up to 10 resources, 6 helpers with call graphs, 5 static globals threaded on Metal, "
            "3 pipelines) x 4 targets, plus the repository's own inputs under tests/ x {dx, msl}; each compiled 5 times in one "
            "process and once in each of 3 fresh processes; all digests (sources, stages, metadata, state, diagnostics) must "
            "be equal; non-trivial = the compilation succeeded",
    "level_text": "Proof of the logic, test of the runtime: every shape of hash-iteration site (collect+sort with an antisymmetric "
                  "order or an injective key, insert under distinct keys, commutative fold) is proved invariant under every "
                  "permutation of the iteration order, and the translator's inventory of iteration sites in the current source "
                  "is proved to contain only reviewed, classified sites (a new HashMap iteration breaks the obligation). The "
                  "actual SipHash seeds are runtime behaviour no model exhibits: they are exercised by repeated in-process and "
                  "fresh-process compilations compared byte for byte.",
    "trusted_base": [
        "Lean 4.33 kernel; axioms propext / Classical.choice / Quot.sound only",
        "tools/gens/c07.py: heuristic inventory of HashMap/HashSet iteration sites (names bound to hash types per file, "
        "hash-returning functions), uses of clocks/randomness/threads/env, consumers of ScopedDeclarations.variables",
        "the classification of each site into a shape in Thm/C07.lean `classified` is a reviewed reading of the code, not "
        "a theorem about the Rust code; for the usage-analysis fixpoint and NameMap::build the order independence is a "
        "theorem over the C02 / C15 models (which are tied to the code by their own correspondence runs)",
        "Rust's sort/sort_by return a sorted permutation; HashMap = finite map with unspecified iteration order",
    ],
    "assumptions": ["single-threaded safe Rust has no other source of nondeterminism than hash iteration order"],
}

/-!
# What "needs" means (C02, independent of the analysis)

A function *needs* a symbol when it mentions it, or calls (mentions) something that needs it:
reachability through the "mentions" relation, with at least one step.
-/
namespace RsslVerif.Spec.Usage

/-- reflexive-transitive closure -/
inductive Reach {α : Type} (R : α → α → Prop) : α → α → Prop
  | refl (a : α) : Reach R a a
  | tail {a b c : α} : Reach R a b → R b c → Reach R a c

theorem Reach.trans {α : Type} {R : α → α → Prop} {a b c : α} (h₁ : Reach R a b) (h₂ : Reach R b c) :
    Reach R a c := by
  induction h₂ with
  | refl => exact h₁
  | tail _ r ih => exact .tail ih r

theorem Reach.single {α : Type} {R : α → α → Prop} {a b : α} (r : R a b) : Reach R a b :=
  .tail (.refl a) r

theorem Reach.head {α : Type} {R : α → α → Prop} {a b c : α} (r : R a b) (h : Reach R b c) : Reach R a c :=
  (Reach.single r).trans h

/-- `g` is needed by `f`: some `h` reachable from `f` (possibly `f` itself) mentions `g` -/
def Needs {α : Type} (R : α → α → Prop) (f g : α) : Prop := ∃ h, Reach R f h ∧ R h g

theorem Needs.of_mentions {α : Type} {R : α → α → Prop} {f g : α} (r : R f g) : Needs R f g :=
  ⟨f, .refl f, r⟩

theorem Needs.trans {α : Type} {R : α → α → Prop} {a b c : α} (h₁ : Needs R a b) (h₂ : Needs R b c) :
    Needs R a c := by
  obtain ⟨x, hax, hxb⟩ := h₁
  obtain ⟨y, hby, hyc⟩ := h₂
  exact ⟨y, (Reach.tail hax hxb).trans hby, hyc⟩

end RsslVerif.Spec.Usage

// Preprocessor-grammar generator: multi-file programs (entry file + headers handed out by the include handler)
// and command-line (API) defines.  Everything the preprocessor has a code path for is in the grammar:
// object-like / function-like macros defined in one file and used from another, nested includes, include guards,
// `#pragma once`, missing files, conditionals over macros / `defined X` / `defined(X)` / function-like macros that
// expand to `defined`, unbalanced conditions, `#elif` chains, directives inside macro arguments, `#define` of
// keywords and of `defined`, (mutually) recursive macros, huge parameter lists, `##` at body ends, `#undef` of API
// defines, stray `#` forms and line splices at arbitrary positions.
// (included into c08_gen.rs)

pub struct PpProgram {
    /// first = the entry file `main.rssl`
    pub files: Vec<(String, String)>,
    pub defines: Vec<(String, String)>,
    pub cats: std::collections::BTreeSet<&'static str>,
}

const PP_OBJ: &[&str] = &["A", "B", "C", "FOO", "BAR", "X", "Y", "N", "VALUE", "ENABLE_X", "HAS_Y", "DEF", "E"];
const PP_FN: &[&str] = &["F", "G", "H", "ENABLED", "HAS", "CAT", "ID", "CALL", "SEL", "APPLY"];
const PP_PARAMS: &[&str] = &["x", "y", "z", "a", "b"];
const PP_UNKNOWN: &[&str] = &["UNDEF1", "Q", "nope", "RSSL_TARGET_HLSL", "RSSL_TARGET_MSL", "__HLSL_VERSION", "defined", "if", "int", "true"];
const PP_BINOPS: &[&str] = &["&&", "||", "==", "!=", "<", ">", "<=", ">=", "+", "-", "*", "/", "%", "&", "|", "^", "<<", ">>", ","];

/// command-line defines by category: (category, name, value)
const PP_API: &[(&str, &str, &str)] = &[
    ("api-object", "DEF", "1"),
    ("api-object", "FOO", "2"),
    ("api-object", "A", "B"),
    ("api-object", "VALUE", "(1 + 2)"),
    ("api-function", "ID(x)", "x"),
    ("api-function", "F(x)", "((x) + 1)"),
    ("api-function", "G(x, y)", "((x) * (y))"),
    ("api-function", "H()", "1"),
    ("api-function", "SEL(a,b)", "b"),
    ("api-empty", "E", ""),
    ("api-empty", "ENABLE_X", ""),
    ("api-empty", "", ""),
    ("api-empty", "", "1"),
    ("api-paste", "CAT(a,b)", "a ## b"),
    ("api-paste", "BAR", "x ## y"),
    ("api-paste", "CAT(a,b)", "a ##"),
    ("api-paste", "CAT(a,b)", "## b"),
    ("api-paste", "X", "##"),
    ("api-defined", "ENABLED(x)", "(defined x)"),
    ("api-defined", "ENABLED(x)", "defined(x)"),
    ("api-defined", "HAS(x)", "defined x && x"),
    ("api-defined", "HAS_Y", "defined(Y)"),
    ("api-defined", "HAS_Y", "defined Y"),
    ("api-defined", "X", "defined"),
    ("api-defined", "defined", "1"),
    ("api-defined", "defined(x)", "x"),
    ("api-odd-name", "1X", "1"),
    ("api-odd-name", "A B", "1"),
    ("api-odd-name", "F(", "1"),
    ("api-odd-name", "F(x", "x"),
    ("api-odd-name", "F(x,x)", "x"),
    ("api-odd-name", "F(1)", "x"),
    ("api-odd-name", "F(...)", "__VA_ARGS__"),
    ("api-odd-name", "if", "1"),
    ("api-odd-name", "int", "float"),
    ("api-odd-name", "@", "1"),
    ("api-builtin", "RSSL_TARGET_HLSL", "2"),
    ("api-builtin", "RSSL_TARGET_MSL", ""),
    ("api-builtin", "__HLSL_VERSION", "x"),
    ("api-odd-value", "X", "1\n"),
    ("api-odd-value", "X", "1\n#define Y 2"),
    ("api-odd-value", "X", "1 \\\n 2"),
    ("api-odd-value", "X", "\"s"),
    ("api-odd-value", "X", "/* c"),
    ("api-odd-value", "X", "// c"),
    ("api-odd-value", "X", "@"),
    ("api-odd-value", "X", "X"),
    ("api-odd-value", "A", "B A"),
    ("api-odd-value", "Y", "#include \"h0.h\""),
    ("api-odd-value", "N", "99999999999999999999"),
];

struct Pp<'a> {
    rng: &'a mut Rng,
    /// macros the program defines somewhere (name, parameter count of a function-like one)
    macros: Vec<(String, Option<usize>)>,
    cats: std::collections::BTreeSet<&'static str>,
    n: u32,
    headers: Vec<String>,
    /// well-formed mode: only macros with numeric bodies, well-formed invocations and conditions, existing headers —
    /// such programs get through the preprocessor and reach the later stages
    tame: bool,
    /// nesting depth of conditional blocks at the point of generation
    cond_depth: u32,
}

impl<'a> Pp<'a> {
    /// a macro defined from here on; in well-formed mode a definition inside a conditional gets a fresh name and is
    /// not remembered (it may not exist when the block is skipped)
    fn register(&mut self, name: String, arity: Option<usize>) -> String {
        if self.tame && self.cond_depth > 0 {
            self.n += 1;
            return format!("L{}", self.n);
        }
        self.macros.retain(|m| m.0 != name);
        self.macros.push((name.clone(), arity));
        name
    }

    fn cat(&mut self, c: &'static str) {
        self.cats.insert(c);
    }

    fn obj_name(&mut self) -> String {
        let known: Vec<String> = self.macros.iter().filter(|m| m.1.is_none()).map(|m| m.0.clone()).collect();
        if self.tame {
            return if known.is_empty() { self.rng.below(9).to_string() } else { known[self.rng.below(known.len() as u64) as usize].clone() };
        }
        if !known.is_empty() && self.rng.chance(2, 3) {
            known[self.rng.below(known.len() as u64) as usize].clone()
        } else if self.rng.chance(1, 6) {
            self.rng.pick(PP_UNKNOWN).to_string()
        } else {
            self.rng.pick(PP_OBJ).to_string()
        }
    }

    fn fn_macro(&mut self) -> (String, usize) {
        let known: Vec<(String, usize)> = self.macros.iter().filter_map(|m| m.1.map(|k| (m.0.clone(), k))).collect();
        if !known.is_empty() && (self.tame || self.rng.chance(4, 5)) {
            known[self.rng.below(known.len() as u64) as usize].clone()
        } else {
            (self.rng.pick(PP_FN).to_string(), 1 + self.rng.below(2) as usize)
        }
    }

    /// an identifier-like operand: mostly a plain name that is not a macro (what `defined` wants)
    fn plain_ident(&mut self) -> String {
        match self.rng.below(6) {
            0..=2 => self.rng.pick(PP_OBJ).to_string(),
            3 => self.rng.pick(PP_UNKNOWN).to_string(),
            4 => self.rng.pick(PP_FN).to_string(),
            _ => format!("u{}", self.rng.below(4)),
        }
    }

    /// invocation of a function-like macro (well-formed most of the time)
    fn call(&mut self, depth: u32, arg: &mut dyn FnMut(&mut Self, u32) -> String) -> String {
        let known = self.macros.iter().any(|m| m.1.is_some());
        if self.tame && !known {
            return arg(self, depth);
        }
        let (name, arity) = self.fn_macro();
        let shape = if self.tame { 5 + self.rng.below(19) } else { self.rng.below(24) };
        let shape = if arity == 0 && self.tame { 23 } else { shape };
        let mut args: Vec<String> = (0..arity).map(|_| arg(self, depth)).collect();
        match shape {
            0 => {
                self.cat("call-unterminated");
                format!("{}({}", name, args.join(", "))
            }
            1 => {
                self.cat("call-without-arguments");
                format!("{} {}", name, args.join(" "))
            }
            2 => {
                self.cat("call-wrong-arity");
                args.push("1".into());
                format!("{}({})", name, args.join(", "))
            }
            3 => {
                self.cat("call-wrong-arity");
                format!("{}()", name)
            }
            4 => {
                self.cat("call-empty-arguments");
                format!("{}({})", name, vec![""; arity.max(1)].join(","))
            }
            5 => {
                self.cat("call-nested-parentheses");
                format!("{}({})", name, args.iter().map(|a| format!("({}, {})", a, a)).collect::<Vec<_>>().join(", "))
            }
            6 => {
                self.cat("call-space-before-parenthesis");
                format!("{} \t({})", name, args.join(" , "))
            }
            7 => {
                self.cat("call-nested-same-macro");
                let inner = format!("{}({})", name, args.join(", "));
                let mut a2 = args.clone();
                if !a2.is_empty() {
                    a2[0] = inner;
                }
                format!("{}({})", name, a2.join(", "))
            }
            _ => {
                self.cat("call");
                format!("{}({})", name, args.join(", "))
            }
        }
    }

    // ---------------------------------------------------------------------------------- #if conditions

    fn cond_atom(&mut self, depth: u32) -> String {
        if self.tame {
            return match self.rng.below(10) {
                0..=1 => self.rng.below(3).to_string(),
                2..=3 => {
                    self.cat("cond-macro");
                    self.obj_name()
                }
                4..=5 => {
                    self.cat("cond-defined-bare");
                    format!("defined {}", self.plain_ident())
                }
                6..=7 => {
                    self.cat("cond-defined-paren");
                    format!("defined({})", self.plain_ident())
                }
                8 => {
                    self.cat("cond-function-macro");
                    let mut f = |s: &mut Self, _d: u32| s.rng.below(4).to_string();
                    self.call(0, &mut f)
                }
                _ if depth > 0 => format!("(!{})", self.cond(depth - 1)),
                _ => "1".to_string(),
            };
        }
        match self.rng.below(30) {
            0..=2 => self.rng.pick(&["0", "1", "2", "0u", "1L", "0x10", "4294967296", "99999999999999999999", "1.0", "'a'", "\"s\"", "true", "false", "4294967296u", "1ul", "017"]).to_string(),
            3..=5 => {
                self.cat("cond-macro");
                self.obj_name()
            }
            6..=8 => {
                self.cat("cond-defined-bare");
                format!("defined {}", self.plain_ident())
            }
            9..=11 => {
                self.cat("cond-defined-paren");
                let sp = *self.rng.pick(&["", "", " ", "\t"]);
                format!("defined{}({}{}{})", sp, sp, self.plain_ident(), sp)
            }
            12 => {
                self.cat("cond-defined-malformed");
                self.rng.pick(&["defined", "defined(", "defined()", "defined(A B)", "defined 1", "defined(1)", "defined defined", "defined(A, B)", "defined A B",
                    "defined((A))", "defined ## A", "defined\\\nA", "defined/**/A", "defined !A"]).to_string()
            }
            13..=19 => {
                // function-like macro in the condition: feature-test helpers expand to `defined`
                self.cat("cond-function-macro");
                let mut f = |s: &mut Self, d: u32| match s.rng.below(8) {
                    0..=4 => s.plain_ident(),
                    5 => s.obj_name(),
                    6 => format!("defined {}", s.plain_ident()),
                    _ => {
                        if d > 0 { s.cond(d - 1) } else { "1".to_string() }
                    }
                };
                self.call(depth, &mut f)
            }
            20 => {
                self.cat("cond-paste");
                format!("{} ## {}", self.plain_ident(), self.plain_ident())
            }
            21..=23 if depth > 0 => format!("({})", self.cond(depth - 1)),
            24..=25 if depth > 0 => format!("!{}", self.cond_atom(depth - 1)),
            26 => format!("-{}", self.cond_atom(0)),
            27..=28 => {
                // an object-like macro in operator position: its expansion (`defined`, the name of a function-like
                // macro) meets the operand only after the replacement
                self.cat("cond-object-macro-then-operand");
                let o = self.obj_name();
                match self.rng.below(3) {
                    0 => format!("{} {}", o, self.plain_ident()),
                    1 => format!("{}({})", o, self.plain_ident()),
                    _ => format!("{} ({}, {})", o, self.plain_ident(), self.plain_ident()),
                }
            }
            _ => self.obj_name(),
        }
    }

    fn cond(&mut self, depth: u32) -> String {
        let mut s = self.cond_atom(depth);
        let n = match self.rng.below(6) {
            0..=2 => 0,
            3..=4 => 1,
            _ => 2 + self.rng.below(3),
        };
        for _ in 0..n {
            let op = if self.tame { *self.rng.pick(&["&&", "||", "==", "!=", "<", ">", "+", "*"]) } else { *self.rng.pick(PP_BINOPS) };
            let rhs = self.cond_atom(depth);
            s = format!("{} {} {}", s, op, rhs);
        }
        if !self.tame && self.rng.chance(1, 14) {
            self.cat("cond-unbalanced");
            let cs: Vec<char> = s.chars().collect();
            let k = self.rng.below(cs.len() as u64 + 1) as usize;
            let p = *self.rng.pick(&['(', ')', '(', ')', ',']);
            s = cs[..k].iter().chain(std::iter::once(&p)).chain(cs[k..].iter()).collect();
        }
        s
    }

    // ---------------------------------------------------------------------------------- macro bodies

    fn body(&mut self, own: &str, params: &[String]) -> String {
        let p = |s: &mut Self| -> String {
            if params.is_empty() { s.plain_ident() } else { params[s.rng.below(params.len() as u64) as usize].clone() }
        };
        let r = if self.tame { self.rng.below(5) } else { self.rng.below(32) };
        if self.tame && params.is_empty() {
            return self.rng.pick(&["1", "0", "42", "(1 + 2)", "7"]).to_string();
        }
        match r {
            0..=4 => {
                let a = p(self);
                let b = p(self);
                self.rng.pick(if self.tame { &["1", "0", "42", "(1 + 1)", "3", "2"] } else { &["1", "0", "42u", "(A + 1)", "-1", "1.0f"] }).to_string()
                    + &match self.rng.below(4) {
                        0 => String::new(),
                        1 => format!(" + ({})", a),
                        2 => format!(" * ({}) + ({})", a, b),
                        _ => format!(" << {}", a),
                    }
            }
            5..=7 => {
                self.cat("body-uses-macro");
                let mut f = |s: &mut Self, _d: u32| if s.rng.chance(1, 2) { s.obj_name() } else { s.plain_ident() };
                let c = self.call(0, &mut f);
                format!("{} {}", c, self.obj_name())
            }
            30..=31 => {
                // the body is (or ends with) the name of a function-like macro or `defined`: the invocation is
                // completed by the tokens that follow the expansion
                self.cat("body-ends-with-function-name");
                match self.rng.below(4) {
                    0 => "defined".to_string(),
                    1 => self.fn_macro().0,
                    2 => format!("1 + {}", self.fn_macro().0),
                    _ => format!("{} (", self.fn_macro().0),
                }
            }
            8..=9 => {
                self.cat("body-recursive");
                match self.rng.below(4) {
                    0 => own.to_string(),
                    1 => format!("{} + 1", own),
                    2 => format!("{}({})", own, p(self)),
                    _ => format!("{}({}({}))", self.rng.pick(PP_FN), own, p(self)),
                }
            }
            10..=16 => {
                self.cat("body-defined");
                let a = p(self);
                let b = p(self);
                match self.rng.below(12) {
                    0 | 1 => format!("defined {}", a),
                    2 | 3 => format!("(defined {})", a),
                    4 => format!("defined({})", a),
                    5 => format!("defined ( {} )", a),
                    6 => format!("defined {} && defined {}", a, b),
                    7 => format!("!defined {}", a),
                    8 => format!("(defined({}) || {})", a, self.obj_name()),
                    9 => format!("(defined {} && {})", a, a),
                    10 => "defined".to_string(),
                    _ => format!("defined {}", self.plain_ident()),
                }
            }
            17..=21 => {
                self.cat("body-paste");
                let a = p(self);
                let b = p(self);
                match self.rng.below(14) {
                    0 | 1 => format!("{} ## {}", a, b),
                    2 => format!("{} ##", a),
                    3 => format!("## {}", a),
                    4 => format!("{} ## 1", a),
                    5 => format!("pre_ ## {} ## _post", a),
                    6 => format!("{} ## ## {}", a, b),
                    7 => "##".to_string(),
                    8 => format!("{} ## {}", self.obj_name(), a),
                    9 => format!("{}##{}##{}", a, b, a),
                    10 => format!("{} ## \"", a),
                    11 => format!("\" ## {}", a),
                    12 => format!("{} ## /* c */ {}", a, b),
                    _ => format!("{} ## +", a),
                }
            }
            22..=24 => {
                self.cat("body-junk");
                let a = p(self);
                match self.rng.below(12) {
                    0 => format!("({}", a),
                    1 => format!("{})", a),
                    2 => format!("{}, {}", a, a),
                    3 => format!("#{}", a),
                    4 => format!("# {}", a),
                    5 => "__VA_ARGS__".to_string(),
                    6 => format!("if ({}) return;", a),
                    7 => "\"str\"".to_string(),
                    8 => "/* comment */".to_string(),
                    9 => format!("{} // trailing", a),
                    10 => "\"unterminated".to_string(),
                    _ => format!("{} \\", a),
                }
            }
            25 => {
                self.cat("body-empty");
                String::new()
            }
            26 => {
                self.cat("body-long");
                let a = p(self);
                let k = 10 + self.rng.below(60) as usize;
                vec![format!("({})", a); k].join(" + ")
            }
            27 => {
                self.cat("body-deep-calls");
                let a = p(self);
                let k = 2 + self.rng.below(12) as usize;
                let f = self.fn_macro().0;
                format!("{}{}{}", format!("{}(", f).repeat(k), a, ")".repeat(k))
            }
            _ => {
                let a = p(self);
                let b = p(self);
                format!("(({}) + ({}))", a, b)
            }
        }
    }

    // ---------------------------------------------------------------------------------- lines

    fn define_line(&mut self) -> String {
        let r = if self.tame { self.rng.below(28) } else { self.rng.below(40) };
        let hash = *self.rng.pick(&["#define", "#define", "#define", "# define", "#\tdefine", "  #define", "#define\t"]);
        match r {
            0..=11 => {
                self.cat("define-object");
                let name = self.rng.pick(PP_OBJ).to_string();
                let body = self.body(&name, &[]);
                let name = self.register(name, None);
                format!("{} {} {}", hash, name, body)
            }
            12..=27 => {
                self.cat("define-function");
                let name = self.rng.pick(PP_FN).to_string();
                let np = match self.rng.below(8) {
                    0 => 0,
                    1..=4 => 1,
                    5..=6 => 2,
                    _ => 3,
                };
                let params: Vec<String> = PP_PARAMS[..np].iter().map(|s| s.to_string()).collect();
                let body = self.body(&name, &params);
                let name = self.register(name, Some(np));
                let sep = *self.rng.pick(&[", ", ",", " , "]);
                format!("{} {}({}) {}", hash, name, params.join(sep), body)
            }
            28 => {
                self.cat("define-huge-parameter-list");
                let name = self.rng.pick(PP_FN).to_string();
                let np = *self.rng.pick(&[40usize, 64, 130, 300]);
                let params: Vec<String> = (0..np).map(|k| format!("p{}", k)).collect();
                let name = self.register(name, Some(np));
                format!("#define {}({}) p0 + p{}", name, params.join(","), np - 1)
            }
            29..=31 => {
                self.cat("define-keyword-or-defined");
                self.rng.pick(&["#define defined 1", "#define defined(x) x", "#define defined", "#define if while", "#define int float", "#define return",
                    "#define true false", "#define __HLSL_VERSION 1", "#define RSSL_TARGET_HLSL RSSL_TARGET_MSL", "#define struct", "#define void int",
                    "#define Pipeline", "#define include define"]).to_string()
            }
            32..=35 => {
                self.cat("define-malformed");
                let name = self.rng.pick(PP_FN).to_string();
                match self.rng.below(12) {
                    0 => format!("#define {}(x", name),
                    1 => format!("#define {}(x,x) x", name),
                    2 => format!("#define {}(1) x", name),
                    3 => format!("#define {}(...) __VA_ARGS__", name),
                    4 => "#define".to_string(),
                    5 => "#define 1".to_string(),
                    6 => format!("#define {}(x,) x", name),
                    7 => format!("#define {}(,x) x", name),
                    8 => format!("#define {} (x) x", name),
                    9 => format!("#define {}(x y) x", name),
                    10 => "#define (x) x".to_string(),
                    _ => format!("#define {}(x)x", name),
                }
            }
            36..=37 => {
                // mutually recursive pair on one go
                self.cat("define-mutual-recursion");
                let (a, b) = (self.rng.pick(PP_OBJ).to_string(), self.rng.pick(PP_OBJ).to_string());
                self.macros.push((a.clone(), None));
                self.macros.push((b.clone(), None));
                match self.rng.below(3) {
                    0 => format!("#define {} {}\n#define {} {}", a, b, b, a),
                    1 => format!("#define {} {} + 1\n#define {} ID({})\n#define ID(x) x {}", a, b, b, a, a),
                    _ => format!("#define {}(x) {}(x)\n#define {}(x) {}(x) x", "F", "G", "G", "F"),
                }
            }
            _ => {
                self.cat("define-redefinition");
                let name = self.obj_name();
                format!("#define {} {}\n#define {} {}", name, self.rng.below(5), name, self.rng.below(5))
            }
        }
    }

    fn undef_line(&mut self) -> String {
        self.cat("undef");
        if self.tame {
            return format!("#undef {}", self.rng.pick(PP_UNKNOWN[..3].as_ref()));
        }
        match self.rng.below(8) {
            0..=3 => format!("#undef {}", self.obj_name()),
            4 => format!("#undef {}", self.fn_macro().0),
            5 => format!("#undef {}", self.rng.pick(&["DEF", "FOO", "RSSL_TARGET_HLSL", "RSSL_TARGET_MSL", "__HLSL_VERSION", "ENABLED", "X", "E"])),
            6 => self.rng.pick(&["#undef", "#undef 1", "#undef A B", "#undef (A)", "#undef defined", "# undef A"]).to_string(),
            _ => format!("#undef {}\n#undef {}", self.obj_name(), self.obj_name()),
        }
    }

    fn include_line(&mut self, level: usize) -> String {
        let deeper: Vec<String> = self.headers.iter().skip(level).cloned().collect();
        if self.tame {
            self.cat("include-header");
            return if deeper.is_empty() { String::new() } else { format!("#include \"{}\"", deeper[self.rng.below(deeper.len() as u64) as usize]) };
        }
        match self.rng.below(16) {
            0..=8 if !deeper.is_empty() => {
                self.cat("include-header");
                let h = deeper[self.rng.below(deeper.len() as u64) as usize].clone();
                if self.rng.chance(1, 4) { format!("#include <{}>", h) } else { format!("#include \"{}\"", h) }
            }
            9 => {
                self.cat("include-missing-file");
                "#include \"nope.h\"".to_string()
            }
            10 => {
                self.cat("include-self-or-cycle");
                if self.headers.is_empty() || self.rng.chance(1, 2) {
                    "#include \"main.rssl\"".to_string()
                } else {
                    format!("#include \"{}\"", self.rng.pick(&self.headers.clone()))
                }
            }
            11 => {
                self.cat("include-malformed");
                self.rng.pick(&["#include", "#include HNAME", "#include \"h0.h\" x", "#include <h0.h", "#include \"h0.h", "#include h0.h", "#include <>", "#include \"\"",
                    "#include \"h0.h\" \"h1.h\"", "# include \"h0.h\"", "#include/**/\"h0.h\""]).to_string()
            }
            _ => {
                self.cat("include-header");
                if self.headers.is_empty() { "#include \"nope.h\"".to_string() } else { format!("#include \"{}\"", self.rng.pick(&self.headers.clone())) }
            }
        }
    }

    fn stray_line(&mut self) -> String {
        self.cat("stray-hash-form");
        self.rng.pick(&["#", "# ", "#1", "#!", "##", "#\\", "#error x", "#line 1", "#if", "#elif", "#else x", "#endif x", "#ifdef", "#ifndef 1", "#ifdef A B",
            "#pragma", "#pragma foo", "#pragma once x", "#pragma warning(disable: 1)", "#unknown", "# # define A", "#define", "#\"x\"", "#(", "a # b", "a ## b",
            "#/* c */define A 1", "#if 1 // c", "#endif // c", "#else /* c */", "%:define A", "??=define A", "#ifndef", "#elif 1 1", "#if 1 +", "#if ()", "#if 1 ? 2 : 3",
            "#if 1 / 0", "#if 1 % 0", "#if 1 << 64", "#if -1 < 0u", "#if 0x", "#if 1.0", "#if \"s\"", "#if A(", "#if ,"]).to_string()
    }

    fn use_expr(&mut self, depth: u32) -> String {
        let mut s = match self.rng.below(10) {
            0..=2 => self.rng.below(9).to_string(),
            3..=5 => {
                self.cat("use-object-macro");
                self.obj_name()
            }
            _ => {
                self.cat("use-function-macro");
                let mut f = |s: &mut Self, d: u32| if d > 0 && s.rng.chance(1, 2) { s.use_expr(d - 1) } else { s.rng.below(9).to_string() };
                self.call(depth, &mut f)
            }
        };
        if self.rng.chance(1, 3) && depth > 0 {
            s = format!("{} {} {}", s, self.rng.pick(&["+", "*", "-", "|"]), self.use_expr(depth - 1));
        }
        s
    }

    fn text_line(&mut self) -> String {
        self.n += 1;
        let n = self.n;
        let r = if self.tame { self.rng.below(8) } else { self.rng.below(12) };
        match r {
            0..=5 => {
                self.cat("text-constant");
                format!("static const int k{} = {};", n, self.use_expr(2))
            }
            6..=7 => {
                self.cat("text-function");
                format!("int fn{}(int x) {{ return {}; }}", n, self.use_expr(2))
            }
            8..=9 => {
                self.cat("directive-inside-macro-arguments");
                let (name, _) = self.fn_macro();
                let c = self.cond(0);
                match self.rng.below(3) {
                    0 => format!("static const int k{} = {}(1,\n#if {}\n2\n#endif\n);", n, name, c),
                    1 => format!("static const int k{} = {}(\n#define A 3\nA);", n, name),
                    _ => format!("static const int k{} = {}(1\n#include \"nope.h\"\n);", n, name),
                }
            }
            10 => {
                self.cat("text-macro-across-lines");
                let (name, _) = self.fn_macro();
                format!("static const int k{} = {}\n(\n1\n)\n;", n, name)
            }
            _ => {
                self.cat("text-bare-macro");
                self.use_expr(1)
            }
        }
    }

    fn cond_block(&mut self, level: usize, depth: u32, out: &mut Vec<String>) {
        let head = match self.rng.below(8) {
            0..=4 => {
                self.cat("if");
                format!("#if {}", self.cond(2))
            }
            5 => {
                self.cat("ifdef");
                format!("#ifdef {}", self.obj_name())
            }
            6 => {
                self.cat("ifndef");
                format!("#ifndef {}", self.obj_name())
            }
            _ => {
                self.cat("if");
                format!("# if {}", self.cond(1))
            }
        };
        out.push(head);
        self.cond_depth += 1;
        let n = self.rng.below(3);
        for _ in 0..n {
            self.line(level, depth, out);
        }
        let elifs = match self.rng.below(8) {
            0..=3 => 0,
            4..=5 => 1,
            6 => 2,
            _ => 5,
        };
        for _ in 0..elifs {
            self.cat("elif-chain");
            out.push(format!("#elif {}", self.cond(1)));
            if self.rng.chance(2, 3) {
                self.line(level, depth, out);
            }
        }
        if self.rng.chance(1, 2) {
            out.push("#else".into());
            if self.rng.chance(2, 3) {
                self.line(level, depth, out);
            }
            if !self.tame && self.rng.chance(1, 20) {
                self.cat("else-after-else");
                out.push("#else".into());
            }
        }
        self.cond_depth -= 1;
        if !self.tame && self.rng.chance(1, 16) {
            self.cat("endif-missing");
        } else {
            out.push("#endif".into());
        }
        if !self.tame && self.rng.chance(1, 30) {
            self.cat("endif-extra");
            out.push("#endif".into());
        }
    }

    fn line(&mut self, level: usize, depth: u32, out: &mut Vec<String>) {
        match self.rng.below(32) {
            0..=8 => {
                let l = self.define_line();
                out.push(l)
            }
            9..=10 => {
                let l = self.undef_line();
                out.push(l)
            }
            11..=15 if depth > 0 => self.cond_block(level, depth - 1, out),
            16..=19 => {
                let l = self.include_line(level);
                out.push(l)
            }
            20 if !self.tame => {
                let l = self.stray_line();
                out.push(l)
            }
            21 => {
                self.cat("pragma");
                out.push(self.rng.pick(&["#pragma warning(disable: 4000)", "#pragma once", "#pragma pack_matrix(row_major)"][..if self.tame { 1 } else { 3 }]).to_string())
            }
            _ => {
                let l = self.text_line();
                out.push(l)
            }
        }
    }

    /// line splices (`\` + newline) at arbitrary character positions of some lines
    fn splice(&mut self, text: String) -> String {
        if !self.rng.chance(1, 5) {
            return text;
        }
        self.cat("line-splice");
        let mut out = String::new();
        let everywhere = self.rng.chance(1, 4);
        for line in text.split_inclusive('\n') {
            if !(everywhere || self.rng.chance(1, 6)) || line.len() < 2 {
                out.push_str(line);
                continue;
            }
            let cs: Vec<char> = line.chars().collect();
            let k = 1 + self.rng.below(3);
            let mut cuts: Vec<usize> = (0..k).map(|_| self.rng.below(cs.len() as u64) as usize).collect();
            if self.tame {
                // between tokens only (a splice is a white-space token for this lexer); never inside a directive's name
                cuts.retain(|&i| i > 0 && cs[i] == ' ' && !line.trim_start().starts_with('#'));
            }
            cuts.sort();
            cuts.dedup();
            for (i, c) in cs.iter().enumerate() {
                if cuts.contains(&i) {
                    out.push_str(if self.rng.chance(1, 6) { "\\\r\n" } else { "\\\n" });
                }
                out.push(*c);
            }
        }
        out
    }

    fn header(&mut self, level: usize, name: &str) -> String {
        let mut lines: Vec<String> = Vec::new();
        let guard = name.replace('.', "_").to_uppercase();
        let style = if self.tame { self.rng.below(5) + if self.rng.chance(1, 4) { 3 } else { 0 } } else { self.rng.below(8) };
        let style = if self.tame && style == 5 { 6 } else { style };
        match style {
            0..=2 => {
                self.cat("include-guard");
                lines.push(format!("#ifndef {}", guard));
                lines.push(format!("#define {}", guard));
            }
            3..=4 => {
                self.cat("pragma-once");
                lines.push("#pragma once".into());
            }
            5 => {
                self.cat("include-guard-broken");
                lines.push(format!("#ifndef {}", guard));
            }
            _ => {}
        }
        if self.tame && level < self.headers.len() {
            // everything the deeper headers define is available below
            lines.push(format!("#include \"{}\"", self.headers[level]));
        }
        // headers are mostly definitions
        let n = 1 + self.rng.below(5);
        for _ in 0..n {
            if self.rng.chance(3, 5) {
                let l = self.define_line();
                lines.push(l);
            } else {
                self.line(level, 2, &mut lines);
            }
        }
        if style <= 2 {
            lines.push("#endif".into());
        }
        let mut t = lines.join("\n");
        if self.tame || !self.rng.chance(1, 10) {
            t.push('\n');
        } else {
            self.cat("file-without-final-newline");
        }
        self.splice(t)
    }
}

pub fn gen_pp(rng: &mut Rng) -> PpProgram {
    let tame = rng.chance(2, 5);
    let mut g = Pp { rng, macros: Vec::new(), cats: Default::default(), n: 0, headers: Vec::new(), tame, cond_depth: 0 };
    if tame {
        g.cat("well-formed-program");
    }
    // ---- command-line defines
    let mut defines: Vec<(String, String)> = Vec::new();
    let nd = match g.rng.below(8) {
        0..=2 => 0,
        3..=5 => 1,
        6 => 2,
        _ => 4,
    };
    for _ in 0..nd {
        // two thirds from the well-formed categories, so that the program behind the defines is reached
        let (cat, name, value) = loop {
            let d = *g.rng.pick(if g.tame { &PP_API[..9] } else { PP_API });
            if g.tame && d.1 == "A" {
                continue;
            }
            let well_formed = matches!(d.0, "api-object" | "api-function" | "api-paste" | "api-defined") || (d.0 == "api-empty" && !d.1.is_empty());
            if well_formed || g.rng.chance(1, 3) {
                break d;
            }
        };
        g.cat(cat);
        defines.push((name.to_string(), value.to_string()));
        if let Some((n, ps)) = name.split_once('(') {
            g.macros.push((n.to_string(), Some(if ps.trim_end_matches(')').trim().is_empty() { 0 } else { ps.matches(',').count() + 1 })));
        } else if !name.is_empty() {
            g.macros.push((name.to_string(), None));
        }
    }
    if nd >= 2 && !g.tame && g.rng.chance(1, 4) {
        g.cat("api-duplicate");
        let d = defines[0].clone();
        defines.push(d);
    }
    // ---- headers, innermost first (a header may include the ones generated before it)
    let nh = match g.rng.below(8) {
        0 => 0,
        1..=3 => 1,
        4..=5 => 2,
        6 => 3,
        _ => 4,
    };
    let names: Vec<String> = (0..nh).map(|k| format!("h{}.h", k)).collect();
    let mut files: Vec<(String, String)> = Vec::new();
    for k in (0..nh).rev() {
        // header k may include headers k+1..
        g.headers = names.clone();
        let text = g.header(k + 1, &names[k]);
        files.push((names[k].clone(), text));
    }
    files.reverse();
    // ---- the entry file
    g.headers = names.clone();
    let mut lines: Vec<String> = Vec::new();
    // includes come early most of the time, so that what the headers define is used below
    for (k, h) in names.iter().enumerate() {
        if (g.tame && k == 0) || (!g.tame && g.rng.chance(3, 4)) {
            g.cat("include-header");
            lines.push(format!("#include \"{}\"", h));
        }
    }
    let n = 2 + g.rng.below(9);
    for _ in 0..n {
        g.line(0, 3, &mut lines);
    }
    let mut main = lines.join("\n");
    main.push('\n');
    if g.tame || g.rng.chance(4, 5) {
        g.cat("valid-shader-tail");
        let e = g.use_expr(2);
        main.push_str(&format!(
            "RWStructuredBuffer<uint> g_o;\n[numthreads(1, 1, 1)]\nvoid CSMAIN(uint3 id : SV_DispatchThreadID) {{ g_o[0] = (uint)({}); }}\nPipeline Main {{ ComputeShader = CSMAIN; }}\n",
            e
        ));
    }
    let main = g.splice(main);
    let mut all = vec![("main.rssl".to_string(), main)];
    all.extend(files);
    PpProgram { files: all, defines, cats: g.cats }
}

/// `gen_pp` + one token-level mutation in one of its files (or in the value of a define)
pub fn gen_pp_mutated(rng: &mut Rng) -> PpProgram {
    let mut p = gen_pp(rng);
    let k = rng.below(p.files.len() as u64 + if p.defines.is_empty() { 0 } else { 1 }) as usize;
    if k < p.files.len() {
        let t = mutate_pp_tokens(&p.files[k].1, rng);
        p.files[k].1 = t;
    } else {
        let d = rng.below(p.defines.len() as u64) as usize;
        let t = mutate_pp_tokens(&p.defines[d].1, rng);
        p.defines[d].1 = t;
    }
    p.cats.insert("token-mutation");
    p
}

const PP_TOKENS: &[&str] = &["#", "##", "(", ")", ",", "defined", "\\\n", "\n", "#define", "#if", "#elif", "#else", "#endif", "#undef", "#include", "A", "F", "F(",
    "x", "1", "0", "!", "&&", "\"", "/*", "*/", "//", "<", ">", "ENABLED", "__HLSL_VERSION", " "];

/// delete / duplicate / swap / replace / insert one token, with the preprocessor's own vocabulary as replacements
pub fn mutate_pp_tokens(src: &str, rng: &mut Rng) -> String {
    let mut toks = split_tokens(src);
    if toks.is_empty() {
        return rng.pick(PP_TOKENS).to_string();
    }
    let k = rng.below(toks.len() as u64) as usize;
    match rng.below(6) {
        0 => {
            toks.remove(k);
        }
        1 => {
            let t = toks[k].clone();
            toks.insert(k, t);
        }
        2 => {
            let k2 = rng.below(toks.len() as u64) as usize;
            toks.swap(k, k2);
        }
        3 => toks[k] = rng.pick(PP_TOKENS).to_string(),
        4 => toks.insert(k, rng.pick(PP_TOKENS).to_string()),
        _ => {
            // move a whole line somewhere else
            let text = toks.concat();
            let mut lines: Vec<&str> = text.split_inclusive('\n').collect();
            if lines.len() > 1 {
                let a = rng.below(lines.len() as u64) as usize;
                let l = lines.remove(a);
                let b = rng.below(lines.len() as u64 + 1) as usize;
                lines.insert(b, l);
            }
            return lines.concat();
        }
    }
    toks.concat()
}

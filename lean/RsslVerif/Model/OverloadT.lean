import RsslVerif.Model.Overload
/-!
# Overload candidates of every kind that reaches `find_function_type`

`find_function_type` (typer/src/typer/expressions.rs) is the one resolution routine behind free functions,
struct methods (external `s.f(..)` and internal `f(..)` calls, also of instantiated struct templates), functions in
namespaces, user functions that share the name of an intrinsic (they join the intrinsic's overload list in the root
scope) and intrinsic methods of objects.  What differs between the paths is only *which* `Vec<FunctionId>` is handed
over (scopes.rs `find_identifier_in_scope`: the innermost scope that knows the name, nothing from outer scopes;
`get_struct_member_expression`: the methods of the struct in declaration order; `get_object_functions`).

What differs between candidate *kinds* is the first half of `find_overload_casts`: a function template is turned into a
concrete signature first (explicit template arguments, then `try_infer_template_type` over the parameters in order,
`normalize_template_type`, `build_function_template_signature` / `build_intrinsic_template`), and that step can fail
(candidate not viable).  Up to /repo 5dca4fc it could also panic (`register_type`: "… inside vector", `todo!()` for a
constant given for a type parameter); since that fix such template arguments make the candidate not viable
(`substPTy`), and `Thm.C16.templates_never_panic` proves that no panic site is left.  The `GCand` layer keeps the
panic outcome of an instantiation step so that this stays a theorem about the model and not an assumption.

After a successful resolution `write_function` / `write_method` apply the casts and run `check_output_arguments`
(/repo b359800, 3758fdd): an argument for an `out` / `inout` parameter must still be a mutable lvalue *after* its
conversion — `callT` below.  This file models

* `GCand`: a candidate whose instantiation step is an arbitrary function of the argument types (the form the theorems
  quantify over: *any* deduction relation, any arity range),
* `TCand`: the concrete function templates the generator writes (`T`, `vector<T, n>`, `matrix<T, x, y>` parameters,
  type and value template parameters, explicit template arguments) with `TCand.toG`, the transcription of the template
  half of `find_overload_casts`,
* `resolveG` (rank everything first) and `resolveGLazy` (evaluation order of the source), proved equal in
  `Thm.C16.resolveGLazy_eq_resolveG`,
* `callT`: the verdict on the whole call — `resolveTLazy`, then the output-argument check on the selected candidate.
-/
namespace RsslVerif.Model.Overload
open RsslVerif.Gen.RankTable RsslVerif.Model.Conv

/-- a candidate as `find_function_type` sees it: `FunctionId`, `signature.param_types.len()`,
    `signature.non_default_params`, and the template half of `find_overload_casts` as a function of the argument
    types: `.error` = panic, `.ok none` = `Err(())`, `.ok (some ps)` = the parameter list of the (instantiated)
    signature -/
structure GCand where
  id : Nat
  arity : Nat
  nonDefault : Nat
  inst : List ETy → Except String (Option (List Param))

/-- an ordinary function is its own instance -/
def Cand.toG (c : Cand) : GCand := ⟨c.id, c.params.length, c.nonDefault, fun _ => .ok (some c.params)⟩

/-- arity guard of `find_function_type`, then `find_overload_casts` (template step, `zip` loop) and `get_rank` -/
def rankG (args : List ETy) (g : GCand) : CandResult :=
  if args.length ≤ g.arity ∧ g.nonDefault ≤ args.length then
    match g.inst args with
    | .error e => .panic e
    | .ok none => .notViable
    | .ok (some ps) =>
      match zipRanks ps args with
      | .error e => .panic e
      | .ok none => .notViable
      | .ok (some rs) => .ranked g.id rs
  else .notViable

/-- steps 2–4 of `find_function_type` on the per-candidate results -/
def resolveResults (rs : List CandResult) : Outcome :=
  if rs.any CandResult.isPanic then .panic
  else resolveRanked (rs.filterMap CandResult.ranked?)

/-- `find_function_type` over candidates of any kind -/
def resolveG (cands : List GCand) (args : List ETy) : Outcome :=
  resolveResults (cands.map (rankG args))

/-- first loop of `find_function_type`, evaluation order as in the source -/
def viableCastsG (args : List ETy) : List GCand → Except String (List (Nat × List Conversion))
  | [] => .ok []
  | g :: gs =>
    if args.length ≤ g.arity ∧ g.nonDefault ≤ args.length then
      match g.inst args with
      | .error e => .error e
      | .ok none => viableCastsG args gs
      | .ok (some ps) =>
        match zipFind ps args with
        | .error e => .error e
        | .ok r =>
          match viableCastsG args gs with
          | .error e => .error e
          | .ok rest => .ok (match r with | some x => (g.id, x) :: rest | none => rest)
    else viableCastsG args gs

/-- the loops after the first one (`resolveLazy` with the viable casts given) -/
def resolveCasts : Except String (List (Nat × List Conversion)) → Outcome
  | .error _ => .panic
  | .ok casts =>
    match winnersL casts casts with
    | .error _ => .panic
    | .ok w =>
      match rankWinners w with
      | .error _ => .panic
      | .ok wr =>
        match finals wr with
        | [] => .unmatched
        | [c] => .selected c.1
        | cs => .ambiguous (cs.map (·.1))

/-- `find_function_type` over candidates of any kind, evaluation order as in the source -/
def resolveGLazy (cands : List GCand) (args : List ETy) : Outcome :=
  resolveCasts (viableCastsG args cands)

/-! ## function templates as the generator writes them -/

/-- a parameter type as written in a declaration: concrete, or mentioning template parameter number `k`
    (its `positional_index`) -/
inductive PTy where
  | conc (t : Ty)
  /-- `T` -/
  | tvar (k : Nat)
  /-- `vector<T, n>` -/
  | tvec (k n : Nat)
  /-- `matrix<T, x, y>` -/
  | tmat (k x y : Nat)
  /-- `T p[len]`.  (An array of a scalar is the layer `other (arrayId s len)`: `find` only compares array types.) -/
  | tarr (k len : Nat)
  deriving DecidableEq, Repr

/-- position of a scalar kind in `ir::ScalarType` -/
def scalarIdx (s : Scalar) : Nat := Scalar.all.idxOf s

/-- the `other` id under which the correspondence protocol names the type `s[len]` (1 ≤ len ≤ 9) -/
def arrayId (s : Scalar) (len : Nat) : Nat := 100 + 10 * scalarIdx s + len

/-- the array type behind an `other` id of the protocol -/
def arrayOf? (id : Nat) : Option (Scalar × Nat) :=
  if 100 ≤ id ∧ id < 200 ∧ (id - 100) % 10 ≠ 0 then (Scalar.all[(id - 100) / 10]?).map fun s => (s, (id - 100) % 10) else none

structure TParam where
  pat : PTy
  io : InputModifier
  deriving DecidableEq, Repr

/-- `ir::TemplateParam::{Type, Value}` -/
inductive TKind where | type | value
  deriving DecidableEq, Repr

/-- `ir::TypeOrConstant` (the value of a constant plays no role) -/
inductive TArg where | type (t : Ty) | const
  deriving DecidableEq, Repr

/-- a declared overload: `tkinds = []` for an ordinary function -/
structure TCand where
  id : Nat
  tkinds : List TKind
  params : List TParam
  nonDefault : Nat
  deriving DecidableEq, Repr

/-- `try_infer_template_type(template_type_id = i, required, input)`.  `get_type_layer` of a modified type is the
    `Modifier` layer, so only an unmodified vector / matrix is drilled into; a vector's inner type is a scalar. -/
def tryInfer (i : Nat) : PTy → Ty → Option Ty
  | .tvar k, t => if k = i then some t else none
  | .tvec k n, t =>
    if t.mod = {} then
      match t.layer with
      | .vector s m => if n = m ∧ k = i then some ⟨{}, .scalar s⟩ else none
      | _ => none
    else none
  | .tmat k x y, t =>
    if t.mod = {} then
      match t.layer with
      | .matrix s x' y' => if x = x' ∧ y = y' ∧ k = i then some ⟨{}, .scalar s⟩ else none
      | _ => none
    else none
  | .tarr k len, t =>
    if t.mod = {} then
      match t.layer with
      | .other id =>
        match arrayOf? id with
        | some (s, len') => if len = len' ∧ k = i then some ⟨{}, .scalar s⟩ else none
        | none => none
      | _ => none
    else none
  | .conc _, _ => none

/-- the `for (required_type, source_type) in signature.param_types.zip(param_types)` loop with its `break` -/
def firstInfer (i : Nat) : List TParam → List ETy → Option Ty
  | p :: ps, a :: as =>
    match tryInfer i p.pat a.ty with
    | some t => some t
    | none => firstInfer i ps as
  | _, _ => none

def normScalar : Scalar → Scalar
  | .intLiteral => .int32
  | .floatLiteral => .float32
  | s => s

/-- `normalize_template_type`: modifiers removed, untyped literals become `int` / `float` -/
def normalizeTy (t : Ty) : Ty :=
  ⟨{}, match t.layer with
       | .scalar s => .scalar (normScalar s)
       | .vector s n => .vector (normScalar s) n
       | .matrix s x y => .matrix (normScalar s) x y
       | l => l⟩

def TArg.normalize : TArg → TArg
  | .type t => .type (normalizeTy t)
  | .const => .const

/-- the `for i in 0..arg_count` loop of `find_overload_casts`: explicit arguments first, the rest inferred
    (value parameters are never inferred); `none` = `return Err(())` -/
def gatherArgs (params : List TParam) (explicit : List TArg) (args : List ETy) : Nat → List TKind → Option (List TArg)
  | _, [] => some []
  | i, k :: ks =>
    let arg : Option TArg :=
      match explicit[i]? with
      | some a => some a
      | none =>
        match k with
        | .value => none
        | .type => (firstInfer i params args).map .type
    match arg with
    | none => none
    | some a =>
      match gatherArgs params explicit args (i + 1) ks with
      | none => none
      | some rest => some (a.normalize :: rest)

/-- the kind check of `build_function_template_signature` (a type parameter given a constant, or a value parameter
    given a type: `return None`) -/
def kindsAgree : List TKind → List TArg → Bool
  | [], [] => true
  | .type :: ks, .type _ :: as => kindsAgree ks as
  | .value :: ks, .const :: as => kindsAgree ks as
  | _, _ => false

def isPlainScalar (t : Ty) : Option Scalar :=
  if t.mod = {} then match t.layer with | .scalar s => some s | _ => none else none

def substPTyArr (targs : List TArg) (k len : Nat) : Except String (Option Ty) :=
  match targs[k]? with
  | some (.type t) =>
    match isPlainScalar t with
    | some s => .ok (some ⟨{}, .other (arrayId s len)⟩)
    -- an array of a non-scalar is a legal type, but not one the protocol can name
    | none => .error "unsupported: array of a non-scalar"
  -- `ir::TypeOrConstant::Constant(_) => return None`
  | some .const => .ok none
  | none => .error "types.rs: remap[index] out of bounds"

/-- `apply_template_type_substitution` on one parameter type (since /repo 5dca4fc it returns an `Option`):
    `.ok none` = `None`, the arguments do not form a valid type — a constant given where the signature names a type
    parameter, or (`is_valid_element`) the argument for `T` in `vector<T, n>` / `matrix<T, x, y>` is not a plain scalar
    (a modified type has the `Modifier` layer on top, so it is no valid element either).  Before that fix the first was
    `todo!("Non-type template arguments")` and the second the panic "… inside vector" of `TypeRegistry::register_type`.
    `.error` = the index panic of `remap[index]` (a parameter type that names a template parameter the declaration
    does not have — such a declaration does not compile), or a type outside the protocol (`substPTyArr`). -/
def substPTy (targs : List TArg) : PTy → Except String (Option Ty)
  | .conc t => .ok (some t)
  | .tvar k =>
    match targs[k]? with
    | some (.type t) => .ok (some t)
    | some .const => .ok none
    | none => .error "types.rs: remap[index] out of bounds"
  | .tvec k n =>
    match targs[k]? with
    | some (.type t) =>
      match isPlainScalar t with
      | some s => .ok (some ⟨{}, .vector s n⟩)
      | none => .ok none
    | some .const => .ok none
    | none => .error "types.rs: remap[index] out of bounds"
  | .tmat k x y =>
    match targs[k]? with
    | some (.type t) =>
      match isPlainScalar t with
      | some s => .ok (some ⟨{}, .matrix s x y⟩)
      | none => .ok none
    | some .const => .ok none
    | none => .error "types.rs: remap[index] out of bounds"
  | .tarr k len => substPTyArr targs k len

/-- `ApplyTemplates for ir::FunctionSignature`: the parameter types in order, `?` on each — the first one that cannot
    be formed makes the whole signature `None` (`.ok none`).  (The return type of the generated overloads is a concrete
    struct; the compiler's own templates return `T` or a concrete type, which can be formed whenever `T` is a type.) -/
def substParams (targs : List TArg) : List TParam → Except String (Option (List Param))
  | [] => .ok (some [])
  | p :: ps =>
    match substPTy targs p.pat with
    | .error e => .error e
    | .ok none => .ok none
    | .ok (some t) =>
      match substParams targs ps with
      | .error e => .error e
      | .ok none => .ok none
      | .ok (some rest) => .ok (some (⟨t, p.io⟩ :: rest))

/-- the template arguments `find_overload_casts` settles on (`none` = not viable) -/
def TCand.targs (c : TCand) (explicit : List TArg) (args : List ETy) : Option (List TArg) :=
  if explicit.length > c.tkinds.length then none
  else
    match gatherArgs c.params explicit args 0 c.tkinds with
    | none => none
    | some targs => if kindsAgree c.tkinds targs then some targs else none

/-- the template half of `find_overload_casts` -/
def TCand.inst (c : TCand) (explicit : List TArg) (args : List ETy) : Except String (Option (List Param)) :=
  if c.tkinds.isEmpty then
    -- `else if !template_args.is_empty() { return Err(()) }`: template arguments given to a non template function
    if explicit.isEmpty then substParams [] c.params
    else .ok none
  else
    match c.targs explicit args with
    | none => .ok none
    -- `build_function_template_signature` / `build_intrinsic_template`: `None => return Err(())`
    | some targs => substParams targs c.params

def TCand.toG (explicit : List TArg) (c : TCand) : GCand :=
  ⟨c.id, c.params.length, c.nonDefault, c.inst explicit⟩

/-- `find_function_type(overloads, template_args, param_types)` on declared overloads -/
def resolveT (cands : List TCand) (explicit : List TArg) (args : List ETy) : Outcome :=
  resolveG (cands.map (TCand.toG explicit)) args

def resolveTLazy (cands : List TCand) (explicit : List TArg) (args : List ETy) : Outcome :=
  resolveGLazy (cands.map (TCand.toG explicit)) args

/-! ## after the resolution: `apply_casts`, then `check_output_arguments`

`write_function` / `write_method`: `let (id, casts) = find_function_type(..)?; let param_values = apply_casts(casts,
param_values, context); check_output_arguments(id, &param_values, call_location, context)?;`.
`ImplicitConversion::apply` returns the argument expression itself only for `ImplicitConversion(_, _, None, None,
None)` (no dimension, primary or modifier cast; a value-type cast alone changes nothing); every other conversion wraps
it in `Expression::Cast`, whose type is an rvalue.  `check_output_arguments` runs `check_mutable_place` on the converted
argument of every `out` / `inout` parameter of the selected signature; its first iteration reads the type of the
expression: not an lvalue ⇒ `LvalueRequired`, a const type ⇒ `MutableRequired`.  The further iterations walk through
member / swizzle / subscript expressions towards the variable: they depend on the *expression*, not on its type, and
are outside this model (the correspondence programs pass locals, members of a non-const local struct and static
globals, for which they pass; C03 owns that rule). -/

/-- `ImplicitConversion::apply` returns `expr` unchanged -/
def applyKeepsExpr (c : Conversion) : Bool := c.dimCast.isNone && c.primary.isNone && c.modCast.isNone

/-- type of the argument expression after `ImplicitConversion::apply` as `check_mutable_place` reads it:
    the source type when the expression is kept, else the type of an `Expression::Cast` — an rvalue
    (its `TypeId` plays no role: `LvalueRequired` is returned before `is_const` is looked at) -/
def appliedVT (c : Conversion) : VT := if applyKeepsExpr c then c.source.vt else .rvalue

/-- why `check_output_arguments` refuses the call -/
inductive OutErr where
  /-- `TyperError::LvalueRequired`: "lvalue is required in this context" -/
  | lvalueRequired
  /-- `TyperError::MutableRequired`: "non-const is required in this context" -/
  | mutableRequired
  deriving DecidableEq, Repr

/-- first iteration of `check_mutable_place` on one converted argument -/
def checkPlace (c : Conversion) : Option OutErr :=
  if appliedVT c ≠ .lvalue then some .lvalueRequired
  else if c.source.ty.mod.isConst then some .mutableRequired
  else none

/-- `check_output_arguments`: the `zip` loop over the parameters of the selected signature and the converted
    arguments, `?` on the first failure -/
def checkOutputs : List Param → List Conversion → Option OutErr
  | p :: ps, c :: cs =>
    if p.io = .out ∨ p.io = .inOut then
      match checkPlace c with
      | some e => some e
      | none => checkOutputs ps cs
    else checkOutputs ps cs
  | _, _ => none

/-- verdict on the call expression: what `write_function` / `write_method` return -/
inductive CallOutcome where
  /-- the call is accepted and names this overload -/
  | accepted (id : Nat)
  /-- an overload was selected, but an `out` / `inout` argument is not a mutable lvalue after its conversion -/
  | refused (e : OutErr)
  | ambiguous (ids : List Nat)
  | unmatched
  | panic
  deriving DecidableEq, Repr

/-- the instantiated parameter list and the casts `find_function_type` returns for the selected overload
    (`Ok((candidate, casts))`: the casts `find_overload_casts` computed for it).  `none`: the id is not a viable
    declared candidate — cannot happen for a selected id (`Thm.C16.selectedG_is_viable`), the driver reports it as an
    internal mismatch. -/
def selectedCasts (cands : List TCand) (explicit : List TArg) (args : List ETy) (id : Nat) :
    Option (List Param × List Conversion) :=
  match cands.find? (·.id == id) with
  | none => none
  | some c =>
    match c.inst explicit args with
    | .ok (some ps) =>
      match zipFind ps args with
      | .ok (some casts) => some (ps, casts)
      | _ => none
    | _ => none

/-- the part of `write_function` / `write_method` that follows `find_function_type`, given its verdict -/
def finishCall (cands : List TCand) (explicit : List TArg) (args : List ETy) : Outcome → CallOutcome
  | .selected id =>
    match selectedCasts cands explicit args id with
    | none => .panic
    | some (ps, casts) =>
      match checkOutputs ps casts with
      | some e => .refused e
      | none => .accepted id
  | .ambiguous ids => .ambiguous ids
  | .unmatched => .unmatched
  | .panic => .panic

/-- the whole call, evaluation order as in the source -/
def callT (cands : List TCand) (explicit : List TArg) (args : List ETy) : CallOutcome :=
  finishCall cands explicit args (resolveTLazy cands explicit args)

def CallOutcome.normalize : CallOutcome → CallOutcome
  | .ambiguous ids => .ambiguous (sortIds ids)
  | o => o

end RsslVerif.Model.Overload

//! C07 diagnostics stream: programs that are REJECTED, in every stage and error kind we can reach.
//!
//! Every family plants k >= 3 *interchangeable* offenders (k values that break the enum range, k
//! redefinitions, k candidates of an ambiguous call, k unknown names, k missing includes ...) so that a
//! diagnostic whose location / wording / note order follows the iteration order of a hash container
//! differs between two compilations of the same input.  Names and the order of the offenders are drawn
//! from the seed; the text of the program is a pure function of (family, seed).
use crate::util::*;

pub struct DiagProg {
    pub files: Vec<(String, String)>,
    /// run with validate_layout_consistency(true)
    pub layout: bool,
}

fn single(src: String) -> DiagProg {
    DiagProg { files: vec![("main.rssl".to_string(), src)], layout: false }
}

pub const FAMILIES: &[&str] = &[
    // typer: enums
    "enum_range_big", "enum_range_mixed", "enum_range_many", "enum_dup", "enum_conflict", "enum_nonint", "enum_overflow",
    "enum_class_range",
    // typer: calls
    "ambiguous", "nomatch", "method_nomatch", "ambiguous_many_calls", "intrinsic_nomatch",
    // typer: redefinitions
    "redef_struct", "redef_fn", "redef_global", "redef_local", "redef_param", "redef_cbuffer", "redef_typedef",
    "redef_member", "redef_method", "redef_template_param", "redef_cbuffer_member", "redef_namespace_items",
    // typer: unknown things
    "unknown_ident", "unknown_type", "unknown_member", "unknown_in_namespace", "unknown_swizzle",
    // typer: misc declarations
    "attr_fn", "attr_stmt", "attr_global", "register_type", "modifier_conflict", "modifier_position", "illegal_names",
    "template_args", "assert_type", "assert_eval", "array_dims", "init_wrong", "return_wrong", "binop_wrong", "cast_wrong",
    "lvalue", "incomplete", "struct_default", "static_sampler", "member_misc", "call_misc", "annotation_misc", "assert_misc",
    "declarator_misc",
    // typer: pipelines
    "pipe_dup", "pipe_prop_dup", "pipe_prop_unknown", "pipe_entry_unknown", "pipe_no_entry", "pipe_stage_combo",
    "pipe_graphics_only", "pipe_arg_unknown", "pipe_blend",
    // layout check
    "layout_mismatch", "layout_unknown", "layout_load",
    // exporters
    "export_undefined_fn", "export_msl_double", "export_msl_matrix", "export_msl_group", "export_msl_interp",
    "export_msl_geometry", "export_msl_uninit", "export_msl_intrinsic", "export_no_pipeline", "export_msl_mesh",
    // preprocessor + lexer
    "pp_include_missing", "pp_include_nested", "pp_unknown_directive", "pp_if_bad", "pp_else_endif", "pp_unterminated",
    "pp_macro_args", "pp_concat", "pp_pragma", "pp_include_depth", "pp_define_bad", "lex_bad_char", "lex_unterminated",
    "pp_error_in_include",
    // parser
    "parse_many", "parse_register", "parse_eof", "parse_in_namespace", "parse_misc", "lex_misc", "pp_misc",
    // rejections introduced (or moved from a panic / a silent acceptance to a diagnostic) by fix batch 2
    "attr_dup", "struct_base_methods", "fn_template_default", "template_value_signature", "const_part_write",
    "out_arg_place", "default_arg_wrong", "enum_incomplete", "rayquery_flags", "pp_else_after_else", "pp_if_across_include",
    "export_fix2", "export_msl_fix2", "layout_fix2", "member_fix2", "redef_fn_global",
];

/// Rejections introduced by fix batch 3 (their seeds come from a separate generator so that every earlier request
/// of a run keeps its seed): fe5dd8d (an enum value named like a namespace of its scope), c805c03 (swizzles with more
/// than four components), 92d66eb + 35faaaa (Metal: float remainder assignment whose target has side effects / whose
/// right operand writes)
pub const FAMILIES_FIX3: &[&str] = &["enum_value_namespace", "swizzle_long", "export_msl_fix3"];

const POOL: &[&str] = &[
    "alpha", "beta", "gamma", "delta", "kappa", "lambda", "sigma", "omega", "theta", "zeta", "first", "second", "third",
    "item", "value", "count", "total", "index", "flag", "mask", "Big", "Bigger", "Biggest", "Huge", "None_", "All", "Invalid",
    "lo", "hi", "mid", "a", "b", "c", "d", "e", "x", "y", "z", "w", "q",
];

/// k distinct identifiers (pool words, some with a numeric suffix)
fn names(rng: &mut Rng, k: usize) -> Vec<String> {
    let mut v: Vec<String> = Vec::new();
    while v.len() < k {
        let base = *rng.pick(POOL);
        let n = if rng.chance(1, 2) { base.to_string() } else { format!("{}{}", base, rng.below(40)) };
        if !v.contains(&n) {
            v.push(n);
        }
    }
    v
}

fn shuffle<T>(rng: &mut Rng, v: &mut [T]) {
    for i in (1..v.len()).rev() {
        let j = rng.below(i as u64 + 1) as usize;
        v.swap(i, j);
    }
}

fn k_of(rng: &mut Rng) -> usize {
    rng.range(3, 6) as usize
}

const COMPUTE_TAIL: &str = "[numthreads(1, 1, 1)]\nvoid entry()\n{\n}\nPipeline P\n{\n    ComputeShader = entry;\n}\n";

pub fn diag_program(family: &str, rng: &mut Rng) -> Option<DiagProg> {
    let k = k_of(rng);
    let mut s = String::new();
    // leading lines so that line numbers vary with the seed
    for i in 0..rng.below(3) {
        s.push_str(&format!("// header line {}\n", i));
    }
    match family {
        // ---------------------------------------------------------------- enums
        "enum_range_big" => {
            // several values above UINT_MAX (explicit and auto-incremented), mixed with small ones
            let ns = names(rng, k + 2);
            s.push_str("enum Flags\n{\n");
            let mut items: Vec<String> = Vec::new();
            items.push(format!("    {} = 0", ns[0]));
            items.push(format!("    {} = 7", ns[1]));
            for (i, n) in ns[2..].iter().enumerate() {
                if i > 0 && rng.chance(1, 3) {
                    items.push(format!("    {}", n));
                } else {
                    items.push(format!("    {} = 0x{:x}", n, 0x1_0000_0000u64 + rng.below(1 << 20) + (i as u64) * (1 << 24)));
                }
            }
            if rng.chance(1, 2) {
                let keep = items.remove(0);
                shuffle(rng, &mut items);
                items.insert(0, keep);
            }
            s.push_str(&items.join(",\n"));
            s.push_str("\n};\n");
            s.push_str(COMPUTE_TAIL);
        }
        "enum_range_mixed" => {
            // negative values together with values above INT_MAX: each pair breaks the range
            let ns = names(rng, 2 * k);
            let mut items: Vec<String> = Vec::new();
            for (i, n) in ns.iter().enumerate() {
                if i % 2 == 0 {
                    items.push(format!("    {} = -{}", n, 1 + rng.below(1000)));
                } else {
                    items.push(format!("    {} = 0x{:x}u", n, 0x8000_0000u64 + rng.below(0x7fff_ffff)));
                }
            }
            shuffle(rng, &mut items);
            s.push_str(&format!("enum Mixed\n{{\n{}\n}};\n", items.join(",\n")));
            s.push_str(COMPUTE_TAIL);
        }
        "enum_range_many" => {
            // several enums, more than one of them out of range
            let ns = names(rng, 4 * k);
            for e in 0..k {
                let bad = e != 0 || rng.chance(1, 2);
                s.push_str(&format!("enum E{}\n{{\n", e));
                let mut items: Vec<String> = Vec::new();
                for j in 0..4 {
                    let n = &ns[e * 4 + j];
                    if bad && j >= 1 {
                        items.push(format!("    {} = {}", n, 0x1_0000_0000u64 * (j as u64 + 1) + rng.below(99)));
                    } else {
                        items.push(format!("    {} = {}", n, rng.below(100)));
                    }
                }
                s.push_str(&items.join(",\n"));
                s.push_str("\n};\n");
            }
            s.push_str(COMPUTE_TAIL);
        }
        "enum_class_range" => {
            let ns = names(rng, k + 1);
            s.push_str("namespace Outer\n{\nenum Scoped\n{\n");
            let mut items: Vec<String> = vec![format!("    {} = -2", ns[0])];
            for n in &ns[1..] {
                items.push(format!("    {} = {}", n, 0x1_0000_0000u64 + rng.below(1 << 30)));
            }
            shuffle(rng, &mut items);
            s.push_str(&items.join(",\n"));
            s.push_str("\n};\n}\n");
            s.push_str(COMPUTE_TAIL);
        }
        "enum_dup" => {
            let ns = names(rng, k);
            let mut items: Vec<String> = ns.iter().chain(ns.iter()).map(|n| format!("    {}", n)).collect();
            shuffle(rng, &mut items);
            s.push_str(&format!("enum Dup\n{{\n{}\n}};\n", items.join(",\n")));
            s.push_str(COMPUTE_TAIL);
        }
        "enum_conflict" => {
            // enum values promoted into a scope that already has globals / functions / types of the same names
            let ns = names(rng, k + 1);
            let mut decls: Vec<String> = Vec::new();
            for (i, n) in ns[1..].iter().enumerate() {
                decls.push(match (i + rng.below(4) as usize) % 4 {
                    0 => format!("static int {} = 1;\n", n),
                    1 => format!("void {}()\n{{\n}}\n", n),
                    2 => format!("struct {}\n{{\n    float m;\n}};\n", n),
                    _ => format!("static const float {} = 2.0;\n", n),
                });
            }
            shuffle(rng, &mut decls);
            for d in &decls {
                s.push_str(d);
            }
            let mut items: Vec<String> = ns.iter().map(|n| format!("    {}", n)).collect();
            let keep = items.remove(0);
            shuffle(rng, &mut items);
            items.insert(0, keep);
            s.push_str(&format!("enum Conflict\n{{\n{}\n}};\n", items.join(",\n")));
            s.push_str(COMPUTE_TAIL);
        }
        "enum_nonint" => {
            let ns = names(rng, k + 1);
            let vals = ["1.0", "2.5f", "0.5h", "1.0L", "\"s\""];
            let mut items: Vec<String> = vec![format!("    {} = 1", ns[0])];
            for n in &ns[1..] {
                items.push(format!("    {} = {}", n, rng.pick(&vals)));
            }
            shuffle(rng, &mut items);
            s.push_str(&format!("enum NonInt\n{{\n{}\n}};\n", items.join(",\n")));
            s.push_str(COMPUTE_TAIL);
        }
        "enum_overflow" => {
            let ns = names(rng, 2 * k);
            let mut items: Vec<String> = Vec::new();
            for i in 0..k {
                let v = *rng.pick(&["0x7fffffff", "0xffffffffu", "2147483647", "4294967295u", "0xffffffffffffffff", "0x7fffffffffffffffL"]);
                items.push(format!("    {} = {},\n    {}", ns[2 * i], v, ns[2 * i + 1]));
            }
            s.push_str(&format!("enum Over\n{{\n{}\n}};\n", items.join(",\n")));
            s.push_str(COMPUTE_TAIL);
        }
        // ---------------------------------------------------------------- calls
        "ambiguous" | "ambiguous_many_calls" => {
            let arity = 3;
            let mut sigs: Vec<Vec<&str>> = Vec::new();
            for code in 0..8u32 {
                sigs.push((0..arity).map(|b| if code >> b & 1 == 0 { "int2" } else { "int3" }).collect());
            }
            shuffle(rng, &mut sigs);
            sigs.truncate(k);
            let f = &names(rng, 1)[0];
            for sig in &sigs {
                let ps: Vec<String> = sig.iter().enumerate().map(|(i, t)| format!("{} p{}", t, i)).collect();
                s.push_str(&format!("void {}({})\n{{\n}}\n", f, ps.join(", ")));
            }
            s.push_str("void caller()\n{\n    int4 v = int4(0, 0, 0, 0);\n");
            let calls = if family == "ambiguous" { 1 } else { k };
            for _ in 0..calls {
                s.push_str(&format!("    {}(v, v, v);\n", f));
            }
            s.push_str("}\n");
            s.push_str(COMPUTE_TAIL);
        }
        "nomatch" => {
            let ns = names(rng, k + 2);
            for n in &ns[1..] {
                s.push_str(&format!("struct S_{}\n{{\n    float m;\n}};\n", n));
            }
            let mut defs: Vec<String> = ns[2..].iter().map(|n| format!("void {}(S_{} p)\n{{\n}}\n", ns[0], n)).collect();
            shuffle(rng, &mut defs);
            for d in &defs {
                s.push_str(d);
            }
            s.push_str(&format!("void caller()\n{{\n    S_{} v;\n    {}(v);\n}}\n", ns[1], ns[0]));
            s.push_str(COMPUTE_TAIL);
        }
        "method_nomatch" => {
            let ns = names(rng, k + 1);
            s.push_str("struct Host\n{\n");
            let tys = ["int2", "int3", "uint2", "uint3", "float2", "float3"];
            for i in 0..k {
                s.push_str(&format!("    void {}({} p)\n    {{\n    }}\n", ns[0], tys[i % tys.len()]));
            }
            s.push_str("};\n");
            s.push_str(&format!("void caller()\n{{\n    Host h;\n    h.{}(int4(1, 2, 3, 4));\n}}\n", ns[0]));
            s.push_str(COMPUTE_TAIL);
        }
        "intrinsic_nomatch" => {
            // a user function that shares the name of an intrinsic: candidates = intrinsic overloads + user ones
            let intr = *rng.pick(&["cross", "dot", "lerp", "clamp", "max", "min", "length"]);
            let ns = names(rng, k + 1);
            for n in &ns {
                s.push_str(&format!("struct S_{}\n{{\n    float m;\n}};\n", n));
            }
            for n in &ns[1..] {
                s.push_str(&format!("void {}(S_{} p)\n{{\n}}\n", intr, n));
            }
            s.push_str(&format!("void caller()\n{{\n    S_{} v;\n    {}(v);\n}}\n", ns[0], intr));
            s.push_str(COMPUTE_TAIL);
        }
        // ---------------------------------------------------------------- redefinitions
        "redef_struct" => {
            let ns = names(rng, k);
            let mut decls: Vec<String> = Vec::new();
            for n in &ns {
                decls.push(format!("struct {}\n{{\n    float m;\n}};\n", n));
            }
            let mut again = decls.clone();
            shuffle(rng, &mut again);
            for d in decls.iter().chain(again.iter()) {
                s.push_str(d);
            }
            s.push_str(COMPUTE_TAIL);
        }
        "redef_fn" => {
            let ns = names(rng, k);
            let mut decls: Vec<String> = ns.iter().map(|n| format!("int {}(int p)\n{{\n    return p;\n}}\n", n)).collect();
            let mut again = decls.clone();
            shuffle(rng, &mut again);
            shuffle(rng, &mut decls);
            for d in decls.iter().chain(again.iter()) {
                s.push_str(d);
            }
            s.push_str(COMPUTE_TAIL);
        }
        "redef_global" => {
            let ns = names(rng, k);
            let mut decls: Vec<String> = Vec::new();
            for n in &ns {
                decls.push(format!("static int {} = 0;\n", n));
                decls.push(match rng.below(3) {
                    0 => format!("static float {} = 1.0;\n", n),
                    1 => format!("groupshared uint {};\n", n),
                    _ => format!("static int {} = 0;\n", n),
                });
            }
            shuffle(rng, &mut decls);
            for d in &decls {
                s.push_str(d);
            }
            s.push_str(COMPUTE_TAIL);
        }
        "redef_local" => {
            let ns = names(rng, k);
            let mut decls: Vec<String> = Vec::new();
            for n in &ns {
                decls.push(format!("    int {} = 0;\n", n));
                decls.push(format!("    float {} = 1.0;\n", n));
            }
            shuffle(rng, &mut decls);
            s.push_str("void body()\n{\n");
            for d in &decls {
                s.push_str(d);
            }
            s.push_str("}\n");
            s.push_str(COMPUTE_TAIL);
        }
        "redef_param" => {
            let ns = names(rng, k);
            let mut ps: Vec<String> = ns.iter().chain(ns.iter()).map(|n| format!("int {}", n)).collect();
            shuffle(rng, &mut ps);
            s.push_str(&format!("void body({})\n{{\n}}\n", ps.join(", ")));
            s.push_str(COMPUTE_TAIL);
        }
        "redef_cbuffer" => {
            let ns = names(rng, 2 * k);
            let mut decls: Vec<String> = Vec::new();
            for i in 0..k {
                decls.push(format!("cbuffer CB_{}\n{{\n    float {}_a;\n}}\n", ns[i], ns[k + i]));
                decls.push(format!("cbuffer CB_{}\n{{\n    float {}_b;\n}}\n", ns[i], ns[k + i]));
            }
            shuffle(rng, &mut decls);
            for d in &decls {
                s.push_str(d);
            }
            s.push_str(COMPUTE_TAIL);
        }
        "redef_typedef" => {
            let ns = names(rng, k);
            let mut decls: Vec<String> = Vec::new();
            for n in &ns {
                decls.push(format!("typedef float {};\n", n));
                decls.push(match rng.below(3) {
                    0 => format!("struct {}\n{{\n    int m;\n}};\n", n),
                    1 => format!("typedef int {};\n", n),
                    _ => format!("enum {}\n{{\n    {}_v\n}};\n", n, n),
                });
            }
            shuffle(rng, &mut decls);
            for d in &decls {
                s.push_str(d);
            }
            s.push_str(COMPUTE_TAIL);
        }
        "redef_member" => {
            let ns = names(rng, k);
            let mut ms: Vec<String> = Vec::new();
            for n in &ns {
                ms.push(format!("    int {};\n", n));
                ms.push(format!("    float {};\n", n));
            }
            shuffle(rng, &mut ms);
            s.push_str(&format!("struct Members\n{{\n{}}};\n", ms.join("")));
            s.push_str(COMPUTE_TAIL);
        }
        "redef_method" => {
            let ns = names(rng, k);
            let mut ms: Vec<String> = Vec::new();
            for n in &ns {
                ms.push(format!("    void {}(int p)\n    {{\n    }}\n", n));
                ms.push(format!("    void {}(int q)\n    {{\n    }}\n", n));
                if rng.chance(1, 2) {
                    ms.push(format!("    int {};\n", n));
                }
            }
            shuffle(rng, &mut ms);
            s.push_str(&format!("struct Methods\n{{\n{}}};\n", ms.join("")));
            s.push_str(COMPUTE_TAIL);
        }
        "redef_template_param" => {
            let ns = names(rng, k);
            let mut ps: Vec<String> = Vec::new();
            for n in &ns {
                ps.push(format!("typename {}", n));
                ps.push(if rng.chance(1, 2) { format!("typename {}", n) } else { format!("uint {}", n) });
            }
            shuffle(rng, &mut ps);
            if rng.chance(1, 2) {
                s.push_str(&format!("template<{}>\nvoid tf()\n{{\n}}\n", ps.join(", ")));
            } else {
                s.push_str(&format!("template<{}>\nstruct TS\n{{\n    int m;\n}};\n", ps.join(", ")));
            }
            s.push_str(COMPUTE_TAIL);
        }
        "redef_cbuffer_member" => {
            let ns = names(rng, k);
            let mut decls: Vec<String> = Vec::new();
            let mut ms: Vec<String> = ns.iter().map(|n| format!("    float {};\n", n)).collect();
            shuffle(rng, &mut ms);
            decls.push(format!("cbuffer Block\n{{\n{}}}\n", ms.join("")));
            let mut gs: Vec<String> = ns.iter().map(|n| format!("static int {} = 0;\n", n)).collect();
            shuffle(rng, &mut gs);
            if rng.chance(1, 2) {
                decls.extend(gs);
            } else {
                let mut all = gs;
                all.push(decls.remove(0));
                decls = all;
            }
            for d in &decls {
                s.push_str(d);
            }
            s.push_str(COMPUTE_TAIL);
        }
        "redef_namespace_items" => {
            let ns = names(rng, k);
            for round in 0..2 {
                s.push_str("namespace Space\n{\n");
                let mut ds: Vec<String> = ns.iter().map(|n| format!("    struct {}\n    {{\n        int m{};\n    }};\n", n, round)).collect();
                shuffle(rng, &mut ds);
                for d in &ds {
                    s.push_str(d);
                }
                s.push_str("}\n");
            }
            s.push_str(COMPUTE_TAIL);
        }
        // ---------------------------------------------------------------- unknown things
        "unknown_ident" => {
            let ns = names(rng, k);
            if rng.chance(1, 2) {
                s.push_str(&format!("int body()\n{{\n    return {};\n}}\n", ns.join(" + ")));
            } else {
                for (i, n) in ns.iter().enumerate() {
                    s.push_str(&format!("int body{}()\n{{\n    return {};\n}}\n", i, n));
                }
            }
            s.push_str(COMPUTE_TAIL);
        }
        "unknown_type" => {
            let ns = names(rng, 2 * k);
            match rng.below(3) {
                0 => {
                    for i in 0..k {
                        s.push_str(&format!("static T_{} {};\n", ns[i], ns[k + i]));
                    }
                }
                1 => {
                    let ps: Vec<String> = (0..k).map(|i| format!("T_{} {}", ns[i], ns[k + i])).collect();
                    s.push_str(&format!("void body({})\n{{\n}}\n", ps.join(", ")));
                }
                _ => {
                    s.push_str("struct Holder\n{\n");
                    for i in 0..k {
                        s.push_str(&format!("    T_{} {};\n", ns[i], ns[k + i]));
                    }
                    s.push_str("};\n");
                }
            }
            s.push_str(COMPUTE_TAIL);
        }
        "unknown_member" => {
            let ns = names(rng, k + 1);
            s.push_str(&format!("struct Host\n{{\n    float {};\n}};\n", ns[0]));
            let uses: Vec<String> = ns[1..].iter().map(|n| format!("h.{}", n)).collect();
            s.push_str(&format!("float body()\n{{\n    Host h;\n    return {};\n}}\n", uses.join(" + ")));
            s.push_str(COMPUTE_TAIL);
        }
        "unknown_in_namespace" => {
            let ns = names(rng, k + 1);
            s.push_str(&format!("namespace Space\n{{\n    static int {} = 1;\n}}\n", ns[0]));
            let uses: Vec<String> = ns[1..].iter().map(|n| format!("Space::{}", n)).collect();
            s.push_str(&format!("int body()\n{{\n    return {};\n}}\n", uses.join(" + ")));
            s.push_str(COMPUTE_TAIL);
        }
        "unknown_swizzle" => {
            let sw = ["xyzq", "rgbx", "xx_", "abcd", "stuv", "xyzwx", "_m00_m44", "m", "rgbaa"];
            let mut c: Vec<&str> = sw.to_vec();
            shuffle(rng, &mut c);
            let uses: Vec<String> = c[..k.min(c.len())].iter().map(|w| format!("v.{}.x", w)).collect();
            s.push_str(&format!("float body()\n{{\n    float4 v = float4(1, 2, 3, 4);\n    return {};\n}}\n", uses.join(" + ")));
            s.push_str(COMPUTE_TAIL);
        }
        // ---------------------------------------------------------------- misc declarations
        "attr_fn" => {
            let ns = names(rng, k);
            let attrs: Vec<String> = ns.iter().map(|n| if rng.chance(1, 3) { format!("[{}(1)]", n) } else { format!("[{}]", n) }).collect();
            let sep = if rng.chance(1, 2) { "\n" } else { " " };
            s.push_str(&format!("{}\nvoid body()\n{{\n}}\n", attrs.join(sep)));
            if rng.chance(1, 2) {
                s.push_str("[numthreads(1, 1)]\nvoid short_args()\n{\n}\n[numthreads]\nvoid no_args()\n{\n}\n");
            }
            s.push_str(COMPUTE_TAIL);
        }
        "attr_stmt" => {
            let ns = names(rng, k);
            s.push_str("void body()\n{\n");
            for n in &ns {
                match rng.below(4) {
                    0 => s.push_str(&format!("    [{}]\n    for (int i = 0; i < 2; ++i)\n    {{\n    }}\n", n)),
                    1 => s.push_str(&format!("    [{}]\n    if (true)\n    {{\n    }}\n", n)),
                    2 => s.push_str("    [unroll(1.5)]\n    for (int j = 0; j < 2; ++j)\n    {\n    }\n"),
                    _ => s.push_str("    [branch(3)]\n    if (true)\n    {\n    }\n"),
                }
            }
            s.push_str("}\n");
            s.push_str(COMPUTE_TAIL);
        }
        "attr_global" => {
            let ns = names(rng, 2 * k);
            for i in 0..k {
                s.push_str(&format!("[{}]\nBuffer<float> g_{};\n", ns[i], ns[k + i]));
            }
            s.push_str(COMPUTE_TAIL);
        }
        "register_type" => {
            let ns = names(rng, k);
            let forms = [
                "Buffer<float> g_{} : register(u{});\n",
                "RWBuffer<float> g_{} : register(t{});\n",
                "SamplerState g_{} : register(t{});\n",
                "ConstantBuffer<Blk> g_{} : register(t{});\n",
                "static int g_{} : register(t{});\n",
                "Texture2D g_{} : register(s{});\n",
            ];
            s.push_str("struct Blk\n{\n    float m;\n};\n");
            let mut ds: Vec<String> = Vec::new();
            for (i, n) in ns.iter().enumerate() {
                ds.push(rng.pick(&forms).replacen("{}", n, 1).replacen("{}", &i.to_string(), 1));
            }
            shuffle(rng, &mut ds);
            for d in &ds {
                s.push_str(d);
            }
            s.push_str(COMPUTE_TAIL);
        }
        "modifier_conflict" => {
            let ns = names(rng, k);
            let forms = [
                "static extern float {};\n", "extern groupshared float {};\n", "groupshared static float {};\n",
                "row_major column_major float4x4 {};\n", "row_major float4 {};\n", "unorm snorm float {};\n", "unorm int {};\n",
                "const const float {} = 1;\n", "volatile float {};\n", "precise float {};\n", "in float {};\n",
                "nointerpolation float {};\n", "triangle float {};\n", "vertices float {};\n", "indices uint3 {};\n",
            ];
            for n in &ns {
                s.push_str(&rng.pick(&forms).replace("{}", n));
            }
            s.push_str(COMPUTE_TAIL);
        }
        "modifier_position" => {
            let ns = names(rng, k);
            let mods = ["static", "extern", "groupshared", "triangle", "vertices", "payload", "volatile"];
            let ps: Vec<String> = ns.iter().map(|n| format!("{} float {}", rng.pick(&mods), n)).collect();
            if rng.chance(1, 2) {
                s.push_str(&format!("void body({})\n{{\n}}\n", ps.join(", ")));
            } else {
                s.push_str("struct Holder\n{\n");
                for p in &ps {
                    s.push_str(&format!("    {};\n", p));
                }
                s.push_str("};\n");
            }
            s.push_str(COMPUTE_TAIL);
        }
        "illegal_names" => {
            let bad = ["nointerpolation", "linear", "centroid", "noperspective", "point", "line", "triangle", "lineadj", "triangleadj"];
            let mut c: Vec<&str> = bad.to_vec();
            shuffle(rng, &mut c);
            for (i, n) in c[..k.min(c.len())].iter().enumerate() {
                match (i + rng.below(4) as usize) % 4 {
                    0 => s.push_str(&format!("static int {} = 0;\n", n)),
                    1 => s.push_str(&format!("void {}()\n{{\n}}\n", n)),
                    2 => s.push_str(&format!("struct {}\n{{\n    int m;\n}};\n", n)),
                    _ => s.push_str(&format!("typedef int {};\n", n)),
                }
            }
            s.push_str(COMPUTE_TAIL);
        }
        "template_args" => {
            let ns = names(rng, k);
            s.push_str("template<typename T, uint N>\nstruct TS\n{\n    T m[N];\n};\ntemplate<typename T>\nT tf(T p)\n{\n    return p;\n}\n");
            let forms = [
                "static TS<float> g_{};\n", "static TS<float, 2, 3> g_{};\n", "static TS<2, float> g_{};\n",
                "static TS<float, float> g_{};\n", "static TS g_{};\n", "static int g_{} = tf<1>(2);\n",
                "static int g_{} = tf<int, int>(2);\n",
            ];
            for n in &ns {
                s.push_str(&rng.pick(&forms).replace("{}", n));
            }
            s.push_str(COMPUTE_TAIL);
        }
        "assert_type" => {
            let tys = ["int", "uint", "float", "half", "float2", "int3", "bool"];
            for _ in 0..k {
                let a = *rng.pick(&tys);
                let mut b = *rng.pick(&tys);
                if a == b {
                    b = if a == "int" { "uint" } else { "int" };
                }
                s.push_str(&format!("    assert_type<{}>(({})0);\n", a, b));
            }
            s = format!("void body()\n{{\n{}}}\n", s);
            s.push_str(COMPUTE_TAIL);
        }
        "assert_eval" => {
            for _ in 0..k {
                let a = rng.below(50);
                let b = rng.below(50);
                s.push_str(&format!("    assert_eval<int>({} + {}, (int){});\n", a, b, a + b + 1 + rng.below(3)));
            }
            s = format!("void body()\n{{\n{}}}\n", s);
            s.push_str(COMPUTE_TAIL);
        }
        "array_dims" => {
            let ns = names(rng, k + 1);
            s.push_str(&format!("static int {} = 3;\n", ns[0]));
            let forms = ["static float g_{}[0];\n", "static float g_{}[N];\n", "static float g_{}[];\n", "static float g_{}[1.5];\n", "static float g_{}[2][0];\n"];
            for n in &ns[1..] {
                s.push_str(&rng.pick(&forms).replace("{}", n).replace("N", &ns[0]));
            }
            s.push_str(COMPUTE_TAIL);
        }
        "init_wrong" => {
            let ns = names(rng, k);
            s.push_str("struct Pair\n{\n    float a;\n    int b;\n};\nstruct Other\n{\n    float a;\n};\n");
            let forms = [
                "static float2 g_{} = { 1, 2, 3 };\n", "static Pair g_{} = { 1, 2, 3 };\n", "static int g_{}[2] = { 1, 2, 3 };\n",
                "static Pair g_{} = (Other)0;\n", "static float g_{} = { { 1 } , 2 };\n", "static Other g_{} = float3(1, 2, 3);\n",
            ];
            for n in &ns {
                s.push_str(&rng.pick(&forms).replace("{}", n));
            }
            s.push_str(COMPUTE_TAIL);
        }
        "return_wrong" => {
            let ns = names(rng, k);
            s.push_str("struct Pair\n{\n    float a;\n    int b;\n};\n");
            for n in &ns {
                match rng.below(3) {
                    0 => s.push_str(&format!("Pair {}()\n{{\n    return 1.0;\n}}\n", n)),
                    1 => s.push_str(&format!("float {}()\n{{\n    Pair p;\n    return p;\n}}\n", n)),
                    _ => s.push_str(&format!("void {}()\n{{\n    return 1;\n}}\n", n)),
                }
            }
            s.push_str(COMPUTE_TAIL);
        }
        "binop_wrong" => {
            let ns = names(rng, k);
            s.push_str("struct Pair\n{\n    float a;\n    int b;\n};\n");
            s.push_str("void body()\n{\n    Pair p;\n    Pair q;\n    float4 v4 = float4(1, 2, 3, 4);\n    float3 v3 = float3(1, 2, 3);\n");
            let ops = ["p + q", "p * 2", "v4 + v3", "-p", "!p", "p ? 1 : 2", "v4 && v3", "1.5 % p", "p << 1", "~1.5", "true ? p : 1"];
            for n in &ns {
                s.push_str(&format!("    float {} = {};\n", n, rng.pick(&ops)));
            }
            s.push_str("}\n");
            s.push_str(COMPUTE_TAIL);
        }
        "cast_wrong" => {
            let ns = names(rng, k);
            s.push_str("struct Pair\n{\n    float a;\n    int b;\n};\nstruct Other\n{\n    float a;\n};\n");
            s.push_str("void body()\n{\n    Pair p;\n    Other o;\n    float4 v4 = float4(1, 2, 3, 4);\n");
            let ops = ["(Other)p", "(float)p", "(float3)float2(1, 2)", "(Pair)o", "(float2x2)v4.xyz", "float3(v4, 1)", "float2(p)", "int3(1, 2)"];
            for n in &ns {
                s.push_str(&format!("    float {} = {}.x;\n", n, rng.pick(&ops)));
            }
            s.push_str("}\n");
            s.push_str(COMPUTE_TAIL);
        }
        "lvalue" => {
            let ns = names(rng, k);
            s.push_str("void take(out float p)\n{\n    p = 1;\n}\nvoid body()\n{\n    const float c = 1;\n");
            let forms = ["    1 = {};\n", "    c = 2;\n", "    take(1.0);\n", "    take(c);\n", "    (c + 1)++;\n", "    --c;\n", "    c += 1;\n"];
            for n in &ns {
                s.push_str(&format!("    float {} = 0;\n", n));
                s.push_str(&rng.pick(&forms).replace("{}", n));
            }
            s.push_str("}\n");
            s.push_str(COMPUTE_TAIL);
        }
        "incomplete" => {
            let ns = names(rng, k);
            let forms = ["static void g_{};\n", "static float g_{}[];\n", "void f_{}(void p)\n{\n}\n", "static uint g_{} = sizeof(1);\n", "static uint g_{} = sizeof(1.5);\n", "static float* g_{};\n"];
            for n in &ns {
                s.push_str(&rng.pick(&forms).replace("{}", n));
            }
            s.push_str(COMPUTE_TAIL);
        }
        "struct_default" => {
            let ns = names(rng, k);
            s.push_str("struct Defaults\n{\n");
            for n in &ns {
                s.push_str(&format!("    float {} = {}.0;\n", n, rng.below(9)));
            }
            s.push_str("};\n");
            s.push_str("struct Base\n{\n    int m;\n};\n");
            if rng.chance(1, 2) {
                s = s.replace("struct Defaults\n", "struct Defaults : float\n");
            }
            s.push_str(COMPUTE_TAIL);
        }
        "static_sampler" => {
            let ns = names(rng, k);
            s.push_str("SamplerState g_ok = StaticSampler\n{\n    Filter = MIN_MAG_MIP_LINEAR;\n};\n");
            let forms = [
                "SamplerState g_{} = StaticSampler\n{\n    Unknown{} = 1;\n};\n",
                "SamplerState g_{} : register(s1) = StaticSampler\n{\n    Filter = MIN_MAG_MIP_LINEAR;\n};\n",
                "static SamplerState g_{} = StaticSampler\n{\n    Filter = MIN_MAG_MIP_LINEAR;\n};\n",
                "SamplerState g_{} = StaticSampler\n{\n    Filter = MIN_MAG_MIP_LINEAR;\n    Filter = MIN_MAG_MIP_POINT;\n};\n",
                "SamplerState g_{} = StaticSampler\n{\n    AddressU = Sideways;\n};\n",
                "Texture2D g_{} = StaticSampler\n{\n    Filter = MIN_MAG_MIP_LINEAR;\n};\n",
                "SamplerState g_{} = StaticSampler\n{\n    MaxAnisotropy = 1.5;\n};\n",
                "SamplerState g_{} = StaticSampler\n{\n    Filter = \"linear\";\n};\n",
                "SamplerState g_{} = StaticSampler\n{\n    MinLOD = Low;\n};\n",
            ];
            for n in &ns {
                s.push_str(&rng.pick(&forms).replace("{}", n));
            }
            s.push_str(COMPUTE_TAIL);
        }
        "member_misc" => {
            let ns = names(rng, k);
            s.push_str("struct A\n{\n    int x;\n    void m()\n    {\n    }\n};\nstruct B\n{\n    int y;\n};\nnamespace N\n{\n    static int g = 0;\n}\nBuffer<float> g_buf;\nTexture2D g_tex;\n");
            s.push_str("void body()\n{\n    A a;\n    B b;\n    float f = 1;\n    float arr[2];\n    float4 v = float4(1, 2, 3, 4);\n");
            let forms = [
                "a.B::y", "a.N::g", "a.f", "g_buf.Missing(0)", "g_tex.missing", "f[0]", "arr[1.5]", "f.x.y.z.w.q", "a[0]", "g_buf.Load", "a.m",
                "b.x", "v.x.foo", "arr.x", "g_tex[0.5]", "a.A::m", "f.missing", "N::g.x",
            ];
            for n in &ns {
                s.push_str(&format!("    float {} = {};\n", n, rng.pick(&forms)));
            }
            s.push_str("}\n");
            s.push_str(COMPUTE_TAIL);
        }
        "call_misc" => {
            let ns = names(rng, k);
            s.push_str("void f()\n{\n}\nvoid g(int p)\n{\n}\nstruct S\n{\n    int m;\n};\nstatic int v = 0;\n");
            s.push_str("void body()\n{\n    int x = 1;\n    S s;\n");
            let forms = [
                "    x(1);\n", "    g(f);\n", "    int {} = f;\n", "    f;\n", "    s(2);\n", "    v(3);\n", "    g(g);\n", "    int {} = (int)f;\n",
                "    S {} = (S)f;\n", "    int {} = f + 1;\n", "    int {} = S;\n", "    int {} = g(S);\n", "    v {};\n", "    x {};\n", "    int<2> {};\n", "    S<int> {};\n",
                "    float {} = { 1, 2 };\n", "    int {} = { };\n", "    SamplerState {} = StaticSampler\n    {\n    };\n",
            ];
            for n in &ns {
                s.push_str(&rng.pick(&forms).replace("{}", n));
            }
            s.push_str("}\n");
            s.push_str(COMPUTE_TAIL);
        }
        "annotation_misc" => {
            let ns = names(rng, k);
            let forms = [
                "struct S_{}\n{\n    int m : register(t0);\n};\n", "void f_{}(int p : register(t0))\n{\n}\n", "void f_{}()\n{\n    int local : SEMANTIC;\n}\n",
                "void f_{}()\n{\n    int local : register(t0);\n}\n", "typedef int T_{} : SEMANTIC;\n", "[[rssl::bind_group]]\nBuffer<float> g_{};\n",
                "[[rssl::bind_group(1, 2)]]\nBuffer<float> g_{};\n", "[[rssl::bindless(1)]]\nBuffer<float> g_{}[];\n", "[[rssl::bind_group(1.5)]]\nBuffer<float> g_{};\n",
                "[[rssl::unknown_{}]]\nBuffer<float> g_{};\n", "[[other::bind_group(1)]]\nBuffer<float> g_{};\n",
                "cbuffer C_{}\n{\n    float m_{} : SEMANTIC;\n}\n", "static int g_{} : SEMANTIC;\n",
                "[outputtopology(\"square\")]\n[numthreads(1, 1, 1)]\nvoid ms_{}()\n{\n}\n", "[outputtopology(3)]\n[numthreads(1, 1, 1)]\nvoid ms_{}()\n{\n}\n",
                "[WaveSize(3, 4, 5, 6)]\nvoid w_{}()\n{\n}\n",
            ];
            for n in &ns {
                s.push_str(&rng.pick(&forms).replace("{}", n));
            }
            s.push_str(COMPUTE_TAIL);
        }
        "assert_misc" => {
            s.push_str("void body()\n{\n");
            let forms = [
                "    assert_type<int, int>(1);\n", "    assert_type(1);\n", "    assert_type<int>();\n", "    assert_type<1>(1);\n", "    assert_eval<int>(1);\n",
                "    assert_eval(1, 2, 3);\n", "    assert_eval<int>((int)1 + (int)1, (int)3);\n", "    assert_eval(2u, 3u);\n", "    assert_eval<float>(1.0f, 2.0f);\n",
                "    assert_eval<int, int>(1, 1);\n", "    assert_eval(true, false);\n",
            ];
            for _ in 0..k {
                s.push_str(*rng.pick(&forms));
            }
            s.push_str("}\n");
            s.push_str(COMPUTE_TAIL);
        }
        "declarator_misc" => {
            let ns = names(rng, k);
            s.push_str("template<typename T>\nT tf(T p)\n{\n    return p;\n}\nstruct S\n{\n    int m;\n};\n");
            s.push_str("void body()\n{\n");
            let forms = [
                "    int {} = (int[2])1;\n", "    int {} = tf<int[2]>(1);\n", "    uint {} = sizeof(int[2]);\n", "    int {} = (int*)1;\n", "    int {} = tf<int&>(1);\n",
                "    int* {};\n", "    int& {} = 1;\n", "    int {} = (int&)1;\n", "    uint {} = sizeof(S*);\n", "    S {} = S { 1 };\n", "    int {} = int { 1 };\n",
            ];
            for n in &ns {
                s.push_str(&rng.pick(&forms).replace("{}", n));
            }
            s.push_str("}\n");
            s.push_str(COMPUTE_TAIL);
        }
        // ---------------------------------------------------------------- pipelines
        "pipe_dup" => {
            let ns = names(rng, k);
            s.push_str("[numthreads(1, 1, 1)]\nvoid entry()\n{\n}\n");
            let mut ds: Vec<String> = ns.iter().chain(ns.iter()).map(|n| format!("Pipeline P_{}\n{{\n    ComputeShader = entry;\n}}\n", n)).collect();
            shuffle(rng, &mut ds);
            for d in &ds {
                s.push_str(d);
            }
        }
        "pipe_prop_dup" => {
            s.push_str("[numthreads(1, 1, 1)]\nvoid entry()\n{\n}\nfloat4 vs() : SV_Position\n{\n    return float4(0, 0, 0, 1);\n}\nfloat4 ps() : SV_Target0\n{\n    return float4(0, 0, 0, 1);\n}\n");
            let props = ["VertexShader = vs;", "PixelShader = ps;", "CullMode = None;", "WindingOrder = Clockwise;", "DefaultBindGroup = 1;", "DepthTargetFormat = \"D32\";"];
            let mut ps: Vec<String> = props.iter().chain(props.iter()).map(|p| format!("    {}\n", p)).collect();
            shuffle(rng, &mut ps);
            s.push_str(&format!("Pipeline P\n{{\n{}}}\n", ps.join("")));
        }
        "pipe_prop_unknown" => {
            let ns = names(rng, k);
            s.push_str("[numthreads(1, 1, 1)]\nvoid entry()\n{\n}\n");
            let mut ps: Vec<String> = ns.iter().map(|n| format!("    Prop_{} = 1;\n", n)).collect();
            ps.push("    ComputeShader = entry;\n".to_string());
            shuffle(rng, &mut ps);
            s.push_str(&format!("Pipeline P\n{{\n{}}}\n", ps.join("")));
        }
        "pipe_entry_unknown" => {
            let ns = names(rng, k);
            s.push_str("static int not_a_function = 1;\nstruct NotAFunction\n{\n    int m;\n};\nvoid overloaded(int p)\n{\n}\nvoid overloaded(float p)\n{\n}\n");
            let stages = ["VertexShader", "PixelShader", "MeshShader", "TaskShader"];
            for (i, n) in ns.iter().enumerate() {
                let target = match rng.below(4) {
                    0 => n.clone(),
                    1 => "not_a_function".to_string(),
                    2 => "NotAFunction".to_string(),
                    _ => "overloaded".to_string(),
                };
                s.push_str(&format!("Pipeline P_{}\n{{\n    {} = {};\n}}\n", i, stages[i % stages.len()], target));
            }
        }
        "pipe_no_entry" => {
            let ns = names(rng, k);
            for n in &ns {
                s.push_str(&format!("Pipeline P_{}\n{{\n    CullMode = None;\n}}\n", n));
            }
        }
        "pipe_stage_combo" => {
            s.push_str("[numthreads(1, 1, 1)]\nvoid entry()\n{\n}\nfloat4 vs() : SV_Position\n{\n    return float4(0, 0, 0, 1);\n}\nfloat4 ps() : SV_Target0\n{\n    return float4(0, 0, 0, 1);\n}\n");
            let combos = [
                "    ComputeShader = entry;\n    PixelShader = ps;\n", "    ComputeShader = entry;\n    VertexShader = vs;\n",
                "    VertexShader = vs;\n    MeshShader = entry;\n", "    TaskShader = entry;\n    PixelShader = ps;\n",
                "    PixelShader = ps;\n", "    TaskShader = entry;\n    VertexShader = vs;\n",
            ];
            for i in 0..k {
                s.push_str(&format!("Pipeline P_{}\n{{\n{}}}\n", i, rng.pick(&combos)));
            }
        }
        "pipe_graphics_only" => {
            s.push_str("[numthreads(1, 1, 1)]\nvoid entry()\n{\n}\n");
            let props = ["CullMode = None;", "WindingOrder = Clockwise;", "DepthTargetFormat = \"D32\";", "RenderTargetFormat0 = \"RGBA8\";", "BlendState =\n    {\n        BlendEnabled = true;\n    }"];
            let mut ps: Vec<String> = props.iter().map(|p| format!("    {}\n", p)).collect();
            shuffle(rng, &mut ps);
            ps.insert(rng.below(ps.len() as u64 + 1) as usize, "    ComputeShader = entry;\n".to_string());
            s.push_str(&format!("Pipeline P\n{{\n{}}}\n", ps.join("")));
        }
        "pipe_arg_unknown" => {
            s.push_str("float4 vs() : SV_Position\n{\n    return float4(0, 0, 0, 1);\n}\nfloat4 ps() : SV_Target0\n{\n    return float4(0, 0, 0, 1);\n}\n");
            let props = [
                ["CullMode = Sideways;", "CullMode = 1;"], ["WindingOrder = Widdershins;", "WindingOrder = \"Clockwise\";"],
                ["DepthTargetFormat = D32;", "DepthTargetFormat = 32;"], ["DefaultBindGroup = \"one\";", "DefaultBindGroup = 1.5;"],
                ["RenderTargetFormat0 = RGBA8;", "RenderTargetFormat0 = 8;"], ["BlendState = 1;", "BlendState3 = None;"],
            ];
            let mut ps: Vec<String> = props.iter().map(|p| format!("    {}\n", rng.pick(p))).collect();
            shuffle(rng, &mut ps);
            ps.truncate(k);
            s.push_str(&format!("Pipeline P\n{{\n    VertexShader = vs;\n    PixelShader = ps;\n{}}}\n", ps.join("")));
        }
        "pipe_blend" => {
            s.push_str("float4 vs() : SV_Position\n{\n    return float4(0, 0, 0, 1);\n}\nfloat4 ps() : SV_Target0\n{\n    return float4(0, 0, 0, 1);\n}\n");
            let props = ["BlendEnabled = 3;", "SrcBlend = Sideways;", "BlendOp = Subtract;", "WriteMask = 1.5;", "Unknown = 1;", "DstBlend = \"One\";", "BlendEnabled = true;\n        BlendEnabled = false;"];
            let mut ps: Vec<String> = props.iter().map(|p| format!("        {}\n", p)).collect();
            shuffle(rng, &mut ps);
            ps.truncate(k);
            let which = *rng.pick(&["BlendState", "BlendState0", "BlendState7"]);
            s.push_str(&format!("Pipeline P\n{{\n    VertexShader = vs;\n    PixelShader = ps;\n    {} =\n    {{\n{}    }}\n}}\n", which, ps.join("")));
        }
        // ---------------------------------------------------------------- layout check
        "layout_mismatch" | "layout_unknown" | "layout_load" => {
            let ns = names(rng, k);
            for n in &ns {
                if family == "layout_unknown" {
                    let m = *rng.pick(&["bool flag;", "float4x4 mat;", "float3 v;\n    bool b;"]);
                    s.push_str(&format!("struct S_{}\n{{\n    {}\n}};\n", n, m));
                } else {
                    let m = *rng.pick(&["float3 v;\n    float w;", "float3 v;\n    float3 u;", "float2 t;\n    float3 v;", "half3 h;\n    half g;"]);
                    s.push_str(&format!("struct S_{}\n{{\n    {}\n}};\n", n, m));
                }
            }
            let mut ds: Vec<String> = Vec::new();
            if family == "layout_load" {
                ds.push("ByteAddressBuffer g_raw;\n".to_string());
                let mut body = String::from("void body()\n{\n");
                let mut order: Vec<&String> = ns.iter().collect();
                shuffle(rng, &mut order);
                for n in order {
                    body.push_str(&format!("    S_{} v_{} = g_raw.Load<S_{}>(0);\n", n, n, n));
                }
                body.push_str("}\n");
                ds.push(body);
            } else {
                for n in &ns {
                    let kind = if rng.chance(1, 2) { "StructuredBuffer" } else { "RWStructuredBuffer" };
                    ds.push(format!("{}<S_{}> g_{};\n", kind, n, n));
                }
                shuffle(rng, &mut ds);
            }
            for d in &ds {
                s.push_str(d);
            }
            s.push_str(COMPUTE_TAIL);
            return Some(DiagProg { files: vec![("main.rssl".to_string(), s)], layout: true });
        }
        // ---------------------------------------------------------------- exporters
        "export_undefined_fn" => {
            let ns = names(rng, k);
            for n in &ns {
                s.push_str(&format!("void f_{}(int p);\n", n));
            }
            s.push_str("[numthreads(1, 1, 1)]\nvoid entry()\n{\n");
            let mut order: Vec<&String> = ns.iter().collect();
            shuffle(rng, &mut order);
            for n in order {
                s.push_str(&format!("    f_{}(1);\n", n));
            }
            s.push_str("}\nPipeline P\n{\n    ComputeShader = entry;\n}\n");
        }
        "export_msl_double" => {
            let ns = names(rng, k);
            s.push_str("[numthreads(1, 1, 1)]\nvoid entry()\n{\n");
            for n in &ns {
                match rng.below(3) {
                    0 => s.push_str(&format!("    double {} = 1.0L;\n", n)),
                    1 => s.push_str(&format!("    precise float {} = 1.0;\n", n)),
                    _ => s.push_str(&format!("    double2 {} = double2(1.0L, 2.0L);\n", n)),
                }
            }
            s.push_str("}\nPipeline P\n{\n    ComputeShader = entry;\n}\n");
        }
        "export_msl_matrix" => {
            let ns = names(rng, k);
            s.push_str("[numthreads(1, 1, 1)]\nvoid entry()\n{\n");
            let tys = ["float1x1", "float1x4", "float4x1", "int4x4", "uint2x2", "bool3x3", "float2x2"];
            for n in &ns {
                let t = *rng.pick(&tys);
                s.push_str(&format!("    {} {} = ({})0;\n", t, n, t));
                if rng.chance(1, 3) {
                    s.push_str(&format!("    float sw_{} = {}._m00;\n", n, n));
                }
            }
            s.push_str("}\nPipeline P\n{\n    ComputeShader = entry;\n}\n");
        }
        "export_msl_group" => {
            let ns = names(rng, k);
            let mut ds: Vec<String> = Vec::new();
            for (i, n) in ns.iter().enumerate() {
                ds.push(format!("Buffer<float> g_{} : register(t{}, space{});\n", n, i, 31 + rng.below(60)));
            }
            shuffle(rng, &mut ds);
            for d in &ds {
                s.push_str(d);
            }
            s.push_str("[numthreads(1, 1, 1)]\nvoid entry()\n{\n    float acc = 0;\n");
            let mut order: Vec<&String> = ns.iter().collect();
            shuffle(rng, &mut order);
            for n in order {
                s.push_str(&format!("    acc += g_{}[0];\n", n));
            }
            s.push_str("}\nPipeline P\n{\n    ComputeShader = entry;\n}\n");
        }
        "export_msl_interp" => {
            // the pixel stage reads user semantics the vertex stage never writes
            let ns = names(rng, k);
            s.push_str("void vs(out float4 o_pos : SV_Position, out float4 o_kept : KEPT)\n{\n    o_pos = float4(0, 0, 0, 1);\n    o_kept = o_pos;\n}\n");
            let mut ps: Vec<String> = ns.iter().map(|n| format!("float4 {} : SEM_{}", n, n.to_uppercase())).collect();
            ps.push("float4 kept : KEPT".to_string());
            shuffle(rng, &mut ps);
            s.push_str(&format!("float4 ps({}) : SV_Target0\n{{\n    return kept;\n}}\n", ps.join(", ")));
            s.push_str("Pipeline P\n{\n    VertexShader = vs;\n    PixelShader = ps;\n}\n");
        }
        "export_msl_geometry" => {
            let ns = names(rng, k);
            for n in &ns {
                s.push_str(&format!("struct G_{}\n{{\n    float4 pos : SV_Position;\n}};\n[maxvertexcount(3)]\nvoid gs_{}(triangle G_{} input[3], inout TriangleStream<G_{}> stream)\n{{\n}}\n", n, n, n, n));
            }
            s.push_str(COMPUTE_TAIL);
        }
        "export_msl_uninit" => {
            let ns = names(rng, k);
            let mut ds: Vec<String> = ns.iter().map(|n| format!("static const float c_{};\n", n)).collect();
            shuffle(rng, &mut ds);
            for d in &ds {
                s.push_str(d);
            }
            s.push_str("[numthreads(1, 1, 1)]\nvoid entry()\n{\n    float acc = 0;\n");
            for n in &ns {
                s.push_str(&format!("    acc += c_{};\n", n));
            }
            s.push_str("}\nPipeline P\n{\n    ComputeShader = entry;\n}\n");
        }
        "export_msl_intrinsic" => {
            let ns = names(rng, k);
            let calls = [
                "float {} = f16tof32(1u);", "uint {} = f32tof16(1.0);", "double {} = asdouble(1u, 2u);", "AllMemoryBarrier(); int {} = 0;",
                "GroupMemoryBarrierWithGroupSync(); int {} = 0;", "DeviceMemoryBarrier(); int {} = 0;", "uint {} = firstbithigh(3u);",
                "uint {} = firstbitlow(3u);", "float {} = ddx_coarse(1.0);", "float {} = ddy_coarse(1.0);", "uint {} = WaveActiveCountBits(true);",
                "uint {} = WavePrefixCountBits(true);", "bool {} = WaveActiveAllEqual(1u);", "bool {} = and(true, false);", "bool {} = or(true, false);",
            ];
            for (i, n) in ns.iter().enumerate() {
                s.push_str(&format!("void h_{}()\n{{\n    {}\n}}\n", i, rng.pick(&calls).replace("{}", n)));
            }
            s.push_str("[numthreads(1, 1, 1)]\nvoid entry()\n{\n");
            let mut order: Vec<usize> = (0..ns.len()).collect();
            shuffle(rng, &mut order);
            for i in order {
                s.push_str(&format!("    h_{}();\n", i));
            }
            s.push_str("}\nPipeline P\n{\n    ComputeShader = entry;\n}\n");
        }
        "export_no_pipeline" => {
            let ns = names(rng, k);
            for n in &ns {
                s.push_str(&format!("void f_{}()\n{{\n}}\n", n));
            }
        }
        "export_msl_mesh" => {
            let ns = names(rng, k);
            s.push_str("struct Vert\n{\n    float4 pos : SV_Position;\n};\n");
            for n in &ns {
                s.push_str(&format!("void helper_{}()\n{{\n    SetMeshOutputCounts(3, 1);\n}}\n", n));
            }
            s.push_str("[numthreads(1, 1, 1)]\nvoid entry()\n{\n");
            for n in &ns {
                s.push_str(&format!("    helper_{}();\n", n));
            }
            s.push_str("}\n");
            // form 1 (two outputtopology attributes) reached Metal's MultipleMeshTopology before fix 0f5be73; the type
            // checker now rejects the second attribute on every target (FunctionAttributeDuplicate, see also `attr_dup`)
            match rng.below(3) {
                0 => s.push_str("Pipeline P\n{\n    ComputeShader = entry;\n}\n"),
                1 => s.push_str("[outputtopology(\"triangle\")]\n[outputtopology(\"line\")]\n[numthreads(1, 1, 1)]\nvoid ms(out vertices Vert v[3], out indices uint3 t[1])\n{\n    SetMeshOutputCounts(3, 1);\n}\nfloat4 ps() : SV_Target0\n{\n    return float4(0, 0, 0, 1);\n}\nPipeline P\n{\n    MeshShader = ms;\n    PixelShader = ps;\n}\n"),
                _ => s.push_str("[numthreads(1, 1, 1)]\nvoid ms(out vertices Vert v[3], out indices uint3 t[1])\n{\n    SetMeshOutputCounts(3, 1);\n}\nfloat4 ps() : SV_Target0\n{\n    return float4(0, 0, 0, 1);\n}\nPipeline P\n{\n    MeshShader = ms;\n    PixelShader = ps;\n}\n"),
            }
        }
        // ---------------------------------------------------------------- preprocessor + lexer
        "pp_include_missing" => {
            let ns = names(rng, k);
            for n in &ns {
                s.push_str(&format!("#include \"{}.h\"\n", n));
            }
            s.push_str(COMPUTE_TAIL);
        }
        "pp_include_nested" | "pp_error_in_include" => {
            let ns = names(rng, k);
            let mut files: Vec<(String, String)> = Vec::new();
            for n in &ns {
                s.push_str(&format!("#include \"{}.h\"\n", n));
                let body = if family == "pp_include_nested" {
                    format!("#pragma once\n#include \"missing_{}.h\"\nstatic int v_{} = 0;\n", n, n)
                } else {
                    match rng.below(4) {
                        0 => format!("#pragma once\nstatic int v_{} = unknown_{};\n", n, n),
                        1 => format!("#pragma once\nstatic int v_{} = ;\n", n),
                        2 => format!("#pragma once\n#bogus {}\n", n),
                        _ => format!("#pragma once\nstatic int v_{} = 0;\nstatic float v_{} = 0;\n", n, n),
                    }
                };
                files.push((format!("{}.h", n), body));
            }
            s.push_str(COMPUTE_TAIL);
            shuffle(rng, &mut files);
            files.insert(0, ("main.rssl".to_string(), s));
            return Some(DiagProg { files, layout: false });
        }
        "pp_unknown_directive" => {
            let ns = names(rng, k);
            for n in &ns {
                s.push_str(&format!("#{} 1\nstatic int v_{} = 0;\n", n, n));
            }
            s.push_str(COMPUTE_TAIL);
        }
        "pp_if_bad" => {
            let ns = names(rng, k);
            let conds = ["1 +", "(1", "1 ? 2", "defined(", "@", "1 1", "&& 1", "foo(", "\"s\""];
            for n in &ns {
                s.push_str(&format!("#if {}\nstatic int v_{} = 0;\n#endif\n", rng.pick(&conds), n));
            }
            s.push_str(COMPUTE_TAIL);
        }
        "pp_else_endif" => {
            let ns = names(rng, k);
            let forms = ["#else\n", "#endif\n", "#elif 1\n", "#else junk\n#endif\n", "#ifdef\n#endif\n", "#ifndef 1\n#endif\n", "#if 1\n#else\n#else\n#endif\n", "#if 1\n#endif junk\n"];
            for n in &ns {
                s.push_str(&format!("static int v_{} = 0;\n{}", n, rng.pick(&forms)));
            }
            s.push_str(COMPUTE_TAIL);
        }
        "pp_unterminated" => {
            let ns = names(rng, k);
            s.push_str(COMPUTE_TAIL);
            for n in &ns {
                s.push_str(&format!("#if{} {}\nstatic int v_{} = 0;\n", if rng.chance(1, 2) { "def" } else { "" }, if rng.chance(1, 2) { "1" } else { "X" }, n));
            }
        }
        "pp_macro_args" => {
            let ns = names(rng, k);
            for n in &ns {
                s.push_str(&format!("#define M_{}(a, b) a + b\n", n));
            }
            let mut uses: Vec<String> = Vec::new();
            for n in &ns {
                uses.push(match rng.below(4) {
                    0 => format!("static int v_{} = M_{}(1);\n", n, n),
                    1 => format!("static int v_{} = M_{}(1, 2, 3);\n", n, n),
                    2 => format!("static int v_{} = M_{};\n", n, n),
                    _ => format!("static int v_{} = M_{}(1, 2;\n", n, n),
                });
            }
            shuffle(rng, &mut uses);
            for u in &uses {
                s.push_str(u);
            }
            s.push_str(COMPUTE_TAIL);
        }
        "pp_concat" => {
            let ns = names(rng, k);
            let forms = ["#define C_{} ## a\n", "#define C_{} a ##\n", "#define C_{}(x) x ## +\n", "#define C_{}(x) ## x\n", "#define C_{}(x) 1 ## x ## .\n"];
            for n in &ns {
                s.push_str(&rng.pick(&forms).replace("{}", n));
            }
            for n in &ns {
                s.push_str(&format!("static int v_{} = C_{}(-);\n", n, n));
            }
            s.push_str(COMPUTE_TAIL);
        }
        "pp_pragma" => {
            let ns = names(rng, k);
            for n in &ns {
                s.push_str(&format!("#pragma {}\n", n));
            }
            s.push_str(COMPUTE_TAIL);
        }
        "pp_include_depth" => {
            let ns = names(rng, k);
            let mut files: Vec<(String, String)> = Vec::new();
            for (i, n) in ns.iter().enumerate() {
                s.push_str(&format!("#include \"{}.h\"\n", n));
                let next = &ns[(i + 1 + rng.below(ns.len() as u64 - 1) as usize) % ns.len()];
                files.push((format!("{}.h", n), format!("static int v_{} = 0;\n#include \"{}.h\"\n", n, next)));
            }
            files.insert(0, ("main.rssl".to_string(), s));
            return Some(DiagProg { files, layout: false });
        }
        "pp_define_bad" => {
            let ns = names(rng, k);
            let forms = ["#define\n", "#define 1{} 2\n", "#define M_{}(a,\n", "#define M_{}(a b) a\n", "#undef\n", "#undef 1{}\n", "#define M_{}(1) a\n", "#include {}\n", "#include <{}\n", "#include\n"];
            for n in &ns {
                s.push_str(&rng.pick(&forms).replace("{}", n));
            }
            s.push_str(COMPUTE_TAIL);
        }
        "lex_bad_char" => {
            let ns = names(rng, k);
            let bad = ["@", "$", "`", "\\", "\u{7f}", "#", "1.2.3", "0x", "1e", "'a", "\u{e9}"];
            for n in &ns {
                s.push_str(&format!("static int v_{} = {};\n", n, rng.pick(&bad)));
            }
            s.push_str(COMPUTE_TAIL);
        }
        "lex_unterminated" => {
            let ns = names(rng, k);
            for n in &ns {
                s.push_str(&format!("static int v_{} = 0;\n", n));
            }
            s.push_str(*rng.pick(&["/* never closed\n", "static int s = \"never closed;\n", "static int s = 'x;\n", "/* a /* b */\n*/\n"]));
            s.push_str(COMPUTE_TAIL);
        }
        // ---------------------------------------------------------------- parser
        "parse_many" => {
            let ns = names(rng, k);
            let forms = [
                "static int v_{} = ;\n", "static int v_{} = (1;\n", "static v_{};\n", "void f_{}(\n{\n}\n", "struct S_{}\n{\n    int\n};\n",
                "static int v_{} = 1 +;\n", "void f_{}()\n{\n    if\n}\n", "static int v_{}[;\n", "enum E_{}\n{\n    = 1\n};\n", "}\n",
                "void f_{}()\n{\n    for (;;\n}\n", "static int v_{} = 1 2;\n", "[numthreads(1, 1, 1)\nvoid f_{}()\n{\n}\n",
            ];
            for n in &ns {
                s.push_str(&rng.pick(&forms).replace("{}", n));
            }
            s.push_str(COMPUTE_TAIL);
        }
        "parse_register" => {
            let ns = names(rng, k);
            let forms = [
                "Buffer<float> g_{} : register(x0);\n", "Buffer<float> g_{} : register(t);\n", "Buffer<float> g_{} : register(t0, room1);\n",
                "Buffer<float> g_{} : register(tx);\n", "Buffer<float> g_{} : register(t0, spaceX);\n", "Buffer<float> g_{} : packoffset(c0);\n",
                "Buffer<float> g_{} : register(t99999999999);\n",
            ];
            for n in &ns {
                s.push_str(&rng.pick(&forms).replace("{}", n));
            }
            s.push_str(COMPUTE_TAIL);
        }
        "parse_eof" => {
            let ns = names(rng, k);
            for n in &ns {
                s.push_str(&format!("static int v_{} = 0;\n", n));
            }
            s.push_str(*rng.pick(&["void f()\n{\n", "struct S\n{\n    int m;\n", "static int x = (1 + ", "namespace N\n{\n", "void f(int a,", "enum E\n{\n    A,"]));
        }
        "parse_in_namespace" => {
            let ns = names(rng, k);
            for n in &ns {
                s.push_str(&format!("namespace N_{}\n{{\n    static int v = ;\n}}\n", n));
            }
            s.push_str(COMPUTE_TAIL);
        }
        "parse_misc" => {
            let ns = names(rng, k);
            let forms = [
                "static int v_{} = 0; }\n", "[attr_{}]\nstruct S_{}\n{\n    int m;\n};\n", "static NotAType<int v_{};\n", "void f_{}()\n{\n    NotAType * p;\n    (NotAType) 1;\n}\n",
                "Buffer<float> g_{} : register(q0);\n", "Buffer<float> g_{} : register(0);\n", "[numthreads(1, 1, 1)]\nstatic int v_{} = 0;\n", "[unroll]\nvoid f_{}()\n{\n}\n",
                "void f_{}()\n{\n    [numthreads(1, 1, 1)]\n    int x = 0;\n}\n", "typedef;\n", "static int v_{} = sizeof();\n", "template<>\nvoid f_{}()\n{\n}\n",
            ];
            for n in &ns {
                s.push_str(&rng.pick(&forms).replace("{}", n));
            }
            s.push_str(COMPUTE_TAIL);
        }
        "lex_misc" => {
            let ns = names(rng, k);
            let forms = [
                "static float v_{} = 1.0q;\n", "static float v_{} = 1.5x;\n", "static int v_{} = 99999999999999999999999999999999999999999;\n",
                "static int v_{} = 0xffffffffffffffffffffffffffffffffff;\n", "static int v_{} = \"wraps\n\";\n", "static int v_{} = \"bad \\q escape\";\n",
                "#include \"wraps_{}\n", "#include <wraps_{}\n", "#include \"bad\\0{}.h\"\n", "static int v_{} = 1e+;\n", "static int v_{} = 0b12;\n", "static int v_{} = 08;\n",
                "static float v_{} = 1.0ff;\n", "static uint v_{} = 1uu;\n", "static int v_{} = 1lu;\n",
            ];
            for n in &ns {
                s.push_str(&rng.pick(&forms).replace("{}", n));
            }
            s.push_str(COMPUTE_TAIL);
        }
        "pp_misc" => {
            let ns = names(rng, k);
            for n in &ns {
                s.push_str(&format!("#define M_{}(a) a\n", n));
            }
            let forms = [
                "static int v_{} = M_{};\n", "static int v_{} = M_{} + 1;\n", "#if M_{}\n#endif\n", "#pragma once\n#pragma once junk_{}\n", "#line 5 \"x_{}\"\n",
                "#error stop_{}\n", "#warning careful_{}\n", "#if defined\n#endif\n", "#if defined(\n#endif\n", "#ifdef M_{} extra\n#endif\n", "#undef M_{} extra\n",
                "#define M_{}\n#define M_{} 1\n", "#include M_{}\n", "#elif 1\n", "#if 1 / 0\n#endif\n", "#if 1 % 0\n#endif\n",
            ];
            let mut uses: Vec<String> = ns.iter().map(|n| rng.pick(&forms).replace("{}", n)).collect();
            shuffle(rng, &mut uses);
            for u in &uses {
                s.push_str(u);
            }
            s.push_str(COMPUTE_TAIL);
        }
        // ---------------------------------------------------------------- fix batch 2
        "attr_dup" => {
            // 0f5be73: a second attribute of a kind the function already has; k functions, each an offender
            let ns = names(rng, k);
            let kinds: [(&str, &str, &str); 4] = [
                ("numthreads(8, 4, 1)", "numthreads(4, 8, 1)", "void f_{}()\n{\n}\n"),
                ("WaveSize(32)", "WaveSize(64)", "[numthreads(1, 1, 1)]\nvoid f_{}()\n{\n}\n"),
                ("outputtopology(\"triangle\")", "outputtopology(\"line\")", "[numthreads(1, 1, 1)]\nvoid f_{}()\n{\n}\n"),
                ("maxvertexcount(3)", "maxvertexcount(6)", "void f_{}()\n{\n}\n"),
            ];
            for n in &ns {
                let (a, b, body) = *rng.pick(&kinds);
                let (a, b) = if rng.chance(1, 2) { (a, b) } else { (b, a) };
                let sep = if rng.chance(1, 2) { "\n" } else { " " };
                if rng.chance(1, 3) {
                    s.push_str(&format!("[{}]{}[{}]{}[{}]\n", a, sep, b, sep, a));
                } else {
                    s.push_str(&format!("[{}]{}[{}]\n", a, sep, b));
                }
                s.push_str(&body.replace("{}", n));
            }
            s.push_str(COMPUTE_TAIL);
        }
        "struct_base_methods" => {
            // 0a6a37c: k base structs with methods, k structs inheriting from them
            let ns = names(rng, k);
            for n in &ns {
                s.push_str(&format!("struct Base_{}\n{{\n    int m_{};\n    void method_{}()\n    {{\n    }}\n}};\n", n, n, n));
            }
            let mut ds: Vec<String> = ns.iter().map(|n| format!("struct Derived_{} : Base_{}\n{{\n    int extra_{};\n}};\n", n, n, n)).collect();
            shuffle(rng, &mut ds);
            for d in &ds {
                s.push_str(d);
            }
            s.push_str(COMPUTE_TAIL);
        }
        "fn_template_default" => {
            // 963c475: default template arguments on function templates
            let ns = names(rng, k);
            let forms = [
                "template<int N_{} = 1>\nvoid f_{}()\n{\n}\n", "template<typename T_{} = float>\nvoid f_{}(T_{} p)\n{\n}\n",
                "template<typename T_{}, int N_{} = 2>\nvoid f_{}()\n{\n}\n", "template<typename T_{} = int>\nT_{} f_{}();\n",
            ];
            for n in &ns {
                s.push_str(&rng.pick(&forms).replace("{}", n));
            }
            s.push_str(COMPUTE_TAIL);
        }
        "template_value_signature" => {
            // 0523738: a template value parameter named by the signature of the function template
            let ns = names(rng, k);
            let forms = [
                "template<int N_{}>\nvoid f_{}(float p[N_{}])\n{\n}\n", "template<int N_{}>\nvoid f_{}(int p = N_{})\n{\n}\n",
                "template<uint N_{}>\nvector<float, N_{}> f_{}()\n{\n    return 0;\n}\n", "template<int N_{}, typename T_{}>\nvoid f_{}(T_{} a, float b[N_{} + 1])\n{\n}\n",
            ];
            for n in &ns {
                s.push_str(&rng.pick(&forms).replace("{}", n));
            }
            s.push_str(COMPUTE_TAIL);
        }
        "const_part_write" => {
            // 95baa20, 4575004, 2065f10: writes to a part of a const object, of a temporary, of a cbuffer block, of a mips view
            let ns = names(rng, k);
            s.push_str("struct Pod\n{\n    int q;\n    float3 v;\n    float arr[2];\n};\nTexture2D<float4> g_tex;\ncbuffer Block\n{\n    float4 cv;\n    float ca[2];\n    Pod cp;\n};\nfloat3 make()\n{\n    return 0;\n}\nPod make_pod()\n{\n    return (Pod)0;\n}\n");
            s.push_str("void body()\n{\n    const Pod cs = (Pod)0;\n    const float carr[3] = { 1, 2, 3 };\n    const float3 cvec = 0;\n");
            let forms = [
                "    cs.q = {};\n", "    cs.v.x = {};\n", "    cs.arr[1] = {};\n", "    cs.q++;\n", "    --cs.v.y;\n", "    carr = carr;\n", "    carr[0] = {};\n", "    cvec.x = {};\n",
                "    cvec[1] += {};\n", "    make()[0] = {};\n", "    make().x = {};\n", "    make_pod().q = {};\n", "    make()[1]++;\n", "    cv.x = {};\n", "    ca[0]++;\n", "    cv = {};\n",
                "    cp.q = {};\n", "    cp.arr[0] -= {};\n", "    g_tex.mips[0] = g_tex.mips[1];\n", "    g_tex.mips[{}][uint2(0, 0)] = 0;\n",
            ];
            for (i, _) in ns.iter().enumerate() {
                s.push_str(&rng.pick(&forms).replace("{}", &format!("{}", i + 1)));
            }
            s.push_str("}\n");
            s.push_str(COMPUTE_TAIL);
        }
        "out_arg_place" => {
            // b359800, 3758fdd: out / inout arguments that do not name a mutable object of the parameter's type
            let ns = names(rng, k);
            s.push_str("struct Pod\n{\n    float3 v;\n    int q;\n};\ncbuffer Block\n{\n    float3 cb_v;\n};\nvoid give(out float3 p)\n{\n    p = 0;\n}\nvoid both(inout int p)\n{\n    p = p + 1;\n}\nfloat3 make()\n{\n    return 0;\n}\nPod make_pod()\n{\n    return (Pod)0;\n}\n");
            s.push_str("void body()\n{\n    const Pod cs = (Pod)0;\n    int1 one;\n    float1x1 m11;\n    uint u;\n    float f;\n    int3 i3;\n");
            let forms = [
                "    give(cs.v);\n", "    both(cs.q);\n", "    give(make());\n", "    both(make_pod().q);\n", "    both(one);\n", "    both(u);\n", "    both(f);\n",
                "    give(i3);\n", "    give(cb_v);\n", "    both(m11);\n", "    both(make()[0]);\n",
            ];
            for _ in &ns {
                s.push_str(*rng.pick(&forms));
            }
            s.push_str("}\n");
            s.push_str(COMPUTE_TAIL);
        }
        "default_arg_wrong" => {
            // 5ae792a: a default argument that can not be converted to the type of its parameter
            let ns = names(rng, k);
            s.push_str("struct Pod\n{\n    int q;\n};\nTexture2D<float4> g_tex;\n");
            let forms = [
                "void f_{}(int p = (Pod)0)\n{\n}\n", "void f_{}(Pod p = 1)\n{\n}\n", "void f_{}(float3 p = float2(1, 2))\n{\n}\n", "void f_{}(int a, float4 p = g_tex)\n{\n}\n",
                "void f_{}(Texture2D<float4> p = 0)\n{\n}\n", "void f_{}(float2x2 p = float3(1, 2, 3))\n{\n}\n",
            ];
            let mut ds: Vec<String> = ns.iter().map(|n| rng.pick(&forms).replace("{}", n)).collect();
            shuffle(rng, &mut ds);
            for d in &ds {
                s.push_str(d);
            }
            s.push_str(COMPUTE_TAIL);
        }
        "enum_incomplete" => {
            // 54a869d, 03679c6: an enum named as a type inside its own definition; an enum that takes the name of a namespace
            let ns = names(rng, k + 1);
            if rng.chance(1, 2) {
                let forms = ["    {} = ({0})A_{0}", "    {} = sizeof({0})", "    {} = ({0})0", "    {} = (int)({0})1"];
                let mut ds: Vec<String> = Vec::new();
                for n in &ns[1..] {
                    let e = format!("E_{}", n);
                    let val = rng.pick(&forms).replace("{0}", &e).replacen("{}", &format!("B_{}", n), 1);
                    ds.push(format!("enum {}\n{{\n    A_{},\n{}\n}};\n", e, e, val));
                }
                shuffle(rng, &mut ds);
                for d in &ds {
                    s.push_str(d);
                }
            } else {
                for n in &ns[1..] {
                    s.push_str(&format!("namespace N_{}\n{{\n    static const int x_{} = 1;\n}}\n", n, n));
                }
                let mut ds: Vec<String> = ns[1..].iter().map(|n| format!("enum N_{}\n{{\n    V_{}\n}};\n", n, n)).collect();
                shuffle(rng, &mut ds);
                for d in &ds {
                    s.push_str(d);
                }
            }
            s.push_str(COMPUTE_TAIL);
        }
        "rayquery_flags" => {
            // 1af5148: RayQuery flags outside 32 bits
            let ns = names(rng, k);
            s.push_str("void body()\n{\n");
            for n in &ns {
                match rng.below(3) {
                    0 => s.push_str(&format!("    RayQuery<{}> q_{};\n", 0x1_0000_0000u64 + rng.below(1 << 16), n)),
                    1 => s.push_str(&format!("    RayQuery<-{}> q_{};\n", 1 + rng.below(100), n)),
                    _ => s.push_str(&format!("    RayQuery<{}l> q_{};\n", 0x2_0000_0000u64 + rng.below(1 << 16), n)),
                }
            }
            s.push_str("}\n");
            s.push_str(COMPUTE_TAIL);
        }
        "pp_else_after_else" => {
            // 03ca601: a second #else / an #elif after the #else, in k blocks
            let ns = names(rng, k);
            for n in &ns {
                let open = *rng.pick(&["#if 0\n", "#if 1\n", "#ifdef UNDEFINED_NAME\n", "#ifndef UNDEFINED_NAME\n"]);
                let second = if rng.chance(1, 2) { "#else\n".to_string() } else { format!("#elif {}\n", rng.below(2)) };
                s.push_str(&format!("{}static int a_{};\n#else\nstatic int b_{};\n{}static int c_{};\n#endif\n", open, n, n, second, n));
            }
            s.push_str(COMPUTE_TAIL);
        }
        "pp_if_across_include" => {
            // 115a619: the #if blocks of an included file have to start and end inside that file
            let ns = names(rng, k);
            let mut files: Vec<(String, String)> = Vec::new();
            let closing = rng.chance(1, 2);
            for n in &ns {
                if closing {
                    // the file closes / continues a block that the includer opened
                    let body = *rng.pick(&["#else\n", "#endif\n", "#elif 1\n", "static int inner;\n#endif\n"]);
                    s.push_str(&format!("#if 1\nstatic int a_{};\n#include \"{}.h\"\nstatic int b_{};\n#endif\n", n, n, n));
                    files.push((format!("{}.h", n), body.to_string()));
                } else {
                    // the file leaves a block open
                    let body = match rng.below(3) {
                        0 => format!("#if 1\nstatic int open_{};\n", n),
                        1 => format!("#ifndef GUARD_{}\n#define GUARD_{}\nstatic int open_{};\n", n, n, n),
                        _ => format!("#if 0\n#else\nstatic int open_{};\n", n),
                    };
                    s.push_str(&format!("#include \"{}.h\"\nstatic int t_{};\n#endif\n", n, n));
                    files.push((format!("{}.h", n), body));
                }
            }
            s.push_str(COMPUTE_TAIL);
            let mut all = vec![("main.rssl".to_string(), s)];
            all.extend(files);
            return Some(DiagProg { files: all, layout: false });
        }
        "export_fix2" => {
            // exporter errors that were panics: e78a598 (mips intermediates), 6017bad (integer constants too large to
            // print), 4baf400 (struct templates), 774c0b4 (globals of non-resource object types), 9275619 (function
            // templates that were only declared); k offenders of one kind
            let ns = names(rng, k);
            match rng.below(5) {
                0 => {
                    s.push_str("Texture2D<float4> g_tex;\nTexture2DArray<float4> g_arr;\n");
                    for n in &ns {
                        s.push_str(&format!("template<typename T>\nvoid take_{}(T p)\n{{\n}}\n", n));
                    }
                    s.push_str("void body()\n{\n");
                    for n in &ns {
                        s.push_str(&format!("    take_{}({}.mips);\n", n, rng.pick(&["g_tex", "g_arr"])));
                    }
                    s.push_str("}\n");
                }
                1 => {
                    s.push_str("void body(int sel)\n{\n    switch (sel)\n    {\n");
                    for (i, _) in ns.iter().enumerate() {
                        s.push_str(&format!("        case 1 << {}:\n            break;\n", 70 + 3 * i as u64 + rng.below(3)));
                    }
                    s.push_str("    }\n}\n");
                }
                2 => {
                    for n in &ns {
                        s.push_str(&format!("template<typename T>\nstruct Holder_{}\n{{\n    T item_{};\n}};\n", n, n));
                    }
                }
                3 => {
                    let mut ds: Vec<String> = ns.iter().map(|n| format!("{} g_{};\n", rng.pick(&["RayDesc", "RayQuery<0>", "TriangleStream<float4>"]), n)).collect();
                    shuffle(rng, &mut ds);
                    for d in &ds {
                        s.push_str(d);
                    }
                }
                _ => {
                    for n in &ns {
                        s.push_str(&format!("template<typename T>\nvoid only_declared_{}(T p);\n", n));
                    }
                    s.push_str("void body()\n{\n");
                    let mut order: Vec<&String> = ns.iter().collect();
                    shuffle(rng, &mut order);
                    for n in order {
                        s.push_str(&format!("    only_declared_{}({});\n", n, rng.pick(&["1", "1.5", "true"])));
                    }
                    s.push_str("}\n");
                }
            }
            s.push_str("[numthreads(1, 1, 1)]\nvoid entry()\n{\n}\nPipeline P\n{\n    ComputeShader = entry;\n}\n");
        }
        "export_msl_fix2" => {
            // Metal exporter errors that were panics: 9824ce3 (double literals), 922a181 (for initialiser mixing an object
            // and an array of objects), 2ba03a4 (entry point using a global without a binding slot), 791cc36 (vertices /
            // primitives outputs outside a mesh shader)
            let ns = names(rng, k);
            match rng.below(4) {
                0 => {
                    s.push_str("void body()\n{\n");
                    for n in &ns {
                        s.push_str(&format!("    float v_{} = {};\n", n, rng.pick(&["1e999L", "2.5L", "-1e999L", "0.0L"])));
                    }
                    s.push_str("}\n");
                    s.push_str(COMPUTE_TAIL);
                }
                1 => {
                    s.push_str("ByteAddressBuffer g_raw;\nvoid body()\n{\n");
                    for n in &ns {
                        s.push_str(&format!("    for (ByteAddressBuffer a_{} = g_raw, b_{}[2];;)\n    {{\n        break;\n    }}\n", n, n));
                    }
                    s.push_str("}\n");
                    s.push_str(COMPUTE_TAIL);
                }
                2 => {
                    let mut ds: Vec<String> = ns.iter().map(|n| format!("{} g_{};\n", rng.pick(&["float", "int3", "float4x4"]), n)).collect();
                    shuffle(rng, &mut ds);
                    for d in &ds {
                        s.push_str(d);
                    }
                    s.push_str("[numthreads(1, 1, 1)]\nvoid entry()\n{\n");
                    let mut order: Vec<&String> = ns.iter().collect();
                    shuffle(rng, &mut order);
                    for n in order {
                        s.push_str(&format!("    g_{};\n", n));
                    }
                    s.push_str("}\nPipeline P\n{\n    ComputeShader = entry;\n}\n");
                }
                _ => {
                    s.push_str("struct Vert\n{\n    float4 pos : SV_Position;\n};\n");
                    let mut params: Vec<String> = ns.iter().map(|n| format!("out {} Vert v_{}", rng.pick(&["vertices", "primitives"]), n)).collect();
                    shuffle(rng, &mut params);
                    s.push_str(&format!("void vs({})\n{{\n}}\nPipeline P\n{{\n    VertexShader = vs;\n}}\n", params.join(", ")));
                }
            }
        }
        "layout_fix2" => {
            // 24ea36f (sizes beyond 32 bits), d99f90e (arrays of structured buffers), d25724e (empty structs on Metal),
            // bdddd35 (arrays of structured buffers behind a typedef of an array)
            let ns = names(rng, k);
            let which = rng.below(4);
            let mut ds: Vec<String> = Vec::new();
            for n in &ns {
                match which {
                    0 => {
                        let size = *rng.pick(&["4294967295", "4294967296", "1073741824", "3000000000"]);
                        s.push_str(&format!("struct S_{}\n{{\n    float a[{}];\n}};\n", n, size));
                        ds.push(format!("StructuredBuffer<S_{}> g_{};\n", n, n));
                    }
                    1 => {
                        s.push_str(&format!("struct S_{}\n{{\n    float a;\n    float2 b;\n}};\n", n));
                        ds.push(format!("StructuredBuffer<S_{}> g_{}[{}];\n", n, n, 2 + rng.below(3)));
                    }
                    2 => {
                        s.push_str(&format!("struct S_{}\n{{\n    float a;\n    float2 b;\n}};\ntypedef {}StructuredBuffer<S_{}> A_{}[2];\n", n, rng.pick(&["", "const "]), n, n));
                        ds.push(format!("A_{} g_{}[{}];\n", n, n, 2 + rng.below(3)));
                    }
                    _ => {
                        s.push_str(&format!("struct E_{}\n{{\n}};\nstruct S_{}\n{{\n    E_{} e;\n    float a;\n}};\n", n, n, n));
                        ds.push(format!("StructuredBuffer<S_{}> g_{};\n", n, n));
                    }
                }
            }
            shuffle(rng, &mut ds);
            for d in &ds {
                s.push_str(d);
            }
            s.push_str(COMPUTE_TAIL);
            return Some(DiagProg { files: vec![("main.rssl".to_string(), s)], layout: true });
        }
        "redef_fn_global" => {
            // 6824b1b: a global variable that takes the name of a function (1-3 overloads) of its scope
            let ns = names(rng, k);
            let in_namespace = rng.chance(1, 3);
            if in_namespace {
                s.push_str("namespace Outer\n{\n");
            }
            for n in &ns {
                let tys = ["int", "float", "uint"];
                for o in 0..rng.range(1, 3) as usize {
                    s.push_str(&format!("{} {}({} p)\n{{\n    return p;\n}}\n", tys[o], n, tys[o]));
                }
            }
            let mut ds: Vec<String> = ns.iter().map(|n| format!("{} {};\n", rng.pick(&["static int", "static const float", "Texture2D<float4>", "groupshared uint"]), n)).collect();
            shuffle(rng, &mut ds);
            for d in &ds {
                s.push_str(d);
            }
            if in_namespace {
                s.push_str("}\n");
            }
            s.push_str(COMPUTE_TAIL);
        }
        "member_fix2" => {
            // 92047b7 (a member name that is only a leading ::), 4189835 (swizzle on a constant buffer of a vector)
            let ns = names(rng, k);
            s.push_str("struct Pod\n{\n    int x;\n};\n");
            let cb = rng.chance(1, 2);
            for n in &ns {
                if cb {
                    s.push_str(&format!("ConstantBuffer<float4> cb_{};\n", n));
                }
            }
            s.push_str("void body()\n{\n");
            let mut uses: Vec<String> = Vec::new();
            for n in &ns {
                if cb {
                    uses.push(format!("    float f_{} = cb_{}.{};\n", n, n, rng.pick(&["x", "xy.x", "w", "rgb.r"])));
                } else {
                    uses.push(format!("    Pod s_{};\n    s_{}.::x = 1;\n", n, n));
                }
            }
            shuffle(rng, &mut uses);
            for u in &uses {
                s.push_str(u);
            }
            s.push_str("}\n");
            s.push_str(COMPUTE_TAIL);
        }
        "enum_value_namespace" => {
            // fe5dd8d: enum values that reuse the name of a namespace of the enclosing scope (k offenders: in one enum, or one
            // per enum), optionally inside an outer namespace, and next to values that share their name with a constant
            // buffer block (accepted since the same fix - those do not hide the offenders)
            let ns = names(rng, k + 2);
            let outer = rng.chance(1, 3);
            if outer {
                s.push_str("namespace Outer\n{\n");
            }
            let with_cbuffer = rng.chance(1, 2);
            if with_cbuffer {
                s.push_str(&format!("cbuffer {}\n{{\n    int member_{};\n}}\n", ns[k], ns[k]));
            }
            let mut decls: Vec<String> = ns[..k].iter().map(|n| format!("namespace {}\n{{\n    static const int inner_{} = 1;\n}}\n", n, n)).collect();
            shuffle(rng, &mut decls);
            for d in &decls {
                s.push_str(d);
            }
            if rng.chance(1, 2) {
                let mut items: Vec<String> = ns[..k].iter().map(|n| format!("    {}", n)).collect();
                items.push(format!("    {} = 5", ns[k + 1]));
                shuffle(rng, &mut items);
                if with_cbuffer {
                    items.insert(0, format!("    {}", ns[k]));
                }
                s.push_str(&format!("enum Holder\n{{\n{}\n}};\n", items.join(",\n")));
            } else {
                let mut es: Vec<String> = ns[..k].iter().enumerate().map(|(i, n)| format!("enum Holder{}\n{{\n    First_{} = {},\n    {}\n}};\n", i, n, i, n)).collect();
                shuffle(rng, &mut es);
                if with_cbuffer {
                    es.insert(0, format!("enum Shared\n{{\n    {},\n    {}\n}};\n", ns[k], ns[k + 1]));
                }
                for e in &es {
                    s.push_str(e);
                }
            }
            if outer {
                s.push_str("}\n");
            }
            s.push_str(COMPUTE_TAIL);
        }
        "swizzle_long" => {
            // c805c03: swizzles of scalars and vectors with 5..8 components (reads and writes)
            let ns = names(rng, k);
            s.push_str("void body()\n{\n");
            let mut uses: Vec<String> = Vec::new();
            for n in &ns {
                let (ty, set): (&str, &[&str]) = match rng.below(5) {
                    0 => ("float4", &["x", "y", "z", "w"]),
                    1 => ("int3", &["x", "y", "z"]),
                    2 => ("uint2", &["r", "g"]),
                    3 => ("float", &["x"]),
                    _ => ("half", &["r"]),
                };
                let len = rng.range(5, 8) as usize;
                let sw: String = (0..len).map(|_| *rng.pick(set)).collect::<Vec<_>>().join("");
                let mut u = format!("    {} v_{} = ({})0;\n", ty, n, ty);
                match rng.below(3) {
                    0 => u.push_str(&format!("    v_{}.{};\n", n, sw)),
                    1 => u.push_str(&format!("    float r_{} = (float)v_{}.{}.x;\n", n, n, sw)),
                    _ => u.push_str(&format!("    v_{}.{} = 1;\n", n, sw)),
                }
                uses.push(u);
            }
            shuffle(rng, &mut uses);
            for u in &uses {
                s.push_str(u);
            }
            s.push_str("}\n");
            s.push_str(COMPUTE_TAIL);
        }
        "export_msl_fix3" => {
            // 92d66eb: on Metal `target %= value` over floats becomes `target = fmod(target, value)`; a target with side
            // effects - and since 35faaaa a right operand that writes - is an export error (ComplexRemainderAssignment). k offenders in k functions / statements; the HLSL
            // targets accept the program (the operator is kept)
            let ns = names(rng, k);
            s.push_str("static int s_count = 0;\nint bump()\n{\n    s_count = s_count + 1;\n    return s_count;\n}\nstruct Holder\n{\n    float m[4];\n    float3 v;\n};\n");
            let per_function = rng.chance(1, 2);
            let mut bodies: Vec<String> = Vec::new();
            for n in &ns {
                // 35faaaa: a right operand that writes (call, assignment, increment) is refused as well
                let (target, value) = match rng.below(8) {
                    0 => (format!("a_{}[i++]", n), "y".to_string()),
                    1 => (format!("a_{}[--i]", n), "y".to_string()),
                    2 => (format!("a_{}[bump()]", n), "y".to_string()),
                    3 => (format!("h_{}.m[i += 1]", n), "y".to_string()),
                    4 => (format!("h_{}.m[bump() & 3]", n), "y".to_string()),
                    5 => (format!("a_{}[1]", n), "(float)bump()".to_string()),
                    6 => (format!("h_{}.v", n), format!("(h_{}.v = float3(y, y, y))", n)),
                    _ => (format!("h_{}.m[2]", n), "(float)(i++)".to_string()),
                };
                bodies.push(format!("    float a_{}[4];\n    Holder h_{};\n    a_{}[0] = 1.0f;\n    h_{}.m[0] = 1.0f;\n    {} %= {};\n", n, n, n, n, target, value));
            }
            shuffle(rng, &mut bodies);
            if per_function {
                for (i, b) in bodies.iter().enumerate() {
                    s.push_str(&format!("void body{}(int i, float y)\n{{\n{}}}\n", i, b));
                }
                s.push_str("[numthreads(1, 1, 1)]\nvoid entry()\n{\n");
                let mut order: Vec<usize> = (0..bodies.len()).collect();
                shuffle(rng, &mut order);
                for i in order {
                    s.push_str(&format!("    body{}(0, 2.0f);\n", i));
                }
                s.push_str("}\nPipeline P\n{\n    ComputeShader = entry;\n}\n");
            } else {
                s.push_str("void body(int i, float y)\n{\n");
                for b in &bodies {
                    s.push_str(b);
                }
                s.push_str("}\n[numthreads(1, 1, 1)]\nvoid entry()\n{\n    body(0, 2.0f);\n}\nPipeline P\n{\n    ComputeShader = entry;\n}\n");
            }
        }
        _ => return None,
    }
    Some(single(s))
}

/// String literals passed as first argument to `check_fail(`, `check_fail_message(` (and other given call names)
/// in a Rust test file: the repository's own rejected inputs.
pub fn extract_rejected_inputs(text: &str, calls: &[&str]) -> Vec<String> {
    let b = text.as_bytes();
    let mut out = Vec::new();
    let mut i = 0;
    while i < b.len() {
        let mut hit = None;
        for c in calls {
            if text[i..].starts_with(c) && (i == 0 || !(b[i - 1].is_ascii_alphanumeric() || b[i - 1] == b'_')) {
                hit = Some(c.len());
                break;
            }
        }
        let Some(len) = hit else {
            i += 1;
            continue;
        };
        let mut j = i + len;
        while j < b.len() && b[j].is_ascii_whitespace() {
            j += 1;
        }
        if j >= b.len() || b[j] != b'"' {
            i += len;
            continue;
        }
        j += 1;
        let mut lit = String::new();
        let mut ok = false;
        let chars: Vec<char> = text[j..].chars().collect();
        let mut p = 0;
        while p < chars.len() {
            let c = chars[p];
            if c == '"' {
                ok = true;
                break;
            }
            if c == '\\' && p + 1 < chars.len() {
                p += 1;
                match chars[p] {
                    'n' => lit.push('\n'),
                    't' => lit.push('\t'),
                    'r' => lit.push('\r'),
                    '0' => lit.push('\0'),
                    '\\' => lit.push('\\'),
                    '"' => lit.push('"'),
                    '\'' => lit.push('\''),
                    '\n' => {
                        // line continuation: skip following whitespace
                        while p + 1 < chars.len() && chars[p + 1].is_whitespace() {
                            p += 1;
                        }
                    }
                    other => {
                        lit.push('\\');
                        lit.push(other);
                    }
                }
            } else {
                lit.push(c);
            }
            p += 1;
        }
        if ok {
            out.push(lit);
        }
        i += len;
    }
    out
}

-- Root of the `RsslVerif` library; per-property theorem modules are built by name by ./check.
import RsslVerif.Lemmas.Slots

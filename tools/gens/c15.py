"""Translator plugin for C15: Gen.Reserved

Re-extracted from /repo on every run:
  * hlsl/src/names.rs, msl/src/names.rs : RESERVED_NAMES (string literals and `pub const X: &str` references,
    in source order), the fixed generated identifiers of the MSL exporter
  * typer/src/typer/types.rs            : is_illegal_variable_name / is_illegal_type_name
  * ir/src/name_generator.rs            : the facts of NameMap::build the model relies on (candidate format,
    keep-verbatim condition, which sets the two loops test) as literal fingerprints
  * hlsl/src/ast_generate.rs, msl/src/generator.rs : the arguments of the NameMap::build call
"""
import re


def register(gen, T):
    from rustsrc import ExtractError, fn_body, impl_fn_body, lean_str, normws, matching, split_top

    def str_consts(text):
        return {m.group(1): m.group(2) for m in
                re.finditer(r'pub\s+const\s+([A-Z0-9_]+)\s*:\s*&str\s*=\s*"((?:[^"\\]|\\.)*)"\s*;', text)}

    def reserved_list(text, what):
        m = re.search(r'pub\s+const\s+RESERVED_NAMES\s*:\s*&\[&str\]\s*=\s*&\[', text)
        if not m:
            raise ExtractError(f"{what}: RESERVED_NAMES not found")
        i = m.end() - 1
        j = matching(text, i)
        consts = str_consts(text)
        out = []
        for part in split_top(text[i + 1:j], ','):
            p = part.strip()
            if not p:
                continue
            sm = re.fullmatch(r'"((?:[^"\\]|\\.)*)"', p)
            if sm:
                if '\\' in sm.group(1):
                    raise ExtractError(f"{what}: escape in reserved name {p}")
                out.append(sm.group(1))
            elif p in consts:
                out.append(consts[p])
            else:
                raise ExtractError(f"{what}: cannot read RESERVED_NAMES entry {p!r}")
        if not out:
            raise ExtractError(f"{what}: RESERVED_NAMES is empty")
        return out, consts

    def matches_list(text, fn):
        body = fn_body(text, fn)
        m = re.search(r'matches!\s*\(', body)
        if not m:
            raise ExtractError(f"{fn}: matches! not found")
        i = m.end() - 1
        j = matching(body, i)
        args = split_top(body[i + 1:j], ',')
        if len(args) < 2 or normws(args[0]) != "name.as_str()":
            raise ExtractError(f"{fn}: unexpected matches! scrutinee")
        pats = ','.join(args[1:])
        names = []
        for p in split_top(pats, '|'):
            p = p.strip()
            if not p:
                continue
            sm = re.fullmatch(r'"([^"\\]*)"', p)
            if not sm:
                raise ExtractError(f"{fn}: pattern {p!r} is not a string literal")
            names.append(sm.group(1))
        return names

    def build_call(text, what):
        m = re.search(r'NameMap::build\(\s*module\s*,\s*RESERVED_NAMES\s*,\s*(true|false)\s*\)', text)
        if not m:
            raise ExtractError(f"{what}: NameMap::build(module, RESERVED_NAMES, <bool>) not found")
        return m.group(1)

    @gen("Reserved")
    def gen_reserved():
        hl = T.src("hlsl/src/names.rs")
        ms = T.src("msl/src/names.rs")
        ty = T.src("typer/src/typer/types.rs")
        ng = T.src("ir/src/name_generator.rs")
        hg = T.src("hlsl/src/ast_generate.rs")
        mg = T.src("msl/src/generator.rs")
        hres, _ = reserved_list(hl, "hlsl")
        mres, mconsts = reserved_list(ms, "msl")
        out = [T.header("Reserved", ["hlsl/src/names.rs", "msl/src/names.rs", "typer/src/typer/types.rs",
                                     "ir/src/name_generator.rs", "hlsl/src/ast_generate.rs", "msl/src/generator.rs"])]

        def lst(name, doc, items):
            out.append(f"/-- {doc} -/\ndef {name} : List String :=\n  [" +
                       ",\n   ".join(", ".join(lean_str(x) for x in items[k:k + 6]) for k in range(0, len(items), 6)) +
                       "]\n\n")

        lst("hlsl", "`RESERVED_NAMES` of hlsl/src/names.rs, source order", hres)
        lst("msl", "`RESERVED_NAMES` of msl/src/names.rs, source order (constants resolved)", mres)
        lst("mslFixed", "fixed identifiers the MSL exporter generates (`pub const … : &str` of msl/src/names.rs)",
            [mconsts[k] for k in mconsts])
        lst("illegalVariableNames", "`is_illegal_variable_name`", matches_list(ty, "is_illegal_variable_name"))
        lst("illegalTypeNames", "`is_illegal_type_name`", matches_list(ty, "is_illegal_type_name"))

        # --- fingerprints of NameMap::build
        body = impl_fn_body(ng, r'NameMap', "build")
        flat = normws(body)
        fmts = re.findall(r'format!\(\s*"([^"]*)"\s*,\s*name\s*,\s*counter\s*\)', flat)
        if len(fmts) != 2 or fmts[0] != fmts[1]:
            raise ExtractError(f"NameMap::build: expected two identical candidate format! calls, found {fmts}")
        out.append(f"/-- the `format!` string of both candidate loops of `NameMap::build` -/\n"
                   f"def candFormat : String := {lean_str(fmts[0])}\n\n")
        facts = {
            "claimLoop": r'let mut kept_names = HashSet::new\(\); for \(name, symbols\) in &name_to_symbol_vec \{ if symbols\.len\(\) == 1 && used_names\.insert\(\(\*name\)\.clone\(\)\) \{ kept_names\.insert\(\*name\); \} \}',
            "keepCondition": r'let name = if kept_names\.contains\(name\) \{ name\.clone\(\) \} else \{',
            "scopeLoopInsert": r'if used_names\.insert\(candidate\.clone\(\)\) \{ used_names_all_scopes\.insert\(candidate\.clone\(\)\); break candidate; \} counter \+= 1;',
            "scopeUsedStartsReserved": r'let mut used_names = reserved_name_set\.clone\(\);',
            "allScopesStartsReserved": r'let mut used_names_all_scopes = reserved_name_set\.clone\(\);',
            "sortedByName": r'name_to_symbol_vec\.sort_by\(\|l, r\| String::cmp\(l\.0, r\.0\)\);',
            "usageOfAllFunctions": r'let usage = usage_analysis::GlobalUsageAnalysis::calculate\(module\); for id in module\.function_registry\.iter\(\) \{ for used_symbol in usage\.get_usage_for_function\(id\) \{',
            "usageKinds": r'usage_analysis::UsageSymbol::Function\(id\) => NameSymbol::Function\(id\), usage_analysis::UsageSymbol::GlobalVariable\(id\) => NameSymbol::GlobalVariable\(id\), usage_analysis::UsageSymbol::ConstantBuffer\(_\) => continue,',
            "usageReserves": r'if let Some\(name_string\) = name_map\.names\.get\(&symbol\) \{ used_names_all_scopes\.insert\(name_string\.name\.clone\(\)\); \}',
            "localTest": r'let picked_name = if used_names_all_scopes\.contains\(name\) \{',
            "localLoop": r'if !all_local_names\.contains\(&candidate\) && used_names_all_scopes\.insert\(candidate\.clone\(\)\) \{ break candidate; \} counter \+= 1;',
            "localKeeps": r'\} else \{ String::from\(name\) \};',
            "counterStartsAtZero": r'let mut counter = 0; loop \{ let candidate',
        }
        for k, pat in facts.items():
            n = len(re.findall(pat, flat))
            want = 2 if k == "counterStartsAtZero" else 1
            out.append(f"/-- source fingerprint `{k}` of NameMap::build found {n} time(s), expected {want} -/\n"
                       f"def fact_{k} : Bool := {'true' if n == want else 'false'}\n\n")
        order = re.findall(r'name_vec\.push\(NameSymbol::([A-Za-z]+)\(\*?[a-z_]+\)\)', flat)
        lst("pushOrder", "order in which `NameMap::build` pushes symbol kinds into the per-scope vectors", order)
        out.append(f"/-- third argument of the `NameMap::build` call in hlsl/src/ast_generate.rs -/\n"
                   f"def hlslIntrinsicsReserved : Bool := {build_call(hg, 'hlsl')}\n\n")
        out.append(f"/-- third argument of the `NameMap::build` call in msl/src/generator.rs -/\n"
                   f"def mslIntrinsicsReserved : Bool := {build_call(mg, 'msl')}\n")
        out.append(T.footer("Reserved"))
        return "".join(out)

import RsslVerif.Model.IrVec
import RsslVerif.Spec.SemWT
/-!
# `Spec.SemVec` — meaning of the vector layer (property C01, shape-changing forms)

Values are a scalar or a list of scalars.  Two evaluators, as in `Spec.Sem`:

* `VIr.eval` — typed: a `Cast` converts by the *value's* shape and the target type (`castShape`: scalar → vector
  replicates, vector → scalar takes the first component, vector → shorter vector drops the tail, a one-component vector
  replicates; then every component is converted: typer/src/casting.rs `DimensionCast` + `PrimaryCast`); operators act
  component-wise on two operands of one shape; a constructor concatenates the components of its slots (each slot has
  `arity` components); a swizzle selects components.
* `VAst.eval` — C-like: static types (`VAst.typeOf`), the usual arithmetic conversions extended to vectors (`vcommon`: the
  scalar kind as in `Ast.common`, a scalar operand is replicated, the longer of two vectors is truncated), implicit
  conversion `vconvert` wherever the static type differs from the one needed, a call of a type name constructs (every
  argument converted to the target's scalar kind in its own shape, components concatenated), `.xyzw` / `.rgba` members
  select, a C-style cast converts by `castShape`.

Vector variables live in `ρ` (read-only inside an expression: the layer has no vector assignment); scalar leaves
thread the scalar store exactly as in `Spec.Sem`.
-/
namespace RsslVerif.Spec.SemVec
open RsslVerif.Gen.HlslGenTables RsslVerif.Gen.HlslVecTables RsslVerif.Model RsslVerif.Model.IrVec RsslVerif.Spec.Sem
open RsslVerif.Model.Ir (Ty Var)

inductive VVal where
  | sc (v : Val)
  | vec (vs : List Val)
  deriving DecidableEq, Repr, Inhabited

def VVal.comps : VVal → List Val
  | .sc v => [v]
  | .vec vs => vs

/-- vector environment -/
abbrev VStore := Var → VVal

abbrev VR := Option (VVal × Store)

def mapOpt {α β : Type} (f : α → Option β) : List α → Option (List β)
  | [] => some []
  | x :: xs =>
    match f x with
    | none => none
    | some y =>
      match mapOpt f xs with
      | none => none
      | some ys => some (y :: ys)

def zipOpt (f : Val → Val → Option Val) : List Val → List Val → Option (List Val)
  | [], [] => some []
  | x :: xs, y :: ys =>
    match f x y with
    | none => none
    | some z =>
      match zipOpt f xs ys with
      | none => none
      | some zs => some (z :: zs)
  | _, _ => none

/-- component-wise unary operation -/
def lift1 (f : Val → Option Val) : VVal → Option VVal
  | .sc x => (f x).map .sc
  | .vec xs => (mapOpt f xs).map .vec

/-- component-wise binary operation on two operands of one shape -/
def lift2 (f : Val → Val → Option Val) : VVal → VVal → Option VVal
  | .sc x, .sc y => (f x y).map .sc
  | .vec xs, .vec ys => (zipOpt f xs ys).map .vec
  | _, _ => none

/-- the meaning of a conversion to `ty` (explicit cast, or implicit conversion): dimension change, then every component
converted -/
def castShape (P : Prim) (ty : VTy) (v : VVal) : Option VVal :=
  match ty, v with
  | .sc t, .sc x => (castVal P t x).map .sc
  | .sc t, .vec (x :: _) => (castVal P t x).map .sc
  | .sc _, .vec [] => none
  | .vec t n, .sc x => (castVal P t x).map (fun y => .vec (List.replicate n y))
  | .vec t n, .vec xs =>
    match xs with
    | [x] => (castVal P t x).map (fun y => .vec (List.replicate n y))
    | _ => if n ≤ xs.length then (mapOpt (castVal P t) (xs.take n)).map .vec else none

def castShapeR (P : Prim) (ty : VTy) (r : VR) : VR :=
  match r with
  | none => none
  | some (v, σ) =>
    match castShape P ty v with
    | none => none
    | some v' => some (v', σ)

def slotIdx : SwizzleSlot → Nat
  | .X => 0 | .Y => 1 | .Z => 2 | .W => 3

/-- components `idx` of a value; one selected component is a scalar -/
def select (idx : List Nat) (v : VVal) : Option VVal :=
  match mapOpt (fun i => v.comps[i]?) idx with
  | none => none
  | some [x] => some (.sc x)
  | some ys => some (.vec ys)

/-- a value of numeric type `ty` from its components -/
def build (ty : VTy) (vals : List Val) : Option VVal :=
  match ty, vals with
  | .sc _, [x] => some (.sc x)
  | .sc _, _ => none
  | .vec _ n, xs => if xs.length = n then some (.vec xs) else none

/-- type of a swizzle with `k` slots on components of kind `t` -/
def swzTy (t : Ty) (k : Nat) : VTy := if k = 1 then .sc t else .vec t k

/-! ## typed semantics -/
namespace VIr

mutual
def eval (W : World) (ρ : VStore) : VExpr → Store → VR
  | .sc e, σ =>
    match Ir.eval W e σ with
    | none => none
    | some (v, σ1) => some (.sc v, σ1)
  | .vvar id, σ => some (ρ (.loc id), σ)
  | .vglobal id, σ => some (ρ (.glob id), σ)
  | .cast ty e, σ => castShapeR W.P ty (eval W ρ e σ)
  | .swz e sl, σ =>
    match eval W ρ e σ with
    | none => none
    | some (v, σ1) =>
      match select (sl.map slotIdx) v with
      | none => none
      | some r => some (r, σ1)
  | .ctor ty slots, σ =>
    match evalSlots W ρ slots σ with
    | none => none
    | some (vals, σ1) =>
      match build ty vals with
      | none => none
      | some r => some (r, σ1)
  | .tern c t f, σ =>
    match eval W ρ c σ with
    | some (.sc (.b true), σ1) => eval W ρ t σ1
    | some (.sc (.b false), σ1) => eval W ρ f σ1
    | _ => none
  | .op o args, σ =>
    match args with
    | .cons a .nil =>
      match irOpSem o with
      | .un m =>
        match eval W ρ a σ with
        | none => none
        | some (v, σ1) =>
          match lift1 (unop W.P m) v with
          | none => none
          | some r => some (r, σ1)
      | _ => none
    | .cons a (.cons b .nil) =>
      match irOpSem o with
      | .bin m =>
        match eval W ρ a σ with
        | none => none
        | some (va, σ1) =>
          match eval W ρ b σ1 with
          | none => none
          | some (vb, σ2) =>
            match lift2 (binop W.P m) va vb with
            | none => none
            | some r => some (r, σ2)
      | .land =>
        match eval W ρ a σ with
        | some (.sc (.b false), σ1) => some (.sc (.b false), σ1)
        | some (.sc (.b true), σ1) =>
          match eval W ρ b σ1 with
          | some (.sc (.b r), σ2) => some (.sc (.b r), σ2)
          | _ => none
        | _ => none
      | .lor =>
        match eval W ρ a σ with
        | some (.sc (.b true), σ1) => some (.sc (.b true), σ1)
        | some (.sc (.b false), σ1) =>
          match eval W ρ b σ1 with
          | some (.sc (.b r), σ2) => some (.sc (.b r), σ2)
          | _ => none
        | _ => none
      | _ => none
    | _ => none
/-- slots left to right, their components concatenated (`arity` is the static component count of the slot's type, see
`slotsOK`; the value's components are what the constructor receives) -/
def evalSlots (W : World) (ρ : VStore) : VSlots → Store → Option (List Val × Store)
  | .nil, σ => some ([], σ)
  | .cons _ e r, σ =>
    match eval W ρ e σ with
    | none => none
    | some (v, σ1) =>
      match evalSlots W ρ r σ1 with
      | none => none
      | some (l, σ2) => some (v.comps ++ l, σ2)
end

/- the type checker's invariants (`Expression::get_type`, `IntrinsicOp::get_return_type`'s assertions,
`ConstructorSlot`'s contract): what "accepted" means for this layer -/
mutual
def typeOf (sig : Sig) (vty : Var → Ty) (vvty : Var → VTy) : VExpr → Option VTy
  | .sc e => (Ir.typeOf sig vty e).map .sc
  | .vvar id => some (vvty (.loc id))
  | .vglobal id => some (vvty (.glob id))
  | .cast ty e =>
    match typeOf sig vty vvty e with
    | none => none
    | some _ => if ty.scalar = .lit ∨ ty.scalar = .flit ∨ ty.scalar = .void then none else some ty
  | .swz e sl =>
    match typeOf sig vty vvty e with
    | some (.vec t n) => if sl ≠ [] ∧ sl.all (fun s => decide (slotIdx s < n)) = true ∧ e.litlike = false then some (swzTy t sl.length) else none
    | some (.sc t) => if sl ≠ [] ∧ sl.all (fun s => decide (slotIdx s < 1)) = true ∧ e.litlike = false then some (swzTy t sl.length) else none
    | none => none
  | .ctor ty slots =>
    match slotsOK sig vty vvty ty.scalar slots with
    | none => none
    | some total => if total = ty.count ∧ ty.scalar ≠ .lit ∧ ty.scalar ≠ .flit ∧ ty.scalar ≠ .void then some ty else none
  | .tern c t f =>
    match typeOf sig vty vvty c, typeOf sig vty vvty t, typeOf sig vty vvty f with
    | some (.sc .bool), some tt, some tf => if tt = tf ∧ (t.litlike && f.litlike) = false then some tt else none
    | _, _, _ => none
  | .op o args =>
    match args with
    | .cons a .nil =>
      match irOpSem o, typeOf sig vty vvty a with
      | .un .lnot, some t => if t.scalar = .bool ∧ a.litlike = false then some t else none
      | .un _, some t => if a.litlike = false then some t else none
      | _, _ => none
    | .cons a (.cons b .nil) =>
      match irOpSem o, typeOf sig vty vvty a, typeOf sig vty vvty b with
      | .bin m, some ta, some tb =>
        if ta = tb ∧ (a.litlike && b.litlike) = false then (if m.isCmp then some (ta.withScalar .bool) else some ta) else none
      | .land, some (.sc .bool), some (.sc .bool) => some (.sc .bool)
      | .lor, some (.sc .bool), some (.sc .bool) => some (.sc .bool)
      | _, _, _ => none
    | _ => none
/-- every slot is typed, has the constructor's scalar kind and as many components as its arity; total component count -/
def slotsOK (sig : Sig) (vty : Var → Ty) (vvty : Var → VTy) (k : Ty) : VSlots → Option Nat
  | .nil => some 0
  | .cons n e r =>
    match typeOf sig vty vvty e, slotsOK sig vty vvty k r with
    | some te, some m => if te.scalar = k ∧ te.count = n then some (n + m) else none
    | _, _ => none
end

/- the side condition of the scalar theorems on every scalar leaf -/
mutual
def litOK : VExpr → Bool
  | .sc e => Ir.litOK e
  | .vvar _ => true
  | .vglobal _ => true
  | .cast _ e => litOK e
  | .swz e _ => litOK e
  | .ctor _ slots => litOKSlots slots
  | .tern c t f => litOK c && litOK t && litOK f
  | .op _ args => litOKs args
def litOKs : VExprs → Bool
  | .nil => true
  | .cons e r => litOK e && litOKs r
def litOKSlots : VSlots → Bool
  | .nil => true
  | .cons _ e r => litOK e && litOKSlots r
end

end VIr

/-! ## C-like semantics of the emitted syntax -/
namespace VAst

/-- what the C front end knows: the scalar environment plus vector-typed names -/
structure VEnv where
  base : Ast.Env
  vres : String → Option Var
  vvty : Var → VTy

def scalarNames : List (String × Ty) := [("bool", .bool), ("int", .int), ("uint", .uint), ("float", .float)]

/-- `float`, `float3`, … -/
def vtyTable : List (String × VTy) :=
  scalarNames.map (fun p => (p.1, VTy.sc p.2)) ++
  scalarNames.flatMap (fun p => [(p.1 ++ "1", VTy.vec p.2 1), (p.1 ++ "2", VTy.vec p.2 2), (p.1 ++ "3", VTy.vec p.2 3), (p.1 ++ "4", VTy.vec p.2 4)])

def vtyOfName (n : String) : Option VTy := (vtyTable.find? (fun p => p.1 == n)).map (·.2)

def charIdx : Char → Option Nat
  | 'x' | 'r' => some 0
  | 'y' | 'g' => some 1
  | 'z' | 'b' => some 2
  | 'w' | 'a' => some 3
  | _ => none

/-- the components a member name selects -/
def parseSwizzle (m : String) : Option (List Nat) := mapOpt charIdx m.toList

/-- usual arithmetic conversions on vectors -/
def vcommon (a b : VTy) : Option VTy :=
  match Ast.common a.scalar b.scalar with
  | none => none
  | some k =>
    match a, b with
    | .sc _, .sc _ => some (.sc k)
    | .sc _, .vec _ n => some (.vec k n)
    | .vec _ n, .sc _ => some (.vec k n)
    | .vec _ n, .vec _ m => some (.vec k (if n = 1 then m else if m = 1 then n else min n m))

def vconvert (P : Prim) (from_ to : VTy) (v : VVal) : Option VVal :=
  if from_ = to then some v else castShape P to v

def vconvR (P : Prim) (from_ to : VTy) (r : VR) : VR :=
  match r with
  | none => none
  | some (v, σ) =>
    match vconvert P from_ to v with
    | none => none
    | some v' => some (v', σ)

/-- static type of a member selection -/
def memberTy (t : VTy) (m : String) : Option VTy :=
  match parseSwizzle m with
  | none => none
  | some idx =>
    if idx ≠ [] ∧ idx.all (fun i => decide (i < t.count)) = true then some (swzTy t.scalar idx.length) else none

mutual
def typeOf (sig : Sig) (env : VEnv) : VAExpr → Option VTy
  | .sc a => (Ast.typeOf sig env.base a).map .sc
  | .ident s => (env.vres s).map env.vvty
  | .cast n e =>
    match typeOf sig env e with
    | none => none
    | some _ => vtyOfName n
  | .member e m =>
    match typeOf sig env e with
    | none => none
    | some t => memberTy t m
  | .call f args =>
    match vtyOfName f with
    | none => none
    | some ty => if argsTyped sig env args then some ty else none
  | .un op e =>
    match astUnSem op, typeOf sig env e with
    | .un .lnot, some t => some (t.withScalar .bool)
    | .un _, some t => some t
    | _, _ => none
  | .bin op a b =>
    match astBinSem op, typeOf sig env a, typeOf sig env b with
    | .bin m, some ta, some tb =>
      match vcommon ta tb with
      | none => none
      | some t => if m.isCmp then some (t.withScalar .bool) else some t
    | .land, some (.sc _), some (.sc _) => some (.sc .bool)
    | .lor, some (.sc _), some (.sc _) => some (.sc .bool)
    | _, _, _ => none
  | .tern c t f =>
    match typeOf sig env c, typeOf sig env t, typeOf sig env f with
    | some _, some tt, some tf => vcommon tt tf
    | _, _, _ => none
def argsTyped (sig : Sig) (env : VEnv) : VAExprs → Bool
  | .nil => true
  | .cons e r => (typeOf sig env e).isSome && argsTyped sig env r
end

mutual
def eval (W : World) (env : VEnv) (ρ : VStore) : VAExpr → Store → VR
  | .sc a, σ =>
    match Ast.eval W env.base a σ with
    | none => none
    | some (v, σ1) => some (.sc v, σ1)
  | .ident s, σ =>
    match env.vres s with
    | none => none
    | some x => some (ρ x, σ)
  | .cast n e, σ =>
    match vtyOfName n with
    | none => none
    | some ty => castShapeR W.P ty (eval W env ρ e σ)
  | .member e m, σ =>
    match typeOf W.sig env e with
    | none => none
    | some t =>
      match memberTy t m, parseSwizzle m with
      | some _, some idx =>
        match eval W env ρ e σ with
        | none => none
        | some (v, σ1) =>
          match select idx v with
          | none => none
          | some r => some (r, σ1)
      | _, _ => none
  | .call f args, σ =>
    match vtyOfName f with
    | none => none
    | some ty =>
      match evalCtorArgs W env ρ ty.scalar args σ with
      | none => none
      | some (vals, σ1) =>
        match build ty vals with
        | none => none
        | some r => some (r, σ1)
  | .tern c t f, σ =>
    match typeOf W.sig env c, typeOf W.sig env t, typeOf W.sig env f with
    | some tc, some tt, some tf =>
      match vcommon tt tf with
      | none => none
      | some T =>
        match vconvR W.P tc (.sc .bool) (eval W env ρ c σ) with
        | some (.sc (.b true), σ1) => vconvR W.P tt T (eval W env ρ t σ1)
        | some (.sc (.b false), σ1) => vconvR W.P tf T (eval W env ρ f σ1)
        | _ => none
    | _, _, _ => none
  | .un op e, σ =>
    match astUnSem op with
    | .un m =>
      match typeOf W.sig env e with
      | none => none
      | some te =>
        match vconvR W.P te (if m = .lnot then te.withScalar .bool else te) (eval W env ρ e σ) with
        | none => none
        | some (v, σ1) =>
          match lift1 (unop W.P m) v with
          | none => none
          | some r => some (r, σ1)
    | _ => none
  | .bin op a b, σ =>
    match astBinSem op with
    | .bin m =>
      match typeOf W.sig env a, typeOf W.sig env b with
      | some ta, some tb =>
        match vcommon ta tb with
        | none => none
        | some T =>
          match vconvR W.P ta T (eval W env ρ a σ) with
          | none => none
          | some (va, σ1) =>
            match vconvR W.P tb T (eval W env ρ b σ1) with
            | none => none
            | some (vb, σ2) =>
              match lift2 (binop W.P m) va vb with
              | none => none
              | some r => some (r, σ2)
      | _, _ => none
    | .land =>
      -- scalars only (HLSL 2021: `&&` short-circuits and does not accept vectors)
      match typeOf W.sig env a, typeOf W.sig env b with
      | some (.sc ta), some (.sc tb) =>
        match vconvR W.P (.sc ta) (.sc .bool) (eval W env ρ a σ) with
        | some (.sc (.b false), σ1) => some (.sc (.b false), σ1)
        | some (.sc (.b true), σ1) =>
          match vconvR W.P (.sc tb) (.sc .bool) (eval W env ρ b σ1) with
          | some (.sc (.b r), σ2) => some (.sc (.b r), σ2)
          | _ => none
        | _ => none
      | _, _ => none
    | .lor =>
      match typeOf W.sig env a, typeOf W.sig env b with
      | some (.sc ta), some (.sc tb) =>
        match vconvR W.P (.sc ta) (.sc .bool) (eval W env ρ a σ) with
        | some (.sc (.b true), σ1) => some (.sc (.b true), σ1)
        | some (.sc (.b false), σ1) =>
          match vconvR W.P (.sc tb) (.sc .bool) (eval W env ρ b σ1) with
          | some (.sc (.b r), σ2) => some (.sc (.b r), σ2)
          | _ => none
        | _ => none
      | _, _ => none
    | _ => none
/-- constructor arguments left to right, each converted to scalar kind `k` in its own shape, components concatenated -/
def evalCtorArgs (W : World) (env : VEnv) (ρ : VStore) (k : Ty) : VAExprs → Store → Option (List Val × Store)
  | .nil, σ => some ([], σ)
  | .cons e r, σ =>
    match typeOf W.sig env e with
    | none => none
    | some te =>
      match vconvR W.P te (te.withScalar k) (eval W env ρ e σ) with
      | none => none
      | some (v, σ1) =>
        match evalCtorArgs W env ρ k r σ1 with
        | none => none
        | some (l, σ2) => some (v.comps ++ l, σ2)
end

end VAst

/-! ## statement-level assignment to a vector variable or to a swizzle of one

`v = E;`, `v.xz = E;`, `v += E;`, `v.yx *= E;` with `E` an expression of the layer: the one place where the vector store
changes.  (Assignments nested inside expressions stay outside the layer.) -/

def VStore.set (ρ : VStore) (x : Var) (v : VVal) : VStore := fun y => if y = x then v else ρ y

/-- overwrite components `idx` (in order) with `vals` -/
def writeIdx : List Val → List Nat → List Val → Option (List Val)
  | xs, [], [] => some xs
  | xs, i :: is, v :: vs => if i < xs.length then writeIdx (xs.set i v) is vs else none
  | _, _, _ => none

/-- the new value of a variable after writing `v` to the whole of it / to the components `idx` -/
def writePlace (cur : VVal) (idx : Option (List Nat)) (v : VVal) : Option VVal :=
  match idx with
  | none => some v
  | some is =>
    match cur with
    | .vec xs => (writeIdx xs is v.comps).map .vec
    | .sc _ => none

/-- current value of the place -/
def readPlace (cur : VVal) (idx : Option (List Nat)) : Option VVal :=
  match idx with
  | none => some cur
  | some is => select is cur

namespace VIr
/-- `Variable(x)` / `Global(x)` of vector type, or `Swizzle` of one -/
def placeOf : VExpr → Option (Var × Option (List SwizzleSlot))
  | .vvar id => some (.loc id, none)
  | .vglobal id => some (.glob id, none)
  | .swz (.vvar id) sl => some (.loc id, some sl)
  | .swz (.vglobal id) sl => some (.glob id, some sl)
  | _ => none

/-- a top-level expression: an assignment / compound assignment to a vector place updates the vector store and yields the
stored value; anything else is evaluated as before -/
def evalTop (W : World) (ρ : VStore) (e : VExpr) (σ : Store) : Option (VVal × Store × VStore) :=
  match e with
  | .op o (.cons lhs (.cons rhs .nil)) =>
    match irOpSem o with
    | .assign =>
      match placeOf lhs with
      | none => none
      | some (x, sl) =>
        match eval W ρ rhs σ with
        | none => none
        | some (v, σ1) =>
          match writePlace (ρ x) (sl.map (·.map slotIdx)) v with
          | none => none
          | some nv => some (v, σ1, ρ.set x nv)
    | .compound m =>
      match placeOf lhs with
      | none => none
      | some (x, sl) =>
        match eval W ρ rhs σ with
        | none => none
        | some (v, σ1) =>
          match readPlace (ρ x) (sl.map (·.map slotIdx)) with
          | none => none
          | some cur =>
            match lift2 (binop W.P m) cur v with
            | none => none
            | some r =>
              match writePlace (ρ x) (sl.map (·.map slotIdx)) r with
              | none => none
              | some nv => some (r, σ1, ρ.set x nv)
    | _ => (eval W ρ e σ).map fun r => (r.1, r.2, ρ)
  | _ => (eval W ρ e σ).map fun r => (r.1, r.2, ρ)

/-- typing of a top-level assignment: a place of type `T`, a right-hand side of type `T` (the type checker converts it),
not a comparison operator -/
def assignOK (sig : Sig) (vty : Var → Ty) (vvty : Var → VTy) (lhs rhs : VExpr) : Option VTy :=
  match placeOf lhs, typeOf sig vty vvty lhs, typeOf sig vty vvty rhs with
  | some _, some tl, some tr => if tl = tr then some tl else none
  | _, _, _ => none
end VIr

namespace VAst
/-- the variable and components an emitted assignment target denotes -/
def lvalOfV (env : VEnv) : VAExpr → Option (Var × Option (List Nat))
  | .ident s => (env.vres s).map fun x => (x, none)
  | .member (.ident s) m =>
    match env.vres s, parseSwizzle m with
    | some x, some idx => some (x, some idx)
    | _, _ => none
  | _ => none

def evalTop (W : World) (env : VEnv) (ρ : VStore) (a : VAExpr) (σ : Store) : Option (VVal × Store × VStore) :=
  match a with
  | .bin op l r =>
    match astBinSem op with
    | .assign =>
      match lvalOfV env l, typeOf W.sig env l, typeOf W.sig env r with
      | some (x, idx), some T, some tr =>
        -- the right operand is converted to the type of the left operand; the stored value is the result
        match vconvR W.P tr T (eval W env ρ r σ) with
        | none => none
        | some (v, σ1) =>
          match writePlace (ρ x) idx v with
          | none => none
          | some nv => some (v, σ1, ρ.set x nv)
      | _, _, _ => none
    | .compound m =>
      match lvalOfV env l, typeOf W.sig env l, typeOf W.sig env r with
      | some (x, idx), some T, some tr =>
        match vcommon T tr with
        | none => none
        | some C =>
          match vconvR W.P tr C (eval W env ρ r σ) with
          | none => none
          | some (v, σ1) =>
            match readPlace (ρ x) idx with
            | none => none
            | some cur0 =>
              match vconvert W.P T C cur0 with
              | none => none
              | some cur =>
                match lift2 (binop W.P m) cur v with
                | none => none
                | some r1 =>
                  match vconvert W.P C T r1 with
                  | none => none
                  | some r2 =>
                    match writePlace (ρ x) idx r2 with
                    | none => none
                    | some nv => some (r2, σ1, ρ.set x nv)
      | _, _, _ => none
    | _ => (eval W env ρ a σ).map fun r => (r.1, r.2, ρ)
  | _ => (eval W env ρ a σ).map fun r => (r.1, r.2, ρ)
end VAst

end RsslVerif.Spec.SemVec

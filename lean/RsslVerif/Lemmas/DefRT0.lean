import RsslVerif.Lemmas.StmtRT4
import RsslVerif.Model.ParseDef
/-! Round trip of function and struct definitions: the type in front of a name, semantics, parameters. -/
set_option linter.unusedSimpArgs false
set_option linter.unusedVariables false
namespace RsslVerif.Lemmas.DefRT
open RsslVerif.Gen.FmtTables RsslVerif.Gen.ParseTables RsslVerif.Gen.SyntaxTables RsslVerif.Model.Format
open RsslVerif.Model.FormatFull RsslVerif.Model.ParseFull RsslVerif.Model.FormatStmt RsslVerif.Model.ParseStmt
open RsslVerif.Model.FormatDef RsslVerif.Model.ParseDef
open RsslVerif.Lemmas.FmtParseTables RsslVerif.Lemmas.RoundtripFull RsslVerif.Lemmas.StmtRT

variable (W : List String)

/-- a token that may follow a type: not `<`, not a trailing qualifier, not a `>`-family token, not `=` -/
def AfterTy (t : Tok) : Prop :=
  t.isLt = false ∧ t ≠ .p .Const ∧ t ≠ .p .Volatile ∧ t.isGt = false ∧ t ≠ .p .Equals

theorem afterTy_id (n : String) : AfterTy (.id n) :=
  ⟨rfl, (by intro h; cases h), (by intro h; cases h), rfl, (by intro h; cases h)⟩
theorem afterTy_star : AfterTy (.p .Asterix) :=
  ⟨rfl, (by intro h; cases h), (by intro h; cases h), rfl, (by intro h; cases h)⟩
theorem afterTy_amp : AfterTy (.p .Ampersand) :=
  ⟨rfl, (by intro h; cases h), (by intro h; cases h), rfl, (by intro h; cases h)⟩

/-- modifiers, name and template arguments of a type in front of a token that may follow a type -/
theorem ty_reads (mods : List TypeMod) (n : String) (targs : TArgs) (fol : Bool)
    (hstop : modBeforeStep (.id n) = .stop) (hwT : WFTArgs W targs) (t0 : Tok) (r0 : List Tok) (hT0 : AfterTy t0)
    (hsafe : hasLtTArgs targs = true → TmplFree (toks (fmtTArgs targs fol) ++ t0 :: r0) = true) :
    ∃ N, ∀ f, N ≤ f →
      parseTy W f (mods.map modTok ++ (.id n :: (toks (fmtTArgs targs fol) ++ t0 :: r0))) = some ((mods, n, targs), t0 :: r0) := by
  have hT : ∃ N1, ∀ f, N1 ≤ f →
      parseTArgsReq W f (toks (fmtTArgs targs fol) ++ t0 :: r0) = some (targs, t0 :: r0) ∨
      (parseTArgsReq W f (toks (fmtTArgs targs fol) ++ t0 :: r0) = none ∧ targs = .nil) := by
    cases hta : targs with
    | nil =>
      refine ⟨0, fun f _ => Or.inr ⟨?_, rfl⟩⟩
      simp only [fmtTArgs, toks_nil, List.nil_append]
      exact parseTArgsReq_notlt W f t0 _ hT0.1
    | cons a r =>
      have hRT := rtTArgs_of_list W targs hwT (rtL W targs hwT)
      rw [hta] at hRT hwT
      obtain ⟨N1, h1⟩ := hRT a r rfl fol (t0 :: r0)
        (shift_of_head (by intro t r h; simp only [List.cons.injEq] at h; rw [← h.1]; exact hT0.2.2.2.1))
        (noEq_of_head (by intro t r h; simp only [List.cons.injEq] at h; rw [← h.1]; exact hT0.2.2.2.2))
        (fun hl => by
          have := hsafe (by simp [hta, hl])
          simpa [hta] using this)
      exact ⟨N1, fun f hf => Or.inl (h1 f hf)⟩
  obtain ⟨N1, h1⟩ := hT
  have hafter : takeModsAfter (t0 :: r0) = ([], t0 :: r0) := takeModsAfter_stop _ _ hT0.2.1 hT0.2.2.1
  refine ⟨N1, fun f hf => ?_⟩
  unfold parseTy
  rw [takeModsBefore_mods mods (.id n) _ hstop]
  rcases h1 f hf with h | ⟨h, hnil⟩
  · simp only [h, hafter, List.append_nil]
  · subst hnil
    simp only [fmtTArgs, toks_nil, List.nil_append] at h ⊢
    simp only [h, hafter, List.append_nil]

/-! ## Semantics -/

/-- what follows a parameter: `,` or `)` -/
def ParamRest : List Tok → Prop
  | .p .Comma :: _ => True
  | .p .RightParen :: _ => True
  | _ => False

theorem toks_fmtSem (s : Option String) :
    toks (fmtSem s) = match s with | none => [] | some n => [.p .Colon, .id n] := by
  cases s <;> simp [fmtSem, pp, toks]

/-- a semantic in front of a token that is not `:` -/
theorem sem_reads (s : Option String) (t : Tok) (r : List Tok) (ht : t ≠ .p .Colon) :
    parseSem (toks (fmtSem s) ++ t :: r) = some (s, t :: r) := by
  cases s with
  | none =>
    simp only [toks_fmtSem, List.nil_append]
    unfold parseSem
    split <;> first | rfl | (rename_i h; simp only [List.cons.injEq] at h; exact absurd h.1 ht)
  | some n =>
    simp only [toks_fmtSem, List.cons_append, List.nil_append]
    unfold parseSem
    split
    · simp_all
    · simp_all
    · rename_i h1 h2; simp only [List.cons.injEq, true_and] at h2; exact (h1 n (t :: r) h2.symm).elim
    · rename_i h1 h2; exact (h2 _ rfl).elim

/-! ## Parameters -/

def WFParam (p : Param) : Prop :=
  modBeforeStep (.id p.name) = .stop ∧ WFTArgs W p.targs ∧ p.decl.abstr = false ∧ WFDecl W p.decl ∧
  (match p.dflt with
   | none => True
   | some e => WF W e)

theorem pos_paramDefault (x : XExpr) (h : needParen x.prec paramDefaultPrec paramDefaultSide = false) : x.lvl ≤ 14 := by
  cases x with
  | lit l => simp only [XExpr.prec, XExpr.lvl, litPrec] at h ⊢ <;> generalize litNegative l = b at h ⊢ <;> cases b <;> revert h <;> decide
  | un o _ => cases o <;> simp only [XExpr.prec, XExpr.lvl] at h ⊢ <;> revert h <;> decide
  | bin o _ _ => cases o <;> simp only [XExpr.prec, XExpr.lvl] at h ⊢ <;> revert h <;> decide
  | _ => simp only [XExpr.prec, XExpr.lvl] at h ⊢ <;> revert h <;> decide

def hasLtParam (p : Param) : Bool :=
  hasLtTArgs p.targs || hasLtDecl p.decl || hasLtOpt p.dflt

/-- token stream of a parameter -/
def paramToks (p : Param) : List Tok :=
  p.mods.map modTok ++ (.id p.name :: (toks (fmtTArgs p.targs (startsTok (fmtDecl p.decl true) false)) ++
    (toks (fmtDecl p.decl true) ++ (toks (fmtSem p.sem) ++
      (match p.dflt with | none => [] | some e => .p .Equals :: toks (fmtSubX e paramDefaultPrec paramDefaultSide))))))

theorem toks_fmtParam (p : Param) : toks (fmtParam p) = paramToks p := by
  unfold fmtParam paramToks
  cases hd : p.dflt <;> simp [toks_fmtTy, toks_append, pp, toks]

theorem param_reads (p : Param) (hw : WFParam W p) (c : Tok) (hc : c = .p .Comma ∨ c = .p .RightParen) (rest : List Tok)
    (hsafe : hasLtParam p = true → TmplFree (paramToks p ++ c :: rest) = true) :
    ∃ N, ∀ f, N ≤ f → parseParam W f (paramToks p ++ c :: rest) = some (p, c :: rest) := by
  obtain ⟨hstop, hwT, hab, hwd, hwe⟩ := hw
  obtain ⟨t0, r0, hr0, ht0⟩ := named_head W p.decl hab hwd
  have hA : AfterTy t0 := by
    rcases ht0 with ⟨n, rfl⟩ | rfl | rfl
    · exact afterTy_id n
    · exact afterTy_star
    · exact afterTy_amp
  -- the tail after the declarator
  obtain ⟨tailD, hdef⟩ : ∃ t : List Tok, t = toks (fmtSem p.sem) ++
      ((match p.dflt with | none => [] | some e => .p .Equals :: toks (fmtSubX e paramDefaultPrec paramDefaultSide)) ++ c :: rest) := ⟨_, rfl⟩
  have htoks : paramToks p ++ c :: rest = p.mods.map modTok ++ (.id p.name ::
      (toks (fmtTArgs p.targs (startsTok (fmtDecl p.decl true) false)) ++ (toks (fmtDecl p.decl true) ++ tailD))) := by
    simp [paramToks, hdef]
  rw [htoks] at hsafe ⊢
  have hcne : c ≠ .p .Colon ∧ c ≠ .p .LeftSquareBracket ∧ c ≠ .p .Equals := by
    rcases hc with rfl | rfl <;> exact ⟨(by intro h; cases h), (by intro h; cases h), (by intro h; cases h)⟩
  have htailHead : ∀ r, tailD ≠ .p .LeftSquareBracket :: r := by
    intro r h
    cases hs : p.sem <;> cases hd : p.dflt <;> simp [hdef, hs, hd, toks_fmtSem] at h
    exact hcne.2.1 h.1
  obtain ⟨N1, h1⟩ := ty_reads W p.mods p.name p.targs (startsTok (fmtDecl p.decl true) false) hstop hwT t0 (r0 ++ tailD) hA
    (fun hl => by
      have := hsafe (by simp [hasLtParam, hl])
      have h2 := tmplFree_suffix ((List.suffix_cons _ _).trans (List.suffix_append _ _)) this
      simpa [hr0] using h2)
  obtain ⟨N2, h2⟩ := rtDN W p.decl hwd hab tailD htailHead
    (fun hl => tmplFree_suffix ((List.suffix_append _ _).trans ((List.suffix_cons _ _).trans (List.suffix_append _ _)))
      (hsafe (by simp [hasLtParam, hl])))
  cases hd : p.dflt with
  | none =>
    have htl : tailD = toks (fmtSem p.sem) ++ c :: rest := by simp [hdef, hd]
    refine ⟨max N1 N2, fun f hf => ?_⟩
    have g1 := h1 f (by omega)
    have g2 := h2 f (by omega)
    rw [hr0] at g2 ⊢
    simp only [List.cons_append, List.append_assoc] at g1 g2 ⊢
    unfold parseParam
    rw [g1]
    simp only [g2]
    rw [htl, sem_reads p.sem c rest hcne.1]
    rcases hc with rfl | rfl <;> (cases p; simp_all)
  | some e =>
    rw [hd] at hwe
    have htl : tailD = toks (fmtSem p.sem) ++ .p .Equals :: (toks (fmtSubX e paramDefaultPrec paramDefaultSide) ++ c :: rest) := by simp [hdef, hd]
    obtain ⟨N3, h3⟩ := argPos_reads W _ _ (Or.inl (by decide)) pos_paramDefault e hwe c hc rest (fun hl =>
      tmplFree_suffix (by
        rw [htl]
        exact (List.suffix_cons _ _).trans ((List.suffix_append _ _).trans ((List.suffix_append _ _).trans
          ((List.suffix_append _ _).trans ((List.suffix_cons _ _).trans (List.suffix_append _ _))))))
        (hsafe (by simp [hasLtParam, hd, hasLtOpt, hl])))
    refine ⟨max (max N1 N2) N3, fun f hf => ?_⟩
    have g1 := h1 f (by omega)
    have g2 := h2 f (by omega)
    have g3 := h3 f (by omega)
    rw [hr0] at g2 ⊢
    simp only [List.cons_append, List.append_assoc] at g1 g2 ⊢
    unfold parseParam
    rw [g1]
    simp only [g2]
    rw [htl, sem_reads p.sem (.p .Equals) _ (by intro h; cases h)]
    have g3' : xparseLvl W f 15 .Sequence (toks (fmtSubX e paramDefaultPrec paramDefaultSide) ++ c :: rest) = some (e, c :: rest) := g3
    simp only [g3']
    cases p
    simp only at hd
    subst hd
    rfl

end RsslVerif.Lemmas.DefRT

//! C05: reflection metadata agrees with the emitted source.
//!
//! request : C05.meta \t <dx|vk|vkba|msl> \t <all|name=P|nopipeline> \t <nstatics> \t <resources> \t <helpers> \t <entries> \t <pipes>
//!   resource : name:kind:group:arr:ss:bl:st   kind = ObjectType name | cbuffer; group = - | n; arr = - | n | u (unsized);
//!                                             ss (static sampler), bl (bindless) = 0 | 1; st = e (extern) | s (static)
//!   helper   : name:uses:calls:statics        comma separated indices (uses -> resources, calls -> earlier helpers)
//!   entry    : name:stage:uses:calls:statics:x.y.z|-
//!   pipe     : name:dflt|-:entry indices
//!   The request is self-contained: the shader file is rendered from it (no seed), so shrinking and the witness search
//!   can edit requests.
//! observe : per built pipeline, joined by " ## ":
//!   M[group|group..]   metadata: entries `name=i<slot>|n<offset>:DescriptorType:count|-:b<bindless>:u<used>:s<static sampler>`,
//!                      `;inl=<slot>/<bytes>` when the group has an inline constant buffer
//!   A[..]              binding annotations found in the *emitted source* (HLSL: re-parsed with the real rssl lexer+parser;
//!                      MSL: text scan), `name=>[struct/]annotation text`, sorted
//!   S[..]              reported stages `Stage:entry:x.y.z|-`
//!   F[..]              for each reported stage the function of that name found in the emitted source with its
//!                      numthreads (HLSL) / max_total_threads_per_threadgroup (MSL), or `!missing(name)`
//! oracle  : independent of the Lean model (see `judge_*`): every metadata entry matches annotation, declared type and
//!           array length of the declaration with that name; every externally bound declaration has exactly one entry;
//!           inline constant blocks match; every reported stage names a defined function with the reported size;
//!           reachable bindings are never reported unused, and on Metal used => reachable (reachability from the
//!           request's own call graph).
use crate::compile_util::*;
use crate::progen;
use crate::util::*;
use rssl::ast;
use std::collections::{BTreeMap, BTreeSet};

// ------------------------------------------------------------------------------------------------ case

#[derive(Clone, Copy, PartialEq, Debug)]
enum ArrLen {
    No,
    Sized(u32),
    Unsized,
}

#[derive(Clone, Debug)]
struct XRes {
    name: String,
    kind: String,
    group: Option<u32>,
    arr: ArrLen,
    ss: bool,
    bl: bool,
    stat: bool,
}

#[derive(Clone, Debug)]
struct XFn {
    name: String,
    stage: Option<String>,
    uses: Vec<usize>,
    calls: Vec<usize>,
    statics: Vec<usize>,
    threads: Option<(u32, u32, u32)>,
}

#[derive(Clone, Debug)]
struct XPipe {
    name: String,
    dflt: Option<u32>,
    stages: Vec<usize>,
}

#[derive(Clone, Debug)]
struct Case {
    nstatics: usize,
    res: Vec<XRes>,
    helpers: Vec<XFn>,
    entries: Vec<XFn>,
    pipes: Vec<XPipe>,
}

const EXTRA_KINDS: &[(&str, &str)] = &[
    ("RWTexture2DArray", "RWTexture2DArray<float4>"),
    ("TextureCubeArray", "TextureCubeArray<float4>"),
    ("RaytracingAccelerationStructure", "RaytracingAccelerationStructure"),
];

fn type_of_kind(kind: &str) -> Option<&'static str> {
    progen::RES_KINDS.iter().chain(EXTRA_KINDS.iter()).find(|(k, _)| *k == kind).map(|(_, t)| *t)
}

fn from_program(p: &progen::Program) -> Case {
    let f = |f: &progen::Func, stage: Option<&str>, threads| XFn {
        name: f.name.clone(),
        stage: stage.map(|s| s.to_string()),
        uses: f.uses.clone(),
        calls: f.calls.clone(),
        statics: f.statics.clone(),
        threads,
    };
    Case {
        nstatics: p.nstatics,
        res: p
            .resources
            .iter()
            .map(|r| XRes {
                name: r.name.clone(),
                kind: r.kind.clone(),
                group: r.group,
                arr: match r.len {
                    Some(n) => ArrLen::Sized(n),
                    None => ArrLen::No,
                },
                ss: r.static_sampler,
                bl: r.bindless,
                stat: false,
            })
            .collect(),
        helpers: p.helpers.iter().map(|h| f(h, None, None)).collect(),
        entries: p.entries.iter().map(|e| f(&e.func, Some(e.stage), e.threads)).collect(),
        pipes: p
            .pipes
            .iter()
            .map(|pp| XPipe { name: pp.name.clone(), dflt: pp.default_group, stages: pp.stages.clone() })
            .collect(),
    }
}

fn join_idx(v: &[usize]) -> String {
    v.iter().map(|x| x.to_string()).collect::<Vec<_>>().join(",")
}

fn opt_u32(v: Option<u32>) -> String {
    v.map(|x| x.to_string()).unwrap_or_else(|| "-".into())
}

fn threads_str(t: Option<(u32, u32, u32)>) -> String {
    match t {
        Some((x, y, z)) => format!("{}.{}.{}", x, y, z),
        None => "-".into(),
    }
}

impl Case {
    fn encode(&self) -> String {
        let rs: Vec<String> = self
            .res
            .iter()
            .map(|r| {
                format!(
                    "{}:{}:{}:{}:{}:{}:{}",
                    r.name,
                    r.kind,
                    opt_u32(r.group),
                    match r.arr {
                        ArrLen::No => "-".to_string(),
                        ArrLen::Sized(n) => n.to_string(),
                        ArrLen::Unsized => "u".to_string(),
                    },
                    r.ss as u8,
                    r.bl as u8,
                    if r.stat { "s" } else { "e" }
                )
            })
            .collect();
        let hs: Vec<String> = self
            .helpers
            .iter()
            .map(|h| format!("{}:{}:{}:{}", h.name, join_idx(&h.uses), join_idx(&h.calls), join_idx(&h.statics)))
            .collect();
        let es: Vec<String> = self
            .entries
            .iter()
            .map(|e| {
                format!(
                    "{}:{}:{}:{}:{}:{}",
                    e.name,
                    e.stage.clone().unwrap_or_default(),
                    join_idx(&e.uses),
                    join_idx(&e.calls),
                    join_idx(&e.statics),
                    threads_str(e.threads)
                )
            })
            .collect();
        let ps: Vec<String> =
            self.pipes.iter().map(|p| format!("{}:{}:{}", p.name, opt_u32(p.dflt), join_idx(&p.stages))).collect();
        format!("{}\t{}\t{}\t{}\t{}", self.nstatics, rs.join(";"), hs.join(";"), es.join(";"), ps.join(";"))
    }

    fn decode(f: &[&str]) -> Option<Case> {
        fn idx(s: &str) -> Option<Vec<usize>> {
            if s.is_empty() {
                return Some(Vec::new());
            }
            s.split(',').map(|x| x.parse().ok()).collect()
        }
        fn items(s: &str) -> Vec<&str> {
            if s.is_empty() { Vec::new() } else { s.split(';').collect() }
        }
        fn optn(s: &str) -> Option<Option<u32>> {
            if s == "-" { Some(None) } else { s.parse().ok().map(Some) }
        }
        if f.len() != 5 {
            return None;
        }
        let nstatics = f[0].parse().ok()?;
        let mut res = Vec::new();
        for it in items(f[1]) {
            let p: Vec<&str> = it.split(':').collect();
            if p.len() != 7 {
                return None;
            }
            type_of_kind(p[1])?;
            res.push(XRes {
                name: p[0].to_string(),
                kind: p[1].to_string(),
                group: optn(p[2])?,
                arr: match p[3] {
                    "-" => ArrLen::No,
                    "u" => ArrLen::Unsized,
                    n => ArrLen::Sized(n.parse().ok()?),
                },
                ss: p[4] == "1",
                bl: p[5] == "1",
                stat: p[6] == "s",
            });
        }
        let mut helpers = Vec::new();
        for it in items(f[2]) {
            let p: Vec<&str> = it.split(':').collect();
            if p.len() != 4 {
                return None;
            }
            helpers.push(XFn {
                name: p[0].to_string(),
                stage: None,
                uses: idx(p[1])?,
                calls: idx(p[2])?,
                statics: idx(p[3])?,
                threads: None,
            });
        }
        let mut entries = Vec::new();
        for it in items(f[3]) {
            let p: Vec<&str> = it.split(':').collect();
            if p.len() != 6 {
                return None;
            }
            let threads = if p[5] == "-" {
                None
            } else {
                let t: Vec<u32> = p[5].split('.').filter_map(|x| x.parse().ok()).collect();
                if t.len() != 3 {
                    return None;
                }
                Some((t[0], t[1], t[2]))
            };
            if !["Compute", "Vertex", "Pixel", "Mesh", "Task"].contains(&p[1]) {
                return None;
            }
            entries.push(XFn {
                name: p[0].to_string(),
                stage: Some(p[1].to_string()),
                uses: idx(p[2])?,
                calls: idx(p[3])?,
                statics: idx(p[4])?,
                threads,
            });
        }
        let mut pipes = Vec::new();
        for it in items(f[4]) {
            let p: Vec<&str> = it.split(':').collect();
            if p.len() != 3 {
                return None;
            }
            pipes.push(XPipe { name: p[0].to_string(), dflt: optn(p[1])?, stages: idx(p[2])? });
        }
        let c = Case { nstatics, res, helpers, entries, pipes };
        // indices must be in range (requests may come from the shrinker / the search)
        let nr = c.res.len();
        for (i, h) in c.helpers.iter().enumerate() {
            if h.uses.iter().any(|u| *u >= nr) || h.calls.iter().any(|k| *k >= i) || h.statics.iter().any(|k| *k >= nstatics) {
                return None;
            }
        }
        for e in &c.entries {
            if e.uses.iter().any(|u| *u >= nr)
                || e.calls.iter().any(|k| *k >= c.helpers.len())
                || e.statics.iter().any(|k| *k >= nstatics)
            {
                return None;
            }
        }
        for p in &c.pipes {
            if p.stages.is_empty() || p.stages.iter().any(|k| *k >= c.entries.len()) {
                return None;
            }
        }
        Some(c)
    }

    /// helpers that share a name are overloads told apart by their number of int parameters
    fn overload_arity(&self, h: usize) -> usize {
        self.helpers[..h].iter().filter(|x| x.name == self.helpers[h].name).count()
    }

    fn body(&self, f: &XFn) -> String {
        let mut s = String::new();
        for r in &f.uses {
            let res = &self.res[*r];
            if res.kind == "cbuffer" {
                s.push_str(&format!("    {}_v;\n", res.name));
            } else if res.arr != ArrLen::No {
                s.push_str(&format!("    {}[0u];\n", res.name));
            } else {
                s.push_str(&format!("    {};\n", res.name));
            }
        }
        for h in &f.calls {
            let zeros: Vec<&str> = (0..self.overload_arity(*h)).map(|_| "0").collect();
            s.push_str(&format!("    {}({});\n", self.helpers[*h].name, zeros.join(", ")));
        }
        for k in &f.statics {
            s.push_str(&format!("    s_value{} = s_value{} + 1;\n", k, k));
        }
        s
    }

    /// same layout as progen::render (struct CbS; statics; two structs + groupshared payload; resources; helpers;
    /// entry points; pipelines)
    fn render(&self) -> String {
        let mut s = String::new();
        s.push_str("struct CbS { float4 v; };\n");
        for k in 0..self.nstatics {
            s.push_str(&format!("static int s_value{} = 0;\n", k));
        }
        s.push_str("struct MeshVertex { float4 position : SV_Position; };\nstruct TaskPayload { uint start_location; };\ngroupshared TaskPayload lds_payload;\n");
        for r in &self.res {
            if r.bl {
                s.push_str("[[rssl::bindless]] ");
            }
            if let Some(g) = r.group {
                s.push_str(&format!("[[rssl::bind_group({})]] ", g));
            }
            if r.kind == "cbuffer" {
                s.push_str(&format!("cbuffer {} {{ float4 {}_v; }}\n", r.name, r.name));
                continue;
            }
            if r.stat {
                s.push_str("static ");
            }
            s.push_str(&format!("{} {}", type_of_kind(&r.kind).unwrap(), r.name));
            match r.arr {
                ArrLen::No => {}
                ArrLen::Sized(n) => s.push_str(&format!("[{}]", n)),
                ArrLen::Unsized => s.push_str("[]"),
            }
            if r.ss {
                s.push_str(" = StaticSampler { Filter = MIN_MAG_MIP_LINEAR; }");
            }
            s.push_str(";\n");
        }
        for (i, h) in self.helpers.iter().enumerate() {
            let params: Vec<String> = (0..self.overload_arity(i)).map(|k| format!("int p{}", k)).collect();
            s.push_str(&format!("void {}({}) {{\n{}}}\n", h.name, params.join(", "), self.body(h)));
        }
        // a mesh entry takes a payload when some pipeline pairs it with a task shader
        let with_payload: BTreeSet<usize> = self
            .pipes
            .iter()
            .filter(|p| p.stages.iter().any(|k| self.entries[*k].stage.as_deref() == Some("Task")))
            .flat_map(|p| p.stages.iter().copied())
            .collect();
        for (k, e) in self.entries.iter().enumerate() {
            let b = self.body(e);
            let n = &e.name;
            let t = e.threads.unwrap_or((64, 1, 1));
            match e.stage.as_deref().unwrap_or("") {
                "Compute" => s.push_str(&format!(
                    "[numthreads({}, {}, {})]\nvoid {}(uint3 dtid : SV_DispatchThreadID) {{\n{}}}\n",
                    t.0, t.1, t.2, n, b
                )),
                "Vertex" => s.push_str(&format!(
                    "void {}(uint vid : SV_VertexID, out float4 o_pos : SV_Position) {{\n{}    o_pos = float4(0, 0, 0, 1);\n}}\n",
                    n, b
                )),
                "Pixel" => s.push_str(&format!(
                    "float4 {}(float4 i_pos : SV_Position) : SV_Target0 {{\n{}    return float4(0, 0, 0, 0);\n}}\n",
                    n, b
                )),
                "Task" => s.push_str(&format!(
                    "[numthreads({}, {}, {})]\nvoid {}(uint3 dtid : SV_DispatchThreadID) {{\n{}    lds_payload.start_location = dtid.x;\n    DispatchMesh(4u, 1u, 1u, lds_payload);\n}}\n",
                    t.0, t.1, t.2, n, b
                )),
                _ => {
                    let payload = if with_payload.contains(&k) { "    in payload TaskPayload data,\n" } else { "" };
                    s.push_str(&format!(
                        "[numthreads({}, {}, {})]\n[outputtopology(\"triangle\")]\nvoid {}(\n    uint3 dtid : SV_DispatchThreadID,\n{}    out vertices MeshVertex o_vertices[64],\n    out indices uint3 o_triangles[64]\n) {{\n{}    SetMeshOutputCounts(64, 64);\n    MeshVertex vertex;\n    vertex.position = float4(0, 0, 0, 1);\n    o_vertices[dtid.x] = vertex;\n    o_triangles[dtid.x] = uint3(0, 1, 2);\n}}\n",
                        t.0, t.1, t.2, n, payload, b
                    ));
                }
            }
        }
        for pipe in &self.pipes {
            s.push_str(&format!("Pipeline {}\n{{\n", pipe.name));
            for k in &pipe.stages {
                let e = &self.entries[*k];
                s.push_str(&format!("    {}Shader = {};\n", e.stage.as_deref().unwrap_or(""), e.name));
            }
            if let Some(g) = pipe.dflt {
                s.push_str(&format!("    DefaultBindGroup = {};\n", g));
            }
            s.push_str("}\n");
        }
        s
    }

    /// resources some stage entry point of the pipeline can reach (the request's own call graph)
    fn reachable(&self, pipe: Option<&XPipe>) -> BTreeSet<usize> {
        let mut seen_h = BTreeSet::new();
        let mut out = BTreeSet::new();
        let mut stack: Vec<usize> = Vec::new();
        if let Some(p) = pipe {
            for k in &p.stages {
                let e = &self.entries[*k];
                out.extend(e.uses.iter().copied());
                stack.extend(e.calls.iter().copied());
            }
        }
        while let Some(h) = stack.pop() {
            if !seen_h.insert(h) {
                continue;
            }
            out.extend(self.helpers[h].uses.iter().copied());
            stack.extend(self.helpers[h].calls.iter().copied());
        }
        out
    }
}

// ------------------------------------------------------------------------------------------------ real compile

enum Raw {
    Ok(Vec<rssl::CompiledPipeline>),
    Err(String),
    Panic(String),
}

fn compile_raw(src: &str, target: Tgt, mode: &Mode) -> Raw {
    let r = guard(|| {
        let mut inc = MemFiles(vec![("main.rssl".to_string(), src.to_string())]);
        let mut args = rssl::CompileArgs::new("main.rssl", &mut inc, target.target())
            .support_buffer_address(target.buffer_address());
        match mode {
            Mode::All => {}
            Mode::Named(n) => args = args.pipeline_name(Some(n.as_str())),
            Mode::NoPipeline => args = args.no_pipeline_mode(),
        }
        rssl::compile(args).map_err(|e| format!("{}", e))
    });
    match r {
        Ok(Ok(v)) => Raw::Ok(v),
        Ok(Err(e)) => Raw::Err(e),
        Err(p) => Raw::Panic(p),
    }
}

// ------------------------------------------------------------------------------------------------ what the emitted source declares

#[derive(Clone, Debug, Default)]
struct SrcDecl {
    name: String,
    /// struct the declaration is a member of (InlineDescriptor<n> / ArgumentBuffer<n>), if any
    in_struct: Option<String>,
    /// canonical annotation texts found on the declaration
    annots: Vec<String>,
    /// (register letter, index, space) / (index, set) / offset / id
    reg: Option<(char, u32, u32)>,
    vk: Option<(u32, u32)>,
    offset: Option<u32>,
    id: Option<u32>,
    /// head of the declared type, e.g. `Texture2D`, `cbuffer`, `uint64_t`, `metal::texture2d`
    ty: String,
    arr: Option<ArrLen>,
    is_static: bool,
    /// `= g_inlineDescriptor<n>.<member>`
    inline_init: Option<(String, String)>,
}

#[derive(Clone, Debug, Default)]
struct SrcFunc {
    name: String,
    has_body: bool,
    /// numthreads literal triple (HLSL) or the total of max_total_threads_per_threadgroup (MSL, in .0)
    threads: Option<(u64, u64, u64)>,
    /// MSL: stage attribute (`kernel`, `vertex`, ..) and `[[buffer(i)]]` parameters (struct name, param name, i)
    stage_attr: Option<String>,
    buffers: Vec<(String, String, u32)>,
}

#[derive(Default, Debug)]
struct Emitted {
    decls: Vec<SrcDecl>,
    funcs: Vec<SrcFunc>,
    structs: Vec<String>,
}

fn parse_hlsl(src: &str) -> Result<ast::Module, String> {
    use rssl::text::CompileErrorExt;
    let mut sm = rssl::text::SourceManager::new();
    let mut inc = MemFiles(vec![("out.hlsl".to_string(), src.to_string())]);
    let tokens = match rssl::preprocess::preprocess("out.hlsl", &mut sm, &mut inc, &[("__HLSL_VERSION", "2021")]) {
        Ok(t) => t,
        Err(e) => return Err(format!("preprocess: {}", e.display(&sm))),
    };
    let tokens = rssl::preprocess::prepare_tokens(&tokens);
    match rssl::parser::parse(&tokens) {
        Ok(m) => Ok(m),
        Err(e) => Err(format!("parse: {}", e.display(&sm))),
    }
}

fn lit_u64(e: &ast::Expression) -> Option<u64> {
    match e {
        ast::Expression::Literal(ast::Literal::IntUntyped(v))
        | ast::Expression::Literal(ast::Literal::IntUnsigned32(v))
        | ast::Expression::Literal(ast::Literal::IntUnsigned64(v)) => Some(*v),
        ast::Expression::Literal(ast::Literal::IntSigned64(v)) if *v >= 0 => Some(*v as u64),
        _ => None,
    }
}

fn attr_name(a: &ast::Attribute) -> String {
    a.name.iter().map(|n| n.node.clone()).collect::<Vec<_>>().join("::")
}

fn attr_args(a: &ast::Attribute) -> Option<Vec<u64>> {
    a.arguments.iter().map(|e| lit_u64(&e.node)).collect()
}

fn declarator_name(d: &ast::Declarator) -> (Option<String>, Option<ArrLen>) {
    match d {
        ast::Declarator::Empty => (None, None),
        ast::Declarator::Identifier(id, _) => (id.identifiers.last().map(|s| s.node.clone()), None),
        ast::Declarator::Pointer(p) => declarator_name(&p.inner),
        ast::Declarator::Reference(r) => declarator_name(&r.inner),
        ast::Declarator::Array(a) => {
            let (n, _) = declarator_name(&a.inner);
            let len = match &a.array_size {
                None => ArrLen::Unsized,
                Some(e) => match lit_u64(&e.node) {
                    Some(v) => ArrLen::Sized(v as u32),
                    None => ArrLen::Unsized,
                },
            };
            (n, Some(len))
        }
    }
}

fn type_head(t: &ast::Type) -> String {
    t.layout.0.identifiers.iter().map(|s| s.node.clone()).collect::<Vec<_>>().join("::")
}

fn register_text(r: &ast::Register) -> String {
    let mut s = String::from(" : register(");
    if let Some(slot) = &r.slot {
        s.push_str(&format!("{}{}", slot.slot_type, slot.index));
    }
    if r.slot.is_some() && r.space.is_some() {
        s.push_str(", ");
    }
    if let Some(sp) = r.space {
        s.push_str(&format!("space{}", sp));
    }
    s.push(')');
    s
}

fn attr_text(a: &ast::Attribute, args: &[u64]) -> String {
    let mut s = format!("[[{}", attr_name(a));
    if !args.is_empty() {
        s.push('(');
        s.push_str(&args.iter().map(|v| v.to_string()).collect::<Vec<_>>().join(", "));
        s.push(')');
    }
    s.push_str("]]");
    s
}

fn apply_annotations(d: &mut SrcDecl, locs: &[ast::LocationAnnotation], attrs: &[ast::Attribute]) {
    for l in locs {
        if let ast::LocationAnnotation::Register(r) = l {
            d.annots.push(register_text(r));
            if let Some(slot) = &r.slot {
                let letter = format!("{}", slot.slot_type).chars().next().unwrap_or('?');
                d.reg = Some((letter, slot.index, r.space.unwrap_or(0)));
            }
        }
    }
    for a in attrs {
        let n = attr_name(a);
        if let Some(args) = attr_args(a) {
            if n == "vk::binding" && (args.len() == 1 || args.len() == 2) {
                d.annots.push(attr_text(a, &args));
                d.vk = Some((args[0] as u32, args.get(1).copied().unwrap_or(0) as u32));
            } else if n == "vk::offset" && args.len() == 1 {
                d.annots.push(attr_text(a, &args));
                d.offset = Some(args[0] as u32);
            }
        }
    }
}

fn walk_hlsl(defs: &[ast::RootDefinition], out: &mut Emitted) {
    for def in defs {
        match def {
            ast::RootDefinition::Namespace(_, inner) => walk_hlsl(inner, out),
            ast::RootDefinition::Struct(sd) => {
                out.structs.push(sd.name.node.clone());
                if sd.name.node.starts_with("InlineDescriptor") {
                    for m in &sd.members {
                        if let ast::StructEntry::Variable(v) = m {
                            for idecl in &v.defs {
                                let (name, arr) = declarator_name(&idecl.declarator);
                                let mut d = SrcDecl {
                                    name: name.unwrap_or_default(),
                                    in_struct: Some(sd.name.node.clone()),
                                    ty: type_head(&v.ty),
                                    arr,
                                    ..Default::default()
                                };
                                apply_annotations(&mut d, &idecl.location_annotations, &v.attributes);
                                out.decls.push(d);
                            }
                        }
                    }
                }
            }
            ast::RootDefinition::ConstantBuffer(cb) => {
                let mut d = SrcDecl { name: cb.name.node.clone(), ty: "cbuffer".into(), ..Default::default() };
                apply_annotations(&mut d, &cb.location_annotations, &cb.attributes);
                out.decls.push(d);
            }
            ast::RootDefinition::GlobalVariable(gv) => {
                let is_static = gv.global_type.modifiers.modifiers.iter().any(|m| {
                    matches!(m.node, ast::TypeModifier::Static | ast::TypeModifier::GroupShared)
                });
                for idecl in &gv.defs {
                    let (name, arr) = declarator_name(&idecl.declarator);
                    let mut d = SrcDecl {
                        name: name.unwrap_or_default(),
                        ty: type_head(&gv.global_type),
                        arr,
                        is_static,
                        ..Default::default()
                    };
                    apply_annotations(&mut d, &idecl.location_annotations, &gv.attributes);
                    if let Some(ast::Initializer::Expression(e)) = &idecl.init {
                        if let ast::Expression::Member(obj, member) = &e.node {
                            if let ast::Expression::Identifier(id) = &obj.node {
                                if let (Some(o), Some(m)) = (id.identifiers.last(), member.identifiers.last()) {
                                    d.inline_init = Some((o.node.clone(), m.node.clone()));
                                }
                            }
                        }
                    }
                    out.decls.push(d);
                }
            }
            ast::RootDefinition::Function(f) => {
                let mut sf = SrcFunc { name: f.name.node.clone(), has_body: f.body.is_some(), ..Default::default() };
                for a in &f.attributes {
                    if attr_name(a) == "numthreads" {
                        if let Some(args) = attr_args(a) {
                            if args.len() == 3 {
                                sf.threads = Some((args[0], args[1], args[2]));
                            }
                        }
                    }
                }
                out.funcs.push(sf);
            }
            _ => {}
        }
    }
}

/// light scan of the emitted Metal source: argument buffer structs and stage entry functions
fn scan_msl(src: &str) -> Emitted {
    let mut out = Emitted::default();
    let lines: Vec<&str> = src.lines().collect();
    let mut i = 0;
    while i < lines.len() {
        let l = lines[i];
        if let Some(name) = l.strip_prefix("struct ") {
            let name = name.trim().to_string();
            out.structs.push(name.clone());
            if name.starts_with("ArgumentBuffer") {
                i += 1;
                while i < lines.len() && !lines[i].starts_with("};") {
                    let m = lines[i].trim();
                    if let Some(rest) = m.strip_prefix("[[id(") {
                        if let Some(close) = rest.find(")]]") {
                            let id: Option<u32> = rest[..close].parse().ok();
                            let decl = rest[close + 3..].trim().trim_end_matches(';').trim();
                            // last identifier = member name, before it = type
                            let cut = decl.rfind(|c: char| !(c.is_alphanumeric() || c == '_')).map(|k| k + 1).unwrap_or(0);
                            let (ty, nm) = decl.split_at(cut);
                            let mut ty = ty.trim().trim_end_matches('&').trim().to_string();
                            for pre in ["constant ", "const ", "device "] {
                                if let Some(t) = ty.strip_prefix(pre) {
                                    ty = t.to_string();
                                }
                            }
                            let mut arr = None;
                            if let Some(inner) = ty.strip_prefix("metal::array<") {
                                // metal::array<T, n>
                                if let Some(k) = inner.rfind(',') {
                                    let n: Option<u32> = inner[k + 1..].trim().trim_end_matches('>').trim().parse().ok();
                                    arr = n.map(ArrLen::Sized);
                                    let mut t = inner[..k].trim().to_string();
                                    if let Some(tt) = t.strip_prefix("const ") {
                                        t = tt.to_string();
                                    }
                                    ty = t;
                                }
                            }
                            out.decls.push(SrcDecl {
                                name: nm.to_string(),
                                in_struct: Some(name.clone()),
                                annots: vec![format!("[[id({})]]", id.map(|v| v.to_string()).unwrap_or_else(|| "?".into()))],
                                id,
                                ty,
                                arr,
                                ..Default::default()
                            });
                        }
                    }
                    i += 1;
                }
            }
        } else if ["[[kernel]]", "[[vertex]]", "[[fragment]]", "[[object]]", "[[mesh]]"].contains(&l.trim()) {
            let stage_attr = l.trim().trim_start_matches("[[").trim_end_matches("]]").to_string();
            let mut threads = None;
            i += 1;
            while i < lines.len() && lines[i].starts_with("[[") {
                if let Some(rest) = lines[i].strip_prefix("[[max_total_threads_per_threadgroup(") {
                    if let Some(expr) = rest.strip_suffix(")]]") {
                        let parts: Option<Vec<u64>> = expr
                            .split('*')
                            .map(|p| p.trim().trim_end_matches('u').parse::<u64>().ok())
                            .collect();
                        if let Some(p) = parts {
                            threads = Some((p.iter().product(), 0, 0));
                        }
                    }
                }
                i += 1;
            }
            if i < lines.len() {
                let sig = lines[i];
                if let Some(open) = sig.find('(') {
                    let name = sig[..open].rsplit(' ').next().unwrap_or("").to_string();
                    let mut buffers = Vec::new();
                    for param in sig[open + 1..].split(',') {
                        if let Some(k) = param.find("[[buffer(") {
                            let n: Option<u32> = param[k + 9..].split(')').next().and_then(|v| v.parse().ok());
                            let head: Vec<&str> = param[..k].split_whitespace().collect();
                            // constant ArgumentBuffer0& set0
                            if head.len() >= 3 {
                                buffers.push((
                                    head[head.len() - 2].trim_end_matches('&').to_string(),
                                    head[head.len() - 1].to_string(),
                                    n.unwrap_or(u32::MAX),
                                ));
                            }
                        }
                    }
                    out.funcs.push(SrcFunc {
                        name,
                        has_body: sig.trim_end().ends_with('{'),
                        threads,
                        stage_attr: Some(stage_attr),
                        buffers,
                    });
                }
            }
        }
        i += 1;
    }
    out
}

// ------------------------------------------------------------------------------------------------ oracle tables (HLSL / MSL semantics, written independently of the compiler's tables)

/// descriptor types a declaration of the given emitted type may be reported as
fn allowed_desc(ty: &str, msl: bool) -> &'static [&'static str] {
    if !msl {
        match ty {
            "cbuffer" | "ConstantBuffer" => &["ConstantBuffer"],
            "ByteAddressBuffer" => &["ByteBuffer", "BufferAddress"],
            "RWByteAddressBuffer" => &["RwByteBuffer", "RwBufferAddress"],
            "uint64_t" => &["BufferAddress", "RwBufferAddress"],
            "StructuredBuffer" => &["StructuredBuffer"],
            "RWStructuredBuffer" => &["RwStructuredBuffer"],
            "Buffer" => &["TexelBuffer"],
            "RWBuffer" => &["RwTexelBuffer"],
            "Texture2D" => &["Texture2d"],
            "Texture2DArray" => &["Texture2dArray"],
            "RWTexture2D" => &["RwTexture2d"],
            "RWTexture2DArray" => &["RwTexture2dArray"],
            "TextureCube" => &["TextureCube"],
            "TextureCubeArray" => &["TextureCubeArray"],
            "Texture3D" => &["Texture3d"],
            "RWTexture3D" => &["RwTexture3d"],
            "RaytracingAccelerationStructure" => &["RaytracingAccelerationStructure"],
            "SamplerState" => &["SamplerState"],
            "SamplerComparisonState" => &["SamplerComparisonState"],
            _ => &[],
        }
    } else {
        let t = ty.split('<').next().unwrap_or("");
        let rw = ty.contains("access::read_write");
        match t {
            "helper::ByteAddressBuffer" => &["ByteBuffer", "BufferAddress"],
            "helper::RWByteAddressBuffer" => &["RwByteBuffer", "RwBufferAddress"],
            "helper::StructuredBuffer" => &["StructuredBuffer"],
            "helper::RWStructuredBuffer" => &["RwStructuredBuffer"],
            "metal::texture_buffer" => if rw { &["RwTexelBuffer"] } else { &["TexelBuffer"] },
            "metal::texture2d" => if rw { &["RwTexture2d"] } else { &["Texture2d"] },
            "metal::texture2d_array" => if rw { &["RwTexture2dArray"] } else { &["Texture2dArray"] },
            "metal::texturecube" => &["TextureCube"],
            "metal::texturecube_array" => &["TextureCubeArray"],
            "metal::texture3d" => if rw { &["RwTexture3d"] } else { &["Texture3d"] },
            "metal::sampler" => &["SamplerState", "SamplerComparisonState"],
            "metal::raytracing::instance_acceleration_structure" => &["RaytracingAccelerationStructure"],
            // `constant T&` members: constant buffers
            _ => &["ConstantBuffer"],
        }
    }
}

/// D3D register class of a descriptor type
fn register_class(desc: &str) -> char {
    match desc {
        "ConstantBuffer" | "PushConstants" | "InlineConstants" => 'b',
        "SamplerState" | "SamplerComparisonState" => 's',
        d if d.starts_with("Rw") => 'u',
        _ => 't',
    }
}

/// is a global of this emitted HLSL type a resource that must be bound from outside
fn is_resource_type(ty: &str) -> bool {
    ty != "uint64_t" && !allowed_desc(ty, false).is_empty()
}

// ------------------------------------------------------------------------------------------------ observation + oracle

struct Fail {
    class: &'static str,
    detail: String,
}

/// failure classes that are recorded findings; anything else is reported first
const RECORDED: &[&str] = &["entry-renamed", "msl-name-renamed", "unsized-array-unbound", "static-object-bound"];

fn show_meta(m: &rssl::ir::export::PipelineDescription) -> String {
    use rssl::ir::export::ApiLocation;
    let groups: Vec<String> = m
        .bind_groups
        .iter()
        .map(|g| {
            let es: Vec<String> = g
                .bindings
                .iter()
                .map(|b| {
                    format!(
                        "{}={}:{:?}:{}:b{}:u{}:s{}",
                        b.name,
                        match b.api_binding {
                            ApiLocation::Index(i) => format!("i{}", i),
                            ApiLocation::InlineConstant(o) => format!("n{}", o),
                        },
                        b.descriptor_type,
                        opt_u32(b.descriptor_count),
                        b.is_bindless as u8,
                        b.is_used as u8,
                        b.static_sampler.is_some() as u8
                    )
                })
                .collect();
            let inl = match &g.inline_constants {
                Some(c) => format!(";inl={}/{}", c.api_location, c.size_in_bytes),
                None => String::new(),
            };
            format!("{}{}", es.join(","), inl)
        })
        .collect();
    groups.join("|")
}

fn name_class(name: &str) -> &'static str {
    if name.starts_with("g_r") || name.starts_with("cs_") || name.starts_with("vs_") || name.starts_with("ps_") {
        "plain"
    } else {
        "special"
    }
}

/// Judge one compiled pipeline. Returns (observation, failures).
fn judge(case: &Case, tgt: Tgt, pipe: Option<&XPipe>, out: &rssl::CompiledPipeline, hist: &mut Hist) -> (String, Vec<Fail>) {
    use rssl::ir::export::ApiLocation;
    let msl = tgt == Tgt::Msl;
    let mut fails: Vec<Fail> = Vec::new();
    let text = String::from_utf8_lossy(&out.data).into_owned();
    let emitted = if msl {
        scan_msl(&text)
    } else {
        match parse_hlsl(&text) {
            Ok(m) => {
                let mut e = Emitted::default();
                walk_hlsl(&m.root_definitions, &mut e);
                e
            }
            Err(e) => {
                fails.push(Fail { class: "emitted-source-unparsable", detail: one_line(&e.chars().take(120).collect::<String>()) });
                Emitted::default()
            }
        }
    };
    let reach = case.reachable(pipe);
    let res_by_name: BTreeMap<&str, (usize, &XRes)> = case.res.iter().enumerate().map(|(i, r)| (r.name.as_str(), (i, r))).collect();

    // ---- 1. every metadata entry matches the declaration with that name
    let mut entries_by_name: BTreeMap<String, u32> = BTreeMap::new();
    let mut nentries = 0;
    for (g, group) in out.metadata.bind_groups.iter().enumerate() {
        let g = g as u32;
        for b in &group.bindings {
            nentries += 1;
            *entries_by_name.entry(b.name.clone()).or_insert(0) += 1;
            hist.add(&format!("desc={:?}", b.descriptor_type));
            let desc = format!("{:?}", b.descriptor_type);
            let source = res_by_name.get(b.name.as_str()).copied();
            // the declaration in the emitted source
            let cands: Vec<&SrcDecl> = emitted
                .decls
                .iter()
                .filter(|d| d.name == b.name && !(d.in_struct.is_none() && d.inline_init.is_some()))
                .collect();
            if msl && pipe.is_none() {
                // no-pipeline mode on Metal emits no argument buffers: nothing to compare annotations with
                hist.add("msl-nopipeline-entry");
            } else if cands.is_empty() {
                if msl && source.is_some() {
                    fails.push(Fail {
                        class: "msl-name-renamed",
                        detail: format!("{}: metadata names `{}` but no argument buffer member has that name", name_class(&b.name), b.name),
                    });
                } else {
                    fails.push(Fail { class: "entry-without-declaration", detail: format!("metadata entry `{}` has no declaration in the emitted source", b.name) });
                }
                continue;
            } else if cands.len() > 1 {
                fails.push(Fail { class: "entry-name-ambiguous", detail: format!("{} declarations named `{}`", cands.len(), b.name) });
                continue;
            }
            if let Some(d) = cands.first() {
                match b.api_binding {
                    ApiLocation::Index(i) => {
                        if msl {
                            if d.id != Some(i) || d.in_struct.as_deref() != Some(&format!("ArgumentBuffer{}", g)) {
                                fails.push(Fail { class: "annotation-mismatch", detail: format!("`{}` reported at group {} index {} but emitted as {:?} in {:?}", b.name, g, i, d.annots, d.in_struct) });
                            }
                        } else if tgt == Tgt::Dx {
                            if d.is_static && d.reg.is_none() {
                                fails.push(Fail { class: "static-object-bound", detail: format!("`{}` is reported at group {} index {} but is a static, unannotated declaration", b.name, g, i) });
                            } else if d.reg != Some((register_class(&desc), i, g)) || d.vk.is_some() {
                                fails.push(Fail { class: "annotation-mismatch", detail: format!("`{}` reported as {} at group {} index {} but annotated {:?}", b.name, desc, g, i, d.annots) });
                            }
                        } else if d.is_static && d.vk.is_none() {
                            fails.push(Fail { class: "static-object-bound", detail: format!("`{}` is reported at group {} index {} but is a static, unannotated declaration", b.name, g, i) });
                        } else if d.vk != Some((i, g)) || d.reg.is_some() {
                            fails.push(Fail { class: "annotation-mismatch", detail: format!("`{}` reported at group {} index {} but annotated {:?}", b.name, g, i, d.annots) });
                        }
                    }
                    ApiLocation::InlineConstant(o) => {
                        if d.offset != Some(o) || d.in_struct.as_deref() != Some(&format!("InlineDescriptor{}", g)) {
                            fails.push(Fail { class: "annotation-mismatch", detail: format!("`{}` reported at group {} inline offset {} but emitted as {:?} in {:?}", b.name, g, o, d.annots, d.in_struct) });
                        }
                        // the global that reads it
                        let reads = emitted.decls.iter().any(|x| {
                            x.in_struct.is_none() && x.name == b.name && x.inline_init == Some((format!("g_inlineDescriptor{}", g), b.name.clone()))
                        });
                        if !reads {
                            fails.push(Fail { class: "annotation-mismatch", detail: format!("`{}`: no global initialised from g_inlineDescriptor{}.{}", b.name, g, b.name) });
                        }
                    }
                }
                if !allowed_desc(&d.ty, msl).contains(&desc.as_str()) {
                    fails.push(Fail { class: "type-mismatch", detail: format!("`{}` declared as {} but reported as {}", b.name, d.ty, desc) });
                }
                let want_count = match d.arr {
                    None | Some(ArrLen::No) => Some(1),
                    Some(ArrLen::Sized(n)) => Some(n),
                    Some(ArrLen::Unsized) => None,
                };
                if b.descriptor_count != want_count {
                    fails.push(Fail { class: "count-mismatch", detail: format!("`{}` declared with {:?} but descriptor_count {:?}", b.name, d.arr, b.descriptor_count) });
                }
            }
            // flags that only the input declaration carries
            if let Some((idx, r)) = source {
                if b.is_bindless != r.bl {
                    fails.push(Fail { class: "bindless-mismatch", detail: format!("`{}` bindless {} but reported {}", b.name, r.bl, b.is_bindless) });
                }
                let want_ss = r.ss && !msl;
                if b.static_sampler.is_some() != want_ss {
                    fails.push(Fail { class: "static-sampler-mismatch", detail: format!("`{}` static sampler {} but reported {}", b.name, want_ss, b.static_sampler.is_some()) });
                }
                let reachable = reach.contains(&idx);
                hist.add(if reachable { "binding=reachable" } else { "binding=unreachable" });
                if reachable && !b.is_used {
                    fails.push(Fail { class: "reachable-reported-unused", detail: format!("`{}` is reachable from an entry point but is_used = false", b.name) });
                }
                if msl && b.is_used && !reachable {
                    fails.push(Fail { class: "unreachable-reported-used", detail: format!("`{}` is not reachable from any entry point but is_used = true", b.name) });
                }
                if msl && pipe.is_none() {
                    // compare with the input declaration instead
                    let want = match r.arr {
                        ArrLen::No => Some(1),
                        ArrLen::Sized(n) => Some(n),
                        ArrLen::Unsized => None,
                    };
                    if b.descriptor_count != want {
                        fails.push(Fail { class: "count-mismatch", detail: format!("`{}` declared with {:?} but descriptor_count {:?}", b.name, r.arr, b.descriptor_count) });
                    }
                }
            }
        }
        // ---- inline constant block of the group
        let members: Vec<&SrcDecl> = emitted.decls.iter().filter(|d| d.in_struct.as_deref() == Some(&format!("InlineDescriptor{}", g))).collect();
        let holder = emitted.decls.iter().find(|d| d.in_struct.is_none() && d.name == format!("g_inlineDescriptor{}", g));
        match (&group.inline_constants, holder) {
            (None, None) => {
                if !members.is_empty() {
                    fails.push(Fail { class: "inline-block-mismatch", detail: format!("group {} has inline members but no inline constant buffer", g) });
                }
            }
            (Some(c), Some(h)) => {
                if h.vk != Some((c.api_location, g)) || c.size_in_bytes as usize != 8 * members.len() {
                    fails.push(Fail { class: "inline-block-mismatch", detail: format!("group {} inline constants {}/{} but emitted {:?} with {} members", g, c.api_location, c.size_in_bytes, h.annots, members.len()) });
                }
            }
            (a, b) => fails.push(Fail { class: "inline-block-mismatch", detail: format!("group {} inline constants {:?} but emitted holder {:?}", g, a.is_some(), b.is_some()) }),
        }
    }
    hist.add(&format!("entries={}", nentries.min(8)));

    // ---- 2. every externally bound declaration of the emitted source has exactly one entry
    for d in &emitted.decls {
        let external = if msl {
            d.in_struct.as_deref().is_some_and(|s| s.starts_with("ArgumentBuffer"))
        } else if d.in_struct.is_some() {
            true // members of InlineDescriptor<n>
        } else if d.name.starts_with("g_inlineDescriptor") {
            false // described by BindGroup::inline_constants
        } else {
            d.ty == "cbuffer" || (!d.is_static && is_resource_type(&d.ty))
        };
        if !external {
            continue;
        }
        let n = entries_by_name.get(&d.name).copied().unwrap_or(0);
        if n != 1 {
            if msl && n == 0 {
                fails.push(Fail { class: "msl-name-renamed", detail: format!("argument buffer member `{}` has no metadata entry of that name", d.name) });
            } else if d.arr == Some(ArrLen::Unsized) && n == 0 {
                fails.push(Fail { class: "unsized-array-unbound", detail: format!("`{} {}[]` is declared in the emitted source without annotation and without metadata entry", d.ty, d.name) });
            } else {
                fails.push(Fail { class: "declaration-entries", detail: format!("externally bound `{}` has {} metadata entries", d.name, n) });
            }
        }
    }

    // ---- 3. stages
    let mut s_parts = Vec::new();
    let mut f_parts = Vec::new();
    let want_stages: Vec<&XFn> = pipe.map(|p| p.stages.iter().map(|k| &case.entries[*k]).collect()).unwrap_or_default();
    if out.stages.len() != want_stages.len() {
        fails.push(Fail { class: "stage-count", detail: format!("{} stages reported for {} stage properties", out.stages.len(), want_stages.len()) });
    }
    for (k, st) in out.stages.iter().enumerate() {
        let kind = format!("{:?}", st.stage);
        s_parts.push(format!("{}:{}:{}", kind, st.entry_point, threads_str(st.thread_group_size)));
        if let Some(w) = want_stages.get(k) {
            if w.stage.as_deref() != Some(kind.as_str()) || w.threads != st.thread_group_size {
                fails.push(Fail { class: "stage-record", detail: format!("stage {} reported as {} {:?}, declared {:?} {:?}", k, kind, st.thread_group_size, w.stage, w.threads) });
            }
        }
        let found: Vec<&SrcFunc> = emitted.funcs.iter().filter(|f| f.name == st.entry_point && f.has_body).collect();
        if found.len() != 1 {
            f_parts.push(format!("!missing({})", st.entry_point));
            let src_name = want_stages.get(k).map(|w| w.name.as_str()).unwrap_or("");
            fails.push(Fail {
                class: if found.is_empty() && !msl && src_name == st.entry_point { "entry-renamed" } else { "entry-not-defined" },
                detail: format!("stage {} reports entry point `{}` but the emitted source defines {} function(s) of that name (functions: {})",
                    kind, st.entry_point, found.len(),
                    emitted.funcs.iter().map(|f| f.name.as_str()).collect::<Vec<_>>().join(" ")),
            });
            continue;
        }
        let f = found[0];
        if msl {
            let total = st.thread_group_size.map(|(x, y, z)| x as u64 * y as u64 * z as u64);
            f_parts.push(format!("{}:{}", f.name, f.threads.map(|t| t.0.to_string()).unwrap_or_else(|| "-".into())));
            if f.threads.map(|t| t.0) != total {
                fails.push(Fail { class: "thread-group-size", detail: format!("`{}` reported {:?} but emitted total {:?}", f.name, st.thread_group_size, f.threads) });
            }
            let want_attr = match kind.as_str() {
                "Compute" => "kernel",
                "Vertex" => "vertex",
                "Pixel" => "fragment",
                "Task" => "object",
                _ => "mesh",
            };
            if f.stage_attr.as_deref() != Some(want_attr) {
                fails.push(Fail { class: "entry-stage-kind", detail: format!("`{}` reported as {} but emitted with [[{:?}]]", f.name, kind, f.stage_attr) });
            }
            // every argument buffer is bound at [[buffer(group)]]
            for (g, _) in out.metadata.bind_groups.iter().enumerate() {
                let want = (format!("ArgumentBuffer{}", g), format!("set{}", g), g as u32);
                if !f.buffers.contains(&want) {
                    fails.push(Fail { class: "argument-buffer-param", detail: format!("`{}` has no `{}& {} [[buffer({})]]` parameter: {:?}", f.name, want.0, want.1, g, f.buffers) });
                }
            }
            if f.buffers.len() != out.metadata.bind_groups.len() {
                fails.push(Fail { class: "argument-buffer-param", detail: format!("`{}` has {} buffer parameters for {} groups", f.name, f.buffers.len(), out.metadata.bind_groups.len()) });
            }
        } else {
            let t = f.threads.map(|(x, y, z)| (x as u32, y as u32, z as u32));
            f_parts.push(format!("{}:{}", f.name, threads_str(t)));
            if t != st.thread_group_size {
                // the function of that name is another function when the entry point itself was renamed
                let prefix = format!("{}_", st.entry_point);
                let renamed = emitted.funcs.iter().any(|x| x.name.starts_with(&prefix) && x.threads.map(|(a, b, c)| (a as u32, b as u32, c as u32)) == st.thread_group_size);
                fails.push(Fail {
                    class: if renamed { "entry-renamed" } else { "thread-group-size" },
                    detail: format!("stage {} reports entry point `{}` {:?} but the emitted function of that name has numthreads {:?} (functions: {})",
                        kind, f.name, st.thread_group_size, f.threads,
                        emitted.funcs.iter().map(|f| f.name.as_str()).collect::<Vec<_>>().join(" ")),
                });
            }
        }
    }

    // ---- observation
    let mut a_parts: Vec<String> = Vec::new();
    for d in &emitted.decls {
        if d.in_struct.is_none() && d.inline_init.is_some() {
            continue; // listed through its InlineDescriptor member
        }
        for a in &d.annots {
            match &d.in_struct {
                Some(s) => a_parts.push(format!("{}=>{}/{}", d.name, s, a)),
                None => a_parts.push(format!("{}=>{}", d.name, a)),
            }
        }
    }
    if msl {
        // [[buffer(i)]] parameters, once per group when every entry function agrees
        let mut seen: BTreeSet<(String, u32)> = BTreeSet::new();
        for f in &emitted.funcs {
            for (_, pname, n) in &f.buffers {
                seen.insert((pname.clone(), *n));
            }
        }
        for (pname, n) in seen {
            a_parts.push(format!("{}=>[[buffer({})]]", pname, n));
        }
    }
    a_parts.sort();
    let obs = format!("M[{}] A[{}] S[{}] F[{}]", show_meta(&out.metadata), a_parts.join(";"), s_parts.join(","), f_parts.join(","));
    (obs, fails)
}

fn parse_mode(s: &str) -> Option<Mode> {
    if s == "all" {
        Some(Mode::All)
    } else if s == "nopipeline" {
        Some(Mode::NoPipeline)
    } else {
        s.strip_prefix("name=").map(|n| Mode::Named(n.to_string()))
    }
}

fn run_case(case: &Case, tgt: Tgt, mode: &Mode, out: &mut Out, hist: &mut Hist) {
    let req = format!("C05.meta\t{}\t{}\t{}", tgt.name(), mode.show(), case.encode());
    let src = case.render();
    hist.add(&format!("target={}", tgt.name()));
    hist.add(&format!("mode={}", match mode { Mode::All => "all", Mode::Named(_) => "named", Mode::NoPipeline => "nopipeline" }));
    hist.add(&format!("resources={}", case.res.len()));
    hist.add(&format!("pipes={}", case.pipes.len()));
    for r in &case.res {
        hist.add(&format!("kind={}", r.kind));
        if r.arr == ArrLen::Unsized { hist.add("variant=unsized-array"); }
        if r.stat { hist.add("variant=static-object"); }
        if r.bl { hist.add("variant=bindless"); }
        if r.ss { hist.add("variant=static-sampler"); }
        if name_class(&r.name) != "plain" { hist.add("variant=special-resource-name"); }
    }
    match compile_raw(&src, tgt, mode) {
        Raw::Err(e) => {
            let obs = if e == "Shader does not contain a single pipeline" {
                "err:none".to_string()
            } else if e.starts_with("Shader does not contain the pipeline: ") {
                "err:unknown".to_string()
            } else if e.contains("metal generate: UnsupportedBindGroupIndex(") {
                // a bind group beyond the argument buffers Metal provides is refused cleanly (predicted by the model)
                "err:UnsupportedBindGroupIndex".to_string()
            } else {
                format!("err:{}", one_line(&e.chars().take(100).collect::<String>()))
            };
            hist.add("outcome=error");
            let skip = !(obs == "err:none" || obs == "err:unknown" || obs == "err:UnsupportedBindGroupIndex");
            out.case(&req, &obs, if skip { "SKIP:compile error" } else { "ok" });
        }
        Raw::Panic(p) => {
            hist.add("outcome=panic");
            // a panic is a C08 matter; it is reported here only as skipped input
            out.case(&req, &format!("panic:{}", p), "SKIP:panic (C08)");
        }
        Raw::Ok(ps) => {
            hist.add("outcome=ok");
            let pipes: Vec<Option<&XPipe>> = match mode {
                Mode::All => case.pipes.iter().map(Some).collect(),
                Mode::Named(n) => vec![case.pipes.iter().find(|p| &p.name == n)],
                Mode::NoPipeline => vec![None],
            };
            let mut fails: Vec<Fail> = Vec::new();
            let mut obs = Vec::new();
            if pipes.len() != ps.len() {
                fails.push(Fail { class: "pipeline-count", detail: format!("{} outputs for {} pipelines", ps.len(), pipes.len()) });
            }
            for (p, o) in pipes.iter().zip(ps.iter()) {
                let (ob, mut fl) = judge(case, tgt, *p, o, hist);
                obs.push(ob);
                fails.append(&mut fl);
            }
            let pick = fails.iter().find(|f| !RECORDED.contains(&f.class)).or(fails.first());
            let oracle = match pick {
                None => "ok".to_string(),
                Some(f) => {
                    hist.add(&format!("fail={}", f.class));
                    format!("FAIL:{} {}", f.class, f.detail)
                }
            };
            out.case(&req, &obs.join(" ## "), &oracle);
        }
    }
}

// ------------------------------------------------------------------------------------------------ generation

/// variants that exercise the known weak spots (each rare, so that most cases are clean)
fn mutate(case: &mut Case, rng: &mut Rng, hist: &mut Hist) {
    // an entry point whose name is reserved in a target language
    if !case.entries.is_empty() && rng.chance(1, 24) {
        let k = rng.below(case.entries.len() as u64) as usize;
        let st = case.entries[k].stage.clone().unwrap_or_default();
        if st != "Mesh" && st != "Task" {
            case.entries[k].name = (*rng.pick(&["float16_t", "int64_t", "uint64_t"])).to_string();
            hist.add("variant=reserved-entry-name");
        }
    }
    // overloaded helpers `a`, `a` are emitted as `a_0`, `a_1`; an entry point called `a_0` then has to move
    if case.helpers.len() >= 2 && !case.entries.is_empty() && rng.chance(1, 24) {
        let k = rng.below(case.entries.len() as u64) as usize;
        if case.entries[k].stage.as_deref() == Some("Compute") {
            case.helpers[0].name = "a".to_string();
            case.helpers[1].name = "a".to_string();
            case.entries[k].name = "a_0".to_string();
            hist.add("variant=overload-clash-entry-name");
        }
    }
    // a resource whose name is reserved on Metal only
    if !case.res.is_empty() && rng.chance(1, 24) {
        let k = rng.below(case.res.len() as u64) as usize;
        case.res[k].name = (*rng.pick(&["main", "kernel", "vertex", "fragment"])).to_string();
    }
    // an unsized array
    if !case.res.is_empty() && rng.chance(1, 24) {
        let k = rng.below(case.res.len() as u64) as usize;
        let r = &mut case.res[k];
        if r.kind != "cbuffer" && r.kind != "ConstantBuffer" && !r.ss && !r.kind.contains("Address") {
            r.arr = ArrLen::Unsized;
        }
    }
    // a static global of resource type
    if !case.res.is_empty() && rng.chance(1, 24) {
        let k = rng.below(case.res.len() as u64) as usize;
        let r = &mut case.res[k];
        if r.kind.starts_with("Texture") && !r.bl && r.group.is_none() {
            r.stat = true;
        }
    }
    // a bind group beyond the four argument buffers Metal provides (refused there, fine on HLSL)
    if !case.res.is_empty() && rng.chance(1, 24) {
        let k = rng.below(case.res.len() as u64) as usize;
        case.res[k].group = Some(4 + rng.below(3) as u32);
        hist.add("variant=bind-group-4-plus");
    }
    // kinds progen does not draw
    if !case.res.is_empty() && rng.chance(1, 8) {
        let k = rng.below(case.res.len() as u64) as usize;
        let r = &mut case.res[k];
        if r.kind.starts_with("Texture") {
            r.kind = rng.pick(EXTRA_KINDS).0.to_string();
        }
    }
}

pub fn run(args: &Args, out: &mut Out) {
    let mut hist = Hist::default();
    if args.extra.first().map(|s| s.as_str()) == Some("dump") {
        // harness c05 dump <file> <target> [mode]: print what compile() returns (debugging aid)
        let src = std::fs::read_to_string(&args.extra[1]).unwrap_or_default();
        let tgt = Tgt::parse(&args.extra[2]).unwrap_or(Tgt::Dx);
        let mode = args.extra.get(3).and_then(|m| parse_mode(m)).unwrap_or(Mode::All);
        match compile_raw(&src, tgt, &mode) {
            Raw::Ok(ps) => {
                for p in ps {
                    println!("=== metadata {:?}\n{}", p.metadata, String::from_utf8_lossy(&p.data));
                }
            }
            Raw::Err(e) => println!("ERR {}", e),
            Raw::Panic(p) => println!("PANIC {}", p),
        }
        return;
    }
    if let Some(lines) = args.request_lines() {
        for line in lines {
            let f: Vec<&str> = line.split('\t').collect();
            if f.len() != 8 || f[0] != "C05.meta" {
                continue;
            }
            let (Some(t), Some(m), Some(case)) = (Tgt::parse(f[1]), parse_mode(f[2]), Case::decode(&f[3..])) else {
                out.case(&line, "bad-request", "SKIP:bad request");
                continue;
            };
            if args.extra.first().map(|s| s.as_str()) == Some("show") {
                eprintln!("{}", case.render());
            }
            run_case(&case, t, &m, out, &mut hist);
        }
        out.stat(&format!("{{\"mode\":\"replay\",\"hist\":{}}}", hist.json()));
        return;
    }
    let n = args.n.unwrap_or(if args.thorough() { 2500 } else { 130 });
    let mut rng = Rng::new(args.seed);
    for _ in 0..n {
        let seed = rng.next() >> 16;
        let mut prng = Rng::new(seed);
        // mesh entry points make every non-mesh pipeline of the file fail on Metal (InvalidPipelineForMeshIntrinsic):
        // keep them to a third of the programs
        let allow_mesh = prng.chance(1, 3);
        let prog = progen::gen_program(&mut prng, &progen::GenOpts { max_resources: 8, allow_mesh, ..Default::default() });
        let mut case = from_program(&prog);
        mutate(&mut case, &mut prng, &mut hist);
        for tgt in ALL_TARGETS {
            run_case(&case, tgt, &Mode::All, out, &mut hist);
            if !case.pipes.is_empty() {
                let k = rng.below(case.pipes.len() as u64) as usize;
                run_case(&case, tgt, &Mode::Named(case.pipes[k].name.clone()), out, &mut hist);
            }
            run_case(&case, tgt, &Mode::NoPipeline, out, &mut hist);
        }
    }
    // name sweep: every name the target languages reserve, as an entry point and as a resource name
    // (most are rejected by the front end: those cases are skipped; the accepted ones must keep metadata and source in step)
    let repo = std::env::var("VERIF_REPO").unwrap_or_else(|_| "/repo".into());
    let mut swept = 0;
    for (file, tgts) in [("hlsl/src/names.rs", vec![Tgt::Dx, Tgt::VkBa]), ("msl/src/names.rs", vec![Tgt::Msl])] {
        let names = reserved_names(&format!("{}/{}", repo, file));
        let step = if args.thorough() { 1 } else { 4 };
        let start = (args.seed % step as u64) as usize;
        for name in names.iter().skip(start).step_by(step) {
            if !name.chars().all(|c| c.is_ascii_alphanumeric() || c == '_') {
                continue;
            }
            for tgt in &tgts {
                for role in 0..2 {
                    let mut case = Case {
                        nstatics: 0,
                        res: vec![XRes { name: "g_t".into(), kind: "Texture2D".into(), group: None, arr: ArrLen::No, ss: false, bl: false, stat: false }],
                        helpers: vec![],
                        entries: vec![XFn { name: "cs_0".into(), stage: Some("Compute".into()), uses: vec![0], calls: vec![], statics: vec![], threads: Some((8, 4, 1)) }],
                        pipes: vec![XPipe { name: "P0".into(), dflt: None, stages: vec![0] }],
                    };
                    if role == 0 {
                        case.entries[0].name = name.clone();
                    } else {
                        case.res[0].name = name.clone();
                    }
                    hist.add("source=name-sweep");
                    swept += 1;
                    run_case(&case, *tgt, &Mode::Named("P0".into()), out, &mut hist);
                }
            }
        }
    }
    out.stat(&format!("{{\"programs\":{},\"name_sweep_cases\":{},\"hist\":{}}}", n, swept, hist.json()));
}

/// the string literals of `RESERVED_NAMES` in a names.rs
fn reserved_names(path: &str) -> Vec<String> {
    let text = std::fs::read_to_string(path).unwrap_or_default();
    let Some(start) = text.find("RESERVED_NAMES") else { return Vec::new() };
    let Some(open) = text[start..].find("&[\n").or_else(|| text[start..].find("= &[")) else { return Vec::new() };
    let body = &text[start + open..];
    let end = body.find("];").unwrap_or(body.len());
    let mut out = Vec::new();
    let mut rest = &body[..end];
    while let Some(q) = rest.find('"') {
        let after = &rest[q + 1..];
        let Some(q2) = after.find('"') else { break };
        out.push(after[..q2].to_string());
        rest = &after[q2 + 1..];
    }
    out
}

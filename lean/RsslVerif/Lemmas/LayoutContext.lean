import RsslVerif.Model.LayoutCollect
import RsslVerif.Lemmas.LayoutCollect
/-!
# The final loop of `check_layout` keeps nothing between two types (C19)

`checkFrom` (the loop over `types_to_check`) gives every type the verdict of `checkOne` on that type alone:
what was checked before only decides whether the loop gets that far.  Core Lean only.
-/
namespace RsslVerif.Lemmas.LayoutContext
open RsslVerif.Gen.LayoutTables RsslVerif.Model.Layout RsslVerif.Model.LayoutCollect RsslVerif.Lemmas.LayoutCollect

/-- what the loop does with the outcome of its body for the type at position `i`: `none` = go on -/
def verdictAt (i : Nat) : Except Err (Option (Layout × Layout)) → Option Verdict
  | .ok none => none
  | .ok (some (h, m)) => some (.mismatch i h m)
  | .error .unknown => some (.unknown i)
  | .error (.panic msg) => some (.panic msg)

theorem checkFrom_cons (i : Nat) (t : Ty) (ts : List Ty) :
    checkFrom i (t :: ts) = (verdictAt i (checkOne t)).getD (checkFrom (i + 1) ts) := by
  simp only [checkFrom]
  split <;> simp_all [verdictAt]

theorem checkFrom_append (pre rest : List Ty) (i : Nat) (h : ∀ u ∈ pre, checkOne u = .ok none) :
    checkFrom i (pre ++ rest) = checkFrom (i + pre.length) rest := by
  induction pre generalizing i with
  | nil => simp
  | cons u pre ih =>
    have hu := h u (List.mem_cons_self ..)
    rw [List.cons_append, checkFrom_cons, hu]
    simp only [verdictAt, Option.getD_none]
    rw [ih (i + 1) (fun v hv => h v (List.mem_cons_of_mem _ hv))]
    simp only [List.length_cons]
    congr 1
    omega

theorem checkFrom_ok_iff (i : Nat) (ts : List Ty) : checkFrom i ts = .ok ↔ ∀ t ∈ ts, checkOne t = .ok none := by
  induction ts generalizing i with
  | nil => simp [checkFrom]
  | cons t ts ih =>
    rw [checkFrom_cons]
    cases hc : checkOne t with
    | error e => cases e <;> simp [verdictAt, hc]
    | ok o =>
      cases o with
      | none => simp [verdictAt, ih, hc]
      | some p => simp [verdictAt, hc]

/-! ### the collection loops panic because of one function, not because of what was collected before -/

/-- the function is one the loop panics on: a matched intrinsic whose template data is not one type argument -/
def badFn (f : Fn) : Bool :=
  match f.intrinsic with
  | none => false
  | some i =>
    checkedIntrinsics.contains i &&
      (match f.template with
       | none => false
       | some [.type _] => false
       | some _ => true)

theorem stepFn_ok_of_not_bad (a : Acc) (f : Fn) (h : badFn f = false) : ∃ a', stepFn a f = .ok a' := by
  obtain ⟨fi, ft⟩ := f
  cases fi with
  | none => exact ⟨a, rfl⟩
  | some i =>
    simp only [badFn] at h
    simp only [stepFn]
    cases hc : checkedIntrinsics.contains i with
    | false => exact ⟨a, by simp⟩
    | true =>
      rw [hc] at h
      simp only [Bool.true_and] at h
      simp only [Bool.not_true, Bool.false_eq_true, if_false]
      match ft, h with
      | none, _ => exact ⟨a, rfl⟩
      | some [.type r], _ =>
        by_cases hd : (fnLoopSkipsDependent && isDependent r.ty) = true
        · exact ⟨a, by simp [hd]⟩
        · exact ⟨a.push r (typeLocation r), by simp [hd]⟩
      | some [], h => simp at h
      | some [.const], h => simp at h
      | some (_ :: _ :: _), h => simp at h

theorem not_bad_of_stepFn_ok (a a' : Acc) (f : Fn) (h : stepFn a f = .ok a') : badFn f = false := by
  unfold stepFn at h
  unfold badFn
  split at h
  · rename_i hi; rw [hi]
  · rename_i i hi
    rw [hi]
    simp only
    split at h
    · rename_i hc
      have : checkedIntrinsics.contains i = false := by simpa using hc
      rw [this]; rfl
    · split at h
      · rename_i ht; rw [ht]; simp
      · rename_i r ht; rw [ht]; simp
      · cases h

theorem foldFns_ok_of_not_bad (fs : List Fn) (a : Acc) (h : ∀ f ∈ fs, badFn f = false) : ∃ a', foldFns fs a = .ok a' := by
  induction fs generalizing a with
  | nil => exact ⟨a, rfl⟩
  | cons f fs ih =>
    obtain ⟨a1, h1⟩ := stepFn_ok_of_not_bad a f (h f (List.mem_cons_self ..))
    simp only [foldFns, h1]
    exact ih a1 (fun g hg => h g (List.mem_cons_of_mem _ hg))

theorem not_bad_of_foldFns_ok (fs : List Fn) (a a' : Acc) (h : foldFns fs a = .ok a') : ∀ f ∈ fs, badFn f = false := by
  induction fs generalizing a with
  | nil => intro f hf; cases hf
  | cons f fs ih =>
    simp only [foldFns] at h
    split at h
    · rename_i a1 h1
      intro g hg
      rcases List.mem_cons.1 hg with hg | hg
      · subst hg; exact not_bad_of_stepFn_ok a a1 g h1
      · exact ih a1 h g hg
    · cases h

/-- the collection loops succeed iff no function is one they panic on -/
theorem collect_ok_iff (m : Module) : (∃ l, collect m = .ok l) ↔ ∀ f ∈ m.fns, badFn f = false := by
  unfold collect
  constructor
  · rintro ⟨l, h⟩
    split at h
    · rename_i a ha; exact not_bad_of_foldFns_ok _ _ a ha
    · cases h
  · intro h
    obtain ⟨a', ha⟩ := foldFns_ok_of_not_bad m.fns (m.globals.foldl stepGlobal ⟨[], []⟩) h
    exact ⟨a'.list, by rw [ha]⟩

end RsslVerif.Lemmas.LayoutContext

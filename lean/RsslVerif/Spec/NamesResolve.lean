import RsslVerif.Model.NamesEmit
/-!
Reference semantics of an identifier in the emitted program, for programs without namespaces: C++ unqualified
lookup from inside a function — the innermost scope that declares the name decides: first the function's own
scope (parameters and locals), then the file scope (where unscoped enumerators are visible as well).
Independent of how the names were chosen: it only reads the declarations of the token stream.
-/
namespace RsslVerif.Spec.NamesResolve
open RsslVerif.Model.NamesEmit

/-- the entities declared under `x` in the scopes selected by `sel` -/
def declared (toks : List Tok) (sel : Scope → Bool) (x : String) : List Ent :=
  toks.filterMap fun tok => match tok with
    | .decl sc _ n e => if sel sc && n == x then some e else none
    | _ => none

def isFileScope : Scope → Bool
  | .file none => true
  | .enm _ => true
  | _ => false

/-- what the identifier `x` written inside function `f` names -/
def resolveFlat (toks : List Tok) (f : Nat) (x : String) : List Ent :=
  let inner := declared toks (· == .func f) x
  if inner.isEmpty then declared toks isFileScope x else inner

theorem mem_declared {toks : List Tok} {sel : Scope → Bool} {x : String} {e : Ent} (h : e ∈ declared toks sel x) :
    ∃ sc k, Tok.decl sc k x e ∈ toks ∧ sel sc = true := by
  unfold declared at h
  obtain ⟨tok, htok, hm⟩ := List.mem_filterMap.mp h
  cases tok with
  | decl sc k n e' =>
    simp only at hm
    split at hm
    · rename_i hc
      simp only [Bool.and_eq_true, beq_iff_eq] at hc
      injection hm with hm
      subst hm
      exact ⟨sc, k, hc.2 ▸ htok, hc.1⟩
    · cases hm
  | use _ _ _ _ => simp at hm
  | mem _ _ _ => simp at hm
  | op => simp at hm
  | cl => simp at hm

theorem mem_resolveFlat {toks : List Tok} {f : Nat} {x : String} {e : Ent} (h : e ∈ resolveFlat toks f x) :
    ∃ sc k, Tok.decl sc k x e ∈ toks := by
  unfold resolveFlat at h
  simp only at h
  split at h
  · obtain ⟨sc, k, h1, _⟩ := mem_declared h; exact ⟨sc, k, h1⟩
  · obtain ⟨sc, k, h1, _⟩ := mem_declared h; exact ⟨sc, k, h1⟩

end RsslVerif.Spec.NamesResolve

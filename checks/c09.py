"""C09 — printing a syntax tree and parsing it back are inverse."""
import re

T = "RsslVerif.Thm.C09."


def nontrivial(req, obs):
    # at least one operator node and parentheses or two operators in the printed text
    return req.count("(un ") + req.count("(bin ") + req.count("(tern ") + req.count("(call ") >= 2


def finding_key(req, obs, detail):
    """The harness minimises every failing tree (same failure kind, greedy, canonical names/operators);
    the key is `<failure kind> <ctx> <minimal tree>` — one key per minimal failing shape."""
    m = re.search(r" min=(.*)$", detail or "")
    if m:
        key = m.group(1)
        marks = (detail or "").split(" min=")[0]
        # The known template misreading (finding 2): a `<` operator … a `>` operator directly in front of `(` is read by
        # expr_p1_call as `name<args>(…)`.  One family, two class keys:
        known_lt_gt = ("tree-differs[bin:GreaterThan->call] ret (bin GreaterThan (bin LessThan (id a) (id a)) "
                       "(bin BitwiseAnd (id a) (id a)))")
        # comma-list variant: the `<` stands in an earlier and the `> (` in a later entry of a call argument list, so the
        # list `f(a < b, c > (d))` reads back as `f<b, c>(d)`-like: ONE argument (a different argument count)
        known_lt_gt_list = ("tree-differs[list-length] ret (call (id a) () ((bin LessThan (id a) (id a)) "
                            "(bin GreaterThan (id a) (bin BitwiseAnd (id a) (id a)))))")
        family = False
        # `a < a > (X)`: any right operand that is printed in parentheses gives the same misreading
        # (also when the operand only *starts* with `(`, e.g. `a < a > (++a)++`, where the call ends up below a postfix node;
        # a cast as right operand also starts with `(`: `a < a > (T)a`; when the would-be argument list does not parse the
        # text is rejected instead of regrouped)
        if re.match(r"(tree-differs\[bin:GreaterThan->[^\]]*\]|rejected-by-parser) ret \(bin GreaterThan \(bin LessThan \(id a\) \(id a\)\) ", key):
            family = True
        # the same misreading in any position (`f(a < b, c > (d))` reads as `f(a<b, c>(d))`): the re-read tree has
        # template arguments although the original has none at all
        eot = re.compile(r"\((?:E|B|T) \(")
        if key.startswith("tree-differs") and " ==> " in (obs or "") and not eot.search(req) and eot.search(obs.split(" ==> ", 1)[1]):
            family = True
        # … and inside a tree that has template arguments of its own: the harness marks a failure whose *minimal* tree has
        # no expression-or-type position although its printed text reads back with one (`a << a < a ? a : a > (a ? a : a)`)
        if key.startswith("tree-differs") and " reread-invents-template-args" in marks:
            family = True
        # … or the text is rejected because the would-be argument list does not parse (`a < a & a > (Foo<a>)a`): the minimal
        # tree keeps a `<` and a `>` operator outside every expression-or-type position and prints `>` in front of `(`
        if key.startswith(("tree-differs", "rejected-by-parser")) and " lt-gt-paren" in marks:
            family = True
        # … or, whatever the shrinker made of it (its budget can end on a tree that still has template arguments of its
        # own with relational operators inside): the re-read tree has MORE calls with template arguments than the original -
        # a template call was invented.  (A formatter that prints a template argument bare - seeded C09-6 and its siblings -
        # loses or keeps template calls, it never gains one.)
        tcall = re.compile(r"\(\((?:E|B|T) \(")
        if key.startswith("tree-differs") and " ==> " in (obs or ""):
            if len(tcall.findall(obs.split(" ==> ", 1)[1])) > len(tcall.findall(req)):
                family = True
        if family:
            # two or more entries of an argument list, an earlier one with a bare `<`, a later one with a bare `> (`
            key = known_lt_gt_list if key.startswith("tree-differs[list-length]") else known_lt_gt
        return key
    m = re.match(r"FAIL:panic ([^:]+):\d+: (.*)$", detail or "")
    if m:
        return f"panic {m.group(1)}: " + re.sub(r"\d+", "N", m.group(2))
    return req


def harness_args(tier, seed):
    return []


SPEC = {
    "id": "C09",
    "gens": ["FmtTables", "ParseTables", "SyntaxTables", "LexTables", "LitFormatTables"],
    "lean_modules": ["RsslVerif.Thm.C09", "RsslVerif.Thm.C10", "RsslVerif.Lemmas.LiteralText", "RsslVerif.Lemmas.TArgClosed"],
    "level_note": "roundtrip_xexpr_partial / roundtrip_stmt_partial / roundtrip_decl_partial / roundtrip_function_partial / "
                  "roundtrip_struct_partial: WF / WFS / WFVarDef / WFFn / WFStruct are decidable syntactic carve-outs "
                  "(notes/C09.md; after fix batch 2 they no longer exclude operators in template / sizeof arguments nor comma "
                  "expressions in attribute arguments and default values, and structs have base types); integer literal text is "
                  "proved (literal_roundtrip_int), float literal text is C10's emit_value_exact (cited; after 265a080 without the "
                  "read-back hypothesis on the shortest digits of a non-whole single), enums, cbuffers, "
                  "globals and template parameter lists are reached by the correspondence run only",
    "theorems": [T + n for n in [
        "binToks_lexes", "unTok_lexes", "tables_agree", "assoc_agrees", "ternary_level", "unary_tables_agree",
        "glue_prefix_prefix", "glue_postfix_next", "glue_needs_space", "paren_rule_matches_grammar",
        "roundtrip_expr_partial", "roundtrip_subexpr_partial", "roundtrip_comma_positions_partial", "literal_roundtrip_partial", "negative_literals_break",
        "negative_literal_binds_like_minus", "negative_literal_member_groups", "member_of_int_literal_roundtrips",
        "decimal_roundtrip",
        # full expression language (Model/FormatFull + Model/ParseFull)
        "source_fingerprints", "modifier_tables_agree", "roundtrip_xexpr_partial", "roundtrip_typeid_partial",
        "eot_parenthesised_admissible", "eot_parenthesises_from_shift",
        "sizeof_shift_roundtrips", "template_arg_shift_roundtrips", "template_arg_comma_roundtrips", "template_arg_less_roundtrips",
        "former_witnesses_wf", "less_greater_paren_regroups",
        # a printed template argument / sizeof operand is closed under the bracket scanner (seeded mutant C09-6)
        "template_argument_closed", "template_argument_list_closed", "template_argument_brackets_match",
        "eot_threshold_closes", "bare_conditional_not_closed",
        # statements and local variable definitions (Model/FormatStmt + Model/ParseStmt)
        "roundtrip_stmt_partial", "roundtrip_block_partial", "roundtrip_decl_partial", "dangling_else_regroups",
        "attribute_comma_roundtrips", "for_init_pointer_reads_as_expr",
        # function and struct definitions (Model/FormatDef + Model/ParseDef)
        "roundtrip_param_partial", "roundtrip_function_partial", "roundtrip_struct_partial", "default_arg_comma_roundtrips",
        "struct_base_types_roundtrip", "definition_header_tables_agree",
        # text of integer literals through C10's lexer model
        "literal_roundtrip_int"]] + [
        # "every literal reads back with the same value and type": the reading half is property C10's; its literal
        # theorems and the shape obligations of the lexer's numeric functions are C09 obligations too (a change of
        # calculate_float64_from_parts / literal_*_int breaks them here as well)
        "RsslVerif.Thm.C10." + n for n in [
            "int_value_exact", "int_overflow_rejected", "int_rejected_only_when_too_large", "literalInt_radix",
            "token_numeric_dispatch", "float_parts_shape_as_modelled", "lex_float_nearest", "nearest64_correct",
            "nearest_correct", "nearest_exact_on_representable",
            # the printing half of the literal text (format_literal arm by arm, pinned on every run), cited since fix
            # 265a080: the arm order of format_literal, the text of every finite float of every kind reads back as the
            # same kind and bits, and the one single whose shortest digits round twice (0x15ae43fd) is printed with the
            # digits of the double - the former witness emit_f32_double_rounding_witness is the positive statement now
            "literal_tables_as_modelled", "emit_int_exact", "emit_value_exact", "emit_whole_value_exact",
            "emit_infinity_exact", "emit_negative_exact", "emit_f32_double_rounding_repaired"]],
    "harness": "c09",
    "harness_args": harness_args,
    "nontrivial": nontrivial,
    "finding_key": finding_key,
    "level_text": "Proof: the formatter models (format_subexpression, format_type_id, format_declarator, format_statement, "
                  "format_variable_definition, format_initializer, format_attribute, format_function, format_function_param, "
                  "format_struct, with the generated precedence / associativity / "
                  "side / modifier / keyword tables) and the parser models (expr_p1..p15 with the generated parse_op arms, cast, "
                  "sizeof, template arguments, expression-or-type, type ids, declarators, parse_statement_kind, statement_block, "
                  "parse_vardef, parse_initializer, attributes, parse_function_definition, parse_function_param, "
                  "parse_struct_definition / parse_struct_entry) are proved inverse by mutual structural induction: for every "
                  "expression tree over all node kinds except BracedInit (roundtrip_expr_partial on the first model, "
                  "roundtrip_xexpr_partial with casts / sizeof / template arguments / type ids), every statement tree of every kind "
                  "with attributes (roundtrip_stmt_partial, roundtrip_block_partial) and every local variable definition with "
                  "pointer / reference / array declarators and aggregate initialisers (roundtrip_decl_partial), every function "
                  "definition with attributes, in / out / inout parameters with declarators, semantics and default values, and any "
                  "body (roundtrip_function_partial), every struct of member definitions and methods (roundtrip_struct_partial), at "
                  "every nesting depth, for every set of type names. The carve-outs (WF, WFS, WFVarDef, WFFn, WFStruct) are decidable and syntactic; for the shapes "
                  "they exclude that really fail (a < b > (c), dangling else, a pointer definition in a for initialiser, negative "
                  "literals) the negation is proved with a witness. The shapes repaired by fix batch 2 are covered now and their former "
                  "witnesses are positive theorems: every operator in a template / sizeof argument (printed at (7, CommaList): "
                  "eot_parenthesised_admissible, sizeof_shift_roundtrips, template_arg_*_roundtrips), comma expressions in attribute "
                  "arguments and default values (attribute_comma_roundtrips, default_arg_comma_roundtrips), an integer literal as the "
                  "object of a member access (member_of_int_literal_roundtrips), struct base types (struct_base_types_roundtrip), and a "
                  "negative literal is parenthesised exactly like the unary minus of its magnitude (negative_literal_binds_like_minus; "
                  "paren_rule_matches_grammar quantifies over negative literals as productions of the prefix level). "
                  "template_argument_closed / template_argument_list_closed: for every expression-or-type tree (all node kinds, any "
                  "depth, types with nested lists and declarators) the printed tokens are invisible to a bracket scanner in every "
                  "state - no >, >=, >>, >>= or comma outside brackets, every < outside parentheses closed inside the entry - so the "
                  "angle brackets of a template argument list stay matched (template_argument_brackets_match); proved by mutual "
                  "induction from the generated (eotExprPrec, eotExprSide) alone (eot_threshold_closes: the conditional, the comma, "
                  "the assignments, the relational and the shift operators are parenthesised there), with the witness that a "
                  "conditional with > printed bare is not closed (bare_conditional_not_closed - what seeded mutant C09-6 prints). "
                  "Table-level obligations (precedence <-> level, "
                  "associativity, spelling <-> tokens, operator glue, modifier spelling <-> keyword <-> parser arm) are decided over "
                  "the regenerated tables, and 63 hand-modelled functions are fingerprinted. The text of non-negative integer literals of every suffix is "
                  "proved to read back through C10's lexer model (literal_roundtrip_int); the text of float literals is C10's cited "
                  "emit_value_exact / emit_whole_value_exact / emit_infinity_exact / emit_negative_exact over format_literal's arms as "
                  "extracted on this run (literal_tables_as_modelled) - since fix 265a080 format_literal prints the digits of the "
                  "double for a single whose shortest digits read back as its neighbour (0x15ae43fd, emit_f32_double_rounding_repaired; "
                  "reproducers in the corpus, drawn by the literal stream) - plus the correspondence stream random-literals; enums, "
                  "cbuffers, globals and template parameter lists are covered by the correspondence run only.",
    "rule": "requests = (context, expression tree) / statement tree / function or struct definition tree built directly as rssl_ast values, or random source "
            "modules; printed by the real rssl_formatter::format (HLSL), re-read by the real preprocess_fragment + prepare_tokens "
            "+ parse, locations stripped, ambiguous parse branches / ambiguous statements resolved with the type names of the "
            "original tree; oracle = same tree and identical second print. Streams: exhaustive depth<=3 over 3 leaves x 6 unary x "
            "12 binary operators + ternary/subscript/member/call; random depth 2-6 over all operators in 5 contexts; random with "
            "exporter-only shapes; template-args: every node kind over every node kind (all 30 binary operators, conditionals "
            "in each operand position, casts, sizeof, nested template calls; depth 4 under assignment / comma / conditional / "
            "minus / cast) in nine expression-or-type positions (call and type-name template argument alone / first / after a "
            "type, sizeof operand, argument of a type that is itself an argument, array size of an abstract declarator) plus "
            "random depth 3-6 trees weighted towards ?: < > >= >> >>= <= << , = in those positions; lt-gt-lists: argument lists / comma "
            "expressions with a bare < (<=, <<) in an earlier and a bare > (>=, >>) in a later entry, right operand parenthesised or not "
            "(the known misreading, deliberately); source modules also write expression template arguments of every form; casts / sizeof / template calls over types with all modifiers, nested template arguments and "
            "declarators; literals of every kind over the whole value range; statement trees and function / struct definition trees of random programs; random source "
            "modules (statements, declarators, functions with attributes / templates / semantics / defaults, structs with "
            "methods and base types, enums, cbuffers, namespaces, resource globals). non-trivial = at least two operator nodes",
    "trusted_base": [
        "Lean 4.33 kernel; axioms propext / Classical.choice / Quot.sound only (audited by #print axioms)",
        "tools/gens/c09.py (FmtTables, ParseTables as before + the guarded literal arms of get_expression_precedence and the "
        "is_int_literal test of the Member arm; SyntaxTables: the (precedence, side) of expression-or-type positions, attribute "
        "arguments, default values and enum values, the order template parameters / attributes of format_function, whether "
        "format_struct prints base types, TypeModifier variants and Debug spellings, lexer "
        "keyword table, parse_type_modifiers_before/after arms, cast / sizeof / call arms and alternative orders (shape "
        "checks), sha256 fingerprints of 63 hand-modelled functions) - re-run on /repo's working tree every time",
        "Lemmas/TArgClosed.lean `scan` / `cls`: the definition of `closed` (bracket scanner over the model's tokens) that "
        "template_argument_closed is stated with",
        "hand-written Model/Format.lean, Model/Parse.lean (first model), Model/FormatFull.lean, Model/ParseFull.lean (casts, "
        "sizeof, template arguments, types, declarators), Model/FormatStmt.lean, Model/ParseStmt.lean (statements, local "
        "definitions), Model/FormatDef.lean, Model/ParseDef.lean (functions, parameters, structs) - tied to the code by the fingerprints and the correspondence run",
        "Rust f32/f64 Display (shortest round trip; what it prints for a value is an input of C10's format_literal model, the "
        "assumptions on it are stated as hypotheses of emit_value_exact) and the lexer's literal reading (C10, whose literal "
        "theorems are cited); tools/gens/c10.py LitFormatTables (arms of format_literal incl. the f32_digits_round_twice guard)",
    ],
    "assumptions": [
        "a scoped identifier and a literal are single abstract tokens in the model",
        "select (longest match) is modelled as: the cast alternative of expr_p2 when it succeeds, else expr_p1 - the two "
        "agree unless `( X )` + postfix operators reaches further than a successful `( T )` operand (argued in notes, never "
        "observed in 523 k thorough cases); how far a failed alternative got is not represented (failures are `none`)",
        "type names: the model is run with the set W of names that are types; the real parser returns all readings and the "
        "type checker picks with W (the harness resolves the same way)",
        "white space of statements is compared collapsed; BracedInit, attributes on declarators, location annotations of "
        "locals, StaticSampler, template parameter lists, const / volatile methods and register / packoffset annotations "
        "are answered `unsupported` by the model and judged by the oracle only",
        "the known template misreading `a < b ... > (c)` (finding 2, parser) is recognised on the MINIMAL failing tree: it has a `<` "
        "and a `>` operator outside every expression-or-type position and either reads back with invented template arguments or "
        "prints a lone `>` directly before `(`; two class keys (operand form, and the comma-list form `f(a < b, c > (d))` whose "
        "argument count changes); a bare relational operator inside a template argument is never put into this class",
        "random trees of the template-args stream are redrawn when their printed text has a reading cost (deepest nesting of `(` / `[` + half the number of `<`) above 7: the real "
        "parser (and the model) re-read the inside of every `(` and `name <` twice, minutes per tree at a dozen levels; the "
        "systematic catalogue is not bounded; in addition each random tree is emitted only if a trial print + parse on a helper "
        "thread finished within 1.5 s (count of dropped trees in the template-args-budget STAT line)",
        "an expression-or-type position is compared on what syntax can tell: `Either(expr, type)` equals `Expression(expr)` "
        "(`T<(n[b])>` prints `T<n[b]>`, which reads back as Either; neither form is accepted by the type checker)",
    ],
}

import RsslVerif.Lemmas.GenMslExpr
/-! Metal exporter, arguments: what the typed evaluation of an argument list guarantees, the appended arguments for
statics, and that no generated argument is the tag. -/
namespace RsslVerif.Lemmas.GenMsl
open RsslVerif.Gen.HlslGenTables RsslVerif.Gen.MslGenTables RsslVerif.Model RsslVerif.Model.GenMsl RsslVerif.Spec.Sem
open RsslVerif.Model.Ir (Ty Var Const Dir)
open RsslVerif.Model.GenHlsl (GenErr)
set_option linter.unusedSimpArgs false

/-- with pure `in` arguments the evaluation of an argument list leaves the store alone -/
theorem evalArgs_laterPure (W : World) : ∀ (es : Ir.Exprs) (ps : List (Dir × Ty)) (σ : Store) l σ1,
    Ir.evalArgs W es ps σ = some (l, σ1) → Ir.laterPure es ps = true → σ1 = σ
  | .nil, [], σ, l, σ1, h, _ => by simp [Ir.evalArgs] at h; exact h.2.symm
  | .nil, _ :: _, σ, l, σ1, h, _ => by simp [Ir.evalArgs] at h
  | .cons _ _, [], σ, l, σ1, h, _ => by simp [Ir.evalArgs] at h
  | .cons e r, (d, T) :: ps, σ, l, σ1, h, hp => by
    simp only [Ir.laterPure, Bool.and_eq_true, Bool.or_eq_true, decide_eq_true_eq] at hp
    cases d with
    | in_ =>
      simp only [Ir.evalArgs] at h
      have hpe : Ir.pureExpr e = true := by
        cases hp.1 with
        | inl h0 => exact absurd rfl h0
        | inr h0 => exact h0
      cases he : Ir.eval W e σ with
      | none => simp [he] at h
      | some r1 =>
        obtain ⟨v1, σa⟩ := r1
        have e1 := pure_eval W e σ v1 σa hpe he
        subst e1
        simp only [he] at h
        cases hr : Ir.evalArgs W r ps σa with
        | none => simp [hr] at h
        | some r2 =>
          obtain ⟨l2, σ2⟩ := r2
          have e2 := evalArgs_laterPure W r ps σa l2 σ2 hr hp.2
          simp [hr] at h
          rw [← h.2]; exact e2
    | out =>
      simp only [Ir.evalArgs] at h
      cases hl : Ir.lvalOf e with
      | none => simp [hl] at h
      | some x =>
        simp only [hl] at h
        cases hr : Ir.evalArgs W r ps σ with
        | none => simp [hr] at h
        | some r2 =>
          obtain ⟨l2, σ2⟩ := r2
          have e2 := evalArgs_laterPure W r ps σ l2 σ2 hr hp.2
          simp [hr] at h
          rw [← h.2]; exact e2
    | inout =>
      simp only [Ir.evalArgs] at h
      cases hl : Ir.lvalOf e with
      | none => simp [hl] at h
      | some x =>
        simp only [hl] at h
        cases hr : Ir.evalArgs W r ps σ with
        | none => simp [hr] at h
        | some r2 =>
          obtain ⟨l2, σ2⟩ := r2
          have e2 := evalArgs_laterPure W r ps σ l2 σ2 hr hp.2
          simp [hr] at h
          rw [← h.2]; exact e2

/-- the typed evaluation of an accepted argument list: values for `in`, variables (of the parameter's type) elsewhere;
the variables are outside `rsv`, and (the later `in` arguments being pure) still hold the value that was copied in when
the list is done -/
theorem evalArgs_facts (W : World) (vty : Var → Ty) (rsv : List Var) : ∀ (es : Ir.Exprs) (ps : List (Dir × Ty)) (σ : Store) l σ1,
    Ir.evalArgs W es ps σ = some (l, σ1) → Ir.refArgsOK rsv es ps = true → Ir.argsOK W.sig vty es ps = true →
    fitsB vty ps l = true ∧ ∀ p ∈ l, ∀ x, p.2 = some x → rsv.contains x = false ∧ σ1 x = p.1
  | .nil, [], σ, l, σ1, h, _, _ => by
    simp [Ir.evalArgs] at h; obtain ⟨rfl, rfl⟩ := h; simp [fitsB]
  | .nil, _ :: _, σ, l, σ1, h, _, _ => by simp [Ir.evalArgs] at h
  | .cons _ _, [], σ, l, σ1, h, _, _ => by simp [Ir.evalArgs] at h
  | .cons e r, (d, T) :: ps, σ, l, σ1, h, hok, hty => by
    simp only [Ir.refArgsOK, Bool.and_eq_true] at hok
    cases hte : Ir.typeOf W.sig vty e with
    | none => simp [Ir.argsOK, hte] at hty
    | some te =>
      simp only [Ir.argsOK, hte, Bool.and_eq_true, decide_eq_true_eq] at hty
      obtain ⟨⟨rfl, _⟩, hty'⟩ := hty
      cases d with
      | in_ =>
        simp only [Ir.evalArgs] at h
        cases he : Ir.eval W e σ with
        | none => simp [he] at h
        | some r1 =>
          obtain ⟨v1, σa⟩ := r1
          simp only [he] at h
          cases hr : Ir.evalArgs W r ps σa with
          | none => simp [hr] at h
          | some r2 =>
            obtain ⟨l2, σ2⟩ := r2
            simp [hr] at h
            obtain ⟨rfl, rfl⟩ := h
            obtain ⟨f1, f2⟩ := evalArgs_facts W vty rsv r ps σa l2 σ2 hr hok.2 hty'
            refine ⟨by simp [fitsB, f1], ?_⟩
            intro p hp x hx
            simp only [List.mem_cons] at hp
            cases hp with
            | inl h0 => subst h0; simp at hx
            | inr h0 => exact f2 p h0 x hx
      | out =>
        simp only [Ir.evalArgs] at h
        cases hl : Ir.lvalOf e with
        | none => simp [hl] at h
        | some x0 =>
          simp only [hl] at h
          simp only [hl, Bool.and_eq_true, Bool.not_eq_true', reduceCtorEq, if_false] at hok
          cases hr : Ir.evalArgs W r ps σ with
          | none => simp [hr] at h
          | some r2 =>
            obtain ⟨l2, σ2⟩ := r2
            simp [hr] at h
            obtain ⟨rfl, rfl⟩ := h
            obtain ⟨f1, f2⟩ := evalArgs_facts W vty rsv r ps σ l2 σ2 hr hok.2 hty'
            have hs := evalArgs_laterPure W r ps σ l2 σ2 hr hok.1.2
            refine ⟨by simp [fitsB, f1, (lval_tyM hte hl).1], ?_⟩
            intro p hp x hx
            simp only [List.mem_cons] at hp
            cases hp with
            | inl h0 =>
              subst h0; simp at hx; subst hx
              exact ⟨hok.1.1, by rw [hs]⟩
            | inr h0 => exact f2 p h0 x hx
      | inout =>
        simp only [Ir.evalArgs] at h
        cases hl : Ir.lvalOf e with
        | none => simp [hl] at h
        | some x0 =>
          simp only [hl] at h
          simp only [hl, Bool.and_eq_true, Bool.not_eq_true', reduceCtorEq, if_false] at hok
          cases hr : Ir.evalArgs W r ps σ with
          | none => simp [hr] at h
          | some r2 =>
            obtain ⟨l2, σ2⟩ := r2
            simp [hr] at h
            obtain ⟨rfl, rfl⟩ := h
            obtain ⟨f1, f2⟩ := evalArgs_facts W vty rsv r ps σ l2 σ2 hr hok.2 hty'
            have hs := evalArgs_laterPure W r ps σ l2 σ2 hr hok.1.2
            refine ⟨by simp [fitsB, f1, (lval_tyM hte hl).1], ?_⟩
            intro p hp x hx
            simp only [List.mem_cons] at hp
            cases hp with
            | inl h0 =>
              subst h0; simp at hx; subst hx
              exact ⟨hok.1.1, by rw [hs]⟩
            | inr h0 => exact f2 p h0 x hx

/-- the arguments `append_arguments_for_globals` pushes evaluate, without effect, to references to the statics -/
theorem globalArgs_eval' {M : Msl.MWorld} {env : Ast.Env} {cx : Ctx} (hvty : env.vty = cx.vty) :
    ∀ (gs : List Nat), (∀ g ∈ gs, env.res (cx.globName g) = some (.glob g)) →
      ∀ σ, Msl.evalArgs M env (globalArgs cx gs) (globParams cx gs) σ = some (globMArgs gs, σ)
  | [], _, σ => by simp [globalArgs, globParams, globMArgs, Msl.evalArgs]
  | g :: r, hv, σ => by
    have ih := globalArgs_eval' (M := M) hvty r (fun g' hg' => hv g' (List.mem_cons_of_mem _ hg')) σ
    have hr := hv g (by simp)
    simp only [globParams, globMArgs, List.map_cons] at ih ⊢
    simp [globalArgs, Msl.evalArgs, Msl.lvalOf, hr, hvty, ih]

theorem globalArgs_eval {M : Msl.MWorld} {env : Ast.Env} {cx : Ctx} {vis : Var → Bool} (hag : AgreeM cx vis env)
    (gs : List Nat) (hv : gs.all (fun g => vis (.glob g)) = true) :
    ∀ σ, Msl.evalArgs M env (globalArgs cx gs) (globParams cx gs) σ = some (globMArgs gs, σ) := by
  apply globalArgs_eval' hag.vty
  intro g hg
  have := hag.res (.glob g) (by simpa using (List.all_eq_true.mp hv) g hg)
  simpa [Ctx.name] using this

theorem hasTag_append : ∀ (a b : HlslAst.Exprs), Msl.hasTagArg (appendArgs a b) = (Msl.hasTagArg a || Msl.hasTagArg b)
  | .nil, b => by simp [appendArgs, Msl.hasTagArg]
  | .cons e r, b => by simp [appendArgs, Msl.hasTagArg, hasTag_append r b, Bool.or_assoc]

theorem hasTag_globalArgs (cx : Ctx) : ∀ gs, Msl.hasTagArg (globalArgs cx gs) = false
  | [] => by simp [globalArgs, Msl.hasTagArg]
  | g :: r => by simp [globalArgs, Msl.hasTagArg, Msl.isTagArg, hasTag_globalArgs cx r]

theorem genLiteral_shape {c : Const} {a : HlslAst.Expr} (h : GenHlsl.genLiteral c = .ok a) :
    (∃ l, a = .lit l) ∨ (∃ m, a = .un .Minus (.lit (.intUntyped m))) := by
  unfold GenHlsl.genLiteral at h
  cases hf : GenHlsl.findArm c.kind (GenHlsl.Const.intValue c) with
  | none => simp [hf] at h
  | some arm =>
    simp only [hf] at h
    cases arm with
    | plain k =>
      cases hm : GenHlsl.mkLit k c <;> simp [hm, Except.map] at h
      exact Or.inl ⟨_, h.symm⟩
    | widen k =>
      cases hm : GenHlsl.mkLit k c <;> simp [hm, Except.map] at h
      exact Or.inl ⟨_, h.symm⟩
    | negMinus k =>
      cases k <;> cases hm : GenHlsl.negMagnitude true c <;> simp [hm] at h
      exact Or.inr ⟨_, h.symm⟩
    | negMinusAbs k =>
      cases k <;> cases hm : GenHlsl.negMagnitude false c <;> simp [hm] at h
      exact Or.inr ⟨_, h.symm⟩
    | panics => simp at h
    | errs e => simp at h
    | enumLookup => simp at h

theorem genArgs_cons_ne_nil (cx : Ctx) (e : Ir.Expr) (r : Ir.Exprs) : genArgs cx (.cons e r) ≠ .ok .nil := by
  simp only [genArgs]
  cases genExpr cx e with
  | error _ => simp
  | ok a => cases genArgs cx r <;> simp

theorem genBinary_not_tag {cx : Ctx} {b : BinOp} {args : Ir.Exprs} {a : HlslAst.Expr}
    (h : genBinary cx b args = .ok a) : Msl.isTagArg a = false := by
  cases args with
  | nil => simp [genBinary] at h
  | cons x r =>
    cases r with
    | nil => simp [genBinary] at h
    | cons y r2 =>
      cases r2 with
      | cons z r3 => simp [genBinary] at h
      | nil =>
        simp only [genBinary] at h
        cases hx : genExpr cx x with
        | error e => simp [hx] at h
        | ok x' =>
          cases hy : genExpr cx y with
          | error e => simp [hx, hy] at h
          | ok y' => simp [hx, hy] at h; subst h; rfl

theorem genBinary_shape {cx : Ctx} {b : BinOp} {args : Ir.Exprs} {a : HlslAst.Expr} (h : genBinary cx b args = .ok a) :
    ∃ x y, a = .bin b x y := by
  cases args with
  | nil => simp [genBinary] at h
  | cons x r =>
    cases r with
    | nil => simp [genBinary] at h
    | cons y r2 =>
      cases r2 with
      | cons z r3 => simp [genBinary] at h
      | nil =>
        simp only [genBinary] at h
        cases hx : genExpr cx x with
        | error e => simp [hx] at h
        | ok x' =>
          cases hy : genExpr cx y with
          | error e => simp [hx, hy] at h
          | ok y' => simp [hx, hy] at h; subst h; exact ⟨_, _, rfl⟩

/-- whatever the floating-point `op=` arm (fixes 92d66eb / 35faaaa) emits is a binary operation -/
theorem floatAssign_shape {cx : Ctx} {o : IntrinsicOp} {args : Ir.Exprs} {a : HlslAst.Expr} {scalars : List String} {err : String}
    {outer inner : IntrinsicOp} {b : BinOp} (hf : mslOpForm o = .floatAssign scalars err outer inner b)
    (hg : genExpr cx (.op o args) = .ok a) : ∃ bo x y, a = .bin bo x y := by
  simp only [genExpr, hf] at hg
  repeat' split at hg
  all_goals first
    | (simp at hg; done)
    | (simp at hg; subst hg; exact ⟨_, _, _, rfl⟩)
    | (obtain ⟨x, y, rfl⟩ := genBinary_shape hg; exact ⟨_, _, _, rfl⟩)

/-- no generated expression is the tag argument `metal::true_type()` -/
theorem gen_not_tag {cx : Ctx} (hn : ∀ f, cx.funcName f ≠ Msl.tagName) {sig : Sig} {vty : Var → Ty} :
    ∀ (e : Ir.Expr) (a : HlslAst.Expr) (t : Ty), genExpr cx e = .ok a → Ir.typeOf sig vty e = some t → Msl.isTagArg a = false
  | .lit c, a, t, hg, _ => by
    simp only [genExpr, genLiteral_eq] at hg
    rcases genLiteral_shape hg with ⟨l, rfl⟩ | ⟨m, rfl⟩ <;> rfl
  | .var id, a, t, hg, _ => by simp [genExpr] at hg; subst hg; rfl
  | .global id, a, t, hg, _ => by simp [genExpr] at hg; subst hg; rfl
  | .tern c f g, a, t, hg, _ => by
    simp only [genExpr] at hg
    cases h1 : genExpr cx c with
    | error e => simp [h1] at hg
    | ok c' =>
      cases h2 : genExpr cx f with
      | error e => simp [h1, h2] at hg
      | ok f' =>
        cases h3 : genExpr cx g with
        | error e => simp [h1, h2, h3] at hg
        | ok g' => simp [h1, h2, h3] at hg; subst hg; rfl
  | .seq es, a, t, hg, _ => by
    cases es with
    | nil => simp [genExpr] at hg
    | cons e r =>
      cases r with
      | nil => simp [genExpr] at hg
      | cons e2 r2 =>
        simp only [genExpr] at hg
        rw [genSeq_cons2] at hg
        cases h1 : genSeq cx (.cons e2 r2) with
        | error err => simp [h1] at hg
        | ok tail =>
          cases h2 : genExpr cx e with
          | error err => simp [h1, h2] at hg
          | ok a1 => simp [h1, h2] at hg; subst hg; rfl
  | .cast ty x, a, t, hg, ht => by
    simp only [Ir.typeOf] at ht
    cases hx : Ir.typeOf sig vty x with
    | none => simp [hx] at ht
    | some tx =>
      simp only [hx] at ht
      by_cases hl : ty = .lit ∨ ty = .flit
      · simp [hl] at ht
      · simp only [genExpr] at hg
        cases h1 : genExpr cx x with
        | error e => simp [h1] at hg
        | ok x' =>
          simp only [h1, hl, if_false] at hg
          cases h2 : GenMsl.typeName ty with
          | error e => simp [h2] at hg
          | ok n => simp [h2] at hg; subst hg; rfl
  | .call f args, a, t, hg, _ => by
    simp only [genExpr] at hg
    cases h1 : genArgs cx args with
    | error e => simp [h1] at hg
    | ok as =>
      cases h2 : cx.req f with
      | none => simp [h1, h2] at hg
      | some gs =>
        simp [h1, h2] at hg; subst hg
        have := hn f
        cases hx : appendArgs as (globalArgs cx gs) <;> simp [Msl.isTagArg, this]
  | .intr i T ret args, a, t, hg, _ => by simp [genExpr] at hg
  | .op o args, a, t, hg, _ => by
    simp only [genExpr] at hg
    cases hf : mslOpForm o with
    | special => simp [hf] at hg
    | meshMethod => simp [hf] at hg
    | meshHelper => simp [hf] at hg
    | unary u =>
      simp only [hf] at hg
      cases args with
      | nil => simp at hg
      | cons x r =>
        cases r with
        | cons y r2 => simp at hg
        | nil =>
          cases hx : genExpr cx x with
          | error e => simp [hx] at hg
          | ok x' => simp [hx] at hg; subst hg; rfl
    | binary b =>
      simp only [hf] at hg
      exact genBinary_not_tag hg
    | floatCall name scalars b =>
      simp only [hf] at hg
      cases args with
      | nil => simp at hg
      | cons x r =>
        simp only [] at hg
        cases hty : exprTy cx x with
        | none => simp [hty] at hg
        | some tx =>
          simp only [hty] at hg
          by_cases hc : scalarIn scalars tx = true
          · simp only [hc, if_true] at hg
            cases hga : genArgs cx (.cons x r) with
            | error e => simp [hga] at hg
            | ok as =>
              simp [hga] at hg; subst hg
              cases as with
              | nil => exact absurd hga (genArgs_cons_ne_nil cx x r)
              | cons a1 ar => rfl
          · simp only [hc, if_false] at hg
            exact genBinary_not_tag hg
    | floatAssign scalars err outer inner b =>
      obtain ⟨bo, x, y, rfl⟩ := floatAssign_shape hf (by simpa only [genExpr] using hg)
      rfl

theorem genArgs_not_tag {cx : Ctx} (hn : ∀ f, cx.funcName f ≠ Msl.tagName) {sig : Sig} {vty : Var → Ty} :
    ∀ (es : Ir.Exprs) (as : HlslAst.Exprs) (ps : List (Dir × Ty)),
      genArgs cx es = .ok as → Ir.argsOK sig vty es ps = true → Msl.hasTagArg as = false
  | .nil, as, ps, hg, _ => by simp [genArgs] at hg; subst hg; rfl
  | .cons e r, as, ps, hg, hok => by
    cases ps with
    | nil => simp [Ir.argsOK] at hok
    | cons p ps' =>
      cases hge : genExpr cx e with
      | error err => simp [genArgs, hge] at hg
      | ok a1 =>
        cases hgr : genArgs cx r with
        | error err => simp [genArgs, hge, hgr] at hg
        | ok ar =>
          simp [genArgs, hge, hgr] at hg; subst hg
          cases hte : Ir.typeOf sig vty e with
          | none => simp [Ir.argsOK, hte] at hok
          | some te =>
            simp only [Ir.argsOK, hte, Bool.and_eq_true] at hok
            simp [Msl.hasTagArg, gen_not_tag hn e a1 te hge hte, genArgs_not_tag hn r ar ps' hgr hok.2]

end RsslVerif.Lemmas.GenMsl

// Grammar-directed generator of syntactically valid (and mostly well-typed) shader files.
// Nesting depth of expressions and statements <= 12; at most 6 cast-like prefixes `(a)(b)(c)x` per expression.
// (included into c08_gen.rs)

#[derive(Clone, Copy, PartialEq, Eq, Debug)]
enum Ty {
    Int,
    Uint,
    Float,
    Bool,
    F2,
    F3,
    F4,
    I2,
    U3,
    Half,
    St,
}

impl Ty {
    fn name(self) -> &'static str {
        match self {
            Ty::Int => "int",
            Ty::Uint => "uint",
            Ty::Float => "float",
            Ty::Bool => "bool",
            Ty::F2 => "float2",
            Ty::F3 => "float3",
            Ty::F4 => "float4",
            Ty::I2 => "int2",
            Ty::U3 => "uint3",
            Ty::Half => "half",
            Ty::St => "S",
        }
    }
    fn dim(self) -> usize {
        match self {
            Ty::F2 | Ty::I2 => 2,
            Ty::F3 | Ty::U3 => 3,
            Ty::F4 => 4,
            _ => 1,
        }
    }
    fn is_int(self) -> bool {
        matches!(self, Ty::Int | Ty::Uint | Ty::I2 | Ty::U3)
    }
    fn scalar(self) -> Ty {
        match self {
            Ty::F2 | Ty::F3 | Ty::F4 => Ty::Float,
            Ty::I2 => Ty::Int,
            Ty::U3 => Ty::Uint,
            t => t,
        }
    }
}

const VALUE_TYS: &[Ty] = &[Ty::Int, Ty::Uint, Ty::Float, Ty::Bool, Ty::F2, Ty::F3, Ty::F4, Ty::I2, Ty::U3, Ty::Half];

struct Gram<'a> {
    rng: &'a mut Rng,
    vars: Vec<(String, Ty, bool)>, // name, type, assignable
    funcs: Vec<(String, Ty, Vec<Ty>)>,
    casts_left: u32,
    loops: u32,
    counter: u32,
    hist_depth: u32,
    /// features used (for the distribution)
    exotic: bool,
    in_func: bool,
}

const INT_LITS: &[&str] = &["0", "1", "2", "3", "7", "31", "32", "255", "65535", "2147483647", "0x7fffffff", "0x10", "017"];
const UINT_LITS: &[&str] = &["0u", "1u", "2u", "31u", "32u", "4294967295u", "0xffffffffu", "0x80000000u", "2147483648u"];
const FLOAT_LITS: &[&str] = &["0.0f", "1.0f", "0.5f", "2.0f", "1e-3f", "1.5e10f", "3.402823466e+38f", "1e-45f", "0.1f", "0.25f", "4.f", "100.0f"];
const ODD_FLOAT_LITS: &[&str] = &["0.0", "1.0", "1e-3", "0.1", "4.", "1.0h", "100.0L", "1e10", "1.5", "3", "7u", "true"];
const EXTREME_LITS: &[&str] = &[
    "2147483648", "-2147483648", "4294967296", "9223372036854775807", "18446744073709551615ul", "1e999", "1e-999", "0xffffffffffffffff",
    "(0u - 1u)", "(2147483647 + 1)", "(1 << 31)", "(1 << 32)", "(-2147483647 - 1)", "(1 / 0)", "(1 % 0)", "(1.0 / 0.0)", "-(-2147483648)",
    "(int)4294967295u", "(uint)-1", "(int)1e20", "(uint)-1.0", "99999999999999999999", "1.7976931348623157e309",
];
const SWZ: &[&str] = &["x", "y", "xy", "yx", "xx", "xyz", "zyx", "xyzw", "wzyx", "r", "rg", "rgb", "rgba", "xxxx"];

impl<'a> Gram<'a> {
    fn fresh(&mut self, p: &str) -> String {
        self.counter += 1;
        format!("{}{}", p, self.counter)
    }

    fn lit(&mut self, ty: Ty) -> String {
        if self.rng.chance(1, 300) {
            self.exotic = true;
            return self.rng.pick(EXTREME_LITS).to_string();
        }
        match ty {
            Ty::Int => self.rng.pick(INT_LITS).to_string(),
            Ty::Uint => self.rng.pick(UINT_LITS).to_string(),
            Ty::Float => {
                if self.rng.chance(1, 8) { format!("(float){}", self.rng.pick(ODD_FLOAT_LITS)) } else { self.rng.pick(FLOAT_LITS).to_string() }
            }
            Ty::Half => format!("(half){}", self.rng.pick(FLOAT_LITS)),
            Ty::Bool => self.rng.pick(&["true", "false"]).to_string(),
            Ty::St => "(S)0".to_string(),
            t => {
                let s = t.scalar();
                if self.rng.chance(1, 3) {
                    format!("(({}){})", t.name(), self.lit(s))
                } else {
                    let parts: Vec<String> = (0..t.dim()).map(|_| self.lit(s)).collect();
                    format!("{}({})", t.name(), parts.join(", "))
                }
            }
        }
    }

    fn var_of(&mut self, ty: Ty, assignable: bool) -> Option<String> {
        let c: Vec<&(String, Ty, bool)> = self.vars.iter().filter(|v| v.1 == ty && (!assignable || v.2)).collect();
        if c.is_empty() { None } else { Some(c[self.rng.below(c.len() as u64) as usize].0.clone()) }
    }

    fn leaf(&mut self, ty: Ty) -> String {
        if self.rng.chance(3, 5) {
            if let Some(v) = self.var_of(ty, false) {
                return v;
            }
        }
        // component of a wider variable
        if ty == Ty::Float && self.rng.chance(1, 3) {
            if let Some(v) = self.var_of(Ty::F4, false) {
                return format!("{}.{}", v, self.rng.pick(&["x", "y", "z", "w", "r", "a"]));
            }
        }
        if ty == Ty::Int && self.rng.chance(1, 4) {
            if let Some(v) = self.var_of(Ty::St, false) {
                return format!("{}.i", v);
            }
        }
        self.lit(ty)
    }

    /// `spine` keeps the full remaining depth for one child only, so that deep trees stay small
    fn expr(&mut self, ty: Ty, depth: u32) -> String {
        self.hist_depth = self.hist_depth.max(depth);
        if depth == 0 {
            return self.leaf(ty);
        }
        let d = depth - 1;
        let side = d.min(self.rng.below(2) as u32);
        let r = self.rng.below(100);
        match ty {
            Ty::Bool => match r {
                0..=24 => {
                    let t = *self.rng.pick(&[Ty::Int, Ty::Uint, Ty::Float]);
                    let op = *self.rng.pick(&["<", ">", "<=", ">=", "==", "!="]);
                    format!("{} {} {}", self.sub(t, d), op, self.sub(t, side))
                }
                25..=44 => {
                    let op = *self.rng.pick(&["&&", "||"]);
                    format!("{} {} {}", self.sub(Ty::Bool, d), op, self.sub(Ty::Bool, side))
                }
                45..=54 => format!("!{}", self.sub(Ty::Bool, d)),
                55..=64 => format!("{} ? {} : {}", self.sub(Ty::Bool, side), self.sub(Ty::Bool, d), self.sub(Ty::Bool, side)),
                65..=74 => {
                    let f = *self.rng.pick(&["any", "all"]);
                    format!("{}({})", f, self.expr(Ty::F3, d))
                }
                75..=82 => format!("(bool){}", self.sub(Ty::Int, d)),
                83..=90 => format!("isnan({}) || isinf({})", self.expr(Ty::Float, d), self.expr(Ty::Float, side)),
                _ => format!("({})", self.expr(Ty::Bool, d)),
            },
            Ty::St => match r {
                0..=49 => self.leaf(ty),
                50..=74 => format!("{} ? {} : {}", self.sub(Ty::Bool, side), self.sub(Ty::St, d), self.sub(Ty::St, side)),
                _ => format!("({})", self.expr(Ty::St, d)),
            },
            _ => self.num_expr(ty, d, side, r),
        }
    }

    /// sub-expression in operand position: parenthesised when it is not primary
    fn sub(&mut self, ty: Ty, depth: u32) -> String {
        let e = self.expr(ty, depth);
        if e.chars().all(|c| c.is_alphanumeric() || c == '_' || c == '.') || (e.ends_with(')') && !e.contains(' ') && !e.starts_with('(')) {
            e
        } else if self.rng.chance(1, 12) {
            // rely on precedence sometimes: still syntactically valid
            e
        } else {
            format!("({})", e)
        }
    }

    fn num_expr(&mut self, ty: Ty, d: u32, side: u32, r: u64) -> String {
        let int = ty.is_int();
        match r {
            0..=21 => {
                let op = if int {
                    *self.rng.pick(&["+", "-", "*", "/", "%", "&", "|", "^", "<<", ">>"])
                } else {
                    *self.rng.pick(&["+", "-", "*", "/"])
                };
                if self.rng.chance(1, 2) {
                    format!("{} {} {}", self.sub(ty, d), op, self.sub(ty, side))
                } else {
                    format!("{} {} {}", self.sub(ty, side), op, self.sub(ty, d))
                }
            }
            22..=29 => {
                let op = if int { *self.rng.pick(&["-", "+", "~"]) } else { *self.rng.pick(&["-", "+"]) };
                format!("{}{}", op, self.sub(ty, d))
            }
            30..=37 => format!("{} ? {} : {}", self.sub(Ty::Bool, side), self.sub(ty, d), self.sub(ty, side)),
            38..=47 => {
                // casts, including chains of cast-like prefixes
                let n = 1 + self.rng.below(6) as u32;
                let n = n.min(self.casts_left);
                if n == 0 {
                    return format!("({})", self.expr(ty, d));
                }
                self.casts_left -= n;
                let mut s = String::new();
                for k in 0..n {
                    let t = if k == 0 {
                        ty.name().to_string()
                    } else if ty.dim() == 1 {
                        self.rng.pick(&["int", "uint", "float", "int", "float", "half", "uint", "bool"]).to_string()
                    } else {
                        ty.name().to_string()
                    };
                    s.push_str(&format!("({})", t));
                }
                // the operand may itself start with a sign or a parenthesis: the ambiguous shapes
                let operand = match self.rng.below(4) {
                    0 => format!("-{}", self.sub(ty, d)),
                    1 => format!("({})", self.expr(ty, d)),
                    2 => format!("+{}", self.sub(ty, d)),
                    _ => self.sub(ty, d),
                };
                format!("{}{}", s, operand)
            }
            48..=55 => {
                // constructor / swizzle
                if ty.dim() > 1 {
                    let s = ty.scalar();
                    let parts: Vec<String> = (0..ty.dim()).map(|k| if k == 0 { self.expr(s, d) } else { self.expr(s, side.min(1)) }).collect();
                    format!("{}({})", ty.name(), parts.join(", "))
                } else if ty == Ty::Float {
                    format!("{}.{}", self.sub(Ty::F4, d), self.rng.pick(&["x", "y", "z", "w"]))
                } else {
                    format!("({})", self.expr(ty, d))
                }
            }
            56..=69 => {
                // intrinsics
                if ty.scalar() == Ty::Float {
                    match self.rng.below(11) {
                        0 => format!("max({}, {})", self.expr(ty, d), self.expr(ty, side)),
                        1 => format!("lerp({}, {}, {})", self.expr(ty, d), self.expr(ty, side), self.expr(ty, side)),
                        2 => format!("clamp({}, {}, {})", self.expr(ty, d), self.expr(ty, side), self.expr(ty, side)),
                        3 => format!("{}({})", self.rng.pick(&["abs", "saturate", "sqrt", "rsqrt", "sin", "cos", "exp2", "log2", "floor", "frac", "ddx", "normalize"]), self.expr(ty, d)),
                        4 if ty == Ty::Float => format!("dot({}, {})", self.expr(Ty::F3, d), self.expr(Ty::F3, side)),
                        5 if ty == Ty::Float => format!("length({})", self.expr(Ty::F2, d)),
                        6 if ty == Ty::Float => format!("asfloat({})", self.expr(Ty::Uint, d)),
                        7 if ty == Ty::F3 => format!("cross({}, {})", self.expr(Ty::F3, d), self.expr(Ty::F3, side)),
                        8 => format!("pow({}, {})", self.expr(ty, d), self.expr(ty, side)),
                        9 if ty == Ty::Float => format!("f16tof32({})", self.expr(Ty::Uint, d)),
                        _ => format!("min({}, {})", self.expr(ty, side), self.expr(ty, d)),
                    }
                } else if ty == Ty::Uint {
                    match self.rng.below(8) {
                        0 => format!("asuint({})", self.expr(Ty::Float, d)),
                        1 => format!("countbits({})", self.expr(Ty::Uint, d)),
                        2 => format!("firstbithigh({})", self.expr(Ty::Uint, d)),
                        3 => format!("f32tof16({})", self.expr(Ty::Float, d)),
                        4 => format!("reversebits({})", self.expr(Ty::Uint, d)),
                        5 => format!("WaveActiveSum({})", self.expr(Ty::Uint, d)),
                        6 => format!("sizeof({})", self.rng.pick(&["int", "float4", "S", "uint3"])),
                        _ => format!("max({}, {})", self.expr(ty, d), self.expr(ty, side)),
                    }
                } else {
                    format!("{}({}, {})", self.rng.pick(&["max", "min"]), self.expr(ty, d), self.expr(ty, side))
                }
            }
            70..=77 => {
                // call of a helper with the right return type
                let c: Vec<(String, Ty, Vec<Ty>)> = self.funcs.iter().filter(|f| f.1 == ty).cloned().collect();
                if c.is_empty() {
                    return format!("({})", self.expr(ty, d));
                }
                let (name, _, params) = c[self.rng.below(c.len() as u64) as usize].clone();
                let args: Vec<String> = params.iter().enumerate().map(|(k, t)| if k == 0 { self.expr(*t, d) } else { self.expr(*t, side.min(1)) }).collect();
                format!("{}({})", name, args.join(", "))
            }
            78..=83 => {
                // assignment / increment as a sub-expression, comma expression
                match (self.var_of(ty, true), self.rng.below(4)) {
                    (Some(v), 0) => format!("({} = {})", v, self.expr(ty, d)),
                    (Some(v), 1) if ty.dim() == 1 && ty != Ty::Half => format!("({} {}= {})", v, self.rng.pick(&["+", "-", "*"]), self.expr(ty, d)),
                    (Some(v), 2) if ty.dim() == 1 && ty != Ty::Half => {
                        if self.rng.chance(1, 2) { format!("{}++", v) } else { format!("--{}", v) }
                    }
                    _ => format!("({}, {})", self.expr(Ty::Int, side), self.expr(ty, d)),
                }
            }
            84..=89 => {
                // array element / struct member / swizzle of a wider value
                if ty == Ty::Float && self.in_func && self.rng.chance(1, 2) {
                    format!("arr[{} & 3]", self.sub(Ty::Int, d))
                } else if ty == Ty::Int {
                    format!("{}.i", self.sub(Ty::St, d))
                } else if ty == Ty::F2 {
                    format!("{}.{}", self.sub(Ty::F4, d), self.rng.pick(&["xy", "zw", "xx", "rg"]))
                } else if ty == Ty::F3 {
                    format!("{}.{}", self.sub(Ty::F4, d), self.rng.pick(&["xyz", "zyx", "rgb", "www"]))
                } else if ty == Ty::F4 {
                    format!("{}.{}", self.sub(Ty::F4, d), self.rng.pick(SWZ.iter().filter(|s| s.len() == 4).collect::<Vec<_>>().as_slice()))
                } else {
                    format!("({})", self.expr(ty, d))
                }
            }
            90..=94 => {
                // implicit conversion from another scalar type
                let from = *self.rng.pick(&[Ty::Int, Ty::Uint, Ty::Float, Ty::Bool, Ty::Half]);
                if ty.dim() == 1 && self.rng.chance(1, 5) { self.sub(from, d) } else { format!("({}){}", ty.name(), self.sub(from, d)) }
            }
            _ => format!("({})", self.expr(ty, d)),
        }
    }

    fn depth(&mut self) -> u32 {
        match self.rng.below(20) {
            0..=10 => self.rng.below(3) as u32,
            11..=16 => 2 + self.rng.below(4) as u32,
            17..=18 => 5 + self.rng.below(5) as u32,
            _ => 12,
        }
    }

    fn top_expr(&mut self, ty: Ty) -> String {
        self.casts_left = 6;
        let d = self.depth();
        self.expr(ty, d)
    }

    fn stmt(&mut self, out: &mut String, ind: usize, depth: u32, ret: Ty) {
        let pad = "    ".repeat(ind);
        let r = if depth == 0 { self.rng.below(40) } else { self.rng.below(100) };
        let scope = self.vars.len();
        match r {
            0..=13 => {
                let ty = *self.rng.pick(VALUE_TYS);
                let name = self.fresh("v");
                let init = self.top_expr(ty);
                match self.rng.below(5) {
                    0 => out.push_str(&format!("{}{} {};\n{}{} = {};\n", pad, ty.name(), name, pad, name, init)),
                    1 => out.push_str(&format!("{}const {} {} = {};\n", pad, ty.name(), name, init)),
                    2 if ty.dim() == 1 => out.push_str(&format!("{}{} {} = {{ {} }};\n", pad, ty.name(), name, init)),
                    _ => out.push_str(&format!("{}{} {} = {};\n", pad, ty.name(), name, init)),
                }
                let assignable = !out.ends_with(&format!("const {} {} = {};\n", ty.name(), name, init));
                self.vars.push((name, ty, assignable));
                return; // stays in scope
            }
            14..=25 => {
                let ty = *self.rng.pick(VALUE_TYS);
                if let Some(v) = self.var_of(ty, true) {
                    let op = if ty == Ty::Bool || ty == Ty::Half { "=" } else { *self.rng.pick(&["=", "=", "+=", "-=", "*="]) };
                    let e = self.top_expr(ty);
                    out.push_str(&format!("{}{} {} {};\n", pad, v, op, e));
                } else {
                    let e = self.top_expr(ty);
                    out.push_str(&format!("{}{};\n", pad, e));
                }
            }
            26..=30 => {
                let e = self.top_expr(Ty::Int);
                out.push_str(&format!("{}arr[{} & 3] = {};\n", pad, e, self.top_expr(Ty::Float)));
            }
            31..=34 => {
                let e = self.top_expr(Ty::Int);
                out.push_str(&format!("{}st.i = {};\n{}st.v.{} = {};\n", pad, e, pad, self.rng.pick(&["x", "xy", "zyx"]), "1.0"));
            }
            35..=39 => {
                if self.loops > 0 && self.rng.chance(1, 2) {
                    out.push_str(&format!("{}{};\n", pad, self.rng.pick(&["break", "continue"])));
                } else {
                    out.push_str(&format!("{};\n", pad));
                }
            }
            40..=54 => {
                let c = self.top_expr(Ty::Bool);
                let attr = if self.rng.chance(1, 6) { *self.rng.pick(&["[branch] ", "[flatten] "]) } else { "" };
                out.push_str(&format!("{}{}if ({}) {{\n", pad, attr, c));
                self.block(out, ind + 1, depth - 1, ret);
                if self.rng.chance(1, 2) {
                    if self.rng.chance(1, 3) {
                        let c2 = self.top_expr(Ty::Bool);
                        out.push_str(&format!("{}}} else if ({}) {{\n", pad, c2));
                        self.block(out, ind + 1, depth - 1, ret);
                    }
                    out.push_str(&format!("{}}} else {{\n", pad));
                    self.block(out, ind + 1, depth - 1, ret);
                }
                out.push_str(&format!("{}}}\n", pad));
            }
            55..=66 => {
                let i = self.fresh("i");
                let attr = if self.rng.chance(1, 5) { *self.rng.pick(&["[unroll] ", "[loop] ", "[unroll(4)] "]) } else { "" };
                let bound = self.top_expr(Ty::Int);
                match self.rng.below(4) {
                    0 => {
                        out.push_str(&format!("{}{}for (uint {} = 0, k{} = 1; {} < 4u; ++{}, k{}++) {{\n", pad, attr, i, i, i, i, i));
                        self.vars.push((i, Ty::Uint, false));
                    }
                    1 => out.push_str(&format!("{}{}for (;;) {{\n{}    if (arr[0] > 1.0f) break;\n", pad, attr, pad)),
                    _ => {
                        out.push_str(&format!("{}{}for (int {} = 0; {} < ({}); {}++) {{\n", pad, attr, i, i, bound, i));
                        self.vars.push((i, Ty::Int, false));
                    }
                }
                self.loops += 1;
                self.block(out, ind + 1, depth - 1, ret);
                self.loops -= 1;
                out.push_str(&format!("{}}}\n", pad));
            }
            67..=73 => {
                let c = self.top_expr(Ty::Bool);
                self.loops += 1;
                if self.rng.chance(1, 2) {
                    out.push_str(&format!("{}while ({}) {{\n", pad, c));
                    self.block(out, ind + 1, depth - 1, ret);
                    out.push_str(&format!("{}    break;\n{}}}\n", pad, pad));
                } else {
                    out.push_str(&format!("{}do {{\n", pad));
                    self.block(out, ind + 1, depth - 1, ret);
                    out.push_str(&format!("{}}} while ({});\n", pad, c));
                }
                self.loops -= 1;
            }
            74..=81 => {
                let e = self.top_expr(Ty::Int);
                out.push_str(&format!("{}switch ({}) {{\n", pad, e));
                let n = 1 + self.rng.below(3);
                for k in 0..n {
                    out.push_str(&format!("{}    case {}:\n", pad, k * 3));
                    if self.rng.chance(3, 4) || k + 1 == n {
                        self.loops += 1;
                        self.block(out, ind + 2, depth - 1, ret);
                        self.loops -= 1;
                        out.push_str(&format!("{}        break;\n", pad));
                    }
                }
                if self.rng.chance(2, 3) {
                    out.push_str(&format!("{}    default:\n{}        break;\n", pad, pad));
                }
                out.push_str(&format!("{}}}\n", pad));
            }
            82..=89 => {
                out.push_str(&format!("{}{{\n", pad));
                self.block(out, ind + 1, depth - 1, ret);
                out.push_str(&format!("{}}}\n", pad));
            }
            90..=94 => {
                let c = self.top_expr(Ty::Bool);
                if ret == Ty::St {
                    out.push_str(&format!("{}if ({}) {{ return st; }}\n", pad, c));
                } else {
                    let e = self.top_expr(ret);
                    out.push_str(&format!("{}if ({}) {{ return {}; }}\n", pad, c, e));
                }
            }
            _ => {
                let e = self.top_expr(Ty::Float);
                out.push_str(&format!("{}g_out[uint2(0, 0)] = float4({}, 0, 0, 1);\n", pad, e));
            }
        }
        self.vars.truncate(scope.max(self.vars.len().min(scope)));
    }

    fn block(&mut self, out: &mut String, ind: usize, depth: u32, ret: Ty) {
        let scope = self.vars.len();
        let n = if depth > 3 { 1 } else { 1 + self.rng.below(2) };
        for _ in 0..n {
            self.stmt(out, ind, depth, ret);
        }
        self.vars.truncate(scope);
    }

    fn function(&mut self, out: &mut String, name: &str, ret: Ty, params: &[Ty], sdepth: u32) {
        let scope = self.vars.len();
        let mut ps = Vec::new();
        for (k, t) in params.iter().enumerate() {
            let pn = format!("p{}", k);
            let q = match self.rng.below(8) {
                0 => "in ",
                1 => "const ",
                2 => "inout ",
                _ => "",
            };
            // `inout` needs lvalue arguments at call sites: keep by-value for helpers used in expressions
            let q = if q == "inout " { "" } else { q };
            ps.push(format!("{}{} {}", q, t.name(), pn));
            self.vars.push((pn, *t, q != "const "));
        }
        self.in_func = true;
        out.push_str(&format!("{} {}({}) {{\n", ret.name(), name, ps.join(", ")));
        out.push_str("    float arr[4] = { 0.0, 1.0, 2.0, 3.0 };\n    S st = (S)0;\n");
        self.vars.push(("st".into(), Ty::St, true));
        let n = 1 + self.rng.below(3);
        for _ in 0..n {
            self.stmt(out, 1, sdepth, ret);
        }
        if ret == Ty::St {
            out.push_str("    return st;\n}\n\n");
        } else {
            let e = self.top_expr(ret);
            out.push_str(&format!("    return {};\n}}\n\n", e));
        }
        self.vars.truncate(scope);
        self.in_func = false;
    }
}

/// a whole file: typedefs, struct, constants, resources, helpers, an entry point and (usually) a pipeline
pub fn gen_grammar(rng: &mut Rng) -> String {
    let mut g = Gram { rng, vars: Vec::new(), funcs: Vec::new(), casts_left: 6, loops: 0, counter: 0, hist_depth: 0, exotic: false, in_func: false };
    let mut out = String::new();
    out.push_str("typedef int T0;\ntypedef float T1;\nstruct S { int i; float4 v; };\n");
    if g.rng.chance(1, 4) {
        out.push_str("enum E { E_A, E_B = 4, E_C };\n");
    }
    if g.rng.chance(1, 4) {
        out.push_str("#define SQR(x) ((x) * (x))\n#define TWO 2\n#if TWO > 1 && defined(SQR)\n#define THREE (TWO + 1)\n#else\n#define THREE 3\n#endif\n");
    }
    // resources (with and without explicit registers / spaces)
    let reg = match g.rng.below(6) {
        0 => " : register(u0)",
        1 => " : register(u3, space1)",
        2 => " : register(space2)",
        _ => "",
    };
    out.push_str(&format!("RWTexture2D<float4> g_out{};\n", reg));
    if g.rng.chance(1, 2) {
        out.push_str("cbuffer Globals { float4 cb_v; int cb_i; float3 cb_f3; float cb_f; }\n");
        g.vars.push(("cb_v".into(), Ty::F4, false));
        g.vars.push(("cb_i".into(), Ty::Int, false));
        g.vars.push(("cb_f3".into(), Ty::F3, false));
    }
    if g.rng.chance(1, 3) {
        out.push_str("StructuredBuffer<S> g_sb;\nByteAddressBuffer g_bab;\nTexture2D<float4> g_tex;\nSamplerState g_samp;\n");
    }
    // constants (constant evaluator)
    let nconst = g.rng.below(4);
    for k in 0..nconst {
        let ty = *g.rng.pick(&[Ty::Int, Ty::Uint, Ty::Float, Ty::Bool]);
        let e = g.top_expr(ty);
        out.push_str(&format!("static const {} c{} = {};\n", ty.name(), k, e));
        g.vars.push((format!("c{}", k), ty, false));
        if g.rng.chance(1, 4) {
            out.push_str(&format!("static float s_arr{}[(4 & 7) + 1];\n", k));
        }
    }
    if g.rng.chance(1, 3) {
        out.push_str("static int s_counter = 0;\ngroupshared float gs_data[64];\n");
        g.vars.push(("s_counter".into(), Ty::Int, true));
    }
    let in_ns = g.rng.chance(1, 6);
    if in_ns {
        out.push_str("namespace N {\n");
    }
    // helpers
    let nh = g.rng.below(3);
    for k in 0..nh {
        let ret = *g.rng.pick(&[Ty::Int, Ty::Uint, Ty::Float, Ty::F3, Ty::F4, Ty::Bool, Ty::St]);
        let np = g.rng.below(4) as usize;
        let params: Vec<Ty> = (0..np).map(|_| *g.rng.pick(VALUE_TYS)).collect();
        let name = format!("h{}", k);
        let sd = g.rng.below(3) as u32;
        g.function(&mut out, &name, ret, &params, sd);
        g.funcs.push((if in_ns { format!("N::{}", name) } else { name }, ret, params));
    }
    if in_ns {
        out.push_str("}\n");
    }
    if g.rng.chance(1, 5) {
        out.push_str("template<typename T> T tmax(T a, T b) { return a > b ? a : b; }\n");
    }
    // entry point
    let sdepth = match g.rng.below(12) {
        0..=7 => g.rng.below(3) as u32,
        8..=10 => 3 + g.rng.below(4) as u32,
        _ => 12,
    };
    let stage = g.rng.below(3);
    let scope = g.vars.len();
    g.in_func = true;
    match stage {
        0 => {
            out.push_str("[numthreads(8, 8, 1)]\nvoid CSMAIN(uint3 dtid : SV_DispatchThreadID) {\n");
            g.vars.push(("dtid".into(), Ty::U3, false));
        }
        1 => {
            out.push_str("float4 PSMAIN(float4 pos : SV_Position, float2 uv : TEXCOORD) : SV_Target {\n");
            g.vars.push(("pos".into(), Ty::F4, true));
            g.vars.push(("uv".into(), Ty::F2, true));
        }
        _ => {
            out.push_str("float4 VSMAIN(uint vid : SV_VertexID) : SV_Position {\n");
            g.vars.push(("vid".into(), Ty::Uint, false));
        }
    }
    out.push_str("    float arr[4] = { 0.0, 1.0, 2.0, 3.0 };\n    S st = (S)0;\n");
    g.vars.push(("st".into(), Ty::St, true));
    let n = 1 + g.rng.below(4);
    let ret = if stage == 0 { Ty::Int } else { Ty::F4 };
    for _ in 0..n {
        if stage == 0 {
            // no value returns inside a void entry point: use a depth-limited statement without `return e`
            let mut s = String::new();
            g.stmt(&mut s, 1, sdepth, Ty::Int);
            if s.contains("return ") {
                continue;
            }
            out.push_str(&s);
        } else {
            g.stmt(&mut out, 1, sdepth, ret);
        }
    }
    if stage == 0 {
        let e = g.top_expr(Ty::F4);
        out.push_str(&format!("    g_out[dtid.xy] = {};\n}}\n\n", e));
    } else {
        let e = g.top_expr(Ty::F4);
        out.push_str(&format!("    return {};\n}}\n\n", e));
    }
    g.vars.truncate(scope);
    if g.rng.chance(4, 5) {
        match stage {
            0 => out.push_str("Pipeline Main {\n    ComputeShader = CSMAIN;\n}\n"),
            1 => out.push_str("float4 VS0(uint vid : SV_VertexID) : SV_Position { return float4(0, 0, 0, 1); }\nPipeline Main {\n    VertexShader = VS0;\n    PixelShader = PSMAIN;\n}\n"),
            _ => out.push_str("float4 PS0(float4 pos : SV_Position) : SV_Target { return pos; }\nPipeline Main {\n    VertexShader = VSMAIN;\n    PixelShader = PS0;\n}\n"),
        }
    }
    out
}

// ------------------------------------------------------------------------------------------ feature soup
// Declaration-level generator: rarely used but syntactically valid features (templates, namespaces, enums with
// expressions, modifiers on every kind of type, declared-only functions, inheritance, object types and their
// methods, literal suffixes, multi-declarator statements).  Names refer to earlier declarations, so a good share
// of the files type-check and reach the exporters ("unsupported constructs" are the point).

const F_SCALARS: &[&str] = &["int", "uint", "float", "bool", "half", "double", "float2", "float3", "float4", "int2", "uint3", "bool2",
    "float2x2", "float3x3", "float4x4", "int2x2", "bool2x2", "float2x3", "half4", "uint64_t", "int64_t", "float16_t"];
const F_OBJECTS: &[&str] = &["Texture2D<float4>", "Texture2D", "Texture2DArray<float4>", "Texture3D<float4>", "TextureCube<float4>",
    "RWTexture2D<float4>", "RWTexture2D<unorm float4>", "Texture2D<const float4>", "Buffer<float4>", "RWBuffer<uint>", "StructuredBuffer<S0>",
    "RWStructuredBuffer<S0>", "RWStructuredBuffer<unorm float>", "ByteAddressBuffer", "RWByteAddressBuffer", "BufferAddress", "RWBufferAddress",
    "ConstantBuffer<S0>", "ConstantBuffer<const S0>", "ConstantBuffer<float4>", "SamplerState", "SamplerComparisonState",
    "RaytracingAccelerationStructure", "RayQuery<0>", "RayDesc", "StructuredBuffer<float4>"];
const F_MODS: &[&str] = &["const", "volatile", "row_major", "column_major", "unorm", "snorm", "static", "extern", "groupshared", "static const", "inline", "constexpr"];
const F_EXPRS: &[&str] = &["0", "1", "2", "true", "1.0", "1.0f", "1u", "1l", "1ul", "1.0h", "1e999", "1e999L", "-2147483648", "4294967295", "1 << 100",
    "sizeof(1.0)", "sizeof(1)", "sizeof(int)", "sizeof(S0)", "(1).xx", "1.0.xx", "float2(1, 2)", "(float3)0", "E0_A", "(E0)1", "!E0_A", "~1ul", "c0", "c0 + 1",
    "v0", "v0.x", "m0", "!m0", "-m0", "m0 * m0", "s0", "s0.a", "f0()", "f0() + 1", "t0<int>(1)", "t0(1)", "g0", "g0.mips", "g0.mips[0]", "g0.Load(int3(0, 0, 0))",
    "g1.Load(0)", "g1.Load<float4>(0)", "g1.Load<4>(0)", "N0::x", "N0::f()", "(N0::x)+(1)", "RAY_FLAG_NONE", "WaveGetLaneIndex()",
    "true ? v0 : v0", "true ? m0 : m0", "CF(1)", "CF2(1, 2)", "(CF)1", "asuint(1.0f)", "f16tof32(1u)", "(volatile int)1", "s0.::a"];

struct Feat<'a> {
    rng: &'a mut Rng,
    n: u32,
}

impl<'a> Feat<'a> {
    fn ty(&mut self) -> String {
        match self.rng.below(12) {
            0..=5 => self.rng.pick(F_SCALARS).to_string(),
            6 => self.rng.pick(&["S0", "E0", "CF", "CF2", "S0", "E0", "N0::S1"]).to_string(),
            7 => format!("vector<{}, {}>", self.rng.pick(&["float", "int", "bool", "S0", "E0", "float3", "T"]), self.rng.range(1, 5)),
            8 => format!("matrix<{}, {}, {}>", self.rng.pick(&["float", "int", "float2", "T"]), self.rng.range(1, 4), self.rng.range(1, 4)),
            _ => self.rng.pick(F_OBJECTS).to_string(),
        }
    }
    fn mods(&mut self) -> String {
        match self.rng.below(6) {
            0..=2 => String::new(),
            3..=4 => format!("{} ", self.rng.pick(F_MODS)),
            _ => format!("{} {} ", self.rng.pick(F_MODS), self.rng.pick(F_MODS)),
        }
    }
    fn expr(&mut self) -> String {
        match self.rng.below(8) {
            0..=4 => self.rng.pick(F_EXPRS).to_string(),
            5 => format!("{} {} {}", self.rng.pick(F_EXPRS), self.rng.pick(&["+", "*", "<<", "==", "&&", "%", ","]), self.rng.pick(F_EXPRS)),
            6 => format!("({}){}", self.ty(), self.rng.pick(F_EXPRS)),
            _ => format!("{}{}", self.rng.pick(&["-", "!", "~", "+", "++", "--"]), self.rng.pick(F_EXPRS)),
        }
    }
    fn name(&mut self, p: &str) -> String {
        self.n += 1;
        format!("{}{}", p, self.n)
    }
    fn stmt(&mut self) -> String {
        match self.rng.below(14) {
            0..=2 => format!("    {}{} {} = {};\n", self.mods(), self.ty(), self.name("l"), self.expr()),
            3 => format!("    {}{} {};\n", self.mods(), self.ty(), self.name("l")),
            4 => format!("    {};\n", self.expr()),
            5 => format!("    {} = {};\n", self.rng.pick(&["v0", "m0", "s0.a", "v0.x", "g2[0]", "g0.mips[0]", "s_g"]), self.expr()),
            6 => format!("    for ({} a = {}, b[2];;) {{ break; }}\n", self.ty(), self.expr()),
            7 => format!("    switch (1) {{ case {}: break; default: break; }}\n", self.expr()),
            8 => format!("    {{ {}{} {}[{}]; }}\n", self.mods(), self.ty(), self.name("l"), self.rng.pick(&["2", "c0", "sizeof(int)", "0", "4294967296", "N"])),
            9 => format!("    if ({}) {{ return; }}\n", self.expr()),
            10 => format!("    {}({});\n", self.rng.pick(&["f0", "t0", "t0<int>", "t0<float3>", "t1", "t1<3>", "tv<float>", "tv<float3>", "N0::f", "s0.m", "s0.m", "f0", "GroupMemoryBarrier", "g2.Store", "InterlockedAdd"]), self.expr()),
            11 => format!("    {}++;\n", self.rng.pick(&["v0.x", "lv", "s0.a", "m0"])),
            12 => format!("    {} {} = {{ {} }};\n", self.ty(), self.name("l"), self.expr()),
            _ => format!("    {} {} = {{}};\n", self.rng.pick(&["S0", "SE", "float2", "int"]), self.name("l")),
        }
    }
    fn root(&mut self) -> String {
        match self.rng.below(22) {
            0..=2 => format!("{}{} {};\n", self.mods(), self.ty(), self.name("g")),
            3 => format!("{}{} {} = {};\n", self.mods(), self.ty(), self.name("g"), self.expr()),
            4 => format!("{}{} {}[{}];\n", self.mods(), self.ty(), self.name("g"), self.rng.pick(&["4", "c0", "4294967295", "4294967296", "0"])),
            5 => format!("typedef {}{} {};\n", self.mods(), self.ty(), self.name("TD")),
            6 => format!("enum {} {{ {}_A = {}, {}_B }};\n", self.name("E"), self.name("e"), self.expr(), self.name("e")),
            7 => format!("struct {} : S0 {{ {} x; void m2() {{}} }};\n", self.name("S"), self.ty()),
            8 => format!("struct {} {{ {}{} x; {} fn_decl(); }};\n", self.name("S"), self.mods(), self.ty(), self.ty()),
            9 => format!("template<typename T{}> struct {} {{ T x; }};\n", self.rng.pick(&["", " = int", ", int N", ", int N = 1"]), self.name("TS")),
            10 => format!("template<{}> {} {}({} x{}) {{ }}\n", self.rng.pick(&["typename T", "typename T = int", "int N", "int N = 1", "typename T, int N"]),
                self.rng.pick(&["void", "T", "vector<T, 2>"]), self.name("t"), self.rng.pick(&["T", "int", "vector<T, 3>", "float x2[N], int"]),
                self.rng.pick(&["", " = 1", " = (T)1 + (T)2"])),
            11 => format!("{} {}({} a{});\n", self.ty(), self.name("fd"), self.ty(), self.rng.pick(&["", " = 1", "[2]"])),
            12 => format!("namespace {} {{ {} namespace {} {{ {} }} }}\n", self.rng.pick(&["N0", "N1", "N2"]), self.root_simple(), self.rng.pick(&["N0", "N1"]), self.root_simple()),
            13 => format!("[[rssl::bindless]] {} {};\n", self.rng.pick(&["Texture2D<float4>", "ByteAddressBuffer", "cbuffer", "SamplerState"]), self.name("gb")),
            14 => format!("cbuffer {} {{ {}{} x{}; }}\n", self.name("CB"), self.mods(), self.ty(), self.rng.pick(&["", " : packoffset(c0)", "[2]"])),
            15 => format!("{} {} : register({});\n", self.rng.pick(F_OBJECTS), self.name("gr"), self.rng.pick(&["t0", "u1", "b0", "s0", "t0, space1", "space3", "space4", "t99, space7", "u0, space4294967295"])),
            16 => format!("static {} {} = {};\n", self.ty(), self.name("sg"), self.expr()),
            17 => format!("void {}(out vertices S0 v[3], out indices uint3 t[1], {} p : SV_Position) {{}}\n", self.name("ms"), self.ty()),
            18 => format!("Pipeline {} {{ {} = {}; }}\n", self.name("P"), self.rng.pick(&["ComputeShader", "VertexShader", "PixelShader", "MeshShader", "TaskShader"]),
                self.rng.pick(&["f0", "fd", "t0", "cs0", "GroupMemoryBarrier", "N0::f", "ms1"])),
            _ => {
                let mut s = format!("{}{} {}({}{} p0{}) {{\n    int lv = 0;\n", self.rng.pick(&["", "", "[numthreads(1,1,1)] ", "static ", "inline "]),
                    self.rng.pick(&["void", "void", "void", "int", "float4"]).to_string(), self.name("fn"),
                    self.rng.pick(&["", "", "in ", "out ", "inout ", "const ", "volatile "]), self.ty(), self.rng.pick(&["", "", " : SV_Position", " = 1", "[2]"]));
                let void = s.contains("void ");
                for _ in 0..(1 + self.rng.below(5)) {
                    let st = self.stmt();
                    if !void && st.contains("return;") {
                        continue;
                    }
                    s.push_str(&st);
                }
                if !void {
                    s.push_str(&format!("    return ({}){};\n", if s.starts_with("int") || s.contains(" int fn") { "int" } else { "float4" }, self.expr()));
                }
                s.push_str("}\n");
                s
            }
        }
    }
    fn root_simple(&mut self) -> String {
        match self.rng.below(4) {
            0 => "static const int x = 1;".to_string(),
            1 => "int f() { return 1; }".to_string(),
            2 => format!("struct S1 {{ {} a; }};", self.ty()),
            _ => format!("enum EN {{ X{} }};", self.rng.pick(&["", " = 1", " = sizeof(EN)"])),
        }
    }
}

pub fn gen_features(rng: &mut Rng) -> String {
    let mut f = Feat { rng, n: 0 };
    let mut out = String::from(
        "struct S0 { float a; int b; void m(int x) {} };\nstruct SE {};\nenum E0 { E0_A, E0_B = 2 };\ntypedef const float CF;\ntypedef const float2 CF2;\n\
         namespace N0 { static const int x = 1; int f() { return 1; } struct S1 { int a; }; }\n\
         static const int c0 = 2;\nint f0() { return 1; }\ntemplate<typename T> T t0(T x) { return x; }\ntemplate<int N> void t1() {}\ntemplate<typename T> void tv(vector<T, 3> x) {}\n\
         Texture2D<float4> g0;\nByteAddressBuffer g1;\nRWStructuredBuffer<float4> g2;\nstatic int s_g = 0;\n[numthreads(1,1,1)] void cs0() {}\n",
    );
    if f.rng.chance(1, 6) {
        out.push_str(*f.rng.pick(&["template<typename T> struct TS0 { T x; };\n", "void fd(int x);\n", "namespace N0 { namespace N0 { static const int x = 2; } }\n",
            "struct SM { void md(int x); };\n"]));
    }
    // a prelude line may be dropped so that its users become errors of a different kind
    if f.rng.chance(1, 8) {
        let lines: Vec<&str> = out.lines().collect();
        let k = f.rng.below(lines.len() as u64) as usize;
        out = lines.iter().enumerate().filter(|(i, _)| *i != k).map(|(_, l)| format!("{}\n", l)).collect();
    }
    out.push_str("void user(float4 v0, float2x2 m0, S0 s0) {\n    int lv = 0;\n");
    for _ in 0..(f.rng.below(4)) {
        let st = f.stmt();
        out.push_str(&st);
    }
    out.push_str("}\n");
    let n = 1 + f.rng.below(5);
    for _ in 0..n {
        let r = f.root();
        out.push_str(&r);
    }
    out
}

"""Gen.HashSites: inventory of every place where the iteration order of a std HashMap/HashSet can be observed,
with a fingerprint of what happens INSIDE each iteration.

For every site the generator records
  * (file, enclosing fn, how the container is traversed [|sorts:<receivers sorted later in the fn>] [|from:<hash source>])
  * bodyHash          sha256 prefix of the whitespace-normalised loop body / consuming statement
  * hasEarlyExit      the body leaves early or observes positions: break, return, `?`, find, first, last, next(),
                      position, nth, take/skip(_while), enumerate, zip, rev, min_by/max_by(_key)
  * buildsDiagnostic  the body constructs an error or a panic message: Err(..), <X>Error::, panic!/unreachable!/todo!,
                      assert!/assert_eq!/debug_assert!, expect(..)
  * firstWins         the body keeps the first value it meets: is_none()/is_some() guards, get_or_insert, or_insert
A container is "hash ordered" when it is a HashMap/HashSet (typed field / parameter / let, constructor, clone,
reference, std::mem::take / replace of one) or a Vec that was filled inside an iteration over a hash ordered
container in the same function (`v.push(..)` in the loop body, or `let v = hash.iter()...collect()`): loops over
such a Vec are sites too (`|from:<source>`), `|sorted-before` when the Vec is sorted between the fill and the loop.
"""
import hashlib
import os
import re

CRATES = ["src", "ir/src", "hlsl/src", "msl/src", "typer/src", "parser/src", "formatter/src",
          "preprocess/src", "text/src", "ast/src"]
ITER_METHODS = ["iter", "iter_mut", "keys", "values", "values_mut", "into_iter", "into_keys", "into_values",
                "drain", "retain"]

EARLY_EXIT = re.compile(
    r'\bbreak\b|\breturn\b|\?\s*(?:[;.,)\]}]|$)|\.\s*(?:find|find_map|first|last|next|position|rposition|nth|take|skip|'
    r'take_while|skip_while|enumerate|zip|rev|min_by|max_by|min_by_key|max_by_key|reduce|try_for_each|try_fold)\s*\(',
    re.M)
DIAGNOSTIC = re.compile(r'\bErr\s*\(|\b[A-Za-z_]*Error\s*::|\bpanic!|\bunreachable!|\btodo!|\bunimplemented!|'
                        r'\b(?:debug_)?assert(?:_eq|_ne)?!|\.\s*expect\s*\(')
FIRST_WINS = re.compile(r'\.\s*is_none\s*\(\s*\)|\.\s*is_some\s*\(\s*\)|\bget_or_insert|\.\s*or_insert(?:_with)?\s*\(|'
                        r'==\s*None\b|!=\s*None\b|\bif\s+let\s+None\b')
PATH = r'(?:[A-Za-z_][A-Za-z_0-9]*)(?:\s*\.\s*(?:[A-Za-z_][A-Za-z_0-9]*|\d+)|\s*\[[^\]]*\])*'


def strip_literals(s):
    """blank out string / char literals so that keywords inside messages do not count"""
    from rustsrc import skip_literal
    out, i = [], 0
    while i < len(s):
        k = skip_literal(s, i)
        if k is not None:
            out.append('""')
            i = k
        else:
            out.append(s[i])
            i += 1
    return "".join(out)


def fingerprint(body):
    norm = re.sub(r'\s+', ' ', body).strip()
    bare = strip_literals(norm)
    return (hashlib.sha256(norm.encode()).hexdigest()[:12], bool(EARLY_EXIT.search(bare)),
            bool(DIAGNOSTIC.search(bare)), bool(FIRST_WINS.search(bare)))


def register(gen, T):
    @gen("HashSites")
    def hash_sites():
        from rustsrc import lean_str, matching
        files = []
        for crate in CRATES:
            base = os.path.join(T.REPO, crate)
            for dp, _, fns in os.walk(base):
                for fn in sorted(fns):
                    if fn.endswith(".rs") and not fn.endswith("tests.rs") and fn != "test_support.rs":
                        files.append(os.path.relpath(os.path.join(dp, fn), T.REPO))
        files.sort()
        texts = {f: T.src(f) for f in files}
        # functions (any file) whose return type mentions a hash container
        hash_fns = set()
        for f, text in texts.items():
            for m in re.finditer(r'\bfn\s+([a-z_0-9]+)\s*(?:<[^>]*>)?\s*\([^)]*\)\s*->\s*([^{;]+)', text):
                if re.search(r'\bHash(Map|Set)\b', m.group(2)):
                    hash_fns.add(m.group(1))
        sites = []
        for f, text in texts.items():
            names = set()
            # struct fields, fn params, lets with a type annotation
            for m in re.finditer(r'\b([a-z_][a-z_0-9]*)\s*:\s*&?\s*(?:mut\s+)?(?:\'[a-z]+\s+)?(?:std::collections::)?Hash(?:Map|Set)\b', text):
                names.add(m.group(1))
            # let bindings initialised from a constructor
            for m in re.finditer(r'\blet\s+(?:mut\s+)?([a-z_][a-z_0-9]*)\s*(?::[^=;]+)?=\s*(?:std::collections::)?Hash(?:Map|Set)\s*::', text):
                names.add(m.group(1))
            # clones / references / moves (std::mem::take, replace) of known hash names
            changed = True
            while changed:
                changed = False
                for m in re.finditer(r'\blet\s+(?:mut\s+)?([a-z_][a-z_0-9]*)\s*(?::[^=;]+)?=\s*'
                                     r'(?:(?:std\s*::\s*)?mem\s*::\s*(?:take|replace)\s*\(\s*)?&?\s*(?:mut\s+)?(' + PATH + r')'
                                     r'\s*(?:,[^;]*)?\)?\s*(?:\.\s*clone\s*\(\s*\))?\s*;', text):
                    last = re.split(r'[.\[]', re.sub(r'\s+', '', re.sub(r'\[[^\]]*\]', '', m.group(2))))[-1]
                    if last in names and m.group(1) not in names:
                        names.add(m.group(1))
                        changed = True
            tuple_hash = bool(re.search(r'struct\s+[A-Za-z_]+\s*\(\s*(?:pub\s+)?Hash(?:Map|Set)\b', text))
            if not names and not tuple_hash and not any(h in text for h in hash_fns):
                continue
            # function extents: (start of `fn`, name, open brace, close brace); declarations without a body are skipped
            fns = []
            for m in re.finditer(r'\bfn\s+([a-z_0-9]+)', text):
                j = m.end()
                depth = 0
                ob = None
                while j < len(text):
                    c = text[j]
                    if c in '([<' and not (c == '<' and text[j - 1] == '-'):
                        depth += 1
                    elif c in ')]>' and not (c == '>' and text[j - 1] in '-='):
                        depth -= 1
                    elif c == ';' and depth <= 0:
                        break
                    elif c == '{' and depth <= 0:
                        ob = j
                        break
                    j += 1
                if ob is None:
                    continue
                try:
                    cb = matching(text, ob)
                except Exception:
                    continue
                fns.append((m.start(), m.group(1), ob, cb))

            def outer_fn(pos):
                """the outermost function whose body contains pos"""
                for st, n, ob, cb in fns:
                    if ob <= pos <= cb:
                        return (st, n, ob, cb)
                return None

            def fn_at(pos):
                cur = "?"
                for st, n, ob, cb in fns:
                    if st <= pos:
                        cur = n
                    else:
                        break
                return cur

            def sorts_after(pos):
                """receivers of .sort*/.sort_by* calls between pos and the end of the enclosing outermost function"""
                o = outer_fn(pos)
                end = o[3] if o else len(text)
                recv = re.findall(r'([a-z_][a-z_0-9\.]*)\s*\.\s*sort(?:_by|_unstable|_by_key|_unstable_by|_unstable_by_key)?\s*\(', text[pos:end])
                return "|sorts:" + ",".join(sorted(set(recv))) if recv else ""

            def is_hash_expr(expr):
                e = re.sub(r'\s+', '', expr)
                e = re.sub(r'^&(mut)?', '', e)
                segs = re.split(r'[\.\(\)\[\]&,]', e)
                if any(s in names for s in segs if s):
                    return True
                if tuple_hash and re.search(r'\bself\.0\b', e):
                    return True
                if any(re.search(r'\b' + h + r'\(', e) for h in hash_fns):
                    return True
                return False

            def statement_around(pos):
                """the statement containing pos: back to the previous `;` `{` `}`, forward to the `;` at depth 0 or
                through the block that the statement opens"""
                a = pos
                while a > 0 and text[a - 1] not in ';{}':
                    a -= 1
                j = pos
                depth = 0
                while j < len(text):
                    c = text[j]
                    if c in '([':
                        depth += 1
                    elif c in ')]':
                        depth -= 1
                        if depth < 0:
                            break
                    elif c == '{':
                        try:
                            j = matching(text, j)
                        except Exception:
                            break
                        if depth <= 0:
                            # a block at statement level ends the statement unless a method chain continues
                            k = j + 1
                            while k < len(text) and text[k].isspace():
                                k += 1
                            if k < len(text) and text[k] in '.;)':
                                j = k - 1
                            else:
                                j += 1
                                break
                    elif c == ';' and depth <= 0:
                        j += 1
                        break
                    elif c == '}' and depth <= 0:
                        break
                    j += 1
                return a, j

            found = []   # (pos, how, body text, (a, b) range of the body)
            hash_loops = []  # (pos, source expr, body range) of iterations over hash ordered containers
            # for PAT in EXPR {
            for_headers = set()
            for m in re.finditer(r'\bfor\s+(.+?)\s+in\s+([^{]+?)\s*\{', text):
                expr = m.group(2)
                if is_hash_expr(expr) and not re.search(r'\.\.', expr):
                    ob = m.end() - 1
                    try:
                        cb = matching(text, ob)
                    except Exception:
                        cb = ob
                    e = re.sub(r'\s+', '', expr)
                    found.append((m.start(), "for:" + e + sorts_after(m.start()), text[ob:cb + 1]))
                    hash_loops.append((m.start(), e, (ob, cb)))
                    for_headers.add((m.start(), m.end()))
            # method-style iteration
            for m in re.finditer(r'((?:[A-Za-z_][A-Za-z_0-9]*|\.\s*\d+)(?:\s*\.\s*(?:[A-Za-z_][A-Za-z_0-9]*|\d+)|\s*\[[^\]]*\]|\s*\([^()]*\))*)\s*\.\s*(' + "|".join(ITER_METHODS) + r')\s*\(', text):
                recv = re.sub(r'\s+', '', m.group(1))
                if is_hash_expr(recv):
                    a, b = statement_around(m.start())
                    found.append((m.start(), "method:" + recv + "." + m.group(2) + sorts_after(m.start()), text[a:b]))
                    if not any(s <= m.start() < e for s, e in for_headers):
                        hash_loops.append((m.start(), recv, (a, b)))
            # collecting/extending from a hash container without an explicit iteration method
            for m in re.finditer(r'\b(extend|from_iter)\s*\(\s*&?\s*(?:mut\s+)?([A-Za-z_][A-Za-z_0-9\.\s]*)\)', text):
                if is_hash_expr(m.group(2)) and ".iter" not in m.group(2):
                    a, b = statement_around(m.start())
                    found.append((m.start(), m.group(1) + ":" + re.sub(r'\s+', '', m.group(2)) + sorts_after(m.start()), text[a:b]))
                    hash_loops.append((m.start(), re.sub(r'\s+', '', m.group(2)), (a, b)))

            # Vecs filled in hash order inside the same function, to a fixpoint
            derived = {}   # (fn start, name) -> (source, fill position)
            work = list(hash_loops)
            seen_loops = set()
            while work:
                pos, source, (a, b) = work.pop()
                if (pos, a, b) in seen_loops:
                    continue
                seen_loops.add((pos, a, b))
                o = outer_fn(pos)
                if o is None:
                    continue
                body = text[a:b + 1]
                filled = set(re.findall(r'\b([a-z_][a-z_0-9]*)\s*\.\s*(?:push|push_back|push_front|push_str|extend|insert)\s*\(', body))
                lm = re.match(r'\s*let\s+(?:mut\s+)?([a-z_][a-z_0-9]*)\b[^=]*=', body)
                if lm and re.search(r'\.\s*collect\s*(?:::\s*<[^;]*>)?\s*\(|from_iter\s*\(|\.\s*(?:cloned|copied|map|filter|filter_map)\s*\(', body):
                    filled.add(lm.group(1))
                for name in filled:
                    if name in names or name == "self":
                        continue
                    # must be a local Vec / String / VecDeque of this function (not a set / map: inserting is order free)
                    decl = re.search(r'\blet\s+(?:mut\s+)?' + name + r'\b\s*(?::\s*([^=;]+))?=\s*([^;]*);', text[o[2]:o[3]])
                    if not decl:
                        continue
                    decl_text = (decl.group(1) or "") + " " + decl.group(2)
                    if re.search(r'\bHash(Map|Set)\b|\bBTree(Map|Set)\b', decl_text):
                        continue
                    key = (o[0], name)
                    if key not in derived:
                        derived[key] = (source, pos)
                        # every later loop over this Vec in the function is a site
                        for m in re.finditer(r'\bfor\s+(.+?)\s+in\s+([^{]+?)\s*\{', text[o[2]:o[3]]):
                            e = re.sub(r'\s+', '', m.group(2))
                            base = re.sub(r'^&(mut)?', '', e)
                            base = re.split(r'[.\[(]', base)[0]
                            if base != name:
                                continue
                            lpos = o[2] + m.start()
                            if lpos <= pos and not (a <= lpos <= b):
                                pass
                            ob = o[2] + m.end() - 1
                            try:
                                cb = matching(text, ob)
                            except Exception:
                                cb = ob
                            sorted_before = re.search(r'\b' + name + r'\s*\.\s*sort(?:_by|_unstable|_by_key|_unstable_by|_unstable_by_key)?\s*\(', text[pos:lpos]) if lpos > pos else None
                            how = "for:" + e + "|from:" + source + ("|sorted-before" if sorted_before else "")
                            found.append((lpos, how, text[ob:cb + 1]))
                            if not sorted_before:
                                # what a loop over a sorted Vec fills is in sorted order: the taint stops here
                                work.append((lpos, name, (ob, cb)))
                        for m in re.finditer(r'\b' + name + r'\s*\.\s*(' + "|".join(ITER_METHODS) + r')\s*\(', text[o[2]:o[3]]):
                            lpos = o[2] + m.start()
                            if any(s <= lpos < e for s, e in
                                   [(o[2] + x.start(), o[2] + x.end()) for x in re.finditer(r'\bfor\s+(.+?)\s+in\s+([^{]+?)\s*\{', text[o[2]:o[3]])]):
                                continue
                            sa, sb = statement_around(lpos)
                            sorted_before = re.search(r'\b' + name + r'\s*\.\s*sort(?:_by|_unstable|_by_key|_unstable_by|_unstable_by_key)?\s*\(', text[pos:lpos]) if lpos > pos else None
                            how = "method:" + name + "." + m.group(1) + "|from:" + source + ("|sorted-before" if sorted_before else "")
                            found.append((lpos, how, text[sa:sb]))
                            if not sorted_before:
                                work.append((lpos, name, (sa, sb)))
            for pos, how, body in found:
                h, early, diag, first = fingerprint(body)
                sites.append((f, fn_at(pos), how, h, early, diag, first))
        uniq = sorted(set(sites))
        out = [T.header("HashSites", ["every non-test .rs file of the workspace"])]
        out.append("/-- one place where a hash ordered container is traversed, with what happens inside the traversal -/\n")
        out.append("structure Site where\n  file : String\n  fn : String\n  how : String\n  bodyHash : String\n"
                   "  hasEarlyExit : Bool\n  buildsDiagnostic : Bool\n  firstWins : Bool\n  deriving DecidableEq, Repr\n\n")
        out.append("def sites : List Site := [\n")
        out.append(",\n".join(
            f"  ⟨{lean_str(a)}, {lean_str(b)}, {lean_str(c)}, {lean_str(h)}, {str(e).lower()}, {str(d).lower()}, {str(w).lower()}⟩"
            for a, b, c, h, e, d, w in uniq))
        out.append("\n]\n\n")
        out.append("def hashReturningFns : List String := " + T.lean_list(lean_str(h) for h in sorted(hash_fns)) + "\n")
        # other sources of nondeterminism: none may be used
        banned = []
        for f, text in texts.items():
            for m in re.finditer(r'\b(SystemTime|Instant::now|thread_rng|RandomState|std::env::var|std::thread|rayon|as_ptr\(\)\s*as\s*usize)\b', text):
                banned.append((f, m.group(1)))
        out.append("\n/-- uses of clocks, randomness, environment, threads (must be empty outside metal_invoker) -/\n")
        out.append("def otherNondeterminism : List (String × String) := [" + ", ".join(f"({lean_str(a)}, {lean_str(b)})" for a, b in sorted(set(banned))) + "]\n")
        # consumers of ScopedDeclarations.variables (filled in hash order by the typer's extract_locals)
        cons = []
        for f, text in texts.items():
            for m in re.finditer(r'(scope_block\s*\.\s*1|\b[a-z_]+\s*\.\s*1)\s*\.\s*variables\s*\.\s*([a-z_]+)', text):
                cons.append((f, m.group(2)))
        out.append("\n/-- every method applied to `<scope block>.1.variables` (the only hash-ordered vector stored in the IR) -/\n")
        out.append("def scopedDeclarationConsumers : List (String × String) := [" + ", ".join(f"({lean_str(a)}, {lean_str(b)})" for a, b in sorted(set(cons))) + "]\n")
        out.append(T.footer("HashSites"))
        return "".join(out)


    @gen("GlobalState")
    def global_state():
        """Inventory of everything that could carry information from one compilation to the next inside a process
        (or from outside the process into a compilation) in the compiler crates:
          * `statics`        every `static` item (module level or inside a function): (file, name, `static` | `static mut`,
                             declared type, interior mutability in the type?)
          * `stateMacros`    thread_local! / lazy_static! / once_cell style macros
          * `syncTypeUses`   every mention of a type that only makes sense for shared or lazily initialised state:
                             OnceLock, OnceCell, LazyLock, LazyCell, Lazy<, Mutex, RwLock, Condvar, Atomic*, std::sync::Once,
                             UnsafeCell, Arc<   (Rc / RefCell / Cell live inside one value and are NOT listed)
          * `leaks`          Box::leak / mem::forget / ManuallyDrop / `unsafe` blocks (ways to build a global by hand)
          * `ambient`        reads of the process environment: env::, std::time, Instant, SystemTime, process::, thread::,
                             rand / getrandom / RandomState / DefaultHasher, current_dir, temp_dir, panic hooks, pointer
                             addresses turned into integers
          * `externalDependencies`  non-path [dependencies] of every Cargo.toml of the workspace (code the inventory
                             cannot see)
        All of them are expected to be empty for the compiler crates."""
        from rustsrc import lean_str
        files = []
        for crate in CRATES:
            base = os.path.join(T.REPO, crate)
            for dp, _, fns in os.walk(base):
                for fn in sorted(fns):
                    if fn.endswith(".rs") and not fn.endswith("tests.rs") and fn != "test_support.rs":
                        files.append(os.path.relpath(os.path.join(dp, fn), T.REPO))
        files.sort()
        INTERIOR = re.compile(r'\b(?:OnceLock|OnceCell|LazyLock|LazyCell|Lazy|Mutex|RwLock|Condvar|Once|Atomic[A-Z][A-Za-z0-9]*|'
                              r'Cell|RefCell|UnsafeCell|SyncUnsafeCell|LocalKey)\b')
        statics, macros, sync_uses, leaks, ambient = [], [], [], [], []
        for f in files:
            text = strip_literals(T.src(f))
            for m in re.finditer(r"(?<![A-Za-z0-9_'])static\s+(mut\s+)?([A-Za-z_][A-Za-z0-9_]*)\s*:\s*([^=;]+?)\s*[=;]", text):
                ty = re.sub(r'\s+', ' ', m.group(3)).strip()
                statics.append((f, m.group(2), "static mut" if m.group(1) else "static", ty, bool(INTERIOR.search(ty))))
            for m in re.finditer(r'\b(thread_local|lazy_static|static_init|global_counter|once_cell\s*::\s*[a-z_:]*)\s*!', text):
                macros.append((f, re.sub(r'\s+', '', m.group(1))))
            for m in re.finditer(r'\b(OnceLock|OnceCell|LazyLock|LazyCell|Lazy\s*<|Mutex|RwLock|Condvar|Atomic(?:Bool|Usize|Isize|Ptr|U8|U16|U32|U64|I8|I16|I32|I64)|'
                                 r'sync\s*::\s*Once|UnsafeCell|SyncUnsafeCell|Arc\s*<|once_cell|lazy_static)\b', text):
                sync_uses.append((f, re.sub(r'\s+', '', m.group(1))))
            for m in re.finditer(r'\b(Box\s*::\s*leak|mem\s*::\s*forget|ManuallyDrop|unsafe\s*(?:\{|fn\b|impl\b)|extern\s+"")', text):
                leaks.append((f, re.sub(r'\s+', ' ', m.group(1))))
            for m in re.finditer(r'\b(env\s*::\s*[a-z_]+|env\s*!|option_env\s*!|std\s*::\s*time|Instant|SystemTime|UNIX_EPOCH|process\s*::\s*[a-z_A-Z]+|'
                                 r'thread\s*::\s*[a-z_A-Z]+|rayon|thread_rng|rand\s*::|getrandom|RandomState|DefaultHasher|BuildHasherDefault|'
                                 r'current_dir|temp_dir|set_hook|take_hook|any\s*::\s*[A-Za-z_]+|as_ptr\s*\(\s*\)\s*as\s*[ui]size|'
                                 r'as\s*\*\s*const\s+[A-Za-z_<>() ]+\s+as\s+[ui]size)\b', text):
                ambient.append((f, re.sub(r'\s+', '', m.group(1))))
        # Cargo manifests: every dependency must be a path inside the workspace
        ext = []
        manifests = ["Cargo.toml"] + [os.path.join(c.split("/")[0], "Cargo.toml") for c in CRATES if c != "src"]
        for man in sorted(set(manifests)):
            path = os.path.join(T.REPO, man)
            if not os.path.exists(path):
                ext.append((man, "<manifest missing>"))
                continue
            section = None
            for line in open(path).read().splitlines():
                line = line.split("#")[0].rstrip()
                sm = re.match(r'\s*\[([^\]]+)\]', line)
                if sm:
                    section = sm.group(1).strip()
                    if re.match(r'(target\..*\.)?(build-)?dependencies\.', section) :
                        ext.append((man, section))
                    continue
                if section and re.fullmatch(r'(target\..*\.)?(build-)?dependencies', section) and "=" in line:
                    if not re.search(r'\bpath\s*=', line):
                        ext.append((man, re.sub(r'\s+', ' ', line.strip())))
            if os.path.exists(os.path.join(os.path.dirname(path), "build.rs")):
                ext.append((man, "build.rs"))
        out = [T.header("GlobalState", ["every non-test .rs file of the compiler crates", "every Cargo.toml of the compiler crates"])]
        out.append("/-- a `static` item: file, name, `static` or `static mut`, declared type, does the type have interior mutability -/\n")
        out.append("structure Static where\n  file : String\n  name : String\n  kind : String\n  ty : String\n  interior : Bool\n"
                   "  deriving DecidableEq, Repr\n\n")
        out.append("def statics : List Static := [" + ", ".join(
            f"⟨{lean_str(a)}, {lean_str(b)}, {lean_str(c)}, {lean_str(d)}, {str(e).lower()}⟩" for a, b, c, d, e in sorted(set(statics))) + "]\n\n")

        def pairs(name, doc, rows):
            out.append(f"/-- {doc} -/\ndef {name} : List (String × String) := [" +
                       ", ".join(f"({lean_str(a)}, {lean_str(b)})" for a, b in sorted(set(rows))) + "]\n\n")
        pairs("stateMacros", "thread_local! / lazy_static! style macros", macros)
        pairs("syncTypeUses", "mentions of shared-state types (OnceLock, Mutex, Atomic*, Arc<, ...)", sync_uses)
        pairs("leaks", "Box::leak, mem::forget, ManuallyDrop, unsafe: ways to build process-wide state by hand", leaks)
        pairs("ambient", "reads of the environment of the process: env, time, process, threads, randomness, addresses", ambient)
        pairs("externalDependencies", "dependencies that are not path dependencies of the workspace, and build scripts", ext)
        out.append(f"/-- number of source files scanned -/\ndef scannedFiles : Nat := {len(files)}\n")
        out.append(T.footer("GlobalState"))
        return "".join(out)

    @gen("EnumRange")
    def enum_range():
        """The pieces of typer/src/typer/scopes.rs Context::end_enum that Model/EnumRange.lean transcribes:
        the arms of the range-gathering loop, the choice of the underlying type, the location and payload of the
        range error, and the conversion of the values."""
        from rustsrc import lean_str, fn_body, first_match, match_arms, normws, matching, ExtractError
        rel = "typer/src/typer/scopes.rs"
        body = fn_body(T.src(rel), "end_enum")
        loops = [m for m in re.finditer(r'\bfor\s+\(\s*_\s*,\s*enum_value_id\s*\)\s+in\s+&enum_values\s*\{', body)]
        if len(loops) != 2:
            raise ExtractError(f"end_enum: expected 2 loops over &enum_values by id, found {len(loops)}")
        bodies = []
        for m in loops:
            ob = m.end() - 1
            bodies.append(body[ob + 1:matching(body, ob)])
        # loop 1: min / max fold
        init = re.findall(r'let\s+mut\s+(min_value|max_value)\s*=\s*([^;]+);', body[:loops[0].start()])
        scrut, arms_text, _ = first_match(bodies[0], r'\*constant')
        gather = []
        for pats, guard, result in match_arms(arms_text):
            gather.append((" | ".join(pats), guard or "", result))
        rest = normws(bodies[0][:bodies[0].index("match")])
        # selection of the underlying type
        sm = re.search(r'let\s+scalar_type\s*=\s*if\b', body)
        if not sm:
            raise ExtractError("end_enum: `let scalar_type = if` not found")
        j = sm.end()
        sel_end = None
        depth = 0
        while j < len(body):
            if body[j] == '{':
                j = matching(body, j)
            elif body[j] == ';':
                sel_end = j
                break
            j += 1
        if sel_end is None:
            raise ExtractError("end_enum: end of the scalar_type selection not found")
        select = normws(body[sm.start():sel_end + 1])
        # loop 2: conversion of the values
        scrut2, arms2, e2 = first_match(bodies[1], r'\*constant')
        widen = [(" | ".join(p), g or "", r) for p, g, r in match_arms(arms2)]
        scrut3, arms3, _ = first_match(bodies[1], r'scalar_type', e2)
        convert = [(" | ".join(p), g or "", r) for p, g, r in match_arms(arms3)]
        # loop 4: promotion of the untyped values in the parent scope, from the counter's declaration to the
        # assertion on the count (fix fe5dd8d removed `assert_eq!(symbols.len(), 1)` from this loop)
        pl = [m for m in re.finditer(r'\bfor\s+\(\s*name\s*,\s*_\s*\)\s+in\s+&enum_values\s*\{', body)]
        if len(pl) != 1:
            raise ExtractError(f"end_enum: expected 1 loop over &enum_values by name, found {len(pl)}")
        pstart = body.rfind("let mut replacements", 0, pl[0].start())
        if pstart < 0 or body[pstart:pl[0].start()].count(";") != 1:
            raise ExtractError("end_enum: `let mut replacements = ..;` does not directly precede the promotion loop")
        pclose = matching(body, pl[0].end() - 1)
        pend = body.find(";", pclose)
        if pend < 0:
            raise ExtractError("end_enum: no statement after the promotion loop")
        promote = normws(body[pstart:pend + 1])
        # loop 5: reinsertion into the enum scope
        rl = [m for m in re.finditer(r'\bfor\s+\(\s*name\s*,\s*id\s*\)\s+in\s+enum_values\s*\{', body)]
        if len(rl) != 1:
            raise ExtractError(f"end_enum: expected 1 consuming loop over enum_values, found {len(rl)}")
        reinsert = normws(body[rl[0].start():matching(body, rl[0].end() - 1) + 1])
        out = [T.header("EnumRange", [rel + " Context::end_enum"])]

        def triples(name, doc, rows):
            return (f"/-- {doc} -/\ndef {name} : List (String × String × String) := [\n" +
                    ",\n".join(f"  ({lean_str(a)}, {lean_str(b)}, {lean_str(c)})" for a, b, c in rows) + "\n]\n\n")
        out.append("/-- initial values of the fold -/\ndef init : List (String × String) := [" +
                   ", ".join(f"({lean_str(a)}, {lean_str(normws(b))})" for a, b in init) + "]\n\n")
        out.append(f"/-- what the range loop does before its match -/\ndef gatherPrefix : String := {lean_str(rest)}\n\n")
        out.append(triples("gatherArms", "arms (pattern, guard, body) of the match in the range-gathering loop", gather))
        out.append(f"/-- the choice of the underlying type including the error branch -/\ndef select : String := {lean_str(select)}\n\n")
        out.append(triples("widenArms", "arms of the widening match in the value-conversion loop", widen))
        out.append(triples("convertArms", "arms of the conversion to the chosen type", convert))
        out.append(f"/-- the promotion loop: counter, loop over the names, assertion on the count -/\ndef promoteLoop : String := {lean_str(promote)}\n\n")
        out.append(f"/-- the reinsertion loop -/\ndef reinsertLoop : String := {lean_str(reinsert)}\n\n")
        out.append(T.footer("EnumRange"))
        return "".join(out)

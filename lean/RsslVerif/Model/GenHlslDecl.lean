import RsslVerif.Model.GenHlsl
/-!
# `Model.GenHlslDecl` — function prototypes: the `FunctionDeclaration` / `Function` arms of `generate_root_definition`

`hlsl/src/ast_generate.rs`: a root definition `FunctionDeclaration(id)` (a prototype written in the source) is exported by
`generate_function(id, only_declare = true)`, a `Function(id)` by the same call with `false`.  `generate_function_inner` reads
name, return type and parameters from the function's *implementation* in both cases ("parameter declarations live in the
implementation so even a prototype needs it"; a function without implementation is `Err(FunctionNotDefined)`), and
`only_declare` only selects `body = None` (textual facts `declarationArmsAsModelled`, re-extracted on every run).

The typed module has one implementation per function however many prototypes the source wrote; a prototype therefore
carries the `Ir.Func` it declares (`none` = declared, never defined).
-/
namespace RsslVerif.Model.GenHlsl
open RsslVerif.Model

/-- `ir::RootDefinition::{FunctionDeclaration, Function}` with the implementation the registry holds for the id -/
inductive RootItem where
  | decl (impl : Option Ir.Func)
  | defn (fn : Ir.Func)
  deriving Inhabited

/-- `ast::FunctionDefinition` with `body : Option …` -/
structure AstItem where
  name : String
  ret : String
  params : List (String × Ir.Dir × String)
  body : Option HlslAst.Stmts
  deriving Inhabited

/-- `generate_function_inner(id, only_declare, …)` for a plain function -/
def genItem (cx : Ctx) : RootItem → Except GenErr AstItem
  | .decl none => .error (.diag "FunctionNotDefined")
  | .decl (some fn) =>
    -- the body is not generated at all for a prototype: an error inside it cannot surface here
    match typeName fn.ret with
    | .error e => .error e
    | .ok rt =>
      match genParams cx fn.params with
      | .error e => .error e
      | .ok ps => .ok { name := cx.funcName fn.id, ret := rt, params := ps, body := none }
  | .defn fn =>
    match genFunc cx fn with
    | .error e => .error e
    | .ok a => .ok { name := a.name, ret := a.ret, params := a.params, body := some a.body }

/-- the function items of `generate_root_definitions`, in source order -/
def genModule (cx : Ctx) : List RootItem → Except GenErr (List AstItem)
  | [] => .ok []
  | it :: r =>
    match genItem cx it with
    | .error e => .error e
    | .ok a =>
      match genModule cx r with
      | .error e => .error e
      | .ok as => .ok (a :: as)

/-- the implementations of a module: what the typed semantics runs (`Ir.phi`) -/
def implsOf : List RootItem → List Ir.Func
  | [] => []
  | .defn fn :: r => fn :: implsOf r
  | .decl _ :: r => implsOf r

/-- what a C / HLSL front end runs of the emitted items: the definitions; a declaration without a body only announces a
signature -/
def definitionsOf : List AstItem → List HlslAst.Func
  | [] => []
  | it :: r =>
    match it.body with
    | some b => { name := it.name, ret := it.ret, params := it.params, body := b } :: definitionsOf r
    | none => definitionsOf r

/-- the signature a declaration or definition announces -/
def AstItem.signature (it : AstItem) : String × String × List (String × Ir.Dir × String) := (it.name, it.ret, it.params)

end RsslVerif.Model.GenHlsl

import RsslVerif.Lemmas.Layout
import RsslVerif.Spec.LayoutFull
/-!
# The full type universe against the model (C19)

* on the `plain` part of the universe (no `bool`, no matrix) the full reference calculators coincide with
  those of `Spec.Layout` on the erased type (`coincide`);
* a type that mentions a `bool` or a matrix anywhere never gets a layout from `get_type_layout`
  (`get_opaque`): the check can neither accept it nor report sizes for it.
Core Lean only.
-/
namespace RsslVerif.Lemmas.LayoutFull
open RsslVerif.Gen.LayoutTables RsslVerif.Model.Layout RsslVerif.Spec.Layout RsslVerif.Spec.LayoutFull
open RsslVerif.Lemmas.Layout

theorem xbytes_eq (m : Mode) (s : Scalar) (h : (s != .Bool) = true) : xbytes m s = bytes s := by
  cases s <;> first | (exact absurd h (by decide)) | rfl

theorem xsized_eq (s : Scalar) (h : (s != .Bool) = true) : xsized s = sized s := by
  cases s <;> first | (exact absurd h (by decide)) | rfl

/-- what `coincide` says about one type -/
def Same (t : XTy) : Prop :=
  wf (erase t) = true ∧
  (∀ m, xsize m t = size m (erase t) ∧ xalign m t = align m (erase t)) ∧
  (∀ m b, xfieldsAt m t b = fieldsAt m (erase t) b) ∧
  xagreeIn t = agreeIn (erase t)

/-- ... and about a member list -/
def SameAll (ts : XTys) : Prop :=
  wfAll (eraseAll ts) = true ∧
  (∀ m, xalignMax m ts = alignMax m (eraseAll ts)) ∧
  (∀ m c, xendOf m ts c = endOf m (eraseAll ts) c ∧ xoffsets m ts c = offsets m (eraseAll ts) c) ∧
  (∀ m b c, xmembersAt m ts b c = membersAt m (eraseAll ts) b c) ∧
  xagreeInAll ts = agreeInAll (eraseAll ts)

mutual
/-- on types without `bool` and matrices the full reference calculators are those of `Spec.Layout` -/
theorem coincide : ∀ t : XTy, plain t = true → xwf t = true → Same t
  | .scalar s, hp, hw => by
    simp only [plain] at hp
    simp only [xwf, xsized_eq s hp] at hw
    refine ⟨by simpa [erase, wf] using hw, fun m => ?_, fun m b => rfl, rfl⟩
    simp [xsize, xalign, erase, size, align, xbytes_eq m s hp]
  | .vec s n, hp, hw => by
    simp only [plain] at hp
    simp only [xwf, xsized_eq s hp] at hw
    refine ⟨by simpa [erase, wf] using hw, fun m => ?_, fun m b => rfl, rfl⟩
    cases m <;> simp [xsize, xalign, erase, size, align, xvecSize, xvecAlign, vecSize, vecAlign, xbytes_eq _ s hp]
  | .mat _ _ _ _, hp, _ => by simp [plain] at hp
  | .enum u, _, hw => by
    simp only [xwf] at hw
    have hu : (u != .Bool) = true := by
      cases u <;> first | (exact absurd hw (by decide)) | rfl
    refine ⟨by simpa [erase, wf] using hw, fun m => ?_, fun m b => rfl, rfl⟩
    simp [xsize, xalign, erase, size, align, xbytes_eq m u hu]
  | .arr t n, hp, hw => by
    simp only [plain] at hp
    simp only [xwf, Bool.and_eq_true, decide_eq_true_eq] at hw
    obtain ⟨h1, h2, h3, h4⟩ := coincide t hp hw.2
    refine ⟨by simp [erase, wf, hw.1, h1], fun m => ?_, fun m b => ?_, ?_⟩
    · simp [xsize, xalign, erase, size, align, (h2 m).1, (h2 m).2]
    · simp only [xfieldsAt, erase, fieldsAt, xstride, stride, (h2 m).1, (h2 m).2, h3]
    · simp only [xagreeIn, erase, agreeIn, xstride, stride, (h2 .hlsl).1, (h2 .hlsl).2, (h2 .metal).1,
        (h2 .metal).2, h4]
  | .struct ms, hp, hw => by
    simp only [plain] at hp
    simp only [xwf] at hw
    obtain ⟨h1, h2, h3, h4, h5⟩ := coincideAll ms hp hw
    cases ms with
    | nil =>
      refine ⟨rfl, fun m => ?_, fun m b => rfl, rfl⟩
      cases m <;> exact ⟨rfl, rfl⟩
    | cons t ts =>
      refine ⟨by simpa [erase, wf, eraseAll] using h1, fun m => ?_, fun m b => ?_, ?_⟩
      · simp only [xsize, xalign, erase, eraseAll, size, align]
        simp only [eraseAll] at h2 h3
        rw [h2 m, (h3 m 0).1]
        exact ⟨rfl, rfl⟩
      · simp only [xfieldsAt, erase, fieldsAt, h4]
      · simp only [xagreeIn, erase, agreeIn, (h3 .hlsl 0).2, (h3 .metal 0).2, h5]
theorem coincideAll : ∀ ts : XTys, plainAll ts = true → xwfAll ts = true → SameAll ts
  | .nil, _, _ => ⟨rfl, fun _ => rfl, fun _ _ => ⟨rfl, rfl⟩, fun _ _ _ => rfl, rfl⟩
  | .cons t ts, hp, hw => by
    simp only [plainAll, Bool.and_eq_true] at hp
    simp only [xwfAll, Bool.and_eq_true] at hw
    obtain ⟨a1, a2, a3, a4⟩ := coincide t hp.1 hw.1
    obtain ⟨b1, b2, b3, b4, b5⟩ := coincideAll ts hp.2 hw.2
    refine ⟨by simp [eraseAll, wfAll, a1, b1], fun m => ?_, fun m c => ?_, fun m b c => ?_, ?_⟩
    · simp only [xalignMax, eraseAll, alignMax, (a2 m).2, b2 m]
    · simp only [xendOf, xoffsets, eraseAll, endOf, offsets, (a2 m).1, (a2 m).2, (b3 m _).1, (b3 m _).2, and_self]
    · simp only [xmembersAt, eraseAll, membersAt, (a2 m).1, (a2 m).2, a3, b4]
    · simp only [xagreeInAll, eraseAll, agreeInAll, a4, b5]
end

/-! ### `bool` and matrices have no layout -/

theorem scalarLayout_bool : scalarLayout .Bool = .error .unknown := rfl

theorem otherLayout_matrix : otherLayout .Matrix = .error .unknown := rfl

mutual
/-- `get_type_layout` returns `None` (or panics earlier) on every type that mentions a `bool` or a matrix -/
theorem get_opaque (m : Mode) : ∀ t : XTy, plain t = false → ∀ l, get m (erase t) ≠ .ok l
  | .scalar s, hp, l => by
    have : s = .Bool := by
      cases s <;> simp_all [plain]
    subst this
    simp [erase, Model.Layout.get, scalarLayout_bool]
  | .vec s n, hp, l => by
    have : s = .Bool := by
      cases s <;> simp_all [plain]
    subst this
    simp [erase, Model.Layout.get, scalarLayout_bool]
  | .mat _ _ _ _, _, l => by simp [erase, Model.Layout.get, otherLayout_matrix]
  | .enum _, hp, _ => by simp [plain] at hp
  | .arr t n, hp, l => by
    simp only [plain] at hp
    have ih := get_opaque m t hp
    simp only [erase, Model.Layout.get]
    split
    · simp
    · rename_i l' h; exact absurd h (ih l')
  | .struct ms, hp, l => by
    simp only [plain] at hp
    have ih := getMembers_opaque m ms hp
    simp only [erase, Model.Layout.get]
    split
    · simp
    · rename_i l' h; exact absurd h (ih _ l')
theorem getMembers_opaque (m : Mode) : ∀ ts : XTys, plainAll ts = false → ∀ acc l,
    getMembers m (eraseAll ts) acc ≠ .ok l
  | .nil, hp, _, _ => by simp [plainAll] at hp
  | .cons t ts, hp, acc, l => by
    simp only [eraseAll, getMembers]
    split
    · simp
    · rename_i ml hml
      split
      · simp
      · rename_i acc' _
        cases hpt : plain t with
        | false => exact absurd hml (get_opaque m t hpt ml)
        | true =>
          simp only [plainAll, hpt, Bool.true_and] at hp
          exact getMembers_opaque m ts hp acc' l
end

/-- the loop body of `check_layout` never reaches its comparison for such a type: no acceptance, no sizes -/
theorem checkOne_opaque (t : XTy) (hp : plain t = false) : ∀ r, checkOne (erase t) ≠ .ok r := by
  intro r
  unfold checkOne
  split
  · simp
  · rename_i lh h; exact absurd h (get_opaque .hlsl t hp lh)

/-! ### no panic over the full universe (since /repo 24ea36f) -/

mutual
theorem get_noPanic_full (m : Mode) : ∀ t : XTy, xwf t = true → NoPanic (get m (erase t))
  | .scalar s, hw => by
    cases hp : (s != .Bool) with
    | true =>
      simp only [xwf, xsized_eq s hp] at hw
      simp only [erase]; rw [get_scalar m s hw]; exact noPanic_ok _
    | false =>
      have : s = .Bool := by cases s <;> simp_all
      subst this
      have : get m (erase (.scalar .Bool)) = .error .unknown := by
        simp [erase, Model.Layout.get, scalarLayout_bool]
      rw [this]; exact noPanic_unknown
  | .vec s n, hw => by
    cases hp : (s != .Bool) with
    | true =>
      simp only [xwf, xsized_eq s hp, Bool.and_eq_true, decide_eq_true_eq] at hw
      simp only [erase]; rw [get_vec m s n hw.1 hw.2]; exact noPanic_ok _
    | false =>
      have : s = .Bool := by cases s <;> simp_all
      subst this
      have : get m (erase (.vec .Bool n)) = .error .unknown := by
        simp [erase, Model.Layout.get, scalarLayout_bool]
      rw [this]; exact noPanic_unknown
  | .mat _ _ _ _, _ => by
    have : ∀ s r c j, get m (erase (.mat s r c j)) = .error .unknown := by
      intro s r c j; simp [erase, Model.Layout.get, otherLayout_matrix]
    rw [this]; exact noPanic_unknown
  | .enum u, hw => by
    simp only [xwf] at hw
    simp only [erase]; rw [get_enum m u hw]; exact noPanic_ok _
  | .arr t n, hw => by
    simp only [xwf, Bool.and_eq_true, decide_eq_true_eq] at hw
    have ih := get_noPanic_full m t hw.2
    intro msg h
    simp only [erase, Model.Layout.get] at h
    split at h
    · rename_i e he; cases h; exact ih msg he
    · rw [array_ops_pinned] at h
      split at h
      · split at h
        · cases h
        · rename_i e he; cases h; exact mulU32?_no_panic he
      · cases h
  | .struct .nil, _ => by
    have : get m (erase (.struct .nil)) = .ok ⟨emptySize m, 1⟩ := get_empty m
    rw [this]; exact noPanic_ok _
  | .struct (.cons t ts), hw => by
    simp only [xwf] at hw
    have ih := getMembers_noPanic_full m (.cons t ts) ⟨structInit.1, structInit.2⟩ hw
    intro msg h
    simp only [erase, Model.Layout.get] at h
    split at h
    · rename_i e he; cases h; exact ih msg he
    · rw [final_ops_pinned] at h
      split at h
      · cases h
      · rename_i e he; cases h; exact nextMultipleOf?_no_panic he
theorem getMembers_noPanic_full (m : Mode) : ∀ (ts : XTys) (acc : Layout), xwfAll ts = true →
    NoPanic (getMembers m (eraseAll ts) acc)
  | .nil, acc, _ => by simp only [eraseAll, getMembers]; exact noPanic_ok _
  | .cons t ts, acc, hw => by
    simp only [xwfAll, Bool.and_eq_true] at hw
    have iht := get_noPanic_full m t hw.1
    intro msg h
    simp only [eraseAll, getMembers] at h
    split at h
    · rename_i e he; cases h; exact iht msg he
    · rw [member_ops_pinned] at h
      split at h
      · rename_i e he; cases h; exact memberStep_noPanic _ _ msg he
      · rename_i acc' _
        exact getMembers_noPanic_full m ts acc' hw.2 msg h
end

/-- the loop body never panics on a type both rule sets have a layout for -/
theorem checkOne_noPanic_full (t : XTy) (hw : xwf t = true) : NoPanic (checkOne (erase t)) := by
  cases hp : plain t with
  | true => exact checkOne_noPanic (erase t) (coincide t hp hw).1
  | false =>
    intro msg h
    unfold checkOne at h
    split at h
    · rename_i e he; cases h; exact get_noPanic_full .hlsl t hw msg he
    · rename_i lh hlh; exact get_opaque .hlsl t hp lh hlh

/-- … and a type that mentions a `bool` or a matrix gets exactly "unknown size" -/
theorem checkOne_opaque_unknown (t : XTy) (hw : xwf t = true) (hp : plain t = false) :
    checkOne (erase t) = .error .unknown := by
  cases hc : checkOne (erase t) with
  | ok r => exact absurd hc (checkOne_opaque t hp r)
  | error e =>
    cases e with
    | unknown => rfl
    | panic msg => exact absurd hc (checkOne_noPanic_full t hw msg)

end RsslVerif.Lemmas.LayoutFull

/-!
# Small models behind C08 (compilation is total)

Three self-contained loops of the front end whose termination is a progress argument:

* the parser's list combinators (`parser/src/parser.rs`: `parse_list_base`, `parse_optional`,
  the root-definition loop of `parse_internal`) over an *abstract* element parser,
* `TokenStream::next` / `end_of_stream` / `read_to_end` (`preprocess/src/lexer.rs`) over an *abstract*
  single-token lexer (the byte-level lexer is C10's model),
* `ConditionChain` (`preprocess/src/preprocess.rs`) driven by a directive sequence.

Rust `loop`/`while` are fuelled functions returning `none` when the fuel runs out (= the Rust loop would
still be running); the theorems bound the fuel.  Rust panics are explicit results, never defaults.
-/
namespace RsslVerif.Model.Progress

/-! ## parser list combinators -/

/-- `ParseResult<'t, T>`: `Ok((rest, value))` or `Err(ParseErrorContext(rest, ..))` — both carry the
    remaining input; the combinators compare *lengths* of remaining inputs, so does the model -/
abbrev PR (τ ε α : Type) := Except (List τ × ε) (List τ × α)

abbrev Parser (τ ε α : Type) := List τ → PR τ ε α

/-- the `while let Ok((after_sep, _)) = parse_separator(input) { match parse_element(after_sep) {..} }`
    loop of `parse_list_base`; `acc` is `values` in reverse -/
def listLoop {τ ε α γ : Type} (sep : Parser τ ε γ) (elem : Parser τ ε α) :
    Nat → List τ → List α → Option (PR τ ε (List α))
  | 0, _, _ => none
  | fuel + 1, input, acc =>
    match sep input with
    | .error _ => some (.ok (input, acc.reverse))
    | .ok (afterSep, _) =>
      match elem afterSep with
      | .ok (rest, e) => listLoop sep elem fuel rest (e :: acc)
      | .error (rest, err) =>
        -- `Err(ParseErrorContext(rest, _, _)) if rest.len() == after_sep.len() => break`
        if rest.length == afterSep.length then some (.ok (input, acc.reverse))
        else some (.error (rest, err))

/-- `parse_list_base(parse_separator, parse_element, allow_empty)` -/
def parseListBase {τ ε α γ : Type} (sep : Parser τ ε γ) (elem : Parser τ ε α) (allowEmpty : Bool)
    (fuel : Nat) (input : List τ) : Option (PR τ ε (List α)) :=
  match elem input with
  | .ok (rest, e) => listLoop sep elem fuel rest [e]
  | .error (rest, err) =>
    if allowEmpty && rest.length == input.length then some (.ok (input, []))
    else some (.error (rest, err))

/-- `parse_multiple(parse_element)` = `parse_list_base(|i| Ok((i, ())), parse_element, true)` -/
def parseMultiple {τ ε α : Type} (elem : Parser τ ε α) (fuel : Nat) (input : List τ) :
    Option (PR τ ε (List α)) :=
  parseListBase (γ := Unit) (fun i => .ok (i, ())) elem true fuel input

/-- `parse_optional(parse_element)` (no loop) -/
def parseOptional {τ ε α : Type} (elem : Parser τ ε α) (input : List τ) : PR τ ε (Option α) :=
  match elem input with
  | .ok (rest, e) => .ok (rest, some e)
  | .error (rest, err) => if rest.length == input.length then .ok (input, none) else .error (rest, err)

/-- the `loop { .. }` of `parse_internal`: root definitions until one fails; then either exactly the
    `Eof` token is left (success) or the failure is the result -/
def rootLoop {τ ε α : Type} (root : Parser τ ε α) (isEof : τ → Bool) :
    Nat → List τ → List α → Option (PR τ ε (List α))
  | 0, _, _ => none
  | fuel + 1, rest, acc =>
    match root rest with
    | .ok (remaining, r) => rootLoop root isEof fuel remaining (r :: acc)
    | .error err =>
      match rest with
      | [t] => if isEof t then some (.ok ([], acc.reverse)) else some (.error err)
      | _ => some (.error err)

/-! ## TokenStream -/

/-- `TokenStream` without the bytes: total length, `current_offset`, the two flags -/
structure Stream where
  len : Nat
  off : Nat
  addTrailing : Bool
  lastEndl : Bool
  deriving DecidableEq, Repr

/-- `TokenStream::new` -/
def Stream.new (len : Nat) : Stream := { len := len, off := 0, addTrailing := true, lastEndl := true }

/-- the abstract `token_intermediate`: lexing at an offset gives the offset after the token
    (`input_bytes.len() - remaining.len()`) and whether the token is `Token::Endline`, or fails -/
abbrev Lex := Nat → Option (Nat × Bool)

structure Span where
  start : Nat
  stop : Nat
  endl : Bool
  deriving DecidableEq, Repr

inductive NextResult where
  | token (sp : Span) (s : Stream)
  | lexError
  /-- `assert!(!self.last_was_endline)` in the synthetic-endline branch -/
  | panicAssertEndline
  /-- `debug_assert!(self.current_offset < next_location)` -/
  | panicNoProgress
  deriving Repr

/-- `TokenStream::end_of_stream` -/
def Stream.endOfStream (s : Stream) : Bool :=
  decide (s.off ≥ s.len) && (s.lastEndl || !s.addTrailing)

/-- `TokenStream::next` -/
def Stream.next (lex : Lex) (s : Stream) : NextResult :=
  if s.addTrailing && s.off == s.len then
    if s.lastEndl then .panicAssertEndline
    else .token ⟨s.off, s.off, true⟩ { s with lastEndl := true }
  else
    match lex s.off with
    | none => .lexError
    | some (nl, endl) =>
      if s.off < nl then .token ⟨s.off, nl, endl⟩ { s with off := nl, lastEndl := endl }
      else .panicNoProgress

inductive ReadResult where
  | tokens (l : List Span)
  | lexError
  | panicAssertEndline
  | panicNoProgress
  deriving Repr, DecidableEq

/-- `TokenStream::read_to_end` (`acc` = `tokens` in reverse) -/
def readToEnd (lex : Lex) : Nat → Stream → List Span → Option ReadResult
  | 0, _, _ => none
  | fuel + 1, s, acc =>
    if s.endOfStream then some (.tokens acc.reverse)
    else
      match s.next lex with
      | .token sp s' => readToEnd lex fuel s' (sp :: acc)
      | .lexError => some .lexError
      | .panicAssertEndline => some .panicAssertEndline
      | .panicNoProgress => some .panicNoProgress

/-- progress measure of the stream: bytes left (twice) + the pending synthetic endline -/
def Stream.measure (s : Stream) : Nat :=
  2 * (s.len - s.off) + (if s.addTrailing && !s.lastEndl then 1 else 0)

/-! ## ConditionChain

`struct ConditionChain(Vec<ConditionBlock>, usize)` since the fixes 03ca601 / 115a619: every open `#if` block
remembers whether its `#else` has been seen, and the second field is the number of blocks that were open when
the current file started (`preprocess_included_file` saves it, sets it to the current depth, checks at the end
of the file that the depth is back there, and restores it).  `switch` works on the slice
`&mut self.0[self.1..]` — an unchecked slice, modelled as the explicit result `panicSlice`. -/

inductive CS where
  | enabled
  | disabledInner
  | disabledOuter
  deriving DecidableEq, Repr

/-- `struct ConditionBlock { state, seen_else }` -/
structure Block where
  state : CS
  seenElse : Bool
  deriving DecidableEq, Repr

/-- `ConditionChain(self.0, self.1)`; the head of `blocks` is the top of the Rust vector -/
structure Chain where
  blocks : List Block
  base : Nat
  deriving DecidableEq, Repr

mutual
/-- the directive lines that touch the chain; `ifD`/`elif` carry the value of their condition; `junk` is a
    directive line whose first token is neither an identifier nor `if` / `else` (`#3`): `UnknownCommand` in an
    active block, ignored in a skipped one (fix ed75afa); `incl` is an `#include` of a file with these lines -/
inductive Dir where
  | ifD (active : Bool)
  | elif (active : Bool)
  | els
  | endif
  | text (id : Nat)
  | junk
  | incl (file : Lines)
/-- the lines of one file -/
inductive Lines where
  | nil
  | cons (d : Dir) (rest : Lines)
end

inductive PErr where
  | elseNotMatched
  | endIfNotMatched
  | notFinished
  | elseAfterElse
  | elifAfterElse
  | unknownCommand
  /-- `&mut self.0[self.1..]` with `self.1 > self.0.len()`: "range start index out of range" -/
  | panicSlice
  deriving DecidableEq, Repr

/-- a file from the list of its lines -/
def Lines.ofList : List Dir → Lines
  | [] => .nil
  | d :: r => .cons d (Lines.ofList r)

/-- `ConditionChain::is_active` -/
def Chain.isActive (c : Chain) : Bool := c.blocks.all (·.state == .enabled)

/-- `ConditionChain::push` -/
def Chain.push (c : Chain) (s : CS) : Chain := { c with blocks := ⟨s, false⟩ :: c.blocks }

/-- `ConditionChain::switch(active, is_else, ..)`: the blocks of the current file are `self.0[self.1..]`,
    `last_mut()` of that slice is the innermost block or `None` when the file has no open block -/
def Chain.switch (c : Chain) (active isElse : Bool) : Except PErr Chain :=
  if c.blocks.length < c.base then .error .panicSlice
  else if c.blocks.length = c.base then .error .elseNotMatched
  else
    match c.blocks with
    | [] => .error .elseNotMatched
    | b :: rest =>
      if b.seenElse then .error (if isElse then .elseAfterElse else .elifAfterElse)
      else
        .ok { c with blocks := ⟨(match b.state with
            | .enabled => .disabledOuter
            | .disabledInner => if active then .enabled else .disabledInner
            | .disabledOuter => .disabledOuter), isElse⟩ :: rest }

/-- `ConditionChain::pop`: only a block of the current file can be closed -/
def Chain.pop (c : Chain) : Except PErr Chain :=
  if c.blocks.length > c.base then .ok { c with blocks := c.blocks.tail } else .error .endIfNotMatched

mutual
/-- one directive (`preprocess_command` restricted to the chain) or text line; returns the new chain and the
    text ids emitted.  `incl` is `preprocess_included_file`: skipped blocks do not load the file at all. -/
def step (c : Chain) : Dir → Except PErr (Chain × List Nat)
  | .ifD a =>
    if c.isActive then .ok (c.push (if a then .enabled else .disabledInner), [])
    else .ok (c.push .disabledInner, [])
  | .elif a => match c.switch a false with | .ok c' => .ok (c', []) | .error e => .error e
  | .els => match c.switch true true with | .ok c' => .ok (c', []) | .error e => .error e
  | .endif => match c.pop with | .ok c' => .ok (c', []) | .error e => .error e
  | .text id => .ok (c, if c.isActive then [id] else [])
  | .junk => if c.isActive then .error .unknownCommand else .ok (c, [])
  | .incl f =>
    if c.isActive then
      -- `let outer_file_block_count = condition_chain.1; condition_chain.1 = condition_chain.0.len();`
      match run f { c with base := c.blocks.length } [] with
      | .error e => .error e
      | .ok (c2, o) =>
        -- `if condition_chain.0.len() != condition_chain.1 { return Err(ConditionChainNotFinished) }`
        if c2.blocks.length ≠ c2.base then .error .notFinished
        else .ok ({ c2 with base := c.base }, o)
    else .ok (c, [])
/-- the lines of a file in order -/
def run : Lines → Chain → List Nat → Except PErr (Chain × List Nat)
  | .nil, c, out => .ok (c, out)
  | .cons d ds, c, out =>
    match step c d with
    | .error e => .error e
    | .ok (c', o) => run ds c' (out ++ o)
end

/-- `preprocess_initial_file`: the entry file goes through `preprocess_included_file` with an empty chain;
    afterwards the chain must be empty (`ConditionChainNotFinished`) -/
def runFile (f : Lines) : Except PErr (List Nat) :=
  match step ⟨[], 0⟩ (.incl f) with
  | .error e => .error e
  | .ok (c, out) => if c.blocks.isEmpty then .ok out else .error .notFinished

/-- files without `#include` and without malformed directive lines -/
def Dir.plain : Dir → Bool
  | .junk => false
  | .incl _ => false
  | _ => true

def Lines.plain : Lines → Bool
  | .nil => true
  | .cons d r => d.plain && r.plain

/-- number of lines of the file itself -/
def Lines.size : Lines → Nat
  | .nil => 0
  | .cons _ r => r.size + 1

/-- What the property needs of the chain, by nesting shape alone: the stack of "this open block has seen its
    `#else`" flags after the lines, or the diagnostic.  The values of the conditions do not occur. -/
def shapeSpec : Lines → List Bool → Except PErr (List Bool)
  | .nil, st => .ok st
  | .cons (.ifD _) r, st => shapeSpec r (false :: st)
  | .cons (.elif _) r, st =>
    match st with
    | [] => .error .elseNotMatched
    | true :: _ => .error .elifAfterElse
    | false :: st' => shapeSpec r (false :: st')
  | .cons .els r, st =>
    match st with
    | [] => .error .elseNotMatched
    | true :: _ => .error .elseAfterElse
    | false :: st' => shapeSpec r (true :: st')
  | .cons .endif r, st =>
    match st with
    | [] => .error .endIfNotMatched
    | _ :: st' => shapeSpec r st'
  | .cons (.text _) r, st => shapeSpec r st
  | .cons .junk r, st => shapeSpec r st
  | .cons (.incl _) r, st => shapeSpec r st

end RsslVerif.Model.Progress

/-!
# Model of `NameMap::build` (ir/src/name_generator.rs)

Executable, core Lean only.  The Rust function receives a module and a reserved-name list and returns,
for every namespace / struct / enum / non-intrinsic global / non-template function / local variable, the
name the exporters print.  What is mirrored here:

* one *scope* per namespace (plus the root); inside a scope the symbols are grouped by their source name,
  the groups are visited in `String::cmp` order, and inside a group in push order
  (namespaces, structs, enums, globals, functions — each by ascending id);
* `used_names` of a scope starts as the reserved set; **first** every group of exactly one symbol whose name
  can still be inserted claims that name (`kept_names`), in sorted order; **then**, again in sorted order, the
  symbols of a kept group take the name and every other symbol takes `name_k` for the first `k ≥ 0` that can be
  inserted, and that candidate is also inserted into `used_names_all_scopes`;
* the values of an enum are symbols of the scope that contains the enum (pushed right after the enum);
* afterwards the name given to every function / global variable that some function body uses
  (`usage_analysis`, an input here: `Input.used`) is inserted into `used_names_all_scopes`; then every local
  variable (registry order) keeps its name unless that name is in `used_names_all_scopes` (reserved ∪ generated
  candidates of all scopes ∪ names of used functions/globals); otherwise it takes the first `name_k` that is
  neither the source name of any local variable nor in `used_names_all_scopes`, and the candidate is inserted there;
* `get_name_qualified` walks the namespace chain of the *generated* namespace names.

Rust panics inside the function (`unwrap` on a scope that was never inserted, `duplicate name for`) are
explicit `Except.error`.  The two `loop`s have no bound in Rust; here they run on fuel
`(size of the tested sets) + 1`, and `Lemmas/Names.lean` proves the fuel is never exhausted
(`firstFree_ok`, `firstFreeLocal_ok`), so `.error "fuel"` is unreachable.

Sets (`HashSet<String>`) are lists used only through membership; the iteration order of the outer
`HashMap` of scopes does not matter because every scope starts from the reserved set and
`used_names_all_scopes` is only read after all scopes are done (only its membership is used).
-/
namespace RsslVerif.Model.Names

inductive Kind where
  | ns | struct | enum | enumValue | global | func | localVar
  deriving DecidableEq, Repr, Inhabited

def Kind.letter : Kind → String
  | .ns => "N" | .struct => "S" | .enum => "E" | .enumValue => "V" | .global => "G" | .func => "F"
  | .localVar => "L"

/-- `NameSymbol`: kind + index (ordinal among the symbols `build` names, not the raw registry id) -/
structure Sym where
  kind : Kind
  id : Nat
  deriving DecidableEq, Repr, Inhabited

/-- a struct / enum / global / function as `build` sees it -/
structure Entry where
  sym : Sym
  scope : Option Nat
  name : String
  deriving DecidableEq, Repr, Inhabited

structure Input where
  /-- namespace registry: (parent, name) by id -/
  nss : List (Option Nat × String)
  /-- structs, enums (each followed by its values), globals, functions in push order -/
  entries : List Entry
  /-- the functions and global variables used by some function body (`GlobalUsageAnalysis`, all functions) -/
  used : List Sym
  /-- variable registry: source names by id -/
  locals : List String
  deriving Repr, Inhabited

/-- `format!("{}_{}", name, counter)` -/
def cand (name : String) (k : Nat) : String := name ++ "_" ++ toString k

/-- `loop { let c = name_counter; if used.insert(c) { break c } counter += 1 }` from counter `k` -/
def firstFree (used : List String) (name : String) : Nat → Nat → Except String String
  | 0, _ => .error "fuel"
  | fuel + 1, k =>
    if used.contains (cand name k) then firstFree used name fuel (k + 1) else .ok (cand name k)

/-- per-scope state: `used_names`, the candidates this scope added to `used_names_all_scopes`, result -/
structure St where
  used : List String
  gen : List String
  out : List (Sym × String)
  deriving Repr, Inhabited

/-- the `kept_names` loop: a group of one symbol whose name can be inserted into `used_names` claims it.
Returns `used_names` after the loop and the kept names. -/
def claimKept : List String → List (String × List Sym) → List String × List String
  | used, [] => (used, [])
  | used, g :: r =>
    if g.2.length == 1 && !used.contains g.1 then
      let res := claimKept (g.1 :: used) r
      (res.1, g.1 :: res.2)
    else claimKept used r

/-- the body of `for symbol in symbols` -/
def assignSym (name : String) (keep : Bool) (st : St) (s : Sym) : Except String St :=
  if keep then
    .ok { st with out := st.out ++ [(s, name)] }
  else
    match firstFree st.used name (st.used.length + 1) 0 with
    | .ok c => .ok { used := c :: st.used, gen := c :: st.gen, out := st.out ++ [(s, c)] }
    | .error e => .error e

def assignSyms (name : String) (keep : Bool) : St → List Sym → Except String St
  | st, [] => .ok st
  | st, s :: r =>
    match assignSym name keep st s with
    | .ok st' => assignSyms name keep st' r
    | .error e => .error e

/-- one `(name, symbols)` entry of the sorted vector in the second loop -/
def assignGroup (kept : List String) (st : St) (g : String × List Sym) : Except String St :=
  assignSyms g.1 (kept.contains g.1) st g.2

def assignGroups (kept : List String) : St → List (String × List Sym) → Except String St
  | st, [] => .ok st
  | st, g :: r =>
    match assignGroup kept st g with
    | .ok st' => assignGroups kept st' r
    | .error e => .error e

/-- both loops over the sorted vector of one scope -/
def scopeRun (reserved : List String) (gs : List (String × List Sym)) : Except String St :=
  let ck := claimKept reserved gs
  assignGroups ck.2 ⟨ck.1, [], []⟩ gs

/-- all symbols of one scope in push order: child namespaces first, then the entries -/
def scopeSyms (inp : Input) (scope : Option Nat) : List (String × Sym) :=
  let rec nsFrom : List (Option Nat × String) → Nat → List (String × Sym)
    | [], _ => []
    | (p, n) :: r, i => if p == scope then (n, ⟨.ns, i⟩) :: nsFrom r (i + 1) else nsFrom r (i + 1)
  nsFrom inp.nss 0 ++
    (inp.entries.filter (fun e => e.scope == scope)).map (fun e => (e.name, e.sym))

/-- insertion into a list sorted by `String::cmp` (= `<` on `String`) -/
def insertSorted (n : String) : List String → List String
  | [] => [n]
  | m :: r => if n < m then n :: m :: r else m :: insertSorted n r

/-- the keys of the per-scope `HashMap<String, Vec<NameSymbol>>` (each name once), sorted -/
def sortedNames (xs : List String) : List String :=
  xs.foldr (fun n acc => if acc.contains n then acc else insertSorted n acc) []

/-- the sorted `(name, symbols)` vector built from the keys of the scope's map in iteration order `keys` -/
def groupsOfKeys (keys : List String) (syms : List (String × Sym)) : List (String × List Sym) :=
  (sortedNames keys).map fun n => (n, (syms.filter (fun p => p.1 == n)).map (·.2))

/-- the sorted `(name, symbols)` vector of a scope -/
def groupsOf (syms : List (String × Sym)) : List (String × List Sym) :=
  groupsOfKeys (syms.map (·.1)) syms

def scopeIds (inp : Input) : List (Option Nat) :=
  none :: (List.range inp.nss.length).map some

/-- the scope insertion phase: `scopes.get_mut(&x).unwrap()` panics when the scope does not exist yet -/
def checkScopes (inp : Input) : Except String Unit :=
  let rec ns : List (Option Nat × String) → Nat → Except String Unit
    | [], _ => .ok ()
    | (p, _) :: r, i =>
      match p with
      | some q => if q < i then ns r (i + 1) else .error "panic:unwrap on None (parent scope)"
      | none => ns r (i + 1)
  match ns inp.nss 0 with
  | .error e => .error e
  | .ok () =>
    if inp.entries.all (fun e => match e.scope with | none => true | some q => q < inp.nss.length) then .ok ()
    else .error "panic:unwrap on None (scope)"

def runScopes (reserved : List String) (inp : Input) : List (Option Nat) → Except String (List (Option Nat × St))
  | [] => .ok []
  | s :: r =>
    match scopeRun reserved (groupsOf (scopeSyms inp s)) with
    | .error e => .error e
    | .ok st =>
      match runScopes reserved inp r with
      | .error e => .error e
      | .ok rest => .ok ((s, st) :: rest)

/-- the local-variable candidate loop -/
def firstFreeLocal (allLocals usedAll : List String) (name : String) : Nat → Nat → Except String String
  | 0, _ => .error "fuel"
  | fuel + 1, k =>
    if !allLocals.contains (cand name k) && !usedAll.contains (cand name k) then .ok (cand name k)
    else firstFreeLocal allLocals usedAll name fuel (k + 1)

/-- local pass: returns the picked names in registry order -/
def assignLocals (allLocals : List String) : List String → List String → Except String (List String)
  | _, [] => .ok []
  | usedAll, n :: r =>
    if usedAll.contains n then
      match firstFreeLocal allLocals usedAll n (allLocals.length + usedAll.length + 1) 0 with
      | .error e => .error e
      | .ok c =>
        match assignLocals allLocals (c :: usedAll) r with
        | .error e => .error e
        | .ok rest => .ok (c :: rest)
    else
      match assignLocals allLocals usedAll r with
      | .error e => .error e
      | .ok rest => .ok (n :: rest)

/-- result: for every symbol its scope and leaf name -/
structure Named where
  sym : Sym
  scope : Option Nat
  name : String
  deriving DecidableEq, Repr, Inhabited

def hasDup : List Sym → Bool
  | [] => false
  | s :: r => r.contains s || hasDup r

def numberLocals : List String → Nat → List Named
  | [], _ => []
  | n :: r, i => ⟨⟨.localVar, i⟩, none, n⟩ :: numberLocals r (i + 1)

/-- the names given to the functions / global variables that some function body uses -/
def usedNames (inp : Input) (globalsOut : List Named) : List String :=
  globalsOut.filterMap fun n =>
    if (n.sym.kind == .func || n.sym.kind == .global) && inp.used.contains n.sym then some n.name else none

/-- everything after the `for scope in &scopes` loop: collect, duplicate check, names of used symbols, local pass -/
def finish (reserved : List String) (inp : Input) (scopes : List (Option Nat × St)) : Except String (List Named) :=
  let globalsOut : List Named :=
    scopes.flatMap fun p => p.2.out.map fun q => ⟨q.1, p.1, q.2⟩
  if hasDup (globalsOut.map (·.sym)) then .error "panic:duplicate name for" else
  match assignLocals inp.locals
      (reserved ++ scopes.flatMap (fun p => p.2.gen) ++ usedNames inp globalsOut) inp.locals with
  | .error e => .error e
  | .ok ls => .ok (globalsOut ++ numberLocals ls 0)

/-- `NameMap::build` -/
def build (reserved : List String) (inp : Input) : Except String (List Named) :=
  match checkScopes inp with
  | .error e => .error e
  | .ok () =>
    match runScopes reserved inp (scopeIds inp) with
    | .error e => .error e
    | .ok scopes => finish reserved inp scopes

/-! ### the same function with the two hash-iteration orders made explicit (used by C07)

`for scope in &scopes` visits the scopes in the iteration order `order` of a `HashMap`, and
`Vec::from_iter(scope.1.iter())` lists the keys of a scope in the iteration order `keys scope` of another
`HashMap` before they are sorted.  `build` is the instance `order = scopeIds`, `keys = push order`. -/

def runScopesWith (reserved : List String) (inp : Input) (keys : Option Nat → List String) :
    List (Option Nat) → Except String (List (Option Nat × St))
  | [] => .ok []
  | s :: r =>
    match scopeRun reserved (groupsOfKeys (keys s) (scopeSyms inp s)) with
    | .error e => .error e
    | .ok st =>
      match runScopesWith reserved inp keys r with
      | .error e => .error e
      | .ok rest => .ok ((s, st) :: rest)

def buildWith (reserved : List String) (inp : Input) (order : List (Option Nat))
    (keys : Option Nat → List String) : Except String (List Named) :=
  match checkScopes inp with
  | .error e => .error e
  | .ok () =>
    match runScopesWith reserved inp keys order with
    | .error e => .error e
    | .ok scopes => finish reserved inp scopes

def lookup (names : List Named) (s : Sym) : Option Named := names.find? (fun n => n.sym == s)

/-- `get_name_qualified`: `unwrap` on a namespace without a name is a panic -/
def qualified (names : List Named) (s : Sym) : Except String (List String) :=
  let rec up : Nat → Option Nat → List String → Except String (List String)
    | _, none, acc => .ok acc
    | 0, some _, _ => .error "fuel"
    | fuel + 1, some ns, acc =>
      match lookup names ⟨.ns, ns⟩ with
      | none => .error "panic:unwrap on None (namespace name)"
      | some nn => up fuel nn.scope (nn.name :: acc)
  match lookup names s with
  | none => .error "panic:No name for symbol"
  | some n => up (names.length + 1) n.scope [n.name]

end RsslVerif.Model.Names

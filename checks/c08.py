"""C08 — compilation is total: every input yields a result or a rendered diagnostic."""
import os
import re

T = "RsslVerif.Thm.C08."


_SRC = {}


def enclosing_fn(file, line):
    """nearest preceding `fn <name>` in the repository source (same rule as harness/src/c08.rs)"""
    if file not in _SRC:
        try:
            with open(os.path.join(os.environ.get("VERIF_REPO", "/repo"), file), encoding="utf-8", errors="replace") as f:
                _SRC[file] = f.read().split("\n")
        except OSError:
            _SRC[file] = []
    for l in reversed(_SRC[file][:line]):
        m = re.search(r"(?<![A-Za-z0-9_])fn\s+([A-Za-z0-9_]+)", l)
        if m:
            return m.group(1)
    return "?"


def normalise_message(msg):
    first = msg.split("\\n")[0].strip().rstrip("\\").strip()
    m = re.sub(r"\d+", "N", first)
    if m.startswith("assertion"):
        i = m.find(" failed")
        cut = i + 7 if i >= 0 else len(m)
    elif m.startswith("called `"):
        i = m.find(" value")
        cut = i + 6 if i >= 0 else len(m)
    else:
        idx = [i for i in (m.find(c) for c in ":([{") if i >= 0]
        cut = min(idx) if idx else len(m)
    head = m[:cut].strip()
    return "<dynamic message>" if len(head) < 4 else head[:80]


def finding_key(req, obs, detail):
    d = detail[5:] if (detail or "").startswith("FAIL:") else (detail or "")
    m = re.match(r"panic ([^:]+):(\d+): ?(.*)$", d)
    if m:
        file = m.group(1)
        repo = os.environ.get("VERIF_REPO", "/repo").rstrip("/") + "/"
        if file.startswith(repo):
            file = file[len(repo):]
        return "panic %s fn %s: %s" % (file, enclosing_fn(file, int(m.group(2))), normalise_message(m.group(3)))
    d = d.split(" class=")[0]
    stage = re.search(r" stage=(\S+)", d)
    stage = " stage=" + stage.group(1) if stage else ""
    if d.startswith("slow"):
        return "slow" + stage
    if d.startswith("timeout"):
        return "timeout" + stage
    return d  # died <signal> <hint> stage=<stage>, or another oracle failure verbatim


def nontrivial(req, obs):
    if req.startswith("C08.compile"):
        # the input went through every stage (preprocess, parse, type check, binding assignment, export)
        return obs.startswith("ok:")
    return True


def custom(ctx):
    if not ctx.harness_build():
        return
    root = os.path.dirname(os.path.dirname(os.path.abspath(__file__)))

    def account(cases):
        ctx.correspond([c for c in cases if c[0].startswith("C08.compile")], compare_model=False)
        ctx.correspond([c for c in cases if not c[0].startswith("C08.compile")], compare_model=True)

    corpus = os.path.join(root, "corpus", "C08.txt")
    if os.path.exists(corpus) and os.path.getsize(corpus) > 0:
        cases, _ = ctx.run_harness(["c08", "--requests", corpus])
        ctx.extra["corpus_cases"] = len(cases)
        account(cases)
    cases, stats = ctx.run_harness(["c08", "--tier", ctx.tier, "--seed", str(ctx.seed)])
    ctx.stats.extend(stats)
    account(cases)
    ctx.extra["model_comparison"] = ("C08.lex, C08.cond, C08.defscan, C08.textscan and C08.pipeprops requests are compared with the Lean model (TokenStream bookkeeping, "
                                     "ConditionChain over trees of included files, Macro::parse + apply_macros with locations, with and without apply_defined, "
                                     "duplicate-property check + state loop of parse_pipeline / parse_static_sampler); "
                                     "C08.compile requests are the property's own oracle on the real compiler "
                                     "(worker survival, rendered diagnostics, time budget) and have no model prediction")


SPEC = {
    "id": "C08",
    "gens": ["PanicSites", "ArithSites", "PipelineProps", "UsageLoop"],
    "lean_modules": ["RsslVerif.Thm.C08", "RsslVerif.Model.DefinedLoc", "RsslVerif.Lemmas.DefinedLoc", "RsslVerif.Lemmas.ArithClasses",
                     "RsslVerif.Model.PipelineProps", "RsslVerif.Lemmas.PipelineProps", "RsslVerif.Lemmas.PanicClasses",
                     "RsslVerif.Model.UsageDfs", "RsslVerif.Model.Usage", "RsslVerif.Spec.Usage", "RsslVerif.Lemmas.Usage"],
    "theorems": [T + n for n in [
        "panic_sites_classified", "parser_loops_as_modelled", "list_uses_reviewed", "parse_list_progress",
        "parse_list_fuel_irrelevant", "parse_multiple_progress", "parse_multiple_diverges_without_progress",
        "parse_optional_total", "root_loop_progress", "lex_shape_as_modelled", "lex_progress",
        "cond_shape_as_modelled", "cond_chain_total", "cond_include_isolated", "cond_depth_bounded", "macro_guard_as_modelled",
        "stage_errors_rendered", "arith_sites_classified", "defined_shape_as_modelled", "defined_location_safe",
        "defined_location_needs_plain_rescan", "defined_indices_in_range", "scan_output_has_no_concat",
        "pipeline_duplicates_as_modelled", "pipeline_duplicate_reported_iff", "pipeline_state_asserts_unreachable",
        "pipeline_located_compare_reaches_asserts", "panic_class_reasons_hold",
        "usage_loop_as_modelled", "usage_closure_terminates", "usage_closure_is_reachability", "usage_memo_dfs_overflows_on_cycle"]],
    "harness": "c08",
    "custom": custom,
    "finding_key": finding_key,
    "nontrivial": nontrivial,
    "rule": "worker processes (8 MB stack thread, 5 s wall-clock watchdog per input, time budget 400 ms + n^2 * 150 ns) run "
            "rssl::compile under catch_unwind on: byte soups and token soups up to 4 KB (with preprocessor directives, extreme "
            "literals, self-referential macros and includes), repetition soups (one unit nested or repeated up to 4 KB, balanced "
            "or not), grammar-generated programs (expression/statement nesting <= 12, <= 6 cast-like prefixes per expression) and "
            "their single-token mutations, whole-file programs with pipelines and their mutations, preprocessor-grammar programs "
            "(entry file + up to 4 in-memory headers + up to 4 command-line defines: macros defined in one file and used from "
            "another, defined X / defined(X) / function-like macros expanding to defined, ## at body ends, recursive macros, "
            "300-parameter macros, directives inside macro arguments, include guards, #pragma once, missing and cyclic includes, "
            "stray # forms, line splices anywhere) and their token mutations, one template per syntactic category of the front "
            "end (354 categories / 707 variants, each run once per check, plus random combinations and their mutations), typed "
            "constant expressions in every constant context, a sweep of property blocks / attributes / redefinitions (3987 variants, "
            "each run once per check: every pipeline, blend-state and static-sampler property repeated with the same / another / a "
            "wrong-kind value, adjacent / apart / three times / before the stage assignments, on graphics, compute and mesh "
            "pipelines; every property with 34 wrong-kind and out-of-range values; unknown and mis-cased names; every function, "
            "statement and global attribute repeated, mis-spelled and with wrong arguments on every host; every ordered pair of 19 "
            "entity kinds declared under one name at file scope, inside and across namespaces, and over the prelude's names; 80 "
            "duplicates inside one scope) plus random blocks (random subsets, orders, repeats, values, stage combinations), VALID call-graph programs (122 variants, "
            "each run once per check: rings of 2..5 symbols whose link is a forward-declared function / two struct methods / a "
            "default argument / a global initialiser / a template instantiation / functions of a namespace, figure-eight, chorded, "
            "complete, tail-in, tail-out graphs, deep chains, trees, DAGs, with and without a pipeline; plus random graphs of 2..9 "
            "symbols) which must COMPILE (a diagnostic is a failure too), the repository's own inputs under tests/ and byte/line/token "
            "mutations of them; every input on the 4 targets (2 for the preprocessor / constant / single-category streams, 1 for the "
            "property sweep, in quick) with the pipeline mode {all, named, no-pipeline}, the layout-validation flag and an optional command-line "
            "define rotating (quick) or crossed (thorough); worker death, panic, timeout, an empty diagnostic or an exceeded "
            "budget is a failure, keyed by panic site or by (signal, stage), minimised over files, defines, lines and bytes; "
            "model-compared side streams: C08.lex (TokenStream bookkeeping), C08.cond (ConditionChain: every directive sequence up to "
            "length 4, random walks, and random trees of in-memory files included up to 3 deep, with second #else / #elif after "
            "#else, blocks that cross a file boundary, directive lines that start with a number), C08.defscan (Macro::parse + "
            "apply_macros with apply_defined on the real lexer's located tokens) and C08.textscan (the same definitions used from "
            "ordinary text whose invocations are broken over several lines) and C08.pipeprops (Pipeline / StaticSampler blocks with valid "
            "values, 168 hand-picked + 400 random: duplicate reported at which column / other diagnostic at which column / compiled / "
            "which assert, against the model of the duplicate check + state loop); non-trivial = the input compiled through every stage",
    "level_text": "Proof of the logic, test of the runtime.  Proved for all inputs: every explicit panic site in the current sources "
                  "is a reviewed, classified one, and so is every unchecked + - *, `as` cast, index and slice in the preprocessor / "
                  "lexer core (two regenerated inventories; a new site or changed operands break the obligation); the parser's list "
                  "combinators, the root-definition loop and TokenStream::read_to_end terminate within |input|+1 (resp. +2) "
                  "iterations for every element parser / single-token lexer that consumes on success — and do not terminate "
                  "otherwise (witness); read_to_end can never trip the end-of-stream assert; the condition chain is total for every "
                  "tree of included files: its unchecked slice self.0[self.1..] is always in range, an included file leaves the "
                  "blocks of its includers untouched, and in a file without #include which of the diagnostics (unmatched #else / "
                  "#endif, #else or #elif after #else, unfinished block) is reported depends on the nesting shape alone, never on "
                  "the condition values; the location subtraction of the `defined` operation cannot "
                  "overflow for any macro table, any ## oracle and any command line of one lexer run, because the two recursive "
                  "scans run without apply_defined (flags re-extracted from the source; with the caller's flag there is a proved "
                  "counterexample), its two index computations stay in range, and a completed scan leaves no Concat token; for "
                  "every property block (any names, any length, any table of arms) the modelled parse_pipeline reports a duplicate "
                  "iff a name occurs twice and never reaches one of its four `not set before` asserts, because the duplicate check "
                  "compares the property names as text (comparison and arm tables re-extracted from the source; with the "
                  "Located<String> comparison there is a proved counterexample for each assert), and the class reasons of those "
                  "assert sites name that fact, so the inventory obligation fails when the fact is false; the closure of the usage "
                  "relation (GlobalUsageAnalysis::recurse, run for every exported module) terminates on every call graph, cycles "
                  "included: for every table and key order the sweep returns within n^2+1 passes (sum of set sizes <= n^2, strictly "
                  "increasing per productive pass), never unwraps a missing entry, and returns exactly reachability; the loop shape "
                  "(iteration, no function of the impl block calls itself) is re-extracted on every run and is the first step of the "
                  "proof; the memoised depth-first rewrite without an in-progress marker provably exhausts every stack depth on a "
                  "two-symbol cycle (witness).  "
                  "Not provable and therefore observed: stack depth, allocation, wall-clock time and the unmodelled 95 % of the "
                  "compiler — supervised worker processes run the real compile() on generated and mutated inputs (86 % line "
                  "coverage of /repo in a quick run); every crash found is listed by site/stage in known_findings.jsonl.",
    "trusted_base": [
        "Lean 4.33 kernel; axioms propext / Classical.choice / Quot.sound only",
        "tools/gens/c08.py: textual inventory of panic!/todo!/unimplemented!/unreachable!/assert*/unwrap/expect sites outside "
        "#[test]/#[cfg(test)] items, and regex facts about parse_list_base, parse_optional, parse_internal, TokenStream, "
        "ConditionChain (20 facts incl. the per-file save / set / check / restore of its second field, which is written nowhere "
        "else), the macro_disabled bracket and compile()'s error arms — re-run on /repo's working tree every time",
        "Model/Progress.lean mirrors ConditionChain::{push, switch, pop, is_active} and the #include bracket of "
        "preprocess_included_file by hand (the include depth limit, file loading and #pragma once are not modelled); tied by the "
        "facts above and by the C08.cond correspondence on trees of in-memory files",
        "Lemmas/PanicClasses.lean: the class and reason of each site is a reviewed reading of the code (with targeted probes of the "
        "real compiler), not a theorem about the Rust code; implicit panics (indexing, arithmetic overflow, RefCell, slicing, "
        "stack exhaustion) outside preprocess.rs / lexer.rs / condition_parser.rs / location.rs have no inventory and are covered "
        "by the supervised run only",
        "tools/gens/_c08_arith.py: operator-level reading of the four core files (binary + - * and their compound forms, `as` "
        "casts to numeric types, x[..] after an operand; method calls such as split_at / wrapping_* are not sites); "
        "Lemmas/ArithClasses.lean: class and invariant of each of the 163 sites is a reviewed reading (8 point at a Lean theorem, "
        "12 are `resource-bound`: they overflow only with 4 GiB of registered text or usize::MAX elements)",
        "Model/DefinedLoc.lean mirrors Macro::parse, split_macro_args, find_single_macro, apply_single_macro by hand; it is tied "
        "to the code by 22 regex facts + the two re-extracted rescan flags (defined_shape_as_modelled) and by the C08.defscan / "
        "C08.textscan correspondence on the real lexer's tokens; the ## operation is an abstract oracle (assumed not to produce Token::Concat, "
        "which the lexer cannot); command-line tokens are assumed to come from one lexer run (monotone locations: C10 spans_tile, "
        "C08.lex oracle)",
        "Model/PipelineProps.lean mirrors the duplicate-property loop and the state loop of parse_pipeline (and the walk of "
        "parse_static_sampler) by hand, property values abstracted: tied to the code by tools/gens/c08.py PipelineProps (what the "
        "two duplicate checks compare: text / Located / unrecognised; 10 regex facts: all-pairs loop, check precedes both "
        "property loops, state loop walks the remaining properties, each asserted flag / slot written by its own arm only; the "
        "name tables of the stage, state, blend and sampler arms with their `gated on compute` and `asserts` marks) and by the "
        "C08.pipeprops correspondence; add_stage and the stage validation are not modelled (blocks with other stage sets are "
        "`unsupported` unless the duplicate check answers first); that a class reason carrying a `[fact: ..]` marker is listed in "
        "Lemmas.PanicClasses.citingReasons is the work of tools/gens/_c08_review.py (Python), that the six assert sites carry such "
        "a reason and that every cited fact holds is a Lean theorem",
        "Model/Usage.lean (C02's model, reused) mirrors GlobalUsageAnalysis::recurse by hand: HashMap / HashSet as association "
        "list / duplicate-free list, iteration order of the keys a parameter; tied to the code by tools/gens/c08.py UsageLoop "
        "(9 regex facts about recurse / calculate and the impl block, the call table of the impl block) and by the supervised run "
        "of valid programs with call cycles (cyc / cycone streams, which must compile); that calculate_local makes an entry for "
        "every symbol a set mentions (hypothesis WF of the two usage theorems) is C02's theorem calculateLocal_wf over its own "
        "program model, not re-proved here; Model/UsageDfs.lean is a hand-written model of a REJECTED variant (negative example)",
        "the progress hypotheses of the loop theorems (an element parser consumes a token on success; the single-token lexer "
        "consumes a byte) are tied to the code by the reviewed list of combinator uses and by the C08.lex correspondence",
        "the supervised run sees only the inputs it generates; distributions are in the evidence; the harness's include handler "
        "answers FileNotFound once it handed out 1 MB for one compile (generated headers included hundreds of times)",
    ],
    "assumptions": [
        "time budget constants (400 ms + n^2 * 150 ns on a loaded 16-core machine, dev profile opt-level 1) are a choice; "
        "measured worst ratios are reported in the evidence",
        "an 8 MB stack for the compiling thread (the default main-thread stack on Linux)",
    ],
}

import RsslVerif.Model.FormatFull
/-!
# C09 model, printing half: statements and local variable definitions

`format_statement`, `format_variable_definition`, `format_init_declarators`, `format_init_declarator`,
`format_initializer(_inner)`, `format_for_init`, `format_attribute` of `formatter/src/formatter.rs`.

Pieces are tokens and spaces as in `Model/Format.lean`; a line break (`new_line`, which also removes trailing spaces
and indents) is a space here: the correspondence run compares the text with every run of white space collapsed to one
space, the theorems are about the token stream.

Not in the tree types (the driver answers `unsupported`): location annotations of local declarators, attributes on
declarators, `StaticSampler` initialisers (the formatter panics on them), `AmbiguousDeclarationOrExpression` (the
formatter returns an error).
-/
namespace RsslVerif.Model.FormatStmt
open RsslVerif.Gen.FmtTables RsslVerif.Gen.ParseTables RsslVerif.Gen.SyntaxTables RsslVerif.Model.Format
open RsslVerif.Model.FormatFull

/-! ## Trees -/

/-- `ast::Attribute`: (scoped) name, arguments, `[[ ]]` or `[ ]` -/
structure Attr where
  name : String
  args : XArgs
  double : Bool

mutual
/-- `ast::Initializer` without `StaticSampler` -/
inductive Init where
  | expr (e : XExpr)
  | agg (l : Inits)
inductive Inits where
  | nil
  | cons (i : Init) (r : Inits)
end

/-- `ast::InitDeclarator` without location annotations -/
structure InitDecl where
  decl : Decl
  init : Option Init

/-- `ast::VarDef`: the shared type (modifiers, name, template arguments) and the declarators -/
structure VarDef where
  mods : List TypeMod
  name : String
  targs : TArgs
  defs : List InitDecl

/-- `ast::InitStatement` -/
inductive ForInit where
  | empty
  | expr (e : XExpr)
  | decl (v : VarDef)

mutual
/-- `ast::Statement`: attributes and kind -/
inductive Stmt where
  | mk (attrs : List Attr) (k : Kind)
/-- `ast::StatementKind` without `AmbiguousDeclarationOrExpression` -/
inductive Kind where
  | empty
  | expr (e : XExpr)
  | var (v : VarDef)
  | block (b : Stmts)
  | ifS (c : XExpr) (t : Stmt)
  | ifElse (c : XExpr) (t e : Stmt)
  | forS (init : ForInit) (cond : Option XExpr) (inc : Option XExpr) (body : Stmt)
  | whileS (c : XExpr) (body : Stmt)
  | doWhile (body : Stmt) (c : XExpr)
  | switchS (c : XExpr) (body : Stmt)
  | breakS
  | continueS
  | discardS
  | ret (e : Option XExpr)
  | caseS (v : XExpr) (next : Stmt)
  | defaultS (next : Stmt)
inductive Stmts where
  | nil
  | cons (s : Stmt) (r : Stmts)
end

/-! ## Pieces -/
def kw (p : Punct) (text : String) : Piece := .t (.p p) text
def semi : Piece := pp .Semicolon

/-- `format_attribute attr new_line=true after_content=false` (a statement attribute; the line break is a space) -/
def fmtAttr (a : Attr) : List Piece :=
  (pp .LeftSquareBracket :: (if a.double then [pp .LeftSquareBracket] else [])) ++
  (.t (.id a.name) a.name ::
    ((match a.args with
      | .nil => []
      | args => pp .LeftParen :: (fmtAttrArgs args ++ [pp .RightParen])) ++
     ((if a.double then [pp .RightSquareBracket] else []) ++ [pp .RightSquareBracket, .sp])))
where
  /-- attribute arguments are printed with `format_subexpression(expr, attrArgPrec, attrArgSide)` (2a6da39: a comma
  expression is parenthesised) -/
  fmtAttrArgs : XArgs → List Piece
    | .nil => []
    | .cons e .nil => fmtSubX e attrArgPrec attrArgSide
    | .cons e (.cons e' rest) => fmtSubX e attrArgPrec attrArgSide ++ (comma :: .sp :: fmtAttrArgs (.cons e' rest))

def fmtAttrs : List Attr → List Piece
  | [] => []
  | a :: r => fmtAttr a ++ fmtAttrs r

mutual
/-- `format_initializer_inner` -/
def fmtInit : Init → List Piece
  | .expr e => fmtSubX e initPrec initSide
  | .agg .nil => [pp .LeftBrace, pp .RightBrace]
  | .agg (.cons i r) => pp .LeftBrace :: .sp :: (fmtInit i ++ (fmtInitTail r ++ [.sp, pp .RightBrace]))
def fmtInitTail : Inits → List Piece
  | .nil => []
  | .cons i r => comma :: .sp :: (fmtInit i ++ fmtInitTail r)
end

/-- `format_init_declarator entry single_declaration` -/
def fmtInitDecl (d : InitDecl) (single : Bool) : List Piece :=
  (if single then [] else [.sp]) ++ (fmtDecl d.decl single ++
    (match d.init with
     | none => []
     | some i => .sp :: pp .Equals :: .sp :: fmtInit i))

/-- `format_init_declarators` -/
def fmtInitDecls (ds : List InitDecl) : List Piece :=
  let single := ds.length == 1
  go ds single true
where
  go : List InitDecl → Bool → Bool → List Piece
    | [], _, _ => []
    | d :: r, single, first => (if first then [] else [comma]) ++ (fmtInitDecl d single ++ go r single false)

/-- `format_variable_definition` -/
def fmtVarDef (v : VarDef) : List Piece :=
  let ds := fmtInitDecls v.defs
  fmtTy v.mods v.name v.targs (startsTok ds false) ++ ds

/-- `format_for_init` -/
def fmtForInit : ForInit → List Piece
  | .empty => []
  | .expr e => fmtExprX e
  | .decl v => fmtVarDef v

def fmtOptExpr : Option XExpr → List Piece
  | none => []
  | some e => .sp :: fmtExprX e

mutual
/-- `format_statement`: a line break, the attributes (one per line), the statement -/
def fmtStmt : Stmt → List Piece
  | .mk attrs k => .sp :: (fmtAttrs attrs ++ fmtKind k)
def fmtKind : Kind → List Piece
  | .empty => [semi]
  | .expr e => fmtExprX e ++ [semi]
  | .var v => fmtVarDef v ++ [semi]
  | .block b => pp .LeftBrace :: (fmtStmts b ++ [.sp, pp .RightBrace])
  | .ifS c t => kw .If "if" :: .sp :: pp .LeftParen :: (fmtExprX c ++ (pp .RightParen :: fmtStmt t))
  | .ifElse c t e =>
    kw .If "if" :: .sp :: pp .LeftParen :: (fmtExprX c ++ (pp .RightParen :: (fmtStmt t ++
      (.sp :: kw .Else "else" :: fmtStmt e))))
  | .forS init cond inc body =>
    kw .For "for" :: .sp :: pp .LeftParen :: (fmtForInit init ++ (semi :: (fmtOptExpr cond ++ (semi ::
      (fmtOptExpr inc ++ (pp .RightParen :: fmtStmt body))))))
  | .whileS c body => kw .While "while" :: .sp :: pp .LeftParen :: (fmtExprX c ++ (pp .RightParen :: fmtStmt body))
  | .doWhile body c =>
    kw .Do "do" :: (fmtStmt body ++ (.sp :: kw .While "while" :: .sp :: pp .LeftParen ::
      (fmtExprX c ++ [pp .RightParen, semi])))
  | .switchS c body => kw .Switch "switch" :: .sp :: pp .LeftParen :: (fmtExprX c ++ (pp .RightParen :: fmtStmt body))
  | .breakS => [kw .Break "break", semi]
  | .continueS => [kw .Continue "continue", semi]
  | .discardS => [kw .Discard "discard", semi]
  | .ret e => kw .Return "return" :: (fmtOptExpr e ++ [semi])
  | .caseS v next => kw .Case "case" :: .sp :: (fmtExprX v ++ (pp .Colon :: fmtStmt next))
  | .defaultS next => kw .Default "default" :: pp .Colon :: fmtStmt next
def fmtStmts : Stmts → List Piece
  | .nil => []
  | .cons s r => fmtStmt s ++ fmtStmts r
end

end RsslVerif.Model.FormatStmt

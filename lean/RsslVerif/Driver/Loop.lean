import RsslVerif.Driver.Util
/-! The stdin/stdout loop shared by the per-property model executables. -/
namespace RsslVerif.Driver

partial def loop (handle : String → List String → String) (h : IO.FS.Stream) (out : IO.FS.Stream) : IO Unit := do
  let line ← h.getLine
  if line.isEmpty then return ()
  let line := if line.endsWith "\n" then (line.dropEnd 1).toString else line
  let answer := match fields line with
    | op :: args => handle op args
    | [] => "bad-request"
  out.putStrLn answer
  loop handle h out

def runDriver (handle : String → List String → String) : IO Unit := do
  let out ← IO.getStdout
  loop handle (← IO.getStdin) out
  out.flush

end RsslVerif.Driver

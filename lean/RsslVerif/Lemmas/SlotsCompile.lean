import RsslVerif.Model.SlotsCompile
/-! Lemmas about the driver model (`Model.SlotsCompile`): `select_pipeline` finds the pipeline it was asked for,
    and one `build_pipeline` call is one allocator run with that pipeline's default group. -/
namespace RsslVerif.Lemmas.SlotsCompile
open RsslVerif.Gen.SlotTables RsslVerif.Model.Slots RsslVerif.Model.SlotsCompile

/-- Which results a `compile()` call must return, as the default groups of the pipelines it was asked for
    (the property: "resources without an explicit group go to the pipeline's default group"):
    no-pipeline mode has no pipeline and uses group 0. -/
def requestedDefaults : Mode → List Pipeline → List Nat
  | .noPipeline, _ => [0]
  | .all, ps => ps.map (·.defaultGroup)
  | .named n, ps => (ps.filter (fun p => decide (p.name = n))).map (·.defaultGroup)

theorem findSelected_some {name : String} :
    ∀ {ps : List Pipeline} {i j : Nat} {r : Option Nat},
      findSelected name ps i (some j) = .ok r → r = some j ∧ ∀ q ∈ ps, q.name ≠ name := by
  intro ps
  induction ps with
  | nil => intro i j r h; simp [findSelected] at h; exact ⟨h.symm, by simp⟩
  | cons p ps ih =>
    intro i j r h
    unfold findSelected at h
    by_cases hp : p.name = name
    · simp [hp] at h
    · simp only [hp, if_false] at h
      obtain ⟨h1, h2⟩ := ih h
      refine ⟨h1, ?_⟩
      intro q hq
      rcases List.mem_cons.1 hq with rfl | hq
      · exact hp
      · exact h2 q hq

theorem findSelected_none {name : String} :
    ∀ {ps : List Pipeline} {i : Nat} {r : Option Nat},
      findSelected name ps i none = .ok r →
      (r = none ∧ ∀ q ∈ ps, q.name ≠ name) ∨
      (∃ k q, r = some (i + k) ∧ ps[k]? = some q ∧ q.name = name ∧ ∀ q' ∈ ps, q'.name = name → q' = q) := by
  intro ps
  induction ps with
  | nil => intro i r h; simp [findSelected] at h; exact Or.inl ⟨h.symm, by simp⟩
  | cons p ps ih =>
    intro i r h
    unfold findSelected at h
    by_cases hp : p.name = name
    · simp only [hp, if_true] at h
      obtain ⟨h1, h2⟩ := findSelected_some h
      refine Or.inr ⟨0, p, by simpa using h1, by simp, hp, ?_⟩
      intro q' hq' hn
      rcases List.mem_cons.1 hq' with rfl | hq'
      · rfl
      · exact absurd hn (h2 q' hq')
    · simp only [hp, if_false] at h
      rcases ih h with ⟨h1, h2⟩ | ⟨k, q, h1, h2, h3, h4⟩
      · refine Or.inl ⟨h1, ?_⟩
        intro q hq
        rcases List.mem_cons.1 hq with rfl | hq
        · exact hp
        · exact h2 q hq
      · refine Or.inr ⟨k + 1, q, by rw [h1]; congr 1; omega, by simpa using h2, h3, ?_⟩
        intro q' hq' hn
        rcases List.mem_cons.1 hq' with rfl | hq'
        · exact absurd hn hp
        · exact h4 q' hq' hn

/-- `select_pipeline(&pipeline.name)` for a pipeline of the module selects exactly that pipeline -/
theorem selectPipeline_of_mem {m m' : Module} {p : Pipeline} (hp : p ∈ m.pipelines)
    (h : m.selectPipeline p.name = .ok (some m')) :
    ∃ i, m' = { m with selected := some i } ∧ m.pipelines[i]? = some p := by
  unfold Module.selectPipeline at h
  cases hf : findSelected p.name m.pipelines 0 none with
  | error e => simp [hf] at h
  | ok r =>
    cases r with
    | none => simp [hf] at h
    | some i =>
      simp only [hf, Except.ok.injEq, Option.some.injEq] at h
      rcases findSelected_none hf with ⟨h1, _⟩ | ⟨k, q, h1, h2, _, h4⟩
      · cases h1
      · simp only [Nat.zero_add, Option.some.injEq] at h1
        subst h1
        have : p = q := h4 p hp rfl
        subst this
        exact ⟨i, h.symm, h2⟩

/-- a pipeline of the module is always found (no `unwrap` on `None`) -/
theorem selectPipeline_ne_none {m : Module} {p : Pipeline} (hp : p ∈ m.pipelines) :
    m.selectPipeline p.name ≠ .ok none := by
  unfold Module.selectPipeline
  cases hf : findSelected p.name m.pipelines 0 none with
  | error e => simp
  | ok r =>
    cases r with
    | some i => simp
    | none =>
      rcases findSelected_none hf with ⟨_, h2⟩ | ⟨k, q, h1, _⟩
      · exact absurd rfl (h2 p hp)
      · cases h1

/-- the tail of `build_pipeline` after the module was selected: assign, then describe -/
theorem assign_then_describe {t : Target} {m : Module} {params : Params} {d : Nat} {b : Built}
    (hfresh : m.assigned = false)
    (hd : m.defaultSet = some d)
    (h : (match m.assignApiBindings params with
          | .error e => (.error (.panic e) : Except Err Built)
          | .ok bound =>
            match bound.slots with
            | none => .error (.panic "unreachable: assign_api_bindings writes the slots")
            | some r =>
              match describe t bound.names bound.decls r with
              | .error e => .error e
              | .ok gs => .ok { slots := r, groups := gs }) = .ok b) :
    assign params d m.decls = .ok b.slots ∧ describe t m.names m.decls b.slots = .ok b.groups := by
  unfold Module.assignApiBindings at h
  simp only [hfresh, hd] at h
  cases hr : assign params d m.decls with
  | error e => simp [hr] at h
  | ok r =>
    simp only [hr] at h
    cases hg : describe t m.names m.decls r with
    | error e => simp [hg] at h
    | ok gs =>
      simp [hg] at h
      subst h
      exact ⟨rfl, hg⟩

/-- One `build_pipeline` call for a pipeline of the (unbound) module = one allocator run with the parameter
    set of the call and THAT pipeline's default group, described by the exporter. -/
theorem buildPipeline_some {t : Target} {ir : Module} {params : Params} {p : Pipeline} {b : Built}
    (hfresh : ir.assigned = false) (hp : p ∈ ir.pipelines)
    (h : buildPipeline t ir params (some p) = .ok b) :
    assign params p.defaultGroup ir.decls = .ok b.slots ∧
    describe t ir.names ir.decls b.slots = .ok b.groups := by
  unfold buildPipeline at h
  simp only [] at h
  cases hs : ir.selectPipeline p.name with
  | error e => simp [hs] at h
  | ok om =>
    cases om with
    | none => exact absurd hs (selectPipeline_ne_none hp)
    | some m' =>
      simp only [hs] at h
      obtain ⟨i, rfl, hi⟩ := selectPipeline_of_mem hp hs
      exact assign_then_describe (m := { ir with selected := some i }) hfresh (by simp [Module.defaultSet, hi]) h

theorem buildPipeline_none {t : Target} {ir : Module} {params : Params} {b : Built}
    (hfresh : ir.assigned = false) (hsel : ir.selected = none)
    (h : buildPipeline t ir params none = .ok b) :
    assign params 0 ir.decls = .ok b.slots ∧
    describe t ir.names ir.decls b.slots = .ok b.groups := by
  unfold buildPipeline at h
  simp only [] at h
  exact assign_then_describe hfresh (by simp [Module.defaultSet, hsel]) h

/-- what one returned pipeline is: the allocator's result for default group `d`, and its description -/
def IsBuiltFor (t : Target) (params : Params) (ir : Module) (d : Nat) (b : Built) : Prop :=
  assign params d ir.decls = .ok b.slots ∧ describe t ir.names ir.decls b.slots = .ok b.groups

/-- `Forall₂`-style pairing of results with requested default groups (core has no `List.Forall₂`) -/
def AllBuiltFor (t : Target) (params : Params) (ir : Module) : List Nat → List Built → Prop
  | [], [] => True
  | d :: ds, b :: bs => IsBuiltFor t params ir d b ∧ AllBuiltFor t params ir ds bs
  | _, _ => False

/-- the pipelines the loop builds: all of them, or the ones with the requested name -/
def keeps (filter : Option String) (p : Pipeline) : Bool :=
  match filter with
  | some n => decide (p.name = n)
  | none => true

theorem buildLoop_spec {t : Target} {ir : Module} {params : Params} {filter : Option String}
    (hfresh : ir.assigned = false) :
    ∀ {ps : List Pipeline} {bs : List Built}, (∀ p ∈ ps, p ∈ ir.pipelines) →
      buildLoop t ir params filter ps = .ok bs →
      AllBuiltFor t params ir ((ps.filter (keeps filter)).map (·.defaultGroup)) bs := by
  intro ps
  induction ps with
  | nil => intro bs _ h; simp [buildLoop] at h; subst h; simp [AllBuiltFor]
  | cons p ps ih =>
    intro bs hsub h
    have hsub' : ∀ q ∈ ps, q ∈ ir.pipelines := fun q hq => hsub q (by simp [hq])
    unfold buildLoop at h
    by_cases hk : keeps filter p = true
    · have hc : skipped filter p = false := by
        cases filter with
        | none => rfl
        | some n => simpa [keeps, skipped] using hk
      simp only [hc, Bool.false_eq_true, if_false] at h
      simp only [List.filter_cons, hk, if_true, List.map_cons]
      cases hb : buildPipeline t ir params (some p) with
      | error e => simp [hb] at h
      | ok b =>
        simp only [hb] at h
        cases hbs : buildLoop t ir params filter ps with
        | error e => simp [hbs] at h
        | ok bs' =>
          simp only [hbs, Except.ok.injEq] at h
          subst h
          exact ⟨buildPipeline_some hfresh (hsub p (by simp)) hb, ih hsub' hbs⟩
    · have hc : skipped filter p = true := by
        cases filter with
        | none => simp [keeps] at hk
        | some n => simpa [keeps, skipped] using hk
      simp only [hc, if_true] at h
      simp only [List.filter_cons, hk]
      exact ih hsub' h

/-- a successful `select_pipeline` means the name is unique in the module (`assert_eq!(selected, None)`) -/
theorem selectPipeline_unique {m m' : Module} {name : String} (h : m.selectPipeline name = .ok (some m')) :
    ∀ q ∈ m.pipelines, ∀ q' ∈ m.pipelines, q.name = name → q'.name = name → q = q' := by
  unfold Module.selectPipeline at h
  cases hf : findSelected name m.pipelines 0 none with
  | error e => simp [hf] at h
  | ok r =>
    rcases findSelected_none hf with ⟨h1, _⟩ | ⟨k, x, _, _, _, h4⟩
    · subst h1; simp [hf] at h
    · intro q hq q' hq' hn hn'
      rw [h4 q hq hn, h4 q' hq' hn']

theorem buildPipeline_ok_select {t : Target} {ir : Module} {params : Params} {p : Pipeline} {b : Built}
    (h : buildPipeline t ir params (some p) = .ok b) : ∃ m', ir.selectPipeline p.name = .ok (some m') := by
  unfold buildPipeline at h
  simp only [] at h
  cases hs : ir.selectPipeline p.name with
  | error e => simp [hs] at h
  | ok om =>
    cases om with
    | none => simp [hs] at h
    | some m' => exact ⟨m', rfl⟩

theorem buildLoop_ok_mem {t : Target} {ir : Module} {params : Params} {filter : Option String} :
    ∀ {ps : List Pipeline} {bs : List Built}, buildLoop t ir params filter ps = .ok bs →
      ∀ p ∈ ps, keeps filter p = true → ∃ b, buildPipeline t ir params (some p) = .ok b := by
  intro ps
  induction ps with
  | nil => intro bs _ p hp; simp at hp
  | cons q ps ih =>
    intro bs h p hp hk
    unfold buildLoop at h
    by_cases hs : skipped filter q = true
    · simp only [hs, if_true] at h
      rcases List.mem_cons.1 hp with rfl | hp
      · cases filter with
        | none => simp [skipped] at hs
        | some n => simp [skipped, keeps] at hs hk; exact absurd hk hs
      · exact ih h p hp hk
    · simp only [hs] at h
      cases hb : buildPipeline t ir params (some q) with
      | error e => simp [hb] at h
      | ok b =>
        simp only [hb] at h
        cases hbs : buildLoop t ir params filter ps with
        | error e => simp [hbs] at h
        | ok bs' =>
          rcases List.mem_cons.1 hp with rfl | hp
          · exact ⟨b, hb⟩
          · exact ih hbs p hp hk

theorem IsBuiltFor.unique {t : Target} {params : Params} {ir : Module} {d : Nat} {b b' : Built}
    (h : IsBuiltFor t params ir d b) (h' : IsBuiltFor t params ir d b') : b = b' := by
  obtain ⟨h1, h2⟩ := h
  obtain ⟨h1', h2'⟩ := h'
  have e1 : b.slots = b'.slots := by
    have := h1.symm.trans h1'
    exact Except.ok.inj this
  rw [e1] at h2
  have e2 : b.groups = b'.groups := Except.ok.inj (h2.symm.trans h2')
  cases b; cases b'; simp_all

theorem AllBuiltFor.length {t : Target} {params : Params} {ir : Module} :
    ∀ {ds : List Nat} {bs : List Built}, AllBuiltFor t params ir ds bs → ds.length = bs.length
  | [], [], _ => rfl
  | _ :: _, _ :: _, h => by simp [AllBuiltFor.length h.2]
  | [], _ :: _, h => by simp [AllBuiltFor] at h
  | _ :: _, [], h => by simp [AllBuiltFor] at h

theorem AllBuiltFor.get {t : Target} {params : Params} {ir : Module} :
    ∀ {ds : List Nat} {bs : List Built}, AllBuiltFor t params ir ds bs →
      ∀ {k : Nat} {d : Nat} {b : Built}, ds[k]? = some d → bs[k]? = some b → IsBuiltFor t params ir d b
  | [], [], _, k, d, b, hd, _ => by simp at hd
  | d0 :: ds, b0 :: bs, h, 0, d, b, hd, hb => by
    simp only [List.getElem?_cons_zero, Option.some.injEq] at hd hb
    subst hd; subst hb; exact h.1
  | d0 :: ds, b0 :: bs, h, k + 1, d, b, hd, hb => by
    simp only [List.getElem?_cons_succ] at hd hb
    exact AllBuiltFor.get h.2 hd hb
  | [], _ :: _, h, _, _, _, _, _ => by simp [AllBuiltFor] at h
  | _ :: _, [], h, _, _, _, _, _ => by simp [AllBuiltFor] at h

theorem AllBuiltFor.mem {t : Target} {params : Params} {ir : Module} :
    ∀ {ds : List Nat} {bs : List Built}, AllBuiltFor t params ir ds bs →
      ∀ b ∈ bs, ∃ d ∈ ds, IsBuiltFor t params ir d b
  | [], [], _, b, hb => by simp at hb
  | d0 :: ds, b0 :: bs, h, b, hb => by
    rcases List.mem_cons.1 hb with rfl | hb
    · exact ⟨d0, by simp, h.1⟩
    · obtain ⟨d, hd, hbd⟩ := AllBuiltFor.mem h.2 b hb
      exact ⟨d, by simp [hd], hbd⟩
  | [], _ :: _, h, _, _ => by simp [AllBuiltFor] at h
  | _ :: _, [], h, _, _ => by simp [AllBuiltFor] at h

/-- `compile()` on the module the type checker returns: one allocator run per requested pipeline, each with the
    parameter set of the target and that pipeline's own default group. -/
theorem compile_spec {a : Args} {ir : Module} {outs : List Built}
    (hfresh : ir.assigned = false) (hsel : ir.selected = none) (h : compile a ir = .ok outs) :
    AllBuiltFor a.target (paramsFor a.target a.supportBufferAddress) ir (requestedDefaults a.mode ir.pipelines) outs := by
  unfold compile at h
  split at h
  · cases h
  · simp only [] at h
    cases hm : a.mode with
    | noPipeline =>
      simp only [hm] at h
      cases hb : buildPipeline a.target ir (paramsFor a.target a.supportBufferAddress) none with
      | error e => simp [hb] at h
      | ok b =>
        simp only [hb, Except.ok.injEq] at h
        subst h
        exact ⟨buildPipeline_none hfresh hsel hb, trivial⟩
    | all =>
      simp only [hm] at h
      cases hb : buildLoop a.target ir (paramsFor a.target a.supportBufferAddress) none ir.pipelines with
      | error e => simp [hb] at h
      | ok bs =>
        simp only [hb] at h
        split at h
        · cases h
        · cases h
          have := buildLoop_spec hfresh (fun p hp => hp) hb
          have hk : ir.pipelines.filter (keeps none) = ir.pipelines :=
            List.filter_eq_self.2 (fun p _ => rfl)
          simpa [requestedDefaults, hk] using this
    | named n =>
      simp only [hm] at h
      cases hb : buildLoop a.target ir (paramsFor a.target a.supportBufferAddress) (some n) ir.pipelines with
      | error e => simp [hb] at h
      | ok bs =>
        simp only [hb] at h
        split at h
        · cases h
        · split at h
          · cases h
          · cases h
            have := buildLoop_spec hfresh (fun p hp => hp) hb
            have hk : keeps (some n) = fun p => decide (p.name = n) := by funext p; rfl
            simpa [requestedDefaults, hk] using this

end RsslVerif.Lemmas.SlotsCompile

import RsslVerif.Model.FormatDef
import RsslVerif.Model.ParseStmt
/-!
# C09 model, reading half: function and struct definitions

`parse_function_definition`, `parse_function_param` (functions.rs), `parse_location_annotation` on a semantic
(declarations.rs), `parse_struct_definition`, `parse_struct_entry`, `parse_struct_member` (structs.rs).

`parse_struct_entry` selects the longer of member and method; a member ends with `;` after its declarators, a method
needs `(` after its name: the model takes the member when that reading succeeds and the method otherwise.
Not modelled: `template<…>` (a leading `template` is `none`), register / packoffset annotations.
-/
namespace RsslVerif.Model.ParseDef
open RsslVerif.Gen.FmtTables RsslVerif.Gen.ParseTables RsslVerif.Gen.SyntaxTables RsslVerif.Model.Format
open RsslVerif.Model.FormatFull RsslVerif.Model.FormatStmt RsslVerif.Model.FormatDef RsslVerif.Model.ParseFull
open RsslVerif.Model.ParseStmt

variable (W : List String)

/-- `parse_multiple(parse_location_annotation)` restricted to at most one semantic -/
def parseSem (ts : List Tok) : Option (Option String × List Tok) :=
  match ts with
  | .p .Colon :: .id n :: .p .Colon :: _ => none       -- a second annotation: not modelled
  | .p .Colon :: .id n :: r => some (some n, r)
  | .p .Colon :: _ => none                              -- register / packoffset / error
  | _ => some (none, ts)

/-- `parse_function_param` -/
def parseParam (f : Nat) (ts : List Tok) : Option (Param × List Tok) :=
  match parseTy W f ts with
  | some ((mods, n, targs), r) =>
    match parseDecl W f false r with
    | some (d, r1) =>
      match parseSem r1 with
      | some (sem, .p .Equals :: r2) =>
        match xparseLvl W f 15 .Sequence r2 with
        | some (e, r3) => some (⟨mods, n, targs, d, sem, some e⟩, r3)
        | none => none
      | some (sem, r2) => some (⟨mods, n, targs, d, sem, none⟩, r2)
      | none => none
    | none => none
  | none => none

/-- `parse_list(Comma, parse_function_param)` in front of `)` -/
def parseParams : Nat → List Tok → Option (List Param × List Tok)
  | 0, _ => none
  | f + 1, ts =>
    match ts with
    | .p .RightParen :: _ => some ([], ts)
    | _ =>
      match parseParam W f ts with
      | some (p, .p .Comma :: r) =>
        match r with
        | .p .RightParen :: _ => none                   -- the list would end before the comma, then `)` is missing
        | _ =>
          match parseParams f r with
          | some (ps, r') => some (p :: ps, r')
          | none => none
      | some (p, r) => some ([p], r)
      | none => none

/-- `parse_function_definition` -/
def parseFn (f : Nat) (ts : List Tok) : Res FnDef :=
  match ts with
  | .p .Template :: _ => .fail                          -- template parameters: not modelled
  | _ =>
    match parseAttrs W f ts with
    | some (attrs, r) =>
      match parseTy W f r with
      | some ((rmods, rname, rtargs), .id name :: .p .LeftParen :: r1) =>
        match parseParams W f r1 with
        | some (params, .p .RightParen :: r2) =>
          match parseSem r2 with
          | some (sem, .p .Semicolon :: r3) => .ok ⟨attrs, rmods, rname, rtargs, name, params, sem, none⟩ r3
          | some (sem, .p .LeftBrace :: r3) =>
            match parseStmts W f r3 with
            | .ok b r4 => .ok ⟨attrs, rmods, rname, rtargs, name, params, sem, some b⟩ r4
            | .fail => .fail
            | .panic => .panic
          | _ => .fail
        | _ => .fail
      | _ => .fail
    | none => .fail

/-- `parse_struct_member` -/
def parseStructVar (f : Nat) (ts : List Tok) : Option (Member × List Tok) :=
  match parseAttrs W f ts with
  | some (attrs, r) =>
    match parseVarDef W f r with
    | some (v, .p .Semicolon :: r1) => some (.var attrs v, r1)
    | _ => none
  | none => none

/-- `parse_multiple(parse_struct_entry)` in front of `}` -/
def parseMembers : Nat → List Tok → Res (List Member)
  | 0, _ => .fail
  | f + 1, ts =>
    match ts with
    | .p .RightBrace :: _ => .ok [] ts
    | _ =>
      match parseStructVar W f ts with
      | some (m, r) =>
        match parseMembers f r with
        | .ok ms r' => .ok (m :: ms) r'
        | .fail => .fail
        | .panic => .panic
      | none =>
        match parseFn W f ts with
        | .ok fn r =>
          match parseMembers f r with
          | .ok ms r' => .ok (.method fn :: ms) r'
          | .fail => .fail
          | .panic => .panic
        | .fail => .fail
        | .panic => .panic

/-- `parse_list_nonempty(Comma, parse_type)` after the `:` of a struct.  When no type can be read after a comma the real
list ends in front of that comma (or fails, if the attempt made progress); either way `parse_struct_definition` then
fails for want of `{`, so the model answers `none` there. -/
def parseBases : Nat → List Tok → Option (List BaseTy × List Tok)
  | 0, _ => none
  | f + 1, ts =>
    match parseTy W f ts with
    | some (b, .p .Comma :: r) =>
      match parseBases f r with
      | some (bs, r') => some (b :: bs, r')
      | none => none
    | some (b, r) => some ([b], r)
    | none => none

/-- `parse_struct_definition` -/
def parseStruct (f : Nat) (ts : List Tok) : Res StructDef :=
  match ts with
  | .p .Struct :: .id name :: r0 =>
    match (match r0 with
           | .p .Colon :: r1 => parseBases W f r1
           | _ => some ([], r0)) with
    | some (bases, .p .LeftBrace :: r) =>
      match parseMembers W f r with
      | .ok ms (.p .RightBrace :: .p .Semicolon :: r') => .ok ⟨name, bases, ms⟩ r'
      | .ok _ _ => .fail
      | .fail => .fail
      | .panic => .panic
    | _ => .fail
  | _ => .fail

end RsslVerif.Model.ParseDef

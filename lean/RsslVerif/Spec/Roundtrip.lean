import RsslVerif.Model.Parse
/-!
# What C09 means for expressions (our reading of the property statement)

"Printing a syntax tree and parsing the text yields the same tree": the token stream of the printed
expression (`toks (fmtExpr e)`, what the lexer hands to the parser) is read by `parse_expression` as
exactly `e`, with nothing left over — whatever follows the expression (`rest`), as long as it cannot
continue an expression (a closing bracket, `;`, `:` …).
-/
namespace RsslVerif.Spec.Roundtrip
open RsslVerif.Gen.ParseTables RsslVerif.Model.Format RsslVerif.Model.Parse

/-- `e` printed at top level reads back as `e` in front of any `rest` beginning with token `t` -/
def ReadsBack (e : Expr) (rest : List Tok) : Prop :=
  ∃ fuel, parseLvl fuel 15 .Standard (toks (fmtExpr e) ++ rest) = some (e, rest)

end RsslVerif.Spec.Roundtrip

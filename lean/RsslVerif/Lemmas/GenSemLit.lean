import RsslVerif.Model.GenHlsl
import RsslVerif.Spec.SemWT
/-! Literals: `generate_literal` keeps value and (contextual) type. -/
namespace RsslVerif.Lemmas.GenSem
open RsslVerif.Gen.HlslGenTables RsslVerif.Model RsslVerif.Model.GenHlsl RsslVerif.Spec.Sem
open RsslVerif.Model.Ir (Ty Var Const)

/-- static type the emitted expression has: an unsuffixed typed constant is a literal int -/
def astTy (e : Ir.Expr) (t : Ty) : Ty := if Ir.litlike e then .lit else t

/-- value the emitted expression has -/
def astVal (e : Ir.Expr) (v : Val) : Val :=
  if Ir.litlike e then (match v with | .i x => .lit x.toInt | w => w) else v

/-- the emitted names denote the entities the IR referred to, with their declared types (C15's conclusion) -/
structure Agree (cx : Ctx) (env : Ast.Env) : Prop where
  res : ∀ x, env.res (cx.name x) = some x
  vty : env.vty = cx.vty
  fres : ∀ f, env.fres (cx.funcName f) = some f
  /-- no user function is called like a modelled built-in (reserved names, C15) -/
  builtin : ∀ p ∈ Ast.builtins, env.fres p.1 = none

/-- emitted expression `a` simulates IR expression `e` of type `t` -/
def Sim (W : World) (env : Ast.Env) (e : Ir.Expr) (a : HlslAst.Expr) (t : Ty) : Prop :=
  Ast.typeOf W.sig env a = some (astTy e t) ∧
  ∀ σ, Ast.eval W env a σ = (Ir.eval W e σ).map (fun r => (astVal e r.1, r.2))

theorem findArm_bool : findArm .Bool 0 = some (.plain .Bool) := by decide
theorem findArm_uint (v : Int) : findArm .UInt32 v = some (.widen .IntUnsigned32) := by
  simp [findArm, literalArms, guardHolds]
theorem findArm_f32 : findArm .Float32 0 = some (.plain .Float32) := by decide
theorem findArm_flit : findArm .FloatLiteral 0 = some (.plain .FloatUntyped) := by decide
theorem findArm_int32_neg (v : Int) (h : v < 0) : findArm .Int32 v = some (.negMinusAbs .IntUntyped) := by
  simp [findArm, literalArms, guardHolds, h]
theorem findArm_int32_nonneg (v : Int) (h : ¬ v < 0) : findArm .Int32 v = some (.widen .IntUntyped) := by
  simp [findArm, literalArms, guardHolds, h]
theorem findArm_intLit_neg (v : Int) (h : v < 0) (h2 : -v ≤ u64Max) : findArm .IntLiteral v = some (.negMinus .IntUntyped) := by
  simp [findArm, literalArms, guardHolds, h, h2]
theorem findArm_intLit_nonneg (v : Int) (h : 0 ≤ v) (h2 : v ≤ u64Max) : findArm .IntLiteral v = some (.widen .IntUntyped) := by
  have : ¬ v < 0 := by omega
  simp [findArm, literalArms, guardHolds, h, h2, this]
theorem findArm_intLit_big (v : Int) (h : ¬ (v < 0 ∧ -v ≤ u64Max)) (h2 : ¬ (0 ≤ v ∧ v ≤ u64Max)) :
    findArm .IntLiteral v = some (.errs "IntLiteralOutOfRange") := by
  have h' : ¬ (v < 0) ∨ ¬ (-v ≤ u64Max) := by
    by_cases a : v < 0
    · right; intro b; exact h ⟨a, b⟩
    · left; exact a
  have h2' : ¬ (0 ≤ v) ∨ ¬ (v ≤ u64Max) := by
    by_cases a : 0 ≤ v
    · right; intro b; exact h2 ⟨a, b⟩
    · left; exact a
  simp [findArm, literalArms, guardHolds]
  constructor
  · omega
  · omega

set_option linter.unusedSimpArgs false in
/-- `generate_literal` output has the same value, and its static type is the constant's type (literal int for an
unsuffixed `Int32`) -/
theorem sim_lit (W : World) (env : Ast.Env) (c : Const) (a : HlslAst.Expr)
    (hg : genLiteral c = .ok a) : Sim W env (.lit c) a c.ty := by
  cases c with
  | bool b =>
    simp [genLiteral, Const.kind, Const.intValue, findArm_bool, mkLit, Except.map] at hg
    subst hg
    simp [Sim, Ast.typeOf, Ast.litTy, astTy, Ir.litlike, Const.ty, Ast.eval, Ir.eval, Ast.litVal, Ir.constVal, astVal]
  | float32 x =>
    simp [genLiteral, Const.kind, Const.intValue, findArm_f32, mkLit, Except.map] at hg
    subst hg
    simp [Sim, Ast.typeOf, Ast.litTy, astTy, Ir.litlike, Const.ty, Ast.eval, Ir.eval, Ast.litVal, Ir.constVal, astVal]
  | floatLit x =>
    simp [genLiteral, Const.kind, Const.intValue, findArm_flit, mkLit, Except.map] at hg
    subst hg
    simp [Sim, Ast.typeOf, Ast.litTy, astTy, Ir.litlike, Const.ty, Ast.eval, Ir.eval, Ast.litVal, Ir.constVal, astVal]
  | uint32 v =>
    simp [genLiteral, Const.kind, Const.intValue, findArm_uint, mkLit, Except.map] at hg
    subst hg
    simp [Sim, Ast.typeOf, Ast.litTy, astTy, Ir.litlike, Const.ty, Ast.eval, Ir.eval, Ast.litVal, Ir.constVal, astVal]
  | intLit v =>
    by_cases h1 : v < 0 ∧ -v ≤ u64Max
    · simp [genLiteral, Const.kind, Const.intValue, findArm_intLit_neg v h1.1 h1.2, negMagnitude] at hg
      subst hg
      have : -((-v).toNat : Int) = v := by omega
      simp [Sim, Ast.typeOf, Ast.litTy, astTy, Ir.litlike, Const.ty, Ast.eval, Ir.eval, Ast.litVal, Ir.constVal, astVal,
        astUnSem, Ast.convR, Ast.convert, unop]
      omega
    · by_cases h2 : 0 ≤ v ∧ v ≤ u64Max
      · simp [genLiteral, Const.kind, Const.intValue, findArm_intLit_nonneg v h2.1 h2.2, mkLit, Except.map] at hg
        subst hg
        have : ((v.toNat : Nat) : Int) = v := by omega
        simp [Sim, Ast.typeOf, Ast.litTy, astTy, Ir.litlike, Const.ty, Ast.eval, Ir.eval, Ast.litVal, Ir.constVal, astVal, this]
      · simp [genLiteral, Const.kind, Const.intValue, findArm_intLit_big v h1 h2] at hg
  | int32 v =>
    by_cases h1 : v.toInt < 0
    · simp [genLiteral, Const.kind, Const.intValue, findArm_int32_neg _ h1, negMagnitude] at hg
      subst hg
      simp [Sim, Ast.typeOf, Ast.litTy, astTy, Ir.litlike, Const.ty, Ast.eval, Ir.eval, Ast.litVal, Ir.constVal, astVal,
        astUnSem, Ast.convR, Ast.convert, unop]
      omega
    · simp [genLiteral, Const.kind, Const.intValue, findArm_int32_nonneg _ h1, mkLit, Except.map] at hg
      subst hg
      have : ((v.toNat : Nat) : Int) = v.toInt := by
        rw [BitVec.toInt_eq_toNat_cond] at h1 ⊢
        split at h1 <;> split <;> omega
      simp [Sim, Ast.typeOf, Ast.litTy, astTy, Ir.litlike, Const.ty, Ast.eval, Ir.eval, Ast.litVal, Ir.constVal, astVal, this]
end RsslVerif.Lemmas.GenSem

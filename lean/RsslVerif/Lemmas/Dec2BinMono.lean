import RsslVerif.Lemmas.Dec2BinNearest
/-! # Monotonicity of the rounding reference: `x ≤ x'` ⟹ `nearestRat x ≤ nearestRat x'` (as bit patterns) -/
namespace RsslVerif.Spec.Dec2Bin

/-- rounding to the nearest integer (ties to even) is monotone: `A/B ≤ A'/B'` ⟹ `round ≤ round'` -/
theorem roundQuot_mono (A B A' B' : Nat) (hB : 0 < B) (hB' : 0 < B') (h : A * B' ≤ A' * B) :
    roundQuot A B ≤ roundQuot A' B' := by
  apply Nat.le_of_not_lt
  intro hlt
  have hh := roundQuot_half A B hB
  have hh' := roundQuot_half A' B' hB'
  have ht := roundQuot_tie_even A B hB
  have ht' := roundQuot_tie_even A' B' hB'
  generalize roundQuot A B = m at *
  generalize roundQuot A' B' = m' at *
  -- (2m-1)·B ≤ 2A   and   2A' ≤ (2m'+1)·B'
  have h1 : 2 * (m * B) * B' ≤ (2 * A + B) * B' := Nat.mul_le_mul hh.2 (Nat.le_refl _)
  have h2 : 2 * A' * B ≤ (2 * (m' * B') + B') * B := Nat.mul_le_mul hh'.1 (Nat.le_refl _)
  have h3 : 2 * (A * B') ≤ 2 * (A' * B) := Nat.mul_le_mul (Nat.le_refl _) h
  -- everything in terms of the atom  K = B·B'
  have e1 : 2 * (m * B) * B' = 2 * m * (B * B') := by ac_rfl
  have e2 : (2 * A + B) * B' = 2 * (A * B') + B * B' := by rw [Nat.add_mul]; ac_rfl
  have e3 : 2 * A' * B = 2 * (A' * B) := by ac_rfl
  have e4 : (2 * (m' * B') + B') * B = 2 * m' * (B * B') + B * B' := by rw [Nat.add_mul]; ac_rfl
  rw [e1, e2] at h1
  rw [e3, e4] at h2
  have hK : 0 < B * B' := Nat.mul_pos hB hB'
  -- 2m·K ≤ 2AB' + K ≤ 2A'B + K ≤ 2m'·K + 2K  ⟹  m ≤ m' + 1
  have h5 : 2 * m * (B * B') ≤ (2 * m' + 2) * (B * B') := by
    have : (2 * m' + 2) * (B * B') = 2 * m' * (B * B') + 2 * (B * B') := Nat.add_mul _ _ _
    omega
  have h6 : 2 * m ≤ 2 * m' + 2 := Nat.le_of_mul_le_mul_right h5 hK
  have hm : m = m' + 1 := by omega
  subst hm
  -- then every inequality is an equality: two ties, both significands even, yet consecutive
  have e5 : 2 * (m' + 1) * (B * B') = 2 * m' * (B * B') + 2 * (B * B') := by
    rw [Nat.mul_add, Nat.add_mul]
  rw [e5] at h1
  have hAeq : 2 * (A * B') + B * B' = 2 * m' * (B * B') + 2 * (B * B') := by omega
  have hA'eq : 2 * (A' * B) = 2 * m' * (B * B') + B * B' := by omega
  -- tie for (A, B): 2·((m'+1)·B) = 2A + B
  have t1 : 2 * ((m' + 1) * B) = 2 * A + B := by
    apply Nat.eq_of_mul_eq_mul_right hB'
    have : 2 * ((m' + 1) * B) * B' = 2 * m' * (B * B') + 2 * (B * B') := by
      rw [Nat.add_mul, Nat.one_mul, Nat.mul_add, Nat.add_mul]; ac_rfl
    rw [this, e2]; omega
  have t2 : 2 * A' = 2 * (m' * B') + B' := by
    apply Nat.eq_of_mul_eq_mul_right hB
    rw [e3, e4]; exact hA'eq
  have := ht (.inr t1)
  have := ht' (.inl t2)
  omega

/-- the chosen exponent is monotone in `x` -/
theorem chooseExp_mono (f : Fmt) (hp : 2 ≤ f.p) (N M N' M' : Nat) (hN : 0 < N) (hM : 0 < M) (hN' : 0 < N')
    (hM' : 0 < M') (h : N * M' ≤ N' * M) : chooseExp f N M ≤ chooseExp f N' M' := by
  obtain ⟨_, hlow⟩ := chooseExp_norm f hp N M hN hM
  obtain ⟨hup', _⟩ := chooseExp_norm f hp N' M' hN' hM'
  have hge' := chooseExp_ge f N' M'
  generalize chooseExp f N M = q at *
  generalize chooseExp f N' M' = q' at *
  apply Int.not_lt.mp
  intro hlt
  have hlow := hlow (by omega)
  unfold quotAt at hlow hup'
  rw [Nat.le_div_iff_mul_le (scale_pos N M q hM), scale_eq] at hlow
  rw [Nat.div_lt_iff_lt_mul (scale_pos N' M' q' hM'), scale_eq] at hup'
  dsimp only at hlow hup'
  have hpp : 2 ^ f.p = 2 * 2 ^ (f.p - 1) := by
    have : f.p = (f.p - 1) + 1 := by omega
    rw [this, Nat.pow_succ, Nat.mul_comm]; simp
  rw [hpp] at hup'
  -- 2^(w+u') ≥ 2·2^(w'+u)
  have hexp : 2 * (2 ^ q'.toNat * 2 ^ (-q).toNat) ≤ 2 ^ q.toNat * 2 ^ (-q').toNat := by
    rw [← Nat.pow_add, ← Nat.pow_add, ← Nat.pow_succ']
    apply Nat.pow_le_pow_right (by omega)
    omega
  have hP := two_pow_pos (f.p - 1)
  have hW := two_pow_pos q.toNat
  have hU := two_pow_pos (-q).toNat
  have hW' := two_pow_pos q'.toNat
  have hU' := two_pow_pos (-q').toNat
  generalize 2 ^ (f.p - 1) = P at *
  generalize 2 ^ q.toNat = W at *
  generalize 2 ^ (-q).toNat = U at *
  generalize 2 ^ q'.toNat = W' at *
  generalize 2 ^ (-q').toNat = U' at *
  -- X·(W·U') ≤ (N·M')·U·U' ≤ (N'·M)·U·U' < X·(2·W'·U) ≤ X·(W·U')   with X = P·M·M'
  have s1 : P * (M * W) * (M' * U') ≤ N * U * (M' * U') := Nat.mul_le_mul hlow (Nat.le_refl _)
  have s2 : N * M' * (U * U') ≤ N' * M * (U * U') := Nat.mul_le_mul h (Nat.le_refl _)
  have s3 : N' * U' * (M * U) < 2 * P * (M' * W') * (M * U) :=
    Nat.mul_lt_mul_of_lt_of_le hup' (Nat.le_refl _) (Nat.mul_pos hM hU)
  have s4 : P * M * M' * (2 * (W' * U)) ≤ P * M * M' * (W * U') := Nat.mul_le_mul (Nat.le_refl _) hexp
  have e1 : P * (M * W) * (M' * U') = P * M * M' * (W * U') := by ac_rfl
  have e2 : N * U * (M' * U') = N * M' * (U * U') := by ac_rfl
  have e3 : N' * U' * (M * U) = N' * M * (U * U') := by ac_rfl
  have e4 : 2 * P * (M' * W') * (M * U) = P * M * M' * (2 * (W' * U)) := by ac_rfl
  omega

/-- **nearest_monotone**: `N/M ≤ N'/M'` ⟹ `nearestRat f N M ≤ nearestRat f N' M'` (bit patterns of non-negative
floats are ordered like their values) -/
theorem nearestRat_mono (f : Fmt) (hp : 2 ≤ f.p) (N M N' M' : Nat) (hM : 0 < M) (hM' : 0 < M')
    (h : N * M' ≤ N' * M) : nearestRat f N M ≤ nearestRat f N' M' := by
  by_cases hN0 : N = 0
  · simp [nearestRat, hN0]
  have hN : 0 < N := Nat.pos_of_ne_zero hN0
  have hN' : 0 < N' := by
    apply Nat.pos_of_ne_zero; intro h0; subst h0
    have : 0 < N * M' := Nat.mul_pos hN hM'
    omega
  have hqq := chooseExp_mono f hp N M N' M' hN hM hN' hM' h
  obtain ⟨hn1, hn2⟩ := chooseExp_norm f hp N M hN hM
  obtain ⟨hn1', hn2'⟩ := chooseExp_norm f hp N' M' hN' hM'
  have hge := chooseExp_ge f N M
  unfold nearestRat
  rw [if_neg hN0, if_neg (Nat.pos_iff_ne_zero.mp hN')]
  dsimp only
  generalize chooseExp f N M = q at *
  generalize chooseExp f N' M' = q' at *
  have henc : encode f (roundQuot (scale N M q).1 (scale N M q).2) q ≤
      encode f (roundQuot (scale N' M' q').1 (scale N' M' q').2) q' := by
    unfold encode
    rcases Int.lt_or_eq_of_le hqq with hlt | heq
    · -- a higher binade
      have hm : roundQuot (scale N M q).1 (scale N M q).2 ≤ 2 ^ f.p := by
        unfold quotAt at hn1
        rcases roundQuot_cases (scale N M q).1 (scale N M q).2 with h | h <;> rw [h] <;> omega
      have hm' : 2 ^ (f.p - 1) ≤ roundQuot (scale N' M' q').1 (scale N' M' q').2 := by
        have := hn2' (by omega)
        unfold quotAt at this
        rcases roundQuot_cases (scale N' M' q').1 (scale N' M' q').2 with h | h <;> rw [h] <;> omega
      have hpp : 2 ^ f.p = 2 * 2 ^ (f.p - 1) := by
        have : f.p = (f.p - 1) + 1 := by omega
        rw [this, Nat.pow_succ, Nat.mul_comm]; simp
      have hj : (q - f.emin).toNat + 1 ≤ (q' - f.emin).toNat := by omega
      have : ((q - f.emin).toNat + 1) * 2 ^ (f.p - 1) ≤ (q' - f.emin).toNat * 2 ^ (f.p - 1) :=
        Nat.mul_le_mul hj (Nat.le_refl _)
      rw [Nat.add_mul, Nat.one_mul] at this
      omega
    · -- the same binade: the rounded significands are ordered
      subst heq
      apply Nat.add_le_add_left
      apply roundQuot_mono _ _ _ _ (scale_pos N M q hM) (scale_pos N' M' q hM')
      rw [scale_eq, scale_eq]
      dsimp only
      have : N * M' * (2 ^ (-q).toNat * 2 ^ q.toNat) ≤ N' * M * (2 ^ (-q).toNat * 2 ^ q.toNat) :=
        Nat.mul_le_mul h (Nat.le_refl _)
      have e1 : N * 2 ^ (-q).toNat * (M' * 2 ^ q.toNat) = N * M' * (2 ^ (-q).toNat * 2 ^ q.toNat) := by ac_rfl
      have e2 : N' * 2 ^ (-q).toNat * (M * 2 ^ q.toNat) = N' * M * (2 ^ (-q).toNat * 2 ^ q.toNat) := by ac_rfl
      rw [e1, e2]; exact this
  generalize encode f (roundQuot (scale N M q).1 (scale N M q).2) q = a at *
  generalize encode f (roundQuot (scale N' M' q').1 (scale N' M' q').2) q' = b at *
  show Nat.min a f.infBits ≤ Nat.min b f.infBits
  simp only [Nat.min_def]
  split <;> split <;> omega

end RsslVerif.Spec.Dec2Bin

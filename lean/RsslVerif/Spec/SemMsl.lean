import RsslVerif.Spec.SemStmt
import RsslVerif.Model.MslAst
/-!
# `Spec.SemMsl` — what the emitted Metal means (property C02, semantic half)

A C++14-like big-step semantics of the emitted syntax (`Model.HlslAst` expressions/statements, `Model.MslAst` functions),
over the value domain, the abstract primitives `Prim`, the stores, flows, modes and loop combinators of `Spec.Sem` /
`Spec.SemStmt` (shared with C01: the same primitive applied to the same arguments in the same order gives the same
result on both sides, whatever the hardware does).  The typed semantics of the IR is C01's `Ir.eval/exec/callFunc/phi`,
unchanged.

Where Metal differs from HLSL, the reading is spelled out here:

* **integer literals** have no "literal int" type: an unsuffixed decimal literal is `int` when it fits 31 bits, else
  `long` (64 bit) — `Ty.lit` / `Val.lit n` are *read as Metal's `long`* in this file (`-2^63 ≤ n < 2^63`, arithmetic wraps
  at 64 bits); `3u` is `uint`; `1.0f` **and** the unsuffixed `1.0` are `float` (Metal has no `double`; the unsuffixed
  literal is the double rounded to float, `Prim.d2f`).
* **usual arithmetic conversions** as in C++: `bool` is promoted to `int` before any arithmetic, bitwise or relational
  operator (so `b1 & b2` is an `int` 0/1, not a `bool`); `int`,`uint` → `uint`; anything with `long` → `long`; anything
  with `float` → `float`.  The operands of `?:` keep their common type when they already agree (`bool ? bool : bool`).
* **shifts**: the result has the promoted type of the *left* operand; the count is the right operand taken modulo the
  width of that type (Metal Shading Language Specification, "the shift count is the log2(N) least significant bits").
* `int` / `uint` arithmetic wraps (two's complement, as the IR's); integer division and remainder are `Prim.idiv/imod`
  (division by zero, `INT_MIN / -1`: whatever the device does, the same on both sides); float↔int conversions and float
  arithmetic are `Prim`; `metal::fmod` is the float remainder `Prim.fbin .mod` (the IR's `%` on floats).  The operators
  `%` and `%=` themselves are NOT defined on `float` (Metal has no remainder operator for floating-point operands): no
  static type, no value.  (Until fix batch 3 this reading gave `x %= y` on floats the fmod meaning, because the exporter
  emitted it — known finding metal-remainder-operator-on-floats, repaired by 92d66eb + 35faaaa.)
* `&&`, `||`, `?:` short-circuit, `,` and function arguments are evaluated left to right, an assignment yields the stored
  value, `x op= e` computes in the common type and converts back, conditions are contextually converted to `bool`.
* **calls** pass `T name` parameters by value (converted to `T`, stored in the callee's frame slot) and `thread T& name`
  parameters **by reference**: the argument must be an identifier denoting a variable of type exactly `T`, and inside the
  callee `name` denotes *that variable's location*.  Overloads of one name are told apart by the tag argument
  `metal::true_type()` (trampoline target) — the only overloading the exporter produces.
* **frames**: a function's locals live at the slots its `Layout.frame` assigns (the flat-store reading of C01: a
  declaration without initialiser leaves the slot's content as it is); slots listed in `Layout.scratch` are *reclaimed at
  return* (their content reverts to what it was at entry) — used for the trampoline's `out`, which has no counterpart in
  the source program.
-/
namespace RsslVerif.Spec.Sem
open RsslVerif.Gen.HlslGenTables RsslVerif.Model
open RsslVerif.Model.Ir (Ty Var Const Dir)

namespace Msl
open RsslVerif.Model.HlslAst

/-! ## values of type `long`, conversions -/

def wrap64 (n : Int) : Int := (BitVec.ofInt 64 n).toInt

def inInt32 (n : Int) : Bool := decide (-2147483648 ≤ n) && decide (n ≤ 2147483647)

/-- a literal's type is given by its spelling -/
def litTy : Lit → Option Ty
  | .bool _ => some .bool
  | .intUntyped n => if n < 2147483648 then some .int else if n < 9223372036854775808 then some .lit else none
  | .intUnsigned32 n => if n < 4294967296 then some .uint else none
  | .float32 _ => some .float
  | .floatUntyped _ => some .float

def litVal (P : Prim) : Lit → Val
  | .bool b => .b b
  | .intUntyped n => if n < 2147483648 then .i (BitVec.ofNat 32 n) else .lit n
  | .intUnsigned32 n => .u (BitVec.ofNat 32 n)
  | .float32 x => .f x
  | .floatUntyped d => .f (P.d2f d)

/-- integer promotion -/
def promote : Ty → Ty
  | .bool => .int
  | t => t

def isInteger : Ty → Bool
  | .int | .uint | .lit => true
  | _ => false

/-- usual arithmetic conversions (after promotion) -/
def common (a b : Ty) : Option Ty :=
  match promote a, promote b with
  | .float, .float | .float, .int | .float, .uint | .float, .lit | .int, .float | .uint, .float | .lit, .float => some .float
  | .lit, .lit | .lit, .int | .lit, .uint | .int, .lit | .uint, .lit => some .lit
  | .uint, .uint | .uint, .int | .int, .uint => some .uint
  | .int, .int => some .int
  | _, _ => none

/-- common type of the second and third operand of `?:` -/
def ternCommon (a b : Ty) : Option Ty := if a = b then some a else common a b

/-- conversion of a value of static type `from_` to the type `to`: what `castVal` does, except that a `long` becomes a
`float` only when an `int` can hold it (the shared primitives know no 64-bit conversion) and nothing converts to the
unnameable literal float type.  Every decision is taken on the *static* type, as a compiler does. -/
def castM (P : Prim) (from_ to : Ty) (v : Val) : Option Val :=
  if to = .flit then none
  else if from_ = .lit ∧ to = .float then
    match v with
    | .lit n => if inInt32 n then castVal P .float v else none
    | _ => none
  else castVal P to v

/-- implicit conversion from static type `from_` to `to` -/
def convert (P : Prim) (from_ to : Ty) (v : Val) : Option Val :=
  if from_ = to then some v else castM P from_ to v

def convR (P : Prim) (from_ to : Ty) (r : R Val) : R Val :=
  match r with
  | none => none
  | some (v, σ) =>
    match convert P from_ to v with
    | none => none
    | some v' => some (v', σ)

/-- explicit cast `(to)e` of an operand of static type `from_` -/
def castR (P : Prim) (from_ to : Ty) (r : R Val) : R Val :=
  match r with
  | none => none
  | some (v, σ) =>
    match castM P from_ to v with
    | none => none
    | some v' => some (v', σ)

def longBits (m : MBin) (a b : Int) : Int :=
  let x := BitVec.ofInt 64 a
  let y := BitVec.ofInt 64 b
  match m with
  | .band => (x &&& y).toInt
  | .bor => (x ||| y).toInt
  | _ => (x ^^^ y).toInt

/-- arithmetic on two `long` operands -/
def longBin (m : MBin) (a b : Int) : Option Val :=
  if m.isCmp then some (.b (litCmp m a b)) else
  match m with
  | .add => some (.lit (wrap64 (a + b)))
  | .sub => some (.lit (wrap64 (a - b)))
  | .mul => some (.lit (wrap64 (a * b)))
  | .div => if b = 0 ∨ (a = -9223372036854775808 ∧ b = -1) then none else some (.lit (Int.tdiv a b))
  | .mod => if b = 0 ∨ (a = -9223372036854775808 ∧ b = -1) then none else some (.lit (Int.tmod a b))
  | .band | .bor | .bxor => some (.lit (longBits m a b))
  | _ => none

/-- arithmetic on two `long` operands given as values -/
def longBinV (m : MBin) : Val → Val → Option Val
  | .lit x, .lit y => longBin m x y
  | _, _ => none

/-- a binary operator other than a shift on two operands already converted to their common type `T` -/
def binopM (P : Prim) (T : Ty) (m : MBin) (a b : Val) : Option Val :=
  if T = .lit then longBinV m a b else if m = .mod ∧ T = .float then none else binop P m a b

def shiftCount (width : Nat) : Val → Option Nat
  | .i x => some (x.toNat % width)
  | .u x => some (x.toNat % width)
  | .lit n => some (n % (width : Int)).toNat
  | _ => none

/-- `l << c` / `l >> c` for operands of different promoted types: the count is taken modulo the width of `l` -/
def shiftMixed (left : Bool) (l c : Val) : Option Val :=
  match l with
  | .i a => (shiftCount 32 c).map fun k => .i (if left then a <<< k else a.sshiftRight k)
  | .u a => (shiftCount 32 c).map fun k => .u (if left then a <<< k else a >>> k)
  | .lit n => (shiftCount 64 c).map fun k => .lit (if left then wrap64 (n * 2 ^ k) else n / 2 ^ k)
  | _ => none

/-- a shift of promoted operands of static types `TL`, `TC`: for two `int`s or two `uint`s this is the machine shift of
`Spec.Sem.intArith` (count modulo 32), the one the IR's typed shift denotes -/
def shiftM (P : Prim) (TL TC : Ty) (m : MBin) (l c : Val) : Option Val :=
  if TL = TC ∧ TL ≠ .lit then binop P m l c else shiftMixed (m == .shl) l c

def isShift : MBin → Bool
  | .shl | .shr => true
  | _ => false

/-- unary `-`, `+`, `~` on an operand promoted to static type `T` -/
def unopM (P : Prim) (T : Ty) (m : MUn) (v : Val) : Option Val :=
  if T = .lit then
    match v, m with
    | .lit n, .neg => some (.lit (wrap64 (-n)))
    | .lit n, .plus => some (.lit n)
    | .lit n, .bnot => some (.lit (-n - 1))
    | _, _ => none
  else unop P m v

/-! ## calls by value and by reference -/

/-- how a parameter receives its argument -/
inductive PK where
  | val | ref | tag
  deriving DecidableEq, Repr, Inhabited

/-- an evaluated argument: a converted value, the location an identifier denotes, or the tag -/
inductive MArg where
  | val (v : Val)
  | ref (x : Var)
  | tag
  deriving DecidableEq, Repr, Inhabited

/-- a callable Metal function (`target` selects the overload with the tag parameter): arguments, store ↦ return value and
final store (results of reference parameters are in the store); `none` = stuck / out of fuel -/
abbrev MFEnv := Nat → Bool → List MArg → Store → Option (Val × Store)

/-- return type and parameter kinds/types of the overload of a function id -/
abbrev MSig := Nat → Bool → Option (Ty × List (PK × Ty))

structure MWorld where
  P : Prim
  mphi : MFEnv
  msig : MSig

def tagName : String := "metal::true_type"
def fmodName : String := "metal::fmod"

def isTagArg : Expr → Bool
  | .call n .nil => n == tagName
  | _ => false

def hasTagArg : Exprs → Bool
  | .nil => false
  | .cons e r => isTagArg e || hasTagArg r

def lvalOf (env : Ast.Env) : Expr → Option Var
  | .ident s => env.res s
  | _ => none

mutual
/-- static type of an expression (C++ rules) -/
def typeOf (sig : MSig) (env : Ast.Env) : Expr → Option Ty
  | .lit l => litTy l
  | .ident s => (env.res s).map env.vty
  | .un op e =>
    match astUnSem op, typeOf sig env e with
    | .un .lnot, some _ => some .bool
    | .un _, some t => some (promote t)
    | .incdec _ _, some t => some t
    | _, _ => none
  | .bin op a b =>
    match astBinSem op, typeOf sig env a, typeOf sig env b with
    | .bin m, some ta, some tb =>
      if isShift m then (if isInteger (promote ta) && isInteger (promote tb) then some (promote ta) else none)
      else
        match common ta tb with
        | none => none
        | some t => if m = .mod ∧ t = .float then none else if m.isCmp then some .bool else some t
    | .land, some _, some _ => some .bool
    | .lor, some _, some _ => some .bool
    | .assign, some ta, some _ => some ta
    | .compound m, some ta, some tb => if m = .mod ∧ common ta tb = some .float then none else some ta
    | .comma, some _, some tb => some tb
    | _, _, _ => none
  | .tern c t f =>
    match typeOf sig env c, typeOf sig env t, typeOf sig env f with
    | some _, some tt, some tf => ternCommon tt tf
    | _, _, _ => none
  | .cast n e =>
    match typeOf sig env e with
    | none => none
    | some _ => Ast.tyOfName n
  | .call n args =>
    if n == fmodName then
      match argTypes sig env args with
      | some [_, _] => some .float
      | _ => none
    else
      match env.fres n with
      | none => none
      | some f =>
        match sig f (hasTagArg args) with
        | none => none
        | some (rt, _) => some rt
/-- the static types of a list of value arguments -/
def argTypes (sig : MSig) (env : Ast.Env) : Exprs → Option (List Ty)
  | .nil => some []
  | .cons a r =>
    match typeOf sig env a, argTypes sig env r with
    | some t, some l => some (t :: l)
    | _, _ => none
end

mutual
/-- big-step evaluation of an expression of the emitted Metal -/
def eval (M : MWorld) (env : Ast.Env) : Expr → Store → R Val
  | .lit l, σ =>
    match litTy l with
    | none => none
    | some _ => some (litVal M.P l, σ)
  | .ident s, σ =>
    match env.res s with
    | none => none
    | some x => some (σ x, σ)
  | .cast n e, σ =>
    match Ast.tyOfName n, typeOf M.msig env e with
    | some t, some te => castR M.P te t (eval M env e σ)
    | _, _ => none
  | .tern c t f, σ =>
    match typeOf M.msig env c, typeOf M.msig env t, typeOf M.msig env f with
    | some tc, some tt, some tf =>
      match ternCommon tt tf with
      | none => none
      | some T =>
        match convR M.P tc .bool (eval M env c σ) with
        | some (.b true, σ1) => convR M.P tt T (eval M env t σ1)
        | some (.b false, σ1) => convR M.P tf T (eval M env f σ1)
        | _ => none
    | _, _, _ => none
  | .call n args, σ =>
    if n == fmodName then evalFmod M env args σ
    else
      match env.fres n with
      | none => none
      | some f =>
        match M.msig f (hasTagArg args) with
        | none => none
        | some (_, ps) =>
          match evalArgs M env args ps σ with
          | none => none
          | some (margs, σ1) => M.mphi f (hasTagArg args) margs σ1
  | .un op e, σ =>
    match astUnSem op with
    | .un m =>
      match typeOf M.msig env e with
      | none => none
      | some te =>
        match convR M.P te (if m = .lnot then .bool else promote te) (eval M env e σ) with
        | none => none
        | some (v, σ1) =>
          match (if m = .lnot then unop M.P m v else unopM M.P (promote te) m v) with
          | none => none
          | some r => some (r, σ1)
    | .incdec pre inc =>
      match lvalOf env e with
      | none => none
      | some x =>
        match step M.P inc (σ x) with
        | none => none
        | some v' => some (if pre then v' else σ x, σ.set x v')
    | _ => none
  | .bin op a b, σ =>
    match astBinSem op with
    | .bin m =>
      match typeOf M.msig env a, typeOf M.msig env b with
      | some ta, some tb =>
        if isShift m then
          match convR M.P ta (promote ta) (eval M env a σ) with
          | none => none
          | some (va, σ1) =>
            match convR M.P tb (promote tb) (eval M env b σ1) with
            | none => none
            | some (vb, σ2) =>
              match shiftM M.P (promote ta) (promote tb) m va vb with
              | none => none
              | some r => some (r, σ2)
        else
          match common ta tb with
          | none => none
          | some T =>
            match convR M.P ta T (eval M env a σ) with
            | none => none
            | some (va, σ1) =>
              match convR M.P tb T (eval M env b σ1) with
              | none => none
              | some (vb, σ2) =>
                match binopM M.P T m va vb with
                | none => none
                | some r => some (r, σ2)
      | _, _ => none
    | .land =>
      match typeOf M.msig env a, typeOf M.msig env b with
      | some ta, some tb =>
        match convR M.P ta .bool (eval M env a σ) with
        | some (.b false, σ1) => some (.b false, σ1)
        | some (.b true, σ1) =>
          match convR M.P tb .bool (eval M env b σ1) with
          | some (.b r, σ2) => some (.b r, σ2)
          | _ => none
        | _ => none
      | _, _ => none
    | .lor =>
      match typeOf M.msig env a, typeOf M.msig env b with
      | some ta, some tb =>
        match convR M.P ta .bool (eval M env a σ) with
        | some (.b true, σ1) => some (.b true, σ1)
        | some (.b false, σ1) =>
          match convR M.P tb .bool (eval M env b σ1) with
          | some (.b r, σ2) => some (.b r, σ2)
          | _ => none
        | _ => none
      | _, _ => none
    | .assign =>
      match lvalOf env a, typeOf M.msig env b with
      | some x, some tb =>
        match convR M.P tb (env.vty x) (eval M env b σ) with
        | none => none
        | some (v, σ1) => some (v, σ1.set x v)
      | _, _ => none
    | .compound m =>
      match lvalOf env a, typeOf M.msig env b with
      | some x, some tb =>
        if isShift m then
          match convR M.P tb (promote tb) (eval M env b σ) with
          | none => none
          | some (vb, σ1) =>
            match convert M.P (env.vty x) (promote (env.vty x)) (σ1 x) with
            | none => none
            | some cur =>
              match shiftM M.P (promote (env.vty x)) (promote tb) m cur vb with
              | none => none
              | some r =>
                match convert M.P (promote (env.vty x)) (env.vty x) r with
                | none => none
                | some r' => some (r', σ1.set x r')
        else
          match common (env.vty x) tb with
          | none => none
          | some C =>
            match convR M.P tb C (eval M env b σ) with
            | none => none
            | some (vb, σ1) =>
              match convert M.P (env.vty x) C (σ1 x) with
              | none => none
              | some cur =>
                match binopM M.P C m cur vb with
                | none => none
                | some r =>
                  match convert M.P C (env.vty x) r with
                  | none => none
                  | some r' => some (r', σ1.set x r')
      | _, _ => none
    | .comma =>
      match typeOf M.msig env a with
      | none => none
      | some _ =>
        match eval M env a σ with
        | none => none
        | some (_, σ1) => eval M env b σ1
    | _ => none
/-- `metal::fmod(a, b)`: both arguments converted to `float`, left to right; the float remainder (`Prim.fbin .mod`) -/
def evalFmod (M : MWorld) (env : Ast.Env) : Exprs → Store → R Val
  | .cons a (.cons b .nil), σ =>
    match typeOf M.msig env a, typeOf M.msig env b with
    | some ta, some tb =>
      match convR M.P ta .float (eval M env a σ) with
      | none => none
      | some (x, σ1) =>
        match convR M.P tb .float (eval M env b σ1) with
        | none => none
        | some (y, σ2) =>
          match binop M.P .mod x y with
          | none => none
          | some r => some (r, σ2)
    | _, _ => none
  | _, _ => none
/-- arguments left to right: a by-value argument is converted to the parameter type; a reference parameter binds to the
variable the argument names, which must have exactly the parameter's type; the tag parameter takes the tag -/
def evalArgs (M : MWorld) (env : Ast.Env) : Exprs → List (PK × Ty) → Store → Option (List MArg × Store)
  | .nil, [], σ => some ([], σ)
  | .nil, _ :: _, _ => none
  | .cons _ _, [], _ => none
  | .cons e r, (k, T) :: ps, σ =>
    match k with
    | .val =>
      match typeOf M.msig env e with
      | none => none
      | some te =>
        match convR M.P te T (eval M env e σ) with
        | none => none
        | some (v, σ1) =>
          match evalArgs M env r ps σ1 with
          | none => none
          | some (l, σ2) => some (.val v :: l, σ2)
    | .ref =>
      match lvalOf env e with
      | none => none
      | some x =>
        if env.vty x = T then
          match evalArgs M env r ps σ with
          | none => none
          | some (l, σ2) => some (.ref x :: l, σ2)
        else none
    | .tag =>
      if isTagArg e then
        match evalArgs M env r ps σ with
        | none => none
        | some (l, σ2) => some (.tag :: l, σ2)
      else none
end

/-! ## statements -/

/-- condition: must be well-typed; contextually converted to `bool` -/
def condE (M : MWorld) (env : Ast.Env) (c : Expr) (σ : Store) : Option (Bool × Store) :=
  match typeOf M.msig env c with
  | none => none
  | some _ => condOfB M.P (eval M env c σ)

def execVarDef (M : MWorld) (env : Ast.Env) (T : Ty) (name : String) (init : Option Expr) (σ : Store) : Option Store :=
  match env.res name with
  | none => none
  | some x =>
    match init with
    | none => some σ
    | some e =>
      match typeOf M.msig env e with
      | none => none
      | some te => setOf x (convR M.P te T (eval M env e σ))

def execForDefs (M : MWorld) (env : Ast.Env) (T : Ty) : List (String × Option Expr) → Store → Option Store
  | [], σ => some σ
  | (name, init) :: r, σ =>
    match execVarDef M env T name init σ with
    | none => none
    | some σ1 => execForDefs M env T r σ1

def execForInit (M : MWorld) (env : Ast.Env) : ForInit → Store → Option Store
  | .empty, σ => some σ
  | .expr e, σ => dropVal (eval M env e σ)
  | .decl ty ds, σ =>
    match Ast.tyOfName ty with
    | none => none
    | some T => execForDefs M env T ds σ

def condFn (M : MWorld) (env : Ast.Env) : Option Expr → Store → Option (Bool × Store)
  | none => alwaysTrue
  | some c => condE M env c

def incFn (M : MWorld) (env : Ast.Env) : Option Expr → Store → Option Store
  | none => some
  | some e => fun σ => dropVal (eval M env e σ)

mutual
/-- `rt` = declared return type of the enclosing function (a `return` converts to it) -/
def exec (M : MWorld) (env : Ast.Env) (rt : Ty) (fuel : Nat) (m : Mode) : Stmt → Store → SR
  | .expr e, σ => skip m σ fun _ => normalOf (dropVal (eval M env e σ))
  | .var ty name init, σ => skip m σ fun _ =>
    match Ast.tyOfName ty with
    | none => none
    | some T => normalOf (execVarDef M env T name init σ)
  | .block b, σ => skip m σ fun _ => execs M env rt fuel .run b σ
  | .ifThen c b, σ => skip m σ fun _ =>
    match condE M env c σ with
    | none => none
    | some (true, σ1) => exec M env rt fuel .run b σ1
    | some (false, σ1) => some (.normal, σ1)
  | .ifElse c t f, σ => skip m σ fun _ =>
    match condE M env c σ with
    | none => none
    | some (true, σ1) => exec M env rt fuel .run t σ1
    | some (false, σ1) => exec M env rt fuel .run f σ1
  | .for init cond inc b, σ => skip m σ fun _ =>
    match execForInit M env init σ with
    | none => none
    | some σ0 => loopW fuel (condFn M env cond) (fun s => exec M env rt fuel .run b s) (incFn M env inc) σ0
  | .while c b, σ => skip m σ fun _ => loopW fuel (condFn M env (some c)) (fun s => exec M env rt fuel .run b s) some σ
  | .doWhile b c, σ => skip m σ fun _ => loopD fuel (fun s => exec M env rt fuel .run b s) (condFn M env (some c)) σ
  | .break, σ => skip m σ fun _ => some (.brk, σ)
  | .continue, σ => skip m σ fun _ => some (.cont, σ)
  | .ret none, σ => skip m σ fun _ => some (.ret none, σ)
  | .ret (some e), σ => skip m σ fun _ =>
    match typeOf M.msig env e with
    | none => none
    | some te => retOf (convR M.P te rt (eval M env e σ))
  | .empty, σ => endOf m σ
  | .switch c body, σ => skip m σ fun _ =>
    match body with
    | .block b =>
      match typeOf M.msig env c with
      | none => none
      | some tc =>
        -- the controlling expression undergoes integer promotion; the labels are converted to the promoted type
        if isInteger (promote tc) then
          match convR M.P tc (promote tc) (eval M env c σ) with
          | none => none
          | some (v, σ1) =>
            switchOut (execs M env rt fuel (.seekCase (promote tc) v) b σ1) (fun s => execs M env rt fuel .seekDefault b s)
        else none
    | _ => none
  | .caseLabel e s, σ =>
    match m with
    | .run => exec M env rt fuel .run s σ
    | .seekCase T v =>
      match typeOf M.msig env e with
      | none => none
      | some te =>
        match convR M.P te T (eval M env e σ) with
        | none => none
        | some (ev, _) => if ev = v then exec M env rt fuel .run s σ else exec M env rt fuel m s σ
    | .seekDefault => exec M env rt fuel m s σ
  | .defaultLabel s, σ =>
    match m with
    | .seekCase _ _ => exec M env rt fuel m s σ
    | _ => exec M env rt fuel .run s σ
def execs (M : MWorld) (env : Ast.Env) (rt : Ty) (fuel : Nat) (m : Mode) : Stmts → Store → SR
  | .nil, σ => endOf m σ
  | .cons s r, σ =>
    match exec M env rt fuel m s σ with
    | none => none
    | some (.normal, σ1) => execs M env rt fuel .run r σ1
    | some (.seeking, σ1) => execs M env rt fuel m r σ1
    | some (fl, σ1) => some (fl, σ1)
end

/-! ## functions and programs -/

/-- what the C++ front end and the ABI fix for a module: where each function keeps its locals and by-value parameters
(and where the file-scope constants are), the declared type of every location, which function a name denotes, and the
slots of a function that are reclaimed when it returns -/
structure Layout where
  frame : String → String → Option Var
  vty : Var → Ty
  fres : String → Option Nat
  scratch : String → List Var

/-- bind the parameters: a by-value parameter is stored in its frame slot, a reference parameter's *name* is bound to
the argument's location, the tag parameter has no name -/
def bindArgs (slot : String → Option Var) :
    List MslAst.Param → List MArg → (String → Option Var) → Store → Option ((String → Option Var) × Store)
  | [], [], ρ, σ => some (ρ, σ)
  | .val _ name :: ps, .val v :: as, ρ, σ =>
    match slot name with
    | none => none
    | some x => bindArgs slot ps as ρ (σ.set x v)
  | .ref _ _ name :: ps, .ref x :: as, ρ, σ => bindArgs slot ps as (fun s => if s = name then some x else ρ s) σ
  | .tag _ :: ps, .tag :: as, ρ, σ => bindArgs slot ps as ρ σ
  | _, _, _, _ => none

/-- the content of the slots in `dead` reverts to what it was in `σ0` -/
def restore (dead : List Var) (σ0 σ1 : Store) : Store := fun x => if dead.contains x then σ0 x else σ1 x

/-- run an emitted definition on evaluated arguments -/
def callFunc (M : MWorld) (L : Layout) (fuel : Nat) (fn : MslAst.Func) (margs : List MArg) (σ : Store) : Option (Val × Store) :=
  match Ast.tyOfName fn.ret, bindArgs (L.frame fn.name) fn.params margs (L.frame fn.name) σ with
  | some rt, some (ρ, σ0) =>
    match execs M { res := ρ, vty := L.vty, fres := L.fres } rt fuel .run fn.body σ0 with
    | none => none
    | some (fl, σ1) => some (Ir.retVal fl, restore (L.scratch fn.name) σ σ1)
  | _, _ => none

def paramSig : List MslAst.Param → Option (List (PK × Ty))
  | [] => some []
  | .val t _ :: ps =>
    match Ast.tyOfName t, paramSig ps with
    | some T, some l => some ((.val, T) :: l)
    | _, _ => none
  | .ref _ t _ :: ps =>
    match Ast.tyOfName t, paramSig ps with
    | some T, some l => some ((.ref, T) :: l)
    | _, _ => none
  | .tag _ :: ps =>
    match paramSig ps with
    | some l => some ((.tag, .void) :: l)
    | none => none

/-- overload resolution of the emitted program: by name and by presence of the tag parameter -/
def lookup (L : Layout) (prog : List MslAst.Func) (f : Nat) (target : Bool) : Option MslAst.Func :=
  prog.find? fun fn => L.fres fn.name == some f && fn.isTarget == target

def sigOf (L : Layout) (prog : List MslAst.Func) : MSig := fun f target =>
  match lookup L prog f target with
  | none => none
  | some fn =>
    match Ast.tyOfName fn.ret, paramSig fn.params with
    | some rt, some ps => some (rt, ps)
    | _, _ => none

/-- the callable functions of an emitted program at call depth ≤ `d`.  A call of a tagged overload (trampoline → its
target) does not count towards the depth: the target's own calls are resolved at depth `d`, like the calls of the body
of a function that needs no trampoline — one source-level call is one unit of depth on both sides. -/
def phi (P : Prim) (L : Layout) (prog : List MslAst.Func) (fuel : Nat) : Nat → MFEnv
  | 0 => fun _ _ _ _ => none
  | d + 1 => fun f target margs σ =>
    let inner : MWorld := { P := P, mphi := phi P L prog fuel d, msig := sigOf L prog }
    match lookup L prog f target with
    | none => none
    | some fn =>
      if target then callFunc inner L fuel fn margs σ
      else
        callFunc { P := P, msig := sigOf L prog,
                   mphi := fun f' t' a s =>
                     if t' then
                       match lookup L prog f' true with
                       | none => none
                       | some fn' => callFunc inner L fuel fn' a s
                     else phi P L prog fuel d f' false a s } L fuel fn margs σ

end Msl
end RsslVerif.Spec.Sem

import RsslVerif.Lemmas.GenMslBind
/-! Metal exporter: `trampoline_copy_semantics` — a call of the emitted trampoline with arbitrary caller variables for
its reference parameters is copy-in / typed function / copy-out. -/
namespace RsslVerif.Lemmas.GenMsl
open RsslVerif.Gen.HlslGenTables RsslVerif.Gen.MslGenTables RsslVerif.Model RsslVerif.Model.GenMsl RsslVerif.Spec.Sem
open RsslVerif.Model.Ir (Ty Var Const Dir)
open RsslVerif.Model.GenHlsl (GenErr)
set_option linter.unusedSimpArgs false

/-- the frame of a trampoline as the layout fixes it: by-value parameters and the locals `__p` at the parameter slots of
the typed function, `out` at a scratch slot of its own (reclaimed at return), all names involved distinct -/
structure AgreeT (cx : Ctx) (L : Msl.Layout) (fn : Ir.Func) (gs : List Nat) (xo : Var) : Prop where
  vty : L.vty = cx.vty
  fres : L.fres (cx.funcName fn.id) = some fn.id
  notFmod : cx.funcName fn.id ≠ Msl.fmodName
  slotP : ∀ p ∈ fn.params, L.frame (cx.funcName fn.id) (cx.locName p.1) = some (.loc p.1)
  slotT : ∀ p ∈ fn.params, L.frame (cx.funcName fn.id) (trampLocal cx p.1) = some (.loc p.1)
  slotO : L.frame (cx.funcName fn.id) trampolineResultName = some xo
  scratch : L.scratch (cx.funcName fn.id) = [xo]
  tyO : cx.vty xo = fn.ret
  xoFresh : xo ∉ slotsOf fn.params
  ids : (fn.params.map (·.1)).Nodup
  names : (fn.params.map fun p => cx.locName p.1).Nodup
  namesT : ∀ p ∈ fn.params, trampLocal cx p.1 ∉ (fn.params.map fun q => cx.locName q.1) ∧ trampLocal cx p.1 ∉ gs.map cx.globName
  namesO : trampolineResultName ∉ (fn.params.map fun q => cx.locName q.1) ∧ trampolineResultName ∉ gs.map cx.globName
  namesG : (gs.map cx.globName).Nodup ∧ ∀ p ∈ fn.params, cx.locName p.1 ∉ gs.map cx.globName

theorem tenv_of_userenv {cx : Ctx} {vty : Var → Ty} {slots : List Var} {xo : Var} (frame ρ1 ρ2 : String → Option Var)
    (vtyE : Var → Ty) (fresE : String → Option Nat) (G : List String)
    (h12 : ∀ s, s ∉ G → ρ2 s = ρ1 s) :
    ∀ (ps : Params) (l : CArgs), ArgsOK vty slots xo ps l → UserEnv cx frame ρ1 ps l →
      (∀ p ∈ ps, cx.locName p.1 ∉ G ∧ trampLocal cx p.1 ∉ G ∧ frame (cx.locName p.1) = some (.loc p.1) ∧
        ρ1 (trampLocal cx p.1) = some (.loc p.1)) →
      TEnv cx { res := ρ2, vty := vtyE, fres := fresE } ps l
  | [], [], _, _, _ => by simp [TEnv]
  | [], _ :: _, h, _, _ => by simp [ArgsOK] at h
  | _ :: _, [], h, _, _ => by simp [ArgsOK] at h
  | (pid, d, T) :: ps, (v, o) :: l, h, hu, hf => by
    simp only [ArgsOK] at h
    simp only [UserEnv] at hu
    obtain ⟨f1, f2, f3, f4⟩ := hf (pid, d, T) (by simp)
    simp only [TEnv]
    refine ⟨?_, tenv_of_userenv frame ρ1 ρ2 vtyE fresE G h12 ps l h.2.2 hu.2 (fun p hp => hf p (List.mem_cons_of_mem _ hp))⟩
    cases o with
    | none => simp only []; rw [h12 _ f1, hu.1, f3]
    | some x => simp only []; exact ⟨by rw [h12 _ f1, hu.1], by rw [h12 _ f2, f4]⟩

theorem valsIn_length {vty : Var → Ty} {slots : List Var} {xo : Var} :
    ∀ (ps : Params) (l : CArgs) (σ : Store), ArgsOK vty slots xo ps l → (valsIn ps l σ).length = ps.length
  | [], [], σ, _ => rfl
  | [], _ :: _, σ, h => by simp [ArgsOK] at h
  | _ :: _, [], σ, h => by simp [ArgsOK] at h
  | (pid, d, T) :: ps, (v, o) :: l, σ, h => by
    simp only [ArgsOK] at h
    simp [valsIn, valsIn_length ps l σ h.2.2]

theorem bindParams_self : ∀ (ps : Params) (σ : Store), Ir.bindParams ps (ps.map fun p => σ (.loc p.1)) σ = σ
  | [], σ => rfl
  | (pid, d, T) :: ps, σ => by
    simp only [List.map_cons, Ir.bindParams]
    have hs : σ.set (.loc pid) (σ (.loc pid)) = σ := set_self σ _
    conv => lhs; rw [hs]
    exact bindParams_self ps σ

/-- **`trampoline_copy_semantics`** (store form): the emitted trampoline, called with by-value arguments `v` for the `in`
parameters and *arbitrary variables* `x` (outside its own slots; possibly equal to one another or to statics) for the
out/inout parameters, plus references to the statics: evaluates to the typed function entered with the values `valsIn`
(for inout the current content of `x`), whose final parameter values are then written back to the variables in
parameter order, on top of the typed function's final store. -/
theorem trampoline_copy {W : World} {cx : Ctx} {L : Msl.Layout} {fn : Ir.Func} {gs : List Nat} {xo : Var}
    (hA : AgreeT cx L fn gs xo) (M : Msl.MWorld) (fuel : Nat) (t : MslAst.Func)
    (hreq : cx.req fn.id = some gs) (hg : genFuncInner cx fn false true = .ok t)
    (htyP : ∀ p ∈ fn.params, cx.vty (.loc p.1) = p.2.2)
    (hsig : M.msig fn.id true = some (fn.ret, mParamsOf fn.params ++ (Msl.PK.tag, Ty.void) :: globParams cx gs))
    (hT : ∀ σ', M.mphi fn.id true (slotArgs fn.params (fn.params.map fun p => σ' (.loc p.1)) ++ Msl.MArg.tag :: globMArgs gs) σ' =
      (Ir.callFunc W fuel fn (fn.params.map fun p => σ' (.loc p.1)) σ').map (fun r => (r.1, Msl.restore [xo] σ' r.2.2)))
    (l : CArgs) (hok : ArgsOK cx.vty (slotsOf fn.params) xo fn.params l) :
    ∀ σ, Msl.callFunc M L fuel t (l.map toMArg ++ globMArgs gs) σ =
      match Ir.callFunc W fuel fn (valsIn fn.params l σ) σ with
      | none => none
      | some (ret, finals, σ1) =>
        some (if fn.ret = .void then Val.void else ret, Msl.restore [xo] σ (writeBack (l.map (·.2)) finals σ1)) := by
  intro σ
  simp only [genFuncInner, hreq] at hg
  cases hrt : GenMsl.typeName fn.ret with
  | error e => simp [hrt] at hg
  | ok rtn =>
    cases hps : GenMsl.genParams cx fn.params with
    | error e => simp [hrt, hps] at hg
    | ok ps' =>
      cases hgp : GenMsl.genGlobalParams cx gs with
      | error e => simp [hrt, hps, hgp] at hg
      | ok gps =>
        cases hb : trampolineBody cx fn rtn gs with
        | error e => simp [hrt, hps, hgp, hb] at hg
        | ok body =>
          simp [hrt, hps, hgp, hb] at hg; subst hg
          -- the frame
          obtain ⟨ρ1, hb1, hun, hue⟩ := bind_tramp_user (L.frame (cx.funcName fn.id)) fn.params ps' l
            (L.frame (cx.funcName fn.id)) σ gps (globMArgs gs) hps hok hA.slotP hA.names
          obtain ⟨ρ2, hb2, hgl⟩ := bind_globals_env (cx := cx) (L.frame (cx.funcName fn.id)) gs gps ρ1 (bindIn fn.params l σ) hgp hA.namesG.1
          have h12 : ∀ s, s ∉ gs.map cx.globName → ρ2 s = ρ1 s := by
            intro s hs
            exact bindArgs_other _ gps _ ρ1 ρ2 _ _ s hb2 (by rw [genGlobalParams_refNames gs gps hgp]; exact hs)
          have henv := tenv_of_userenv (cx := cx) (L.frame (cx.funcName fn.id)) ρ1 ρ2 L.vty L.fres (gs.map cx.globName) h12
            fn.params l hok hue (fun p hp =>
              ⟨hA.namesG.2 p hp, (hA.namesT p hp).2, hA.slotP p hp, by rw [hun _ (hA.namesT p hp).1]; exact hA.slotT p hp⟩)
          have hout : ρ2 trampolineResultName = some xo := by
            rw [h12 _ hA.namesO.2, hun _ hA.namesO.1]; exact hA.slotO
          have hglob : ∀ σ', Msl.evalArgs M { res := ρ2, vty := L.vty, fres := L.fres } (globalArgs cx gs) (globParams cx gs) σ' =
              some (globMArgs gs, σ') :=
            globalArgs_eval' (M := M) (env := { res := ρ2, vty := L.vty, fres := L.fres }) hA.vty gs hgl
          have hbind : Msl.bindArgs (L.frame (cx.funcName fn.id)) (ps' ++ gps) (l.map toMArg ++ globMArgs gs)
              (L.frame (cx.funcName fn.id)) σ = some (ρ2, bindIn fn.params l σ) := by rw [hb1, hb2]
          have hexec := tramp_body_exec (W := W) (cx := cx) (vty := cx.vty) (slots := slotsOf fn.params) (xo := xo) M
            { res := ρ2, vty := L.vty, fres := L.fres } fn gs rtn body fuel [xo] l hA.vty (typeName_tyOfName hrt) hb hok henv hout
            hA.tyO hA.fres hA.notFmod hglob hsig hT (bindIn fn.params l σ)
          rw [copyIn_bindIn fn.params l σ hok hA.ids (fun y hy => hy)] at hexec
          -- both sides run the body of the typed function from the same store
          have hlen1 : ¬ (fn.params.map fun p => Ir.bindParams fn.params (valsIn fn.params l σ) σ (.loc p.1)).length ≠ fn.params.length := by simp
          have hlen2 : ¬ (valsIn fn.params l σ).length ≠ fn.params.length := by simp [valsIn_length fn.params l σ hok]
          simp only [Msl.callFunc, typeName_tyOfName hrt, List.append_nil, hbind, hexec, hA.scratch]
          simp only [Ir.callFunc, hlen1, hlen2, if_false, bindParams_self]
          cases hx : Ir.execs W fuel .run fn.body (Ir.bindParams fn.params (valsIn fn.params l σ) σ) with
          | none => rfl
          | some r =>
            obtain ⟨fl, σ1⟩ := r
            simp only []
            -- the stores agree: the reclaimed slot aside, the copies back are the typed `writeBack`
            have hfin : ∀ (σ2 : Store), (∀ y, y ≠ xo → σ2 y = σ1 y) →
                Msl.restore [xo] σ (copyOut fn.params l σ2) =
                  Msl.restore [xo] σ (writeBack (l.map (·.2)) (fn.params.map fun p => σ1 (.loc p.1)) σ1) := by
              intro σ2 h2
              funext y
              by_cases hy : y = xo
              · subst hy; simp [Msl.restore]
              · simp only [Msl.restore, List.contains_cons, List.contains_nil, Bool.or_false, beq_iff_eq, hy, if_false]
                rw [copyOut_writeBack fn.params l σ2 hok (fun y hy => hy)]
                have hmap : (fn.params.map fun p => σ2 (.loc p.1)) = fn.params.map fun p => σ1 (.loc p.1) := by
                  apply List.map_congr_left
                  intro p hp
                  apply h2
                  intro hc
                  apply hA.xoFresh
                  rw [← hc]; simp only [slotsOf]; exact List.mem_map_of_mem hp
                rw [hmap]
                exact writeBack_congr _ _ σ2 σ1 y (h2 y hy)
            by_cases hv : fn.ret = .void
            · simp only [hv, if_true]
              rw [hfin _ (fun y hy => by simp [Msl.restore, hy])]
              rfl
            · simp only [hv, if_false, Ir.retVal]
              rw [hfin _ (fun y hy => by simp [Store.set, Msl.restore, hy])]

end RsslVerif.Lemmas.GenMsl

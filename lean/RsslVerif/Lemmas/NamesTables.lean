import RsslVerif.Model.Names
import RsslVerif.Spec.Names
import RsslVerif.Gen.Reserved
/-!
Finite facts about the regenerated tables and the concrete negation witnesses, proved by `decide`
(kept in their own module so that the kernel evaluation is cached between runs; `Thm/C15.lean` restates them).
-/
namespace RsslVerif.Lemmas.NamesTables
open RsslVerif.Model.Names

/-! ## the tables and the source facts the model rests on (re-extracted from /repo on every run) -/

/-- The lines of `NameMap::build` the model transcribes are still there, the candidate format is `{}_{}`,
symbols are pushed in the order namespace, struct, enum, global, function, and the two exporters pass
`intrinsics_are_reserved = true / false`. -/
theorem source_fingerprints :
    Gen.Reserved.candFormat = "{}_{}" ∧
    Gen.Reserved.pushOrder = ["Namespace", "Struct", "Enum", "GlobalVariable", "Function"] ∧
    Gen.Reserved.fact_keepCondition = true ∧ Gen.Reserved.fact_scopeLoopInsert = true ∧
    Gen.Reserved.fact_scopeUsedStartsReserved = true ∧ Gen.Reserved.fact_allScopesStartsReserved = true ∧
    Gen.Reserved.fact_sortedByName = true ∧ Gen.Reserved.fact_localTest = true ∧
    Gen.Reserved.fact_localLoop = true ∧ Gen.Reserved.fact_localKeeps = true ∧
    Gen.Reserved.fact_counterStartsAtZero = true ∧
    Gen.Reserved.hlslIntrinsicsReserved = true ∧ Gen.Reserved.mslIntrinsicsReserved = false := by
  decide

/-- **reserved_complete** (full): every entry of the independent keyword / built-in lists of HLSL and MSL is
in the `RESERVED_NAMES` table of the corresponding exporter.  (False before /repo 05e2470: the HLSL table had
the entry `"SamplerState,"` and 90 HLSL / 43 MSL names were missing.) -/
theorem reserved_complete :
    (∀ n ∈ Spec.Names.hlslKeywords, n ∈ Gen.Reserved.hlsl) ∧
    (∀ n ∈ Spec.Names.mslKeywords, n ∈ Gen.Reserved.msl) := by
  decide +kernel

/-- the entries whose absence was the defect are present after the fix -/
example : "SamplerState" ∈ Gen.Reserved.hlsl ∧ "SamplerState," ∉ Gen.Reserved.hlsl ∧
    "device" ∈ Gen.Reserved.msl ∧ "threadgroup" ∈ Gen.Reserved.msl := by
  decide +kernel

/-! ## what is *not* true on the pinned code (negation witnesses, replayed on the real code by the corpus) -/

/-- overloads `a`, `a` and a function `a_0` in one scope -/
def witnessVerbatim : Input :=
  { nss := [], locals := []
    entries := [⟨⟨.func, 0⟩, none, "a"⟩, ⟨⟨.func, 1⟩, none, "a"⟩, ⟨⟨.func, 2⟩, none, "a_0"⟩] }

/-- **Unconditional verbatim is false**: `a_0` is unique in its scope and not reserved in HLSL or MSL, yet the
two overloads of `a` take `a_0`, `a_1` first (groups are visited in sorted order) and `a_0` becomes `a_0_0`. -/
theorem verbatim_unconditional_false :
    "a_0" ∉ Gen.Reserved.hlsl ∧ "a_0" ∉ Gen.Reserved.msl ∧
    (build Gen.Reserved.hlsl witnessVerbatim).toOption.map (·.map (·.name)) = some ["a_0", "a_1", "a_0_0"] ∧
    (build Gen.Reserved.msl witnessVerbatim).toOption.map (·.map (·.name)) = some ["a_0", "a_1", "a_0_0"] := by
  decide +kernel

/-- a function `kernel_0` and a parameter `kernel` (reserved in MSL) -/
def witnessCapture : Input :=
  { nss := [], locals := ["kernel"]
    entries := [⟨⟨.func, 0⟩, none, "kernel_0"⟩, ⟨⟨.func, 1⟩, none, "f"⟩] }

/-- **Locals are not kept apart from globals**: the local pass only avoids reserved names, generated
candidates and *source* names of locals, so the parameter `kernel` is renamed to `kernel_0`, the verbatim name
of a function visible in the same body (a use of that function inside is captured). -/
theorem local_may_capture_global :
    (build Gen.Reserved.msl witnessCapture).toOption.map (·.map (fun n => (n.sym.kind, n.name))) =
      some [(.func, "f"), (.func, "kernel_0"), (.localVar, "kernel_0")] := by
  decide +kernel

end RsslVerif.Lemmas.NamesTables

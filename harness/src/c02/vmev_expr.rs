// part of vmev.rs: static types and evaluation of expressions

thread_local! {
    static HAZARDS: std::cell::RefCell<Vec<&'static str>> = const { std::cell::RefCell::new(Vec::new()) };
}
/// a construct was evaluated whose Metal meaning differs by construction from the RSSL meaning of what it was emitted for
fn hazard(class: &'static str) {
    HAZARDS.with(|h| {
        let mut h = h.borrow_mut();
        if !h.contains(&class) {
            h.push(class);
        }
    });
}
pub fn take_hazards() -> Vec<&'static str> {
    HAZARDS.with(|h| std::mem::take(&mut *h.borrow_mut()))
}

pub const H_MAT_SCALARS: &str = "metal-matrix-constructor-is-column-major";
pub const H_MAT_DIAGONAL: &str = "metal-matrix-from-scalar-is-diagonal";
/// a later argument wrote the variable an earlier out / inout argument names (the known class of the scalar stream)
pub const H_INOUT_ORDER: &str = "inout-copy-in-after-later-arguments";
/// an argument of a method call wrote the object the method is called on: the typed evaluator of C01 copies the object in
/// before the arguments and back afterwards, C++ (and DXC) pass `this` by reference — not a difference of the exporter
pub const H_METHOD_OBJECT: &str = "method-argument-writes-object";
/// an operand of `metal::select` had an effect: the exporter writes the three operands in reverse order
pub const H_SELECT_ORDER: &str = "metal-select-operand-order";

/// Metal library function → the RSSL built-in it is emitted for
const MBUILTINS: &[(&str, &str)] = &[
    ("abs", "Abs"), ("acos", "Acos"), ("asin", "Asin"), ("atan", "Atan"), ("atan2", "Atan2"), ("cos", "Cos"), ("cosh", "Cosh"),
    ("sin", "Sin"), ("sinh", "Sinh"), ("tan", "Tan"), ("tanh", "Tanh"), ("sqrt", "Sqrt"), ("rsqrt", "RcpSqrt"), ("pow", "Pow"),
    ("exp", "Exp"), ("exp2", "Exp2"), ("log", "Log"), ("log2", "Log2"), ("log10", "Log10"), ("floor", "Floor"), ("ceil", "Ceil"),
    ("trunc", "Trunc"), ("round", "Round"), ("fract", "Frac"), ("fmod", "Fmod"), ("saturate", "Saturate"), ("min", "Min"),
    ("max", "Max"), ("step", "Step"), ("clamp", "Clamp"), ("mix", "Lerp"), ("smoothstep", "SmoothStep"), ("isnan", "IsNaN"),
    ("isinf", "IsInfinite"), ("isfinite", "IsFinite"), ("popcount", "CountBits"), ("reverse_bits", "ReverseBits"),
    ("dot", "Dot"), ("length", "Length"), ("distance", "Distance"), ("normalize", "Normalize"), ("cross", "Cross"),
    ("reflect", "Reflect"), ("any", "Any"), ("all", "All"), ("select", "Select"),
];

fn numeric_ty(t: &MTy) -> Option<Ty> {
    Some(match t {
        MTy::S(k) => Ty::S(k.t()?),
        MTy::V(k, n) => Ty::V(k.t()?, *n),
        MTy::M(c, r) => Ty::M(T::Float, *r, *c),
        _ => return None,
    })
}

fn of_numeric_ty(t: &Ty) -> Option<MTy> {
    let k = |t: T| match t {
        T::Bool => Some(MS::Bool),
        T::Int => Some(MS::Int),
        T::Uint => Some(MS::Uint),
        T::Float => Some(MS::Float),
        _ => None,
    };
    Some(match t {
        Ty::S(s) => MTy::S(k(*s)?),
        Ty::V(s, n) => MTy::V(k(*s)?, *n),
        Ty::M(T::Float, r, c) => MTy::M(*c, *r),
        _ => return None,
    })
}

impl<'a> MslV<'a> {
    fn lit_type(&self, e: &Sx) -> Option<MS> {
        let x = e.args();
        Some(match x[0].atom() {
            "bool" => MS::Bool,
            "int" => {
                if self.hlsl_literals {
                    MS::LitInt
                } else {
                    let n: u128 = x[1].atom().parse().ok()?;
                    if n < (1u128 << 31) {
                        MS::Int
                    } else if n < (1u128 << 63) {
                        MS::Long
                    } else {
                        return other("integer literal too large".into());
                    }
                }
            }
            "uint" => MS::Uint,
            // Metal has no double: an unsuffixed floating-point literal is a float
            "f32" | "flt" => MS::Float,
            _ => return None,
        })
    }

    fn this_member(&self, name: &str, fr: &Frame) -> Option<(Place, MTy)> {
        let (k, pl) = fr.this.as_ref()?;
        let members = &self.structs.get(k)?.members;
        let i = members.iter().position(|m| m.0 == name)?;
        Some((pl.sub(Acc::Field(i)), members[i].1.clone()))
    }

    fn const_index(&self, name: &str, fr: &Frame) -> Option<usize> {
        for cand in [format!("{}{}", fr.ns, name), name.to_string()] {
            if let Some(i) = self.consts.iter().position(|c| c.0 == cand) {
                return Some(i);
            }
        }
        None
    }

    /// a name denotes a local / parameter, else a member of `this`, else a constant at namespace scope
    fn var_place(&self, name: &str, fr: &Frame, cx: &Cx) -> Option<(Place, MTy)> {
        if let Some(b) = fr.vars.get(name) {
            return Some((b.place.clone(), b.ty.clone()));
        }
        if let Some(m) = self.this_member(name, fr) {
            return Some(m);
        }
        if let Some(i) = self.const_index(name, fr) {
            if let Some(c) = cx.const_cells.get(i) {
                return Some((Place { cell: *c, path: vec![] }, self.consts[i].1.clone()));
            }
        }
        None
    }

    /// result type of a component-wise binary operator (before the comparison → bool step)
    fn op_type(&self, m: MBin, ta: &MTy, tb: &MTy) -> Option<MTy> {
        let (a, b) = (self.arith(ta)?, self.arith(tb)?);
        if m == MBin::Mod && !self.hlsl_literals && (a.scalar() == Some(MS::Float) || b.scalar() == Some(MS::Float)) && !self.in_fmod.get() {
            return stuck(Stuck::Class(C_FLOAT_REM), format!("operator % on {} and {}: Metal has no remainder operator for floating-point operands", a.show(), b.show()));
        }
        let shift = matches!(m, MBin::Shl | MBin::Shr) && !self.hlsl_literals;
        match (&a, &b) {
            (MTy::S(x), MTy::S(y)) => {
                if shift {
                    if is_integer(promote(*x)) && is_integer(promote(*y)) { Some(MTy::S(promote(*x))) } else { other("shift of a non-integer".into()) }
                } else {
                    Some(MTy::S(common_scalar(*x, *y)?))
                }
            }
            (MTy::V(x, n), MTy::S(_)) | (MTy::S(_), MTy::V(x, n)) => Some(MTy::V(*x, *n)),
            (MTy::V(x, n), MTy::V(y, k)) => {
                if n == k && (x == y || (shift && is_integer(*x) && is_integer(*y))) {
                    Some(MTy::V(*x, *n))
                } else {
                    stuck(Stuck::Class(C_VEC_OPERANDS), format!("operands {} and {} of a vector operator", a.show(), b.show()))
                }
            }
            (MTy::M(c, r), MTy::M(c2, r2)) if self.hlsl_literals && c == c2 && r == r2 => Some(a.clone()),
            (MTy::M(c, r), MTy::M(c2, r2)) => match m {
                MBin::Add | MBin::Sub if c == c2 && r == r2 => Some(a.clone()),
                MBin::Mul => stuck(Stuck::Class(C_MAT_PRODUCT), format!("{} * {} is the matrix product in Metal", a.show(), b.show())),
                _ => stuck(Stuck::Class(C_MAT_OP), format!("operator {:?} is not defined on {} and {}", m, a.show(), b.show())),
            },
            (MTy::M(c, r), MTy::V(MS::Float, n)) if m == MBin::Mul && n == c => Some(MTy::V(MS::Float, *r)),
            (MTy::V(MS::Float, n), MTy::M(c, r)) if m == MBin::Mul && n == r => Some(MTy::V(MS::Float, *c)),
            (MTy::M(..), MTy::S(_)) | (MTy::S(_), MTy::M(..)) if m == MBin::Mul => Some(if matches!(a, MTy::M(..)) { a.clone() } else { b.clone() }),
            (MTy::M(..), _) | (_, MTy::M(..)) => stuck(Stuck::Class(C_MAT_OP), format!("operator {:?} is not defined on {} and {}", m, a.show(), b.show())),
            _ => other(format!("operator {:?} on {} and {}", m, a.show(), b.show())),
        }
    }

    fn tern_type(&self, t1: &MTy, t2: &MTy) -> Option<MTy> {
        if t1 == t2 {
            return Some(t1.clone());
        }
        let (a, b) = (self.arith(t1)?, self.arith(t2)?);
        match (&a, &b) {
            (MTy::S(x), MTy::S(y)) => Some(MTy::S(common_scalar(*x, *y)?)),
            (MTy::V(x, n), MTy::S(_)) | (MTy::S(_), MTy::V(x, n)) => Some(MTy::V(*x, *n)),
            _ => stuck(Stuck::Class(C_VEC_OPERANDS), format!("branches {} and {} of ?:", a.show(), b.show())),
        }
    }

    fn builtin_ret(&self, variant: &str, arg_types: &[MTy]) -> Option<(Ty, Vec<String>)> {
        let rule = VBUILTINS.iter().find(|b| b.1 == variant)?.2;
        let mut tys = Vec::new();
        for t in arg_types {
            match numeric_ty(&self.arith(t)?) {
                Some(t) => tys.push(t),
                None => return stuck(Stuck::Class(C_BUILTIN_ARGS), format!("argument of type {} to metal::{}", t.show(), variant)),
            }
        }
        let ret = ret_by_rule(rule, &tys)?;
        Some((ret, tys.iter().map(|t| t.show()).collect()))
    }

    pub fn type_of(&self, e: &Sx, fr: &Frame, cx: &Cx) -> Option<MTy> {
        let r = self.type_of_inner(e, fr, cx);
        if r.is_none() {
            return other(format!("no static type for {}", e.show()));
        }
        r
    }

    fn type_of_inner(&self, e: &Sx, fr: &Frame, cx: &Cx) -> Option<MTy> {
        let x = e.args();
        match e.head() {
            "lit" => Some(MTy::S(self.lit_type(e)?)),
            "id" => match self.var_place(x[0].atom(), fr, cx) {
                Some((_, t)) => Some(t),
                None => match self.lookup_enum_const(x[0].atom(), &fr.ns) {
                    Some((en, _)) => Some(MTy::Enum(en)),
                    None => other(format!("identifier {} is not in scope", x[0].atom())),
                },
            },
            "un" => {
                let t0 = self.type_of(&x[1], fr, cx)?;
                match op_sem(x[0].atom()) {
                    OpSem::Un(MUn::Lnot) => Some(match self.arith(&t0)? {
                        MTy::V(_, n) => MTy::V(MS::Bool, n),
                        MTy::S(_) => MTy::S(MS::Bool),
                        o => return stuck(Stuck::Class(C_MAT_OP), format!("! on {}", o.show())),
                    }),
                    OpSem::Un(_) => Some(match self.arith(&t0)? {
                        MTy::S(k) => MTy::S(promote(k)),
                        MTy::M(..) => return stuck(Stuck::Class(C_MAT_OP), "unary operator on a matrix".into()),
                        v => v,
                    }),
                    OpSem::IncDec(_, _) => Some(t0),
                    _ => None,
                }
            }
            "bin" => {
                let ta = self.type_of(&x[1], fr, cx)?;
                let tb = self.type_of(&x[2], fr, cx)?;
                match op_sem(x[0].atom()) {
                    OpSem::Bin(m) => {
                        let t = self.op_type(m, &ta, &tb)?;
                        Some(if m.is_cmp() { t.with_scalar(MS::Bool) } else { t })
                    }
                    OpSem::Land | OpSem::Lor => match (self.arith(&ta)?, self.arith(&tb)?) {
                        (MTy::S(_), MTy::S(_)) => Some(MTy::S(MS::Bool)),
                        (MTy::V(_, n), MTy::V(_, k)) if n == k => Some(MTy::V(MS::Bool, n)),
                        (MTy::V(_, n), MTy::S(_)) | (MTy::S(_), MTy::V(_, n)) => Some(MTy::V(MS::Bool, n)),
                        (p, q) => stuck(Stuck::Class(C_VEC_OPERANDS), format!("logical operator on {} and {}", p.show(), q.show())),
                    },
                    OpSem::Assign | OpSem::Compound(_) => Some(ta),
                    OpSem::Comma => Some(tb),
                    _ => None,
                }
            }
            "tern" => {
                self.type_of(&x[0], fr, cx)?;
                let (t1, t2) = (self.type_of(&x[1], fr, cx)?, self.type_of(&x[2], fr, cx)?);
                self.tern_type(&t1, &t2)
            }
            "cast" => {
                self.type_of(&x[1], fr, cx)?;
                self.ty(&x[0], fr)
            }
            "binit" => self.ty(&x[0], fr),
            "mem" => Some(self.member(&self.type_of(&x[0], fr, cx)?, x[1].atom())?.0),
            "idx" => {
                self.type_of(&x[1], fr, cx)?;
                self.element(&self.type_of(&x[0], fr, cx)?)
            }
            "call" => {
                let name = x[0].atom();
                if let Some(t) = self.callee_type_name(name, fr) {
                    for arg in &x[1..] {
                        self.type_of(arg, fr, cx)?;
                    }
                    return Some(t);
                }
                if let Some(lib) = name.strip_prefix("metal::") {
                    let mut tys = Vec::new();
                    for arg in &x[1..] {
                        tys.push(self.type_of(arg, fr, cx)?);
                    }
                    return self.lib_type(lib, &tys);
                }
                let (f, _) = self.resolve_tagged(name, x.len() - 1, x[1..].iter().position(is_tag_arg), fr)?;
                self.ty_in(&f.args()[1], &self.fn_ns(f, fr))
            }
            "tcall" => {
                let name = x[0].atom();
                if name == "as_type" {
                    return self.ty(x[1].args().first()?, fr);
                }
                let (f, _) = self.resolve_tagged(name, x.len() - 2, x[2..].iter().position(is_tag_arg), fr)?;
                self.ty_in(&f.args()[1], &self.fn_ns(f, fr))
            }
            "mcall" => {
                let ot = self.type_of(&x[0], fr, cx)?;
                let f = self.resolve_method(&ot, x[1].atom(), x.len() - 2, x[2..].iter().position(is_tag_arg))?;
                let ns = match &ot {
                    MTy::Struct(k) => ns_of(k),
                    _ => String::new(),
                };
                self.ty_in(&f.args()[1], &ns)
            }
            _ => None,
        }
    }

    /// a call whose callee is a type name: a constructor
    fn callee_type_name(&self, name: &str, fr: &Frame) -> Option<MTy> {
        if let Some(t) = scalar_vector_of_name(name) {
            return Some(t);
        }
        for cand in [format!("{}{}", fr.ns, name), name.to_string()] {
            if self.enums.contains_key(&cand) {
                return Some(MTy::Enum(cand));
            }
        }
        None
    }

    fn lib_type(&self, lib: &str, tys: &[MTy]) -> Option<MTy> {
        if lib == "fmod" && !self.fmod_is_builtin {
            self.in_fmod.set(true);
            let r = self.op_type(MBin::Mod, tys.first()?, tys.get(1)?);
            self.in_fmod.set(false);
            return r;
        }
        if lib == "true_type" {
            return Some(MTy::Tag);
        }
        if lib == "transpose" {
            return match tys.first().map(|t| self.arith(t)) {
                Some(Some(MTy::M(c, r))) => Some(MTy::M(r, c)),
                _ => other("metal::transpose of a non-matrix".into()),
            };
        }
        if lib == "sign" || lib == "determinant" {
            return stuck(Stuck::Skip, format!("metal::{} has no reading comparable with the uninterpreted built-in", lib));
        }
        let variant = match MBUILTINS.iter().find(|b| b.0 == lib) {
            Some(b) => b.1,
            None => return other(format!("metal::{} is not a modelled library function", lib)),
        };
        let (ret, _) = if variant == "Select" {
            let r: Vec<MTy> = tys.iter().rev().cloned().collect();
            self.builtin_ret(variant, &r)?
        } else {
            self.builtin_ret(variant, tys)?
        };
        of_numeric_ty(&ret)
    }

    // ---------------------------------------------------------------------------------------- places
    fn index(&self, e: &Sx, fr: &mut Frame, mem: &mut Mem, cx: &Cx, depth: u32) -> Option<usize> {
        let t = self.arith(&self.type_of(e, fr, cx)?)?;
        match (t, self.eval(e, fr, mem, cx, depth)?.scalar()?) {
            (MTy::S(_), V::U(i)) => Some(i as usize),
            (MTy::S(_), V::I(i)) if (i as i32) >= 0 => Some(i as usize),
            (MTy::S(_), V::L(i)) if i >= 0 => Some(i as usize),
            (MTy::S(_), V::B(b)) => Some(b as usize),
            _ => other(format!("subscript {}", e.show())),
        }
    }

    /// the place an lvalue expression denotes, its type, and whether it is (inside) a vector component / swizzle
    fn place(&self, e: &Sx, fr: &mut Frame, mem: &mut Mem, cx: &Cx, depth: u32) -> Option<(Place, MTy, bool)> {
        let x = e.args();
        match e.head() {
            "id" => match self.var_place(x[0].atom(), fr, cx) {
                Some((p, t)) => Some((p, t, false)),
                None => other(format!("identifier {} is not a variable in scope", x[0].atom())),
            },
            "mem" => {
                let (p, ot, inv) = self.place(&x[0], fr, mem, cx, depth)?;
                let (mt, acc) = self.member(&ot, x[1].atom())?;
                let in_vector = inv || matches!(acc, Acc::Swz(_));
                Some((p.sub(acc), mt, in_vector))
            }
            "idx" => {
                let (p, ot, inv) = self.place(&x[0], fr, mem, cx, depth)?;
                let et = self.element(&ot)?;
                if matches!(ot, MTy::M(..)) {
                    return other("matrix column as a place is not modelled".into());
                }
                let i = self.index(&x[1], fr, mem, cx, depth)?;
                let len = match &ot {
                    MTy::Arr(_, n) | MTy::V(_, n) => *n,
                    _ => 0,
                };
                if i >= len {
                    return other(format!("subscript {} out of range", i));
                }
                Some((p.sub(Acc::Idx(i)), et, inv || matches!(ot, MTy::V(..))))
            }
            // the value of an assignment / a prefix increment is the assigned object (C++ lvalue)
            "bin" if matches!(op_sem(x[0].atom()), OpSem::Assign | OpSem::Compound(_)) => {
                self.eval(e, fr, mem, cx, depth)?;
                self.place(&x[1], fr, mem, cx, depth)
            }
            "un" if matches!(op_sem(x[0].atom()), OpSem::IncDec(true, _)) => {
                self.eval(e, fr, mem, cx, depth)?;
                self.place(&x[1], fr, mem, cx, depth)
            }
            _ => other(format!("not an lvalue: {}", e.show())),
        }
    }

    fn is_lvalue(&self, e: &Sx) -> bool {
        match e.head() {
            "id" => true,
            "mem" | "idx" => self.is_lvalue(&e.args()[0]),
            _ => false,
        }
    }

    // ---------------------------------------------------------------------------------------- evaluation
    pub fn eval_as(&self, to: &MTy, e: &Sx, fr: &mut Frame, mem: &mut Mem, cx: &Cx, depth: u32) -> Option<VV> {
        let from = self.type_of(e, fr, cx)?;
        let v = self.eval(e, fr, mem, cx, depth)?;
        self.implicit(&from, to, v)
    }

    fn eval_bool(&self, e: &Sx, fr: &mut Frame, mem: &mut Mem, cx: &Cx, depth: u32) -> Option<bool> {
        let from = self.arith(&self.type_of(e, fr, cx)?)?;
        let v = self.eval(e, fr, mem, cx, depth)?;
        match (&from, v) {
            (MTy::S(k), VV::S(x)) => match convert_scalar(*k, MS::Bool, x)? {
                V::B(b) => Some(b),
                V::Void => other("condition is an uninitialised value".into()),
                _ => None,
            },
            _ => stuck(Stuck::Class(C_IMPLICIT), format!("{} used as a condition", from.show())),
        }
    }

    /// component-wise application on operands converted to one operation type
    fn lift_bin(&self, t: &MTy, m: MBin, p: &VV, q: &VV) -> Option<VV> {
        let k = t.scalar()?;
        lift2(&|a, b| scalar_bin(k, m, a, b), p, q)
    }

    /// operand of a component-wise operator brought to the operation type (a scalar next to a vector is converted to the
    /// element type and replicated)
    fn operand(&self, from: &MTy, to: &MTy, v: VV) -> Option<VV> {
        let f = self.arith(from)?;
        match (&f, to) {
            (MTy::S(a), MTy::S(b)) => Some(VV::S(convert_scalar(*a, *b, v.scalar()?)?)),
            (MTy::S(a), MTy::V(b, n)) => Some(VV::V(vec![convert_scalar(*a, *b, v.scalar()?)?; *n])),
            (MTy::V(a, n), MTy::V(b, k)) if n == k && a == b => Some(v),
            (MTy::M(..), MTy::M(..)) if &f == to => Some(v),
            (MTy::S(a), MTy::M(c, r)) => Some(VV::M(*r, *c, vec![convert_scalar(*a, MS::Float, v.scalar()?)?; r * c])),
            _ => other(format!("operand {} in an operation at {}", f.show(), to.show())),
        }
    }

    fn binary(&self, m: MBin, ta: &MTy, tb: &MTy, p: VV, q: VV) -> Option<VV> {
        let t = self.op_type(m, ta, tb)?;
        if let (MBin::Mul, Some(a), Some(b)) = (m, self.arith(ta), self.arith(tb)) {
            if matches!((&a, &b), (MTy::M(..), MTy::V(..)) | (MTy::V(..), MTy::M(..))) {
                // the linear-algebra product of the logical matrix and the vector: RSSL's mul() of the same objects
                let (ra, rb, rt) = (numeric_ty(&a)?, numeric_ty(&b)?, numeric_ty(&t)?);
                return vintr("Mul", &[ra.show(), rb.show()], &[p, q], &rt);
            }
        }
        let shift = matches!(m, MBin::Shl | MBin::Shr) && !self.hlsl_literals;
        if shift {
            // left operand at its promoted type, the count at its own
            let l = self.operand(ta, &t, p)?;
            let cb = self.arith(tb)?;
            let ck = promote(cb.scalar()?);
            let c = match (&cb, &t) {
                (MTy::S(k), MTy::V(_, n)) => VV::V(vec![convert_scalar(*k, ck, q.scalar()?)?; *n]),
                (MTy::S(k), _) => VV::S(convert_scalar(*k, ck, q.scalar()?)?),
                _ => q,
            };
            let lk = t.scalar()?;
            return lift2(&|a, b| scalar_shift(lk, m, a, b), &l, &c);
        }
        let l = self.operand(ta, &t, p)?;
        let r = self.operand(tb, &t, q)?;
        self.lift_bin(&t, m, &l, &r)
    }

    /// `T(a, b, …)` / `(T)a`
    fn construct(&self, t: &MTy, args: &[Sx], fr: &mut Frame, mem: &mut Mem, cx: &Cx, depth: u32) -> Option<VV> {
        let mut tys = Vec::new();
        let mut vals = Vec::new();
        for arg in args {
            tys.push(self.type_of(arg, fr, cx)?);
            vals.push(self.eval(arg, fr, mem, cx, depth)?);
        }
        if args.len() == 1 {
            if matches!(t, MTy::M(..)) && !matches!(tys[0], MTy::M(..)) {
                hazard(H_MAT_DIAGONAL);
            }
            return self.explicit(&tys[0], t, vals.pop()?);
        }
        match t {
            MTy::V(k, n) => {
                let mut comps = Vec::new();
                for (at, v) in tys.iter().zip(vals) {
                    let a = self.arith(at)?;
                    match a {
                        MTy::S(f) | MTy::V(f, _) => comps.extend(Self::conv_comps(f, *k, v.comps()?)?),
                        _ => return other(format!("{} in a vector constructor", a.show())),
                    }
                }
                if comps.len() != *n {
                    return other(format!("{} components for {}", comps.len(), t.show()));
                }
                Some(VV::V(comps))
            }
            MTy::M(c, r) => {
                let ar: Vec<MTy> = tys.iter().map(|t| self.arith(t)).collect::<Option<Vec<_>>>()?;
                let mut xs = vec![V::Void; r * c];
                if self.hlsl_literals {
                    // the alternative reading: what the RSSL constructor means (row-major scalars / row vectors)
                    let mut comps = Vec::new();
                    for (a, v) in ar.iter().zip(vals) {
                        comps.extend(Self::conv_comps(a.scalar()?, MS::Float, v.comps()?)?);
                    }
                    if comps.len() != r * c {
                        return other("component count of a matrix constructor".into());
                    }
                    return Some(VV::M(*r, *c, comps));
                }
                if ar.iter().all(|a| matches!(a, MTy::S(_))) && ar.len() == r * c {
                    hazard(H_MAT_SCALARS);
                    for (k, (a, v)) in ar.iter().zip(vals).enumerate() {
                        let (col, row) = (k / r, k % r);
                        xs[row * c + col] = convert_scalar(a.scalar()?, MS::Float, v.scalar()?)?;
                    }
                    Some(VV::M(*r, *c, xs))
                } else if ar.len() == *c && ar.iter().all(|a| matches!(a, MTy::V(MS::Float, n) if n == r)) {
                    hazard(H_MAT_SCALARS);
                    for (col, v) in vals.iter().enumerate() {
                        for (row, x) in v.comps()?.into_iter().enumerate() {
                            xs[row * c + col] = x;
                        }
                    }
                    Some(VV::M(*r, *c, xs))
                } else {
                    stuck(
                        Stuck::Class(C_MAT_CTOR),
                        format!("{} has no constructor from ({})", t.show(), ar.iter().map(|a| a.show()).collect::<Vec<_>>().join(", ")),
                    )
                }
            }
            _ => other(format!("constructor of {} with {} arguments", t.show(), args.len())),
        }
    }

    /// a constant expression as far as list-initialisation is concerned: a literal or a file-scope constant (`constant T c
    /// = …;` is const-qualified), possibly signed / parenthesised / cast
    fn is_constant_clause(&self, e: &Sx, fr: &Frame) -> bool {
        match e.head() {
            "lit" => true,
            "id" => {
                let name = e.args()[0].atom();
                !fr.vars.contains_key(name) && self.this_member(name, fr).is_none() && self.const_index(name, fr).is_some()
            }
            "un" => matches!(e.args()[0].atom(), "Minus" | "Plus") && self.is_constant_clause(&e.args()[1], fr),
            "cast" => self.is_constant_clause(&e.args()[1], fr),
            _ => false,
        }
    }

    /// one initializer-clause `e` for a non-aggregate object of type `t` inside braces (C++14 [dcl.init.list]): copy-initialisation
    /// in which a NARROWING conversion is ill-formed — floating → integer always; integer → floating and integer → an integer
    /// type that cannot hold every value of the source, unless the clause is a constant whose value fits
    fn list_init_clause(&self, t: &MTy, e: &Sx, fr: &mut Frame, mem: &mut Mem, cx: &Cx, depth: u32) -> Option<VV> {
        let from = self.type_of(e, fr, cx)?;
        let v = self.eval(e, fr, mem, cx, depth)?;
        if !self.hlsl_literals {
            if let (Some(MTy::S(f)), MTy::S(k)) = (self.arith(&from), t) {
                let k = *k;
                let constant = self.is_constant_clause(e, fr);
                let fits = || -> bool {
                    // the value survives the round trip
                    match v.scalar().and_then(|x| convert_scalar(f, k, x)).and_then(|y| convert_scalar(k, f, y)) {
                        Some(back) => Some(back) == v.scalar(),
                        None => false,
                    }
                };
                let narrowing = match (f, k) {
                    (a, b) if a == b => false,
                    (MS::Float, _) => true,
                    (_, MS::Float) => !(constant && fits()),
                    (MS::Bool, _) => false,
                    (MS::Int, MS::Long) | (MS::Uint, MS::Long) => false,
                    _ => !(constant && fits()),
                };
                if narrowing && matches!(t, MTy::S(_)) && matches!(from, MTy::S(_) | MTy::Enum(_)) {
                    // a constant clause: the struct cast of a LITERAL operand, which the exporter still writes unconverted (fix
                    // 5d2f434 converts every other operand per element: the class of those is a `fixed` record)
                    let class = if constant { C_NARROWING_LITERAL } else { C_NARROWING };
                    return stuck(Stuck::Class(class), format!("{} {} cannot be narrowed to {} inside braces", from.show(), e.show(), t.show()));
                }
            }
        }
        self.implicit(&from, t, v)
    }

    /// members / elements of an aggregate taken from `items[*pos..]` with brace elision (C++14 [dcl.init.aggr]): a nested
    /// `{…}` or an expression of the member's own type initialises a sub-aggregate as a whole, otherwise the sub-aggregate
    /// takes as many of the following clauses as it has elements; a non-aggregate (scalar, vector, matrix, enum) takes one
    fn init_elided(&self, t: &MTy, items: &[Sx], pos: &mut usize, fr: &mut Frame, mem: &mut Mem, cx: &Cx, depth: u32) -> Option<VV> {
        let subs: Option<Vec<MTy>> = match t {
            MTy::Struct(k) => Some(self.structs.get(k)?.members.iter().map(|m| m.1.clone()).collect()),
            MTy::Arr(e, n) => Some(vec![(**e).clone(); *n]),
            _ => None,
        };
        match subs {
            None => {
                let it = match items.get(*pos) {
                    Some(it) => it,
                    // fewer clauses than elements: the rest is value-initialised (zero)
                    None => return self.zero(t),
                };
                *pos += 1;
                if it.head() == "agg" {
                    self.init_value(t, it, fr, mem, cx, depth)
                } else {
                    self.list_init_clause(t, it, fr, mem, cx, depth)
                }
            }
            Some(subs) => {
                let mut xs = Vec::new();
                for mt in &subs {
                    let whole = match items.get(*pos) {
                        Some(it) if it.head() == "agg" => true,
                        Some(it) if matches!(mt, MTy::Struct(_) | MTy::Arr(..)) => &self.type_of(it, fr, cx)? == mt,
                        _ => false,
                    };
                    if whole && matches!(mt, MTy::Struct(_) | MTy::Arr(..)) {
                        let it = &items[*pos];
                        *pos += 1;
                        xs.push(self.init_value(mt, it, fr, mem, cx, depth)?);
                    } else {
                        xs.push(self.init_elided(mt, items, pos, fr, mem, cx, depth)?);
                    }
                }
                Some(if matches!(t, MTy::Struct(_)) { VV::St(xs) } else { VV::Ar(xs) })
            }
        }
    }

    /// value of an initialiser for an object of type `t`
    pub fn init_value(&self, t: &MTy, i: &Sx, fr: &mut Frame, mem: &mut Mem, cx: &Cx, depth: u32) -> Option<VV> {
        if i.head() != "agg" {
            return self.eval_as(t, i, fr, mem, cx, depth);
        }
        let items = i.args();
        match t {
            MTy::V(k, n) if items.len() == *n => {
                let mut xs = Vec::new();
                for it in items {
                    xs.push(self.init_value(&MTy::S(*k), it, fr, mem, cx, depth)?.scalar()?);
                }
                Some(VV::V(xs))
            }
            MTy::Arr(..) | MTy::Struct(_) => {
                let mut pos = 0;
                let v = self.init_elided(t, items, &mut pos, fr, mem, cx, depth)?;
                if pos != items.len() {
                    return other(format!("aggregate with more initialisers ({}) than {} has elements ({})", items.len(), t.show(), pos));
                }
                Some(v)
            }
            MTy::S(_) | MTy::Enum(_) if items.len() == 1 => {
                if items[0].head() == "agg" {
                    self.init_value(t, &items[0], fr, mem, cx, depth)
                } else {
                    self.list_init_clause(t, &items[0], fr, mem, cx, depth)
                }
            }
            _ => other(format!("aggregate initialiser for {}", t.show())),
        }
    }

    pub fn eval(&self, e: &Sx, fr: &mut Frame, mem: &mut Mem, cx: &Cx, depth: u32) -> Option<VV> {
        let r = self.eval_inner(e, fr, mem, cx, depth);
        if r.is_none() {
            return other(format!("expression {}", e.show()));
        }
        r
    }

    fn eval_inner(&self, e: &Sx, fr: &mut Frame, mem: &mut Mem, cx: &Cx, depth: u32) -> Option<VV> {
        let x = e.args();
        match e.head() {
            "lit" => {
                let v = x[1].atom();
                Some(VV::S(match x[0].atom() {
                    "bool" => V::B(v == "1"),
                    "int" => match self.lit_type(e)? {
                        MS::Int => V::I(v.parse::<u32>().ok()?),
                        _ => V::L(v.parse().ok()?),
                    },
                    "uint" => V::U(v.parse::<u64>().ok()? as u32),
                    "f32" => V::F(u32::from_str_radix(v, 16).ok()?),
                    "flt" => V::F(d2f(u64::from_str_radix(v, 16).ok()?)),
                    _ => return None,
                }))
            }
            "id" => match self.var_place(x[0].atom(), fr, cx) {
                Some((p, _)) => mem.read(&p),
                None => match self.lookup_enum_const(x[0].atom(), &fr.ns) {
                    Some((_, v)) => Some(VV::S(v)),
                    None => other(format!("identifier {} is not in scope", x[0].atom())),
                },
            },
            "cast" => {
                let t = self.ty(&x[0], fr)?;
                self.construct(&t, &x[1..2], fr, mem, cx, depth)
            }
            "binit" => {
                let t = self.ty(&x[0], fr)?;
                let agg = node("agg", x[1..].to_vec());
                self.init_value(&t, &agg, fr, mem, cx, depth)
            }
            "tern" => {
                let t = self.type_of(e, fr, cx)?;
                if self.eval_bool(&x[0], fr, mem, cx, depth)? {
                    self.eval_as(&t, &x[1], fr, mem, cx, depth)
                } else {
                    self.eval_as(&t, &x[2], fr, mem, cx, depth)
                }
            }
            "mem" => {
                let ot = self.type_of(&x[0], fr, cx)?;
                let acc = self.member(&ot, x[1].atom())?.1;
                let o = self.eval(&x[0], fr, mem, cx, depth)?;
                get_acc(&o, &acc)
            }
            "idx" => {
                let ot = self.type_of(&x[0], fr, cx)?;
                self.element(&ot)?;
                let o = self.eval(&x[0], fr, mem, cx, depth)?;
                let i = self.index(&x[1], fr, mem, cx, depth)?;
                match (&ot, &o) {
                    // a column of the matrix
                    (MTy::M(c, r), VV::M(_, _, xs)) if i < *c => Some(VV::V((0..*r).map(|row| xs[row * c + i]).collect())),
                    (MTy::M(..), _) => other("matrix subscript out of range".into()),
                    _ => match get_acc(&o, &Acc::Idx(i)) {
                        Some(v) => Some(v),
                        None => other(format!("subscript {} out of range", i)),
                    },
                }
            }
            "call" | "tcall" | "mcall" => self.eval_call(e, fr, mem, cx, depth),
            "un" => match op_sem(x[0].atom()) {
                OpSem::Un(m) => {
                    let t0 = self.type_of(&x[1], fr, cx)?;
                    let rt = self.type_of(e, fr, cx)?;
                    let at = rt.clone();
                    let v = self.eval(&x[1], fr, mem, cx, depth)?;
                    let a = self.arith(&t0)?;
                    let v = match (&a, &at) {
                        (MTy::S(f), MTy::S(t)) => VV::S(convert_scalar(*f, *t, v.scalar()?)?),
                        (MTy::V(f, _), MTy::V(t, _)) => VV::V(Self::conv_comps(*f, *t, v.comps()?)?),
                        _ => return None,
                    };
                    lift1(
                        &|p| match (p, m) {
                            (V::L(n), MUn::Neg) if !self.hlsl_literals => Some(V::L(wrap64(-n))),
                            (V::Void, _) => None,
                            _ => unop(m, p),
                        },
                        &v,
                    )
                }
                OpSem::IncDec(pre, inc) => {
                    let (pl, _, _) = self.place(&x[1], fr, mem, cx, depth)?;
                    let old = mem.read(&pl)?;
                    let new = lift1(&|p| step(inc, p), &old)?;
                    mem.write(&pl, new.clone())?;
                    Some(if pre { new } else { old })
                }
                _ => None,
            },
            "bin" => {
                let (l, r) = (&x[1], &x[2]);
                match op_sem(x[0].atom()) {
                    OpSem::Bin(m) => {
                        let (ta, tb) = (self.type_of(l, fr, cx)?, self.type_of(r, fr, cx)?);
                        if m == MBin::Div && l.show() == "(lit int 1)" && self.arith(&tb)?.scalar() == Some(MS::Float) {
                            // `1 / x` with the bare literal is how the exporter writes the built-in rcp(x)
                            let v = self.eval(r, fr, mem, cx, depth)?;
                            let t = numeric_ty(&self.arith(&tb)?)?;
                            return vintr("Rcp", &[t.show()], &[v], &t);
                        }
                        self.op_type(m, &ta, &tb)?;
                        let p = self.eval(l, fr, mem, cx, depth)?;
                        let q = self.eval(r, fr, mem, cx, depth)?;
                        self.binary(m, &ta, &tb, p, q)
                    }
                    OpSem::Land | OpSem::Lor => {
                        let is_and = op_sem(x[0].atom()) == OpSem::Land;
                        match self.type_of(e, fr, cx)? {
                            MTy::S(_) => {
                                let p = self.eval_bool(l, fr, mem, cx, depth)?;
                                if p != is_and {
                                    Some(VV::S(V::B(p)))
                                } else {
                                    Some(VV::S(V::B(self.eval_bool(r, fr, mem, cx, depth)?)))
                                }
                            }
                            t => {
                                // component-wise, both operands evaluated
                                let (ta, tb) = (self.type_of(l, fr, cx)?, self.type_of(r, fr, cx)?);
                                let p = self.eval(l, fr, mem, cx, depth)?;
                                let q = self.eval(r, fr, mem, cx, depth)?;
                                let bt = |from: &MTy, v: VV| -> Option<VV> {
                                    let a = self.arith(from)?;
                                    match (&a, &t) {
                                        (MTy::S(f), MTy::V(_, n)) => Some(VV::V(vec![convert_scalar(*f, MS::Bool, v.scalar()?)?; *n])),
                                        (MTy::V(f, _), _) => Some(VV::V(Self::conv_comps(*f, MS::Bool, v.comps()?)?)),
                                        _ => None,
                                    }
                                };
                                let (p, q) = (bt(&ta, p)?, bt(&tb, q)?);
                                lift2(
                                    &|a, b| match (a, b) {
                                        (V::B(a), V::B(b)) => Some(V::B(if is_and { a && b } else { a || b })),
                                        _ => None,
                                    },
                                    &p,
                                    &q,
                                )
                            }
                        }
                    }
                    OpSem::Assign => {
                        // place first, then the value (as the typed IR; unsequenced in C++14)
                        let t = self.type_of(l, fr, cx)?;
                        let (pl, _, _) = self.place(l, fr, mem, cx, depth)?;
                        let v = if r.head() == "agg" { self.init_value(&t, r, fr, mem, cx, depth)? } else { self.eval_as(&t, r, fr, mem, cx, depth)? };
                        mem.write(&pl, v.clone())?;
                        Some(v)
                    }
                    OpSem::Compound(m) => {
                        let t = self.type_of(l, fr, cx)?;
                        let tr = self.type_of(r, fr, cx)?;
                        let ct = self.op_type(m, &t, &tr)?;
                        let (pl, _, _) = self.place(l, fr, mem, cx, depth)?;
                        let q = self.eval(r, fr, mem, cx, depth)?;
                        let cur = mem.read(&pl)?;
                        let res = self.binary(m, &t, &tr, cur, q)?;
                        // the result is converted back to the left type
                        let at = self.arith(&t)?;
                        let back = match (&ct, &at) {
                            (MTy::S(f), MTy::S(k)) => VV::S(convert_scalar(*f, *k, res.scalar()?)?),
                            (MTy::V(f, n), MTy::V(k, n2)) if n == n2 => VV::V(Self::conv_comps(*f, *k, res.comps()?)?),
                            (MTy::M(..), MTy::M(..)) => res,
                            _ => return stuck(Stuck::Class(C_IMPLICIT), format!("compound assignment computes in {} and stores to {}", ct.show(), t.show())),
                        };
                        mem.write(&pl, back.clone())?;
                        Some(back)
                    }
                    OpSem::Comma => {
                        self.type_of(l, fr, cx)?;
                        self.eval(l, fr, mem, cx, depth)?;
                        self.eval(r, fr, mem, cx, depth)
                    }
                    _ => None,
                }
            }
            _ => other(format!("expression form {}", e.head())),
        }
    }
}

#!/bin/sh
# Build the framework from files on disk only (offline): Lean library + model driver, Rust harness.
set -e
cd "$(dirname "$0")"
export CARGO_NET_OFFLINE=true
mkdir -p build evidence replays
python3 tools/translate.py >/dev/null
MODS=$(python3 - <<'PY'
import glob, importlib, os, sys
sys.path.insert(0, os.getcwd()); sys.path.insert(0, os.path.join(os.getcwd(), "tools"))
mods = []
for f in sorted(glob.glob("checks/c[0-9][0-9].py")):
    spec = importlib.import_module("checks." + os.path.basename(f)[:-3]).SPEC
    mods += spec.get("lean_modules", [])
    mods.append("rsslmodel_" + spec["id"].lower())
print(" ".join(dict.fromkeys(mods)))
PY
)
(cd lean && lake build $MODS 2>&1 | grep -v conda | tail -5)
(cd harness && cargo build --offline 2>&1 | grep -v conda | tail -3)
echo "setup done"

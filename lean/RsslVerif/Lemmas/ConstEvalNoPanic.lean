import RsslVerif.Lemmas.ConstEvalExpr
/-!
# C13 helper lemmas, part 5: the evaluator model never panics on expressions with admissible operand kinds

The argument rests on two decidable properties of the *generated* tables (`tableSafe`, `castTableSafe`): no
arm that can be reached with non-enum operands uses a panicking form.  Reverting e.g. `wrapping_add` to `+`
in the Rust source changes `Gen.EvalTable` and makes `tableSafe_ok` (a `decide`) fail.
-/
namespace RsslVerif.Lemmas.ConstEval
open RsslVerif.Gen.EvalTable RsslVerif.Model.ConstEval
open RsslVerif.Spec.HlslConst (bv sInt uInt fitsLit lit?)

/-- the result is not a panic -/
def NoPanic {α : Type} (r : Except Err α) : Prop := ∀ msg, r ≠ .error (.panic msg)

@[simp] theorem noPanic_ok {α : Type} (a : α) : NoPanic (.ok a : Except Err α) := by intro m h; cases h
@[simp] theorem noPanic_notConst {α : Type} : NoPanic (.error .notConst : Except Err α) := by intro m h; cases h
@[simp] theorem noPanic_stuck {α : Type} : NoPanic (.error .stuck : Except Err α) := by intro m h; cases h
@[simp] theorem noPanic_panic {α : Type} (s : String) : NoPanic (.error (.panic s) : Except Err α) ↔ False :=
  ⟨fun h => h s rfl, False.elim⟩
theorem noPanic_ite {α : Type} {c : Prop} [Decidable c] {a b : Except Err α} (ha : NoPanic a) (hb : NoPanic b) :
    NoPanic (if c then a else b) := by split <;> assumption

/-- an arm of `evaluate_operator` that cannot panic on operands of kind `k` -/
def ruleSafe (k : Kind) (r : Rule) : Bool :=
  match r with
  | .panic _ => false
  | .arith .wrapping .div zg _ | .arith .wrapping .rem zg _ => zg      -- `wrapping_div(0)` panics
  | .arith .wrapping _ _ _ => true
  | .arith .checked _ _ _ => true
  | .arith .plain .rem zg _ => zg && (k == .UInt32 || k == .UInt64)    -- unsigned `%` behind a zero guard
  | .arith .plain _ _ _ => false                                       -- overflow check of the debug build
  | .litShl m _ => m == .checked
  | .litShr m => m != .plain
  | _ => true

theorem deliver_noPanic {t : IntTy} {m : Mode} {a : Arith} {z : Int} (hm : m ≠ .plain) :
    NoPanic (deliver t m a z) := by
  cases m <;> simp [deliver] at hm ⊢
  exact noPanic_ite (by simp) (by simp)

theorem okInt_noPanic {rk : Kind} {r : Except Err Int} (h : NoPanic r) : NoPanic (okInt rk r) := by
  cases r with
  | error e => cases e <;> simp_all [okInt]
  | ok z => simp [okInt]; cases mkInt rk z <;> simp

theorem shiftAmount_noPanic {t : IntTy} {m : Mode} {a : Arith} {y : Int} (hm : m ≠ .plain) :
    NoPanic (shiftAmount t m a y) := by
  cases m <;> simp [shiftAmount] at hm ⊢
  exact noPanic_ite (by simp) (by simp)

theorem evalShl_noPanic {t : IntTy} {m : Mode} {x y : Int} (hm : m ≠ .plain) : NoPanic (evalShl t m x y) := by
  unfold evalShl
  have := shiftAmount_noPanic (t := t) (a := .shl) (y := y) hm
  cases h : shiftAmount t m .shl y with
  | error e => rw [h] at this; cases e <;> simp_all
  | ok n => simp

theorem evalShr_noPanic {t : IntTy} {m : Mode} {x y : Int} (hm : m ≠ .plain) : NoPanic (evalShr t m x y) := by
  unfold evalShr
  have := shiftAmount_noPanic (t := t) (a := .shr) (y := y) hm
  cases h : shiftAmount t m .shr y with
  | error e => rw [h] at this; cases e <;> simp_all
  | ok n => simp

theorem evalArith_noPanic (t : IntTy) (k : Kind) (m : Mode) (ar : Arith) (zg one : Bool) (x y : Int)
    (hs : ruleSafe k (.arith m ar zg one) = true) (hu : (k == .UInt32 || k == .UInt64) = true → t.signed = false)
    (hz : zg = true → y ≠ 0) :
    NoPanic (evalArith t m ar x y) := by
  cases m <;> cases ar <;> simp [ruleSafe] at hs <;> simp only [evalArith]
  all_goals first
    | exact deliver_noPanic (by simp)
    | exact evalShl_noPanic (by simp)
    | exact evalShr_noPanic (by simp)
    | skip
  · -- plain `%` on an unsigned type behind a zero guard
    have hy := hz hs.1
    have hsg : t.signed = false := hu (by simpa using hs.2)
    simp [evalRem, hy, hsg]
  · have hy := hz hs
    simp only [evalDiv, hy, if_false]; exact deliver_noPanic (by simp)
  · have hy := hz hs
    simp only [evalRem, hy, if_false]
    exact noPanic_ite (by simp [remOverflow]) (by simp)
  · simp only [evalDiv]
    exact noPanic_ite (by simp [zeroDivisor]) (deliver_noPanic (by simp))
  · simp only [evalRem]
    exact noPanic_ite (by simp [zeroDivisor]) (noPanic_ite (by simp [remOverflow]) (by simp))

theorem evalLitShl_noPanic (rt : Bool) (x y : Int) : NoPanic (evalLitShl .checked rt x y) := by
  unfold evalLitShl
  apply noPanic_ite (by simp)
  simp only [evalArith]
  cases hs : evalShl i128 .checked x y with
  | error e =>
    have := evalShl_noPanic (t := i128) (m := .checked) (x := x) (y := y) (by simp)
    rw [hs] at this; cases e <;> simp_all
  | ok s =>
    obtain ⟨hy, _⟩ := evalShl_checked.mp hs
    cases rt
    · simp
    · simp only [if_true, evalShr_plain hy]
      exact noPanic_ite (by simp) (by simp)

theorem evalLitShr_noPanic (m : Mode) (hm : m ≠ .plain) (x y : Int) : NoPanic (evalLitShr m x y) := by
  unfold evalLitShr
  exact noPanic_ite (by simp) (by simp only [evalArith]; exact evalShr_noPanic hm)

/-- a safe arm does not panic -/
theorem applyRule_noPanic (r : Rule) (rk : Kind) (a : Constant) (b : Option Constant)
    (hs : ruleSafe a.kind r = true) : NoPanic (applyRule r rk a b) := by
  cases r with
  | panic msg => simp [ruleSafe] at hs
  | arith m ar zg one =>
    simp only [applyRule]
    split
    · rename_i t x y ht hx hy
      by_cases hg : (zg && y == 0) = true
      · simp [hg]
      · simp only [hg]
        apply okInt_noPanic
        apply evalArith_noPanic t a.kind m ar zg one x y hs
        · intro hk
          cases a <;> simp [Constant.kind] at hk <;> simp [Constant.kind, intTyOf] at ht <;> (subst ht; rfl)
        · intro hz hy0; simp [hz, hy0] at hg
    · simp
  | litShl m rt =>
    simp [ruleSafe] at hs; subst hs
    simp only [applyRule]
    split
    · exact okInt_noPanic (evalLitShl_noPanic _ _ _)
    · simp
  | litShr m =>
    simp [ruleSafe] at hs
    simp only [applyRule]
    split
    · exact okInt_noPanic (evalLitShr_noPanic _ hs _ _)
    · simp
  | notConst => simp [applyRule]
  | pass => simp [applyRule]
  | bitNot => simp only [applyRule]; split <;> simp [okInt]; split <;> simp
  | bitAnd => simp only [applyRule]; split <;> simp [okInt]; split <;> simp
  | bitOr => simp only [applyRule]; split <;> simp [okInt]; split <;> simp
  | bitXor => simp only [applyRule]; split <;> simp [okInt]; split <;> simp
  | logNot => simp only [applyRule]; split <;> simp
  | logAnd => simp only [applyRule]; split <;> simp
  | logOr => simp only [applyRule]; split <;> simp
  | fneg => simp only [applyRule]; split <;> simp; split <;> simp
  | cmp c => simp only [applyRule]; split <;> simp
  | eq => simp only [applyRule]; split <;> simp
  | ne => simp only [applyRule]; split <;> simp

theorem lookupArm_mem {ρ : Type} {arms : List (Kind × Kind × ρ)} {k rk : Kind} {r : ρ}
    (h : lookupArm arms k = some (rk, r)) : (k, rk, r) ∈ arms := by
  induction arms with
  | nil => simp [lookupArm] at h
  | cons hd tl ih =>
    obtain ⟨k', rk', r'⟩ := hd
    simp only [lookupArm] at h
    split at h
    · rename_i hk; simp at h; subst hk; simp [h.1, h.2]
    · exact List.mem_cons_of_mem _ (ih h)

def armsSafe (arms : List (Kind × Kind × Rule)) : Bool :=
  arms.all fun x => x.1 == .Enum || ruleSafe x.1 x.2.2

def dfltSafe (r : Rule) : Bool :=
  match r with
  | .notConst | .pass | .eq | .ne => true
  | _ => false

/-- the property of the generated table the no-panic theorem rests on: no arm for a non-enum kind uses a
    panicking form (plain overflow-checked arithmetic, unguarded division, `panic!`), and every catch-all arm
    except the one of `BitwiseNot` is harmless -/
def tableSafe : Bool :=
  Op.all.all fun o =>
    match opTable o with
    | none => true
    | some e => armsSafe e.arms && (o == .BitwiseNot || dfltSafe e.dflt)

theorem tableSafe_ok : tableSafe = true := by decide

theorem mem_Op_all (o : Op) : o ∈ Op.all := by cases o <;> decide

theorem ruleSafe_dflt {r : Rule} (h : dfltSafe r = true) (k : Kind) : ruleSafe k r = true := by
  cases r <;> simp [dfltSafe] at h <;> rfl

theorem table_facts {o : Op} {e : OpEntry} (h : opTable o = some e) :
    armsSafe e.arms = true ∧ (o = .BitwiseNot ∨ dfltSafe e.dflt = true) := by
  have := tableSafe_ok
  simp only [tableSafe, List.all_eq_true] at this
  have := this o (mem_Op_all o)
  simpa [h] using this

theorem applyOp_noPanic (o : Op) (args : List Constant) (harity : arityOk o args.length = true)
    (hk : ∀ a ∈ args, a.kind ≠ .Enum) (hnot : o = .BitwiseNot → ∀ a ∈ args, intKind a.kind = true) :
    NoPanic (applyOp o args) := by
  unfold applyOp
  cases ho : opTable o with
  | none => simp
  | some e =>
    obtain ⟨harms, hd⟩ := table_facts ho
    have armSafe : ∀ (a : Constant) rk r, a.kind ≠ .Enum → lookupArm e.arms a.kind = some (rk, r) →
        ruleSafe a.kind r = true := by
      intro a rk r hne hl
      have hm := lookupArm_mem hl
      simp only [armsSafe, List.all_eq_true] at harms
      have := harms _ hm
      simpa [hne] using this
    simp only [arityOk, ho] at harity
    by_cases hbn : o = .BitwiseNot
    · subst hbn
      simp [opTable] at ho; subst ho
      match args, harity, hnot with
      | [a], _, hnot =>
        have := hnot rfl a (by simp)
        cases a <;> simp [intKind, Constant.kind] at this <;> simp [c13, okInt]
    · have hdf : ∀ k, ruleSafe k e.dflt = true := fun k => ruleSafe_dflt (hd.resolve_left hbn) k
      cases hs : e.shape with
      | unary =>
        simp only [hs] at harity
        match args, harity, hk with
        | [a], _, hk =>
          simp only [hs]
          have hne := hk a (by simp)
          cases hl : lookupArm e.arms a.kind with
          | none => exact applyRule_noPanic _ _ _ _ (hdf _)
          | some p => obtain ⟨rk, r⟩ := p; exact applyRule_noPanic _ _ _ _ (armSafe a rk r hne hl)
      | binary =>
        simp only [hs] at harity
        match args, harity, hk with
        | [a, b], _, hk =>
          simp only [hs]
          have hne := hk a (by simp)
          cases hl : (if a.kind = b.kind then lookupArm e.arms a.kind else none) with
          | none => exact applyRule_noPanic _ _ _ _ (hdf _)
          | some p =>
            obtain ⟨rk, r⟩ := p
            have hl' : lookupArm e.arms a.kind = some (rk, r) := by
              split at hl
              · exact hl
              · cases hl
            exact applyRule_noPanic _ _ _ _ (armSafe a rk r hne hl')
      | whole =>
        simp only [hs] at harity
        match args, harity with
        | [a, b], _ => simp only [hs]; exact applyRule_noPanic _ _ _ _ (hdf _)

/-! ## casts -/

def castRowsSafe (rows : List (Kind × Kind × CastRule)) : Bool :=
  rows.all fun x => x.1 == .Enum || x.2.2 != .unreachable

def castTableSafe : Bool :=
  [Scalar.Bool, .IntLiteral, .Int32, .UInt32, .FloatLiteral, .Float16, .Float32, .Float64].all fun s =>
    match castTable s with
    | none => true
    | some rows => castRowsSafe rows

theorem castTableSafe_ok : castTableSafe = true := by decide

theorem cast_facts {s : Scalar} {rows : List (Kind × Kind × CastRule)} (h : castTable s = some rows) :
    castRowsSafe rows = true := by
  have := castTableSafe_ok
  simp only [castTableSafe, List.all_eq_true] at this
  have := this s (by cases s <;> decide)
  simpa [h] using this

theorem mkConst_noPanic (rk : Kind) (z : Option Int) (b : Option Nat) (c : Option Bool) :
    NoPanic (mkConst rk z b c) := by
  unfold mkConst
  split <;> simp <;> split <;> simp

theorem applyCastRule_noPanic (r : CastRule) (rk : Kind) (v : Constant) (h : r ≠ .unreachable) :
    NoPanic (applyCastRule r rk v) := by
  cases r <;> simp only [applyCastRule] <;> (try contradiction)
  all_goals (repeat' split) <;> first | exact mkConst_noPanic _ _ _ _ | simp

theorem castScalar_noPanic (s : Scalar) (v : Constant) (hv : wf v = true) : NoPanic (castScalar s v) := by
  unfold castScalar
  cases hc : castTable s with
  | none => simp
  | some rows =>
    simp only
    have hp := plain_strip hv
    have hstrip : stripEnum v = S.strip v := by cases v <;> rfl
    rw [hstrip]
    cases hl : lookupArm rows (S.strip v).kind with
    | none => simp
    | some p =>
      obtain ⟨rk, r⟩ := p
      have hm := lookupArm_mem hl
      have hs := cast_facts hc
      simp only [castRowsSafe, List.all_eq_true] at hs
      have := hs _ hm
      have hne : (S.strip v).kind ≠ .Enum := by
        simp [plain] at hp; exact hp.2
      simp [hne] at this
      exact applyCastRule_noPanic r rk _ this

theorem evalCast_noPanic (t : Ty) (v : Constant) (hv : wf v = true) : NoPanic (evalCast t v) := by
  cases t with
  | scalar s => exact castScalar_noPanic s v hv
  | enum id u =>
    simp only [evalCast]
    have := castScalar_noPanic u v hv
    cases hc : castScalar u v with
    | ok x => simp
    | error e => rw [hc] at this; cases e <;> simp_all
  | other => simp [evalCast]


/-! ## expressions -/

theorem enumIdOf_eq (v : Constant) : enumIdOf v = S.enumId? v := by cases v <;> rfl
theorem stripEnum_eq (v : Constant) : stripEnum v = S.strip v := by cases v <;> rfl

def AllSame (l : List Constant) : Prop := ∀ u ∈ l, ∀ w ∈ l, S.enumId? u = S.enumId? w

theorem allSame_of_uniform {vs : List Constant} (h : uniformEnums vs = true) : AllSame vs := by
  cases vs with
  | nil => intro u hu; cases hu
  | cons v r =>
    simp only [uniformEnums, List.all_eq_true, beq_iff_eq, enumIdOf_eq] at h
    have key : ∀ u ∈ v :: r, S.enumId? u = S.enumId? v := by
      intro u hu
      rcases List.mem_cons.mp hu with rfl | hu
      · rfl
      · exact h u hu
    intro u hu w hw
    rw [key u hu, key w hw]

/-- `enum_wrap` always comes from an operand already seen -/
def WrapFrom (acc : Acc) (pre : List Constant) : Prop :=
  ∀ j, acc.wrap = some j → ∃ u ∈ pre, S.enumId? u = some j

theorem pushArg_noPanic {acc : Acc} {pre : List Constant} {v : Constant}
    (hinv : WrapFrom acc pre) (hsame : AllSame (pre ++ [v])) : NoPanic (pushArg acc v) := by
  have hv : v ∈ pre ++ [v] := by simp
  cases v with
  | enum id u =>
    have hc : (acc.wrap.isNone || acc.wrap == some id) = true := by
      cases hw : acc.wrap with
      | none => simp
      | some j =>
        obtain ⟨x, hx, hxj⟩ := hinv j hw
        have := hsame x (by simp [hx]) _ hv
        rw [hxj] at this
        simp [S.enumId?] at this
        simp [this]
    simp [pushArg, hc]
  | _ =>
    have hc : acc.wrap.isNone = true := by
      cases hw : acc.wrap with
      | none => simp
      | some j =>
        obtain ⟨x, hx, hxj⟩ := hinv j hw
        have := hsame x (by simp [hx]) _ hv
        rw [hxj] at this
        simp [S.enumId?] at this
    simp [pushArg, hc]

theorem pushArg_wrapFrom {acc acc' : Acc} {pre : List Constant} {v : Constant}
    (hinv : WrapFrom acc pre) (h : pushArg acc v = .ok acc') : WrapFrom acc' (pre ++ [v]) := by
  obtain ⟨_, hw⟩ := pushArg_ok h
  intro j hj
  rw [hw] at hj
  cases hv : S.enumId? v with
  | some i => simp [hv] at hj; subst hj; exact ⟨v, by simp, hv⟩
  | none =>
    simp [hv] at hj
    obtain ⟨u, hu, huj⟩ := hinv j hj
    exact ⟨u, by simp [hu], huj⟩

/-- what a successful operand loop has pushed -/
theorem evalArgs_prefix : ∀ (args : Args) (acc acc' : Acc), evalArgs args acc = .ok acc' →
    acc'.vals = ((prefixVals args).map S.strip).reverse ++ acc.vals ∧ (prefixVals args).length = argsLen args
  | .nil, acc, acc', h => by simp [evalArgs] at h; subst h; simp [prefixVals, argsLen]
  | .cons e rest, acc, acc', h => by
    simp only [evalArgs] at h
    cases he : eval e with
    | error err => simp [he] at h
    | ok x =>
      simp only [he] at h
      cases hp : pushArg acc x with
      | error err => simp [hp] at h
      | ok acc1 =>
        simp only [hp] at h
        obtain ⟨hv1, _⟩ := pushArg_ok hp
        obtain ⟨ih1, ih2⟩ := evalArgs_prefix rest acc1 acc' h
        simp [prefixVals, he, ih1, hv1, argsLen, ih2]

theorem prefixVals_wf : ∀ (args : Args), wfArgs args = true → ∀ v ∈ prefixVals args, wf v = true
  | .nil, _, v, hv => by simp [prefixVals] at hv
  | .cons e rest, hw, v, hv => by
    simp only [wfArgs, Bool.and_eq_true] at hw
    simp only [prefixVals] at hv
    cases he : eval e with
    | error err => simp [he] at hv
    | ok x =>
      simp only [he, List.mem_cons] at hv
      rcases hv with rfl | hv
      · exact (eval_agrees e hw.1 _ he).2
      · exact prefixVals_wf rest hw.2 v hv

mutual
theorem eval_noPanic : ∀ (e : Expr), wfE e = true → kindsOk e = true → NoPanic (eval e)
  | .lit c, _, _ => by simp [eval]
  | .var none, _, _ => by simp [eval]
  | .var (some c), _, _ => by simp [eval]
  | .global none, _, _ => by simp [eval]
  | .global (some c), _, _ => by simp [eval]
  | .enumValue id c, _, _ => by simp [eval]
  | .other, _, _ => by simp [eval]
  | .sizeOf t, hw, _ => by
    simp only [eval]
    cases t with
    | scalar s => simp only [evalSizeOf]; split <;> simp
    | other => simp [evalSizeOf]
    | enum u =>
      simp only [wfE] at hw
      simp only [evalSizeOf]
      cases hs : scalarSize u with
      | none => simp [hs] at hw
      | some n => simp
  | .cast t e, hw, hk => by
    simp only [eval]
    have ih := eval_noPanic e (by simpa [wfE] using hw) (by simpa [kindsOk] using hk)
    cases he : eval e with
    | error err => rw [he] at ih; cases err <;> simp_all
    | ok x =>
      simp only
      exact evalCast_noPanic t x (eval_agrees e (by simpa [wfE] using hw) x he).2
  | .op o args, hw, hk => by
    simp only [eval]
    simp only [wfE, Bool.and_eq_true] at hw
    simp only [kindsOk, operandsOk, Bool.and_eq_true] at hk
    obtain ⟨hka, huni, hnot⟩ := hk
    have hargs := evalArgs_noPanic args hw.2 hka ⟨[], none⟩ []
      (by intro j hj; simp at hj) (by simpa using allSame_of_uniform huni)
    cases ha : evalArgs args ⟨[], none⟩ with
    | error err => rw [ha] at hargs; cases err <;> simp_all
    | ok acc =>
      simp only
      obtain ⟨hvals, hlen⟩ := evalArgs_prefix args _ _ ha
      have hpw := prefixVals_wf args hw.2
      have hrev : acc.vals.reverse = (prefixVals args).map S.strip := by simp [hvals]
      have hop : NoPanic (applyOp o acc.vals.reverse) := by
        rw [hrev]
        apply applyOp_noPanic
        · simpa [hlen] using hw.1
        · intro a ha'
          obtain ⟨v, hv, rfl⟩ := List.mem_map.mp ha'
          have := plain_strip (hpw v hv)
          simp [plain] at this; exact this.2
        · intro hbn a ha'
          obtain ⟨v, hv, rfl⟩ := List.mem_map.mp ha'
          subst hbn
          simp [List.all_eq_true, stripEnum_eq] at hnot
          exact hnot v hv
      unfold finishOp
      cases hr : applyOp o acc.vals.reverse with
      | error err => rw [hr] at hop; cases err <;> simp_all
      | ok r => simp only; split <;> simp
theorem evalArgs_noPanic : ∀ (args : Args), wfArgs args = true → kindsOkArgs args = true →
    ∀ (acc : Acc) (pre : List Constant), WrapFrom acc pre → AllSame (pre ++ prefixVals args) →
    NoPanic (evalArgs args acc)
  | .nil, _, _, acc, pre, _, _ => by simp [evalArgs]
  | .cons e rest, hw, hk, acc, pre, hinv, hsame => by
    simp only [wfArgs, Bool.and_eq_true] at hw
    simp only [kindsOkArgs, Bool.and_eq_true] at hk
    simp only [evalArgs]
    have ih := eval_noPanic e hw.1 hk.1
    cases he : eval e with
    | error err => rw [he] at ih; cases err <;> simp_all
    | ok x =>
      simp only
      simp only [prefixVals, he] at hsame
      have hsame1 : AllSame (pre ++ [x]) := by
        intro u hu w hw'
        exact hsame u (by simp at hu ⊢; rcases hu with h | h <;> simp [h]) w
          (by simp at hw' ⊢; rcases hw' with h | h <;> simp [h])
      have hp := pushArg_noPanic hinv hsame1
      cases hpa : pushArg acc x with
      | error err => rw [hpa] at hp; cases err <;> simp_all
      | ok acc1 =>
        simp only
        exact evalArgs_noPanic rest hw.2 hk.2 acc1 (pre ++ [x]) (pushArg_wrapFrom hinv hpa)
          (by simpa using hsame)
end

end RsslVerif.Lemmas.ConstEval

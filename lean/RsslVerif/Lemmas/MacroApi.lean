import RsslVerif.Lemmas.MacroScope
import RsslVerif.Lemmas.Include
/-!
API-level defines versus `#define` lines (after the 9f7cdb8 fix): the initial defines are processed by the very function
that processes a `#define` line, so installing them equals running the lines `#define name value` first; and the
macro list keeps pairwise distinct names through the whole run.
-/
namespace RsslVerif.Lemmas.MacroApi
open RsslVerif.Model.Macro RsslVerif.Model.Include RsslVerif.Lemmas.MacroScope RsslVerif.Lemmas.Include

/-- the line `#define name value` -/
def defineLineOf (d : ApiDefine) : Line := .define (⟨.ws, true⟩ :: apiCommand d)

theorem parseDefine_ws_cons (c : List PTok) (b : Bool) : parseDefine (⟨.ws, b⟩ :: c) = parseDefine c := by
  have : trimStart (⟨.ws, b⟩ :: c) = trimStart c := by
    unfold trimStart
    rw [List.dropWhile_cons]
    simp [Tok.isBlank]
  unfold parseDefine
  rw [this]

theorem doDefine_ws_cons (ms : List Macro) (c : List PTok) (b : Bool) :
    doDefine ms (⟨.ws, b⟩ :: c) = doDefine ms c := by
  unfold doDefine
  rw [parseDefine_ws_cons]

theorem applyMacros_nil (ms : List Macro) : applyMacros ms [] = .ok [] := by
  unfold applyMacros
  rw [applyLoop]
  simp [SearchPos.start]

theorem flush_nil (st : State) : flush st [] = .ok st := by
  unfold flush
  rw [applyMacros_nil]
  simp

/-- running the `#define` lines of the API list = installing the API list -/
theorem foldLines_defines (inc : Inc) (cur : String) (ms : List Macro) (out : List PTok) (once : List String)
    (api : List ApiDefine) (rest : List Line) (hline : ∀ d ∈ api, hasLineBreak d = false) :
    foldLines inc cur (⟨ms, out, once⟩, []) (api.map defineLineOf ++ rest) =
      match initialMacros ms api with
      | .error e => .error e
      | .ok ms' => foldLines inc cur (⟨ms', out, once⟩, []) rest := by
  induction api generalizing ms with
  | nil => simp [initialMacros]
  | cons d ds ih =>
    simp only [List.map_cons, List.cons_append, foldLines, defineLineOf, stepLine, flush_nil,
      doDefine_ws_cons, initialMacros, hline d (by simp), Bool.false_eq_true, if_false]
    cases hd : doDefine ms (apiCommand d) with
    | error e => rfl
    | ok ms' => exact ih ms' (fun x hx => hline x (by simp [hx]))

theorem fileStart_of_ne_nil {ls : List Line} (h : ls ≠ []) : fileStart ls = [] := by
  cases ls with
  | nil => exact absurd rfl h
  | cons _ _ => rfl

/-! ## names stay pairwise distinct through the whole run -/

theorem doDefine_nodup {ms ms' : List Macro} {cmd : List PTok} (hn : (names ms).Nodup)
    (h : doDefine ms cmd = .ok ms') : (names ms').Nodup := by
  obtain ⟨m, _, rfl⟩ := doDefine_eq h
  exact nodup_applyEvent hn _

theorem doUndef_nodup {ms ms' : List Macro} {cmd : List PTok} (hn : (names ms).Nodup)
    (h : doUndef ms cmd = .ok ms') : (names ms').Nodup := by
  obtain ⟨n, b, _, rfl⟩ := doUndef_eq h
  exact nodup_applyEvent hn _

theorem initialMacros_nodup {ms ms' : List Macro} (api : List ApiDefine) (hn : (names ms).Nodup)
    (h : initialMacros ms api = .ok ms') : (names ms').Nodup := by
  induction api generalizing ms with
  | nil => simp only [initialMacros] at h; cases h; exact hn
  | cons d ds ih =>
    simp only [initialMacros] at h
    split at h
    · cases h
    · cases hd : doDefine ms (apiCommand d) with
      | error e => simp [hd] at h
      | ok m1 =>
        simp only [hd] at h
        exact ih (doDefine_nodup hn hd) h

def KeepsNodup (inc : Inc) : Prop :=
  ∀ n st r, inc n st = .ok r → (names st.macros).Nodup → (names r.macros).Nodup

theorem stepLine_nodup {inc : Inc} (hi : KeepsNodup inc) (cur : String) (s r : State × List PTok) (l : Line)
    (h : stepLine inc cur s l = .ok r) (hn : (names s.1.macros).Nodup) : (names r.1.macros).Nodup := by
  obtain ⟨st, active⟩ := s
  cases l with
  | text t => simp only [stepLine] at h; cases h; exact hn
  | define cmd =>
    simp only [stepLine] at h
    cases hf : flush st active with
    | error e => simp [hf] at h
    | ok st1 =>
      simp only [hf] at h
      cases hd : doDefine st1.macros cmd with
      | error e => simp [hd] at h
      | ok ms =>
        simp only [hd] at h; cases h
        exact doDefine_nodup (by simpa [flush_macros hf] using hn) hd
  | undef cmd =>
    simp only [stepLine] at h
    cases hf : flush st active with
    | error e => simp [hf] at h
    | ok st1 =>
      simp only [hf] at h
      cases hd : doUndef st1.macros cmd with
      | error e => simp [hd] at h
      | ok ms =>
        simp only [hd] at h; cases h
        exact doUndef_nodup (by simpa [flush_macros hf] using hn) hd
  | pragmaWarning =>
    simp only [stepLine] at h
    cases hf : flush st active with
    | error e => simp [hf] at h
    | ok st1 => simp only [hf] at h; cases h; simpa [flush_macros hf] using hn
  | pragmaOnce =>
    simp only [stepLine] at h
    cases hf : flush st active with
    | error e => simp [hf] at h
    | ok st1 => simp only [hf] at h; cases h; simpa [flush_macros hf] using hn
  | incl name =>
    simp only [stepLine] at h
    cases hf : flush st active with
    | error e => simp [hf] at h
    | ok st1 =>
      simp only [hf] at h
      cases hn2 : inc name st1 with
      | error e => simp [hn2] at h
      | ok st2 =>
        simp only [hn2] at h; cases h
        exact hi name st1 st2 hn2 (by simpa [flush_macros hf] using hn)
  | rejected e =>
    simp only [stepLine] at h
    cases hf : flush st active <;> simp [hf] at h
  | null =>
    simp only [stepLine] at h
    cases hf : flush st active with
    | error e => simp [hf] at h
    | ok st1 => simp only [hf] at h; cases h; simpa [flush_macros hf] using hn

theorem foldLines_nodup {inc : Inc} (hi : KeepsNodup inc) (cur : String) (s r : State × List PTok)
    (ls : List Line) (h : foldLines inc cur s ls = .ok r) (hn : (names s.1.macros).Nodup) :
    (names r.1.macros).Nodup := by
  induction ls generalizing s with
  | nil => simp only [foldLines] at h; cases h; exact hn
  | cons l ls ih =>
    simp only [foldLines] at h
    cases hs : stepLine inc cur s l with
    | error e => simp [hs] at h
    | ok s' =>
      simp only [hs] at h
      exact ih s' h (stepLine_nodup hi cur s s' l hs hn)

theorem runFile_nodup {inc : Inc} (hi : KeepsNodup inc) (cur : String) (st r : State) (ls : List Line)
    (h : runFile inc cur st ls = .ok r) (hn : (names st.macros).Nodup) : (names r.macros).Nodup := by
  unfold runFile at h
  cases hf : foldLines inc cur (st, fileStart ls) ls with
  | error e => simp [hf] at h
  | ok s' =>
    obtain ⟨st1, a⟩ := s'
    simp only [hf] at h
    have := foldLines_nodup hi cur _ _ ls hf hn
    simpa [flush_macros h] using this

theorem includeFile_keepsNodup (h : Handler) (fuel : Nat) : KeepsNodup (includeFile h fuel) := by
  induction fuel with
  | zero => intro n st r hr; simp [includeFile] at hr
  | succ k ih =>
    intro n st r hr hn
    simp only [includeFile] at hr
    cases hh : h n with
    | none => simp [hh] at hr
    | some fd =>
      obtain ⟨real, lines⟩ := fd
      simp only [hh] at hr
      split at hr
      · exact runFile_nodup ih real st r [] hr hn
      · exact runFile_nodup ih real st r lines hr hn

end RsslVerif.Lemmas.MacroApi

"""C18 — targets agree on everything that is target-independent."""
import re

T = "RsslVerif.Thm.C18."


def nontrivial(req, obs):
    f = req.split("\t")
    if f[0] == "C18.cross":
        # accepted by at least the HLSL flavours, with at least one resource and one pipeline
        return len(f) > 5 and "dx=ok" in f[5] and f[3] != "" and f[4] != ""
    if f[0] == "C18.mode":
        # accepted by the HLSL flavours with at least one declared resource (no-pipeline mode: bindings without stages)
        return len(f) > 6 and "dx=ok" in f[6] and f[4] != ""
    if f[0] == "C18.annot":
        return "{dx:" in obs
    if f[0] == "C18.simplify":
        # at least one cbuffer block in the program
        return " cbuffer " in req
    if f[0] == "C18.pp":
        # at least one macro is defined or tested and something comes out
        return ("D " in f[3] or "IF" in f[3]) and obs.startswith("ok:") and len(obs) > 3
    return True


def finding_key(req, obs, detail):
    f = req.split("\t")
    m = re.match(r"FAIL:panic ([^:]+):\d+: (.*)$", detail or "")
    if m:
        return f"panic {m.group(1)}: " + re.sub(r"\d+", "N", m.group(2))
    # the harness tags a name difference that is wholly explained by a declared name being a reserved word of only one of
    # the two target languages (decided from the RESERVED_NAMES tables of the source tree); anything else keeps its own key
    m = re.match(r"FAIL:binding-name-reserved-in-one-target:(hlsl|msl|both): ", detail or "")
    if f[0] in ("C18.cross", "C18.mode") and m:
        return f"binding-name-reserved-in-one-target:{m.group(1)}"
    return req


def shrink(req):
    f = req.split("\t")
    if f[0] == "C18.pp" and len(f) == 4:
        lines = f[3].split(" ;; ")
        for i in range(len(lines)):
            yield "\t".join(f[:3] + [" ;; ".join(lines[:i] + lines[i + 1:])])
        if f[2]:
            yield "\t".join(f[:2] + ["", f[3]])
    # C18.cross requests are (seed, variant~drops): drop helpers, statics, pipelines and resources of the generated
    # program one at a time (indices refer to the originally generated program), then try the plain variant
    if f[0] == "C18.cross" and len(f) >= 3:
        variant, _, drops = f[2].partition("~")
        have = [d for d in drops.split(".") if d]
        nres = 8
        cands = ["h", "s"] + [f"p{i}" for i in range(4)] + [f"r{i}" for i in range(nres)]
        for c in cands:
            if c not in have:
                yield "\t".join([f[0], f[1], variant + "~" + ".".join(have + [c]), "", "", ""])
        if variant != "plain" and not variant.startswith("reserved"):
            yield "\t".join([f[0], f[1], "plain" + ("~" + drops if drops else ""), "", "", ""])
    # C18.mode requests are (seed, variant~drops, mode): the same drops; the harness recomputes the other fields
    if f[0] == "C18.mode" and len(f) >= 4:
        variant, _, drops = f[2].partition("~")
        have = [d for d in drops.split(".") if d]
        cands = ["h", "s"] + [f"p{i}" for i in range(4)] + [f"r{i}" for i in range(8)]
        for c in cands:
            if c not in have:
                yield "\t".join([f[0], f[1], variant + "~" + ".".join(have + [c]), f[3], "", "", ""])
        if variant != "plain" and not variant.startswith("reserved") and not variant.startswith("wide"):
            yield "\t".join([f[0], f[1], "plain" + ("~" + drops if drops else ""), f[3], "", "", ""])


def search(ctx):
    """witness candidates after a broken obligation: every variant on a few seeds, and small preprocessor programs that
    define / test / expand one macro under every directive"""
    # the fifth configuration's define list is read through front-end verdicts: fails when MetalBytecode hides them
    out = ["C18.defines\tmtlb"]
    # the other modes of compile(): no pipeline selected / one named pipeline (seed C18-7)
    for seed in range(1, 12):
        for v in ("plain", "state", "typedef-array", "wide", "wide-rich"):
            out.append(f"C18.mode\t{seed * 7919}\t{v}\tnone\t\t\t")
    variants = ["plain", "state", "pp-guard", "pp-macros", "pp-version", "unbounded", "reserved-matrix", "reserved-cb",
                "reserved-kernel", "reserved-cb-main", "reserved-double", "entry-texture", "typedef-array", "nonresource", "nonresource-rq",
                "e-pp-if", "e-parse-mid", "e-type-undef-mid", "e-pipe-entry", "layout-trap", "include", "api-define"]
    for seed in range(1, 40):
        for v in variants:
            out.append(f"C18.cross\t{seed * 7919}\t{v}\t\t\t")
    toks = ["a", "X", "__HLSL_VERSION", "1"]
    for t in ("dx", "msl"):
        # the branch discipline of one #if block (fix 03ca601: nothing follows the #else branch)
        for tail in ("ELSE ;; T b ;; ELSE ;; T c", "ELSE ;; T b ;; ELIF 1 ;; T c", "ELIF 1 ;; T b ;; ELSE ;; T c",
                     "ELIF 0 ;; T b ;; ELIF 1 ;; T c"):
            for c0 in ("0", "1"):
                out.append(f"C18.pp\t{t}\t\tIF {c0} ;; T a ;; {tail} ;; ENDIF")
    conds = ["X", "defined ( X )", "! defined ( X )", "__HLSL_VERSION == 2021", "( X ) && 1", "X == 1 || a"]
    for t in ("dx", "vk", "vkba", "msl"):
        for c in conds:
            for body in toks:
                out.append(f"C18.pp\t{t}\t\tD X {body} ;; IF {c} ;; T X a ;; ELSE ;; T b ;; ENDIF")
                out.append(f"C18.pp\t{t}\tX={body}\tIFDEF X ;; T X ;; ELIF {c} ;; T c ;; ENDIF ;; U X ;; T X")
    return out


SPEC = {
    "id": "C18",
    "gens": ["SlotTables", "CompileTables", "TargetTables", "CbufferTables", "PipelineTables", "HlslGenTables", "HlslIntrinsicTables", "Reserved"],
    "lean_modules": ["RsslVerif.Thm.C18"],
    "theorems": [T + n for n in [
        "unmentioned_define_irrelevant", "target_dependent_names", "frontend_target_independent",
        "target_reads_covered", "targets_share_front_end", "no_branch_after_else",
        "expand_fuel_irrelevant",
        "build_shape_as_modelled", "dx_vk_same_stage_reports", "all_targets_same_stage_kinds_sizes",
        "dx_vk_declarations_differ_only_in_annotations_partial", "dx_register_vk_binding",
        "descriptor_tables_equal", "kind_count_from_declaration", "binding_kinds_counts_shared", "dx_vk_bindings_shared",
        "reflected_kinds_are_resources", "non_resource_global_refused_on_every_target",
        "binding_names_kinds_counts_shared_partial", "binding_names_not_shared",
        "bindings_reported_without_pipeline", "bindings_mode_independent", "binding_kinds_counts_shared_in_every_mode",
        "binding_names_kinds_counts_shared_in_every_mode_partial", "dx_vk_bindings_shared_in_every_mode",
        "all_targets_same_stage_kinds_sizes_in_every_mode",
        "simplify_cbuffers_as_modelled", "msl_reflects_simplified_module", "kinds_counts_shared_through_simplify",
        "bindings_shared_through_simplify_partial", "cbuffer_block_one_binding_everywhere",
        "hlsl_target_sites_as_modelled", "hlsl_exports_differ_only_in_annotations", "dx_vk_differ_only_in_annotations",
        "vk_vkba_differ_only_where_addresses_are", "dx_vk_differ_only_in_annotations_c01", "dx_has_no_vk_annotations",
        "frontEndRunsBeforeAnyTargetSpecificStep", "toolchain_uses_covered", "compile_factors_through_front_end",
        "front_end_diagnostic_same_for_every_target", "msl_metal_bytecode_same_defines", "front_metal_bytecode_eq_msl",
        "metal_bytecode_without_toolchain", "msl_verdict", "buildPipeline_metal_bytecode_no_toolchain", "buildPipeline_msl",
        "valid_for_msl_metal_bytecode_ends_at_toolchain", "rejected_for_msl_metal_bytecode_same_or_toolchain"]],
    "harness": "c18",
    "nontrivial": nontrivial,
    "finding_key": finding_key,
    "shrink": shrink,
    "search": search,
    "rule": "generated shader files (progen: up to 7 resources of 18 kinds incl. arrays, static samplers, bindless, bind groups; "
            "helper call graphs; 1-4 pipelines compute / vertex+pixel / mesh+pixel / task+mesh) in 53 variants (accepted: plain, "
            "explicit pipeline state, include guards, object-like macros, #if __HLSL_VERSION, dead garbage in #if 0 incl. lines "
            "that start with # but name no directive, unbounded "
            "array, resources named like HLSL/MSL reserved words, declarations in an included file, API-level defines, a struct "
            "whose layouts differ between HLSL and Metal, a global of a non-resource object kind (refused by every exporter); rejected: 20 injected lexer / preprocessor / parser / type / "
            "pipeline errors at the top, middle and end of the file; layout validation requested), plus the self-contained wide "
            "programs of harness/src/c17/wgen.rs in 12 option combinations (21 resource kinds, typedef'd / unsized / bindless "
            "arrays, cbuffers with 0-5 members, static sampler properties, per-primitive mesh / pixel shapes, bodies calling "
            "methods on every resource kind, inactive RSSL_TARGET_* text, 25 odd edits), none testing RSSL_TARGET_*, each compiled for "
            "{dx, vk, vk+buffer-address, msl, metal-bytecode} and compared by an oracle written in the property's words (the fifth "
            "configuration ends, on a host without the Metal tool chain, in MetalCompilerNotFound after a successful front end "
            "and export: its front-end verdict and diagnostic must be those of the other four, a file Msl accepts must end in "
            "exactly the tool chain error, a file Metal's exporter refuses in the same error or - later pipeline - the tool "
            "chain error; its define list is read back through front-end verdicts of probing files); plus generated "
            "object-like-macro / conditional-directive programs run through the real preprocessor with each target's observed "
            "define list and compared with the Lean macro model (a quarter of them mention RSSL_TARGET_* on purpose); "
            "every cross program is compiled again with no_pipeline_mode() and with pipeline_name(<one of its pipelines>) on "
            "the five configurations and judged by the same oracle in that mode (C18.mode); "
            "non-trivial = accepted file with resources and pipelines / preprocessor program with macros that produces output",
    "level_text": "Proof of the logic plus source inventories: (1) for a compact executable model of the preprocessor (object-like "
                  "macros with the disabled-set recursion rule, #define/#undef table discipline, the condition chain with its "
                  "3-state gate and the nothing-follows-#else rule of fix 03ca601 (`no_branch_after_else`), "
                  "`defined`), a macro that is never mentioned is proved irrelevant for files of any length and nesting, hence the "
                  "token stream / error is the same for every target when RSSL_TARGET_* is unmentioned, hence compile()'s front "
                  "end (modelled as preprocess-then-a-function-of-the-tokens, the shape and argument reads of which are "
                  "re-extracted from src/compile.rs on every run) gives the same verdict and diagnostic; (2) every textual use "
                  "of args.target / for_spirv / Target::X and of the flags derived from it is inventoried and proved to be one "
                  "of the reviewed sites; (3) the stage reports of DirectX and Vulkan are proved equal and all targets share "
                  "stage kinds and sizes; (4) both back ends' ObjectType->DescriptorType tables are extracted and proved equal, "
                  "descriptor kind/count are proved to be functions of the declaration alone, and the compared part of the "
                  "reflection (static samplers and buffer addresses aside) is proved equal for any declaration list and any two "
                  "parameter sets; a global of an object kind without a register class (RayDesc, RayQuery, TriangleStream: fix "
                  "774c0b4) is proved to be refused by every back end under every parameter set. "
                  "Partial: that the HLSL output for dx and vk differs only in annotations is proved "
                  "for a thin model of the extern global / cbuffer declarations only (the harness compares the real sources "
                  "token for token after erasing `: register(..)` and `[[vk::..]]`); binding *names* are shared only when every "
                  "declared name is reserved in neither or in both target languages (each exporter reports its emitted name) - "
                  "the full statement is false on the current code and its negation is proved with three witnesses "
                  "(`binding_names_not_shared`, replayed as the known-finding class binding-name-reserved-in-one-target); "
                  "DirectX and Vulkan agree on names unconditionally (`dx_vk_bindings_shared`). "
                  "(5) Metal's cbuffer rewrite (simplify_cbuffers) is modelled on the root-definition list and proved, for any "
                  "list and any members (none included), to leave exactly what the thin reflection model assumes: bind -> rewrite "
                  "-> analyse gives one ConstantBuffer binding per block, and kinds / counts agree with the HLSL flavours "
                  "(names: same partial hypothesis); the pass's text is an obligation. (6) A module-level model of the HLSL "
                  "exporter with every inventoried reader of the target-derived flags at its place is proved to produce, for "
                  "any module, exports that are equal after erasing annotations for DirectX vs Vulkan (unconditionally) and "
                  "for Vulkan with vs without buffer addresses wherever no address is declared or used; the function generator "
                  "is a parameter that does not see the target (C01's genFunc is cited as the instance). "
                  "(7) The order of the steps of compile() and of the two arms of build_pipeline() is extracted from the source "
                  "(compileSteps, buildPrefixSteps, hlslArmSteps, mslArmSteps, stepFacts, toolchainUses) and pinned "
                  "(`frontEndRunsBeforeAnyTargetSpecificStep`, `toolchain_uses_covered`); Model/CompileSteps.lean interprets the "
                  "extracted lists with parser, type checker, exporters and the Metal tool chain abstract, and for that order "
                  "compile() is proved to be argument check -> shared front end -> per-pipeline builds "
                  "(`compile_factors_through_front_end`), hence a front-end diagnostic is returned unchanged for every admissible "
                  "target configuration incl. MetalBytecode, with or without a tool chain on the host "
                  "(`front_end_diagnostic_same_for_every_target`); MetalBytecode without tool chain has the closed form front "
                  "diagnostic / no pipeline / first pipeline's Metal export error / MetalCompilerNotFound "
                  "(`metal_bytecode_without_toolchain`), which the model executable uses to predict the fifth verdict of every "
                  "C18.cross case from the Msl run. Covered mode of the step model: all pipelines. "
                  "(8) The other modes of compile() - one named pipeline, no_pipeline_mode() (module exported with "
                  "selected_pipeline = None) - are covered for the reflection: both generate_module functions are read on "
                  "every run for whether the analyse_bindings loop runs, and its result is returned, independently of a "
                  "selected pipeline (`bindings_reported_without_pipeline`, falsified by seed C18-7), `bindingsInMode` "
                  "interprets the extracted facts, and the target-independence theorems for kinds / counts (full), names "
                  "(partial, same hypothesis), DirectX-vs-Vulkan (full) and stage kinds / sizes (full) are restated with the "
                  "mode universally quantified (`*_in_every_mode`); every generated program is also compiled in no-pipeline "
                  "mode and for one named pipeline on all five configurations (stream C18.mode: model predicts the four "
                  "reports, the oracle applies the property in that mode). "
                  "Not modelled: function-like macros / ## / "
                  "#include (C12's model; exercised by the harness variants include / pp-macros / ctl-concat).",
    "trusted_base": [
        "Lean 4.33 kernel; axioms propext / Classical.choice / Quot.sound only",
        "tools/gens/c18.py: regex facts about compile()/build_pipeline, the define list, the inventories of target / flag "
        "uses, the two analyse_bindings tables; tools/translate.py SlotTables (binding_params) and tools/gens/c17.py (MSL entry names)",
        "tools/gens/c18.py CbufferTables: exact text of simplify_cbuffers' first half, call order in export_to_msl / "
        "build_pipeline, the per-primitive sites of the HLSL generator; Model/SimplifyCbuffers.lean and Model/HlslModule.lean "
        "are hand-written mirrors tied by the C18.simplify and C18.annot correspondence runs",
        "Model/MacroLite.lean is a hand-written mirror of preprocess.rs for object-like macros and conditionals, tied by the "
        "C18.pp correspondence run; Model/Targets.lean report/hasSlot mirror analyse_bindings + the slot decision of "
        "assign_api_bindings, tied by the C18.cross correspondence run",
        "tools/gens/c18.py step order: regex marks for the steps of compile() / build_pipeline() sorted by source position, "
        "brace matching for the match arms and the MetalBytecode guard; Model/CompileSteps.lean says what each step does "
        "(hand-written, tied by the predicted fifth verdict in C18.cross: front / back / tool per case)",
        "tools/gens/c18.py hlslBindingsReportedWithoutPipeline / mslBindingsReportedWithoutPipeline: text facts about the two "
        "generate_module functions and msl generate_pipeline (call not under a test of selected_pipeline, Option parameter, "
        "analyse_bindings loop first, its result returned); Model.Targets.bindingsInMode says what a false fact would mean "
        "(empty reflection without a pipeline), tied by the C18.mode correspondence stream",
        "modelling assumption: parse / type_check / check_layout are functions of the token stream only (they take no target "
        "argument: frontShape.frontEndDoesNotNameTarget + frontEndArgReads)",
    ],
    "assumptions": ["the host has no Metal tool chain (Linux: MetalCompiler::find() = NotSupported): what MetalBytecode does after "
                    "a successful lookup (running the native compiler) is modelled but never observed",
                    "the compact macro model covers object-like macros only; a file can also synthesise the name of a target "
                    "macro with ## inside a function-like macro, which counts as testing it"],
}

import RsslVerif.Model.Meta
import RsslVerif.Model.MetaReach
import RsslVerif.Spec.Slots
/-!
# What C05 means, stated independently of the exporters

* what a *reader of the emitted source* learns from a binding annotation (`Annot.read`), and a character
  level reader of the printed text (`readAnnot`), so that "parsing the printed annotation back" is literal;
* which declarations are externally bound (`externallyBound`, through C06's `Spec.Slots.bound`);
* D3D register classes of descriptor types (`regClass`);
* reachability in the use graph (`Reach`).
-/
namespace RsslVerif.Spec.Meta
open RsslVerif.Gen.SlotTables RsslVerif.Gen.MetaTables RsslVerif.Model.Slots RsslVerif.Model.Meta

/-- (bind group, slot or inline offset, register class) named by an annotation -/
def Annot.read : Annot → Nat × Loc × Option RegT
  | .reg r i s => (s, .index i, some r)
  | .vk i s => (s, .index i, none)
  | .offset o s => (s, .inline o, none)
  | .id i s => (s, .index i, none)

/-- (bind group, slot or inline offset, register class) recorded by the api slot -/
def Binding.read (b : Binding) : Nat × Loc × Option RegT := (b.set, b.loc, b.slotType)

/-- the declaration must be bound by the application: C06's `bound` on what the allocator sees -/
def externallyBound (p : Params) (d : MDecl) : Bool := RsslVerif.Spec.Slots.bound p d.toSlot

/-- D3D12 register class of each descriptor type (t = SRV, u = UAV, b = CBV, s = sampler) -/
def regClass : DescT → RegT
  | .ConstantBuffer | .PushConstants | .InlineConstants => .B
  | .SamplerState | .SamplerComparisonState => .S
  | .RwByteBuffer | .RwBufferAddress | .RwStructuredBuffer | .RwTexelBuffer | .RwTexture2d
  | .RwTexture2dArray | .RwTexture3d => .U
  | .ByteBuffer | .BufferAddress | .StructuredBuffer | .TexelBuffer | .Texture2d | .Texture2dArray
  | .TextureCube | .TextureCubeArray | .Texture3d | .RaytracingAccelerationStructure => .T

/-! ## reading annotation text back (characters) -/

/-- strip a literal prefix -/
def expect : List Char → List Char → Option (List Char)
  | [], s => some s
  | _ :: _, [] => none
  | c :: cs, d :: ds => if c = d then expect cs ds else none

/-- read a maximal run of decimal digits (at least one) -/
def readDigits : List Char → Nat → Nat × List Char
  | [], acc => (acc, [])
  | c :: cs, acc => if c.isDigit then readDigits cs (10 * acc + (c.toNat - '0'.toNat)) else (acc, c :: cs)

def readNat : List Char → Option (Nat × List Char)
  | [] => none
  | c :: cs => if c.isDigit then some (readDigits (c :: cs) 0) else none

def readLetter (c : Char) : Option RegT :=
  [RegT.T, .U, .S, .B].find? (fun r => regLetter r == c)

/-- ` : register(<letter><index>[, space<n>])` -/
def readReg (s : List Char) : Option Annot :=
  match expect regOpen.toList s with
  | none => none
  | some [] => none
  | some (c :: s1) =>
    match readLetter c, readNat s1 with
    | some r, some (i, s2) =>
      match expect regClose.toList s2 with
      | some [] => some (.reg r i 0)
      | _ =>
        match expect (regSep.toList ++ regSpace.toList) s2 with
        | none => none
        | some s3 =>
          match readNat s3 with
          | none => none
          | some (sp, s4) => if s4 = regClose.toList then some (.reg r i sp) else none
    | _, _ => none

/-- `[[vk::binding(<index>[, <set>])]]` -/
def readVk (s : List Char) : Option Annot :=
  match expect "[[vk::binding(".toList s with
  | none => none
  | some s1 =>
    match readNat s1 with
    | none => none
    | some (i, s2) =>
      if s2 = ")]]".toList then some (.vk i 0) else
      match expect ", ".toList s2 with
      | none => none
      | some s3 =>
        match readNat s3 with
        | none => none
        | some (st, s4) => if s4 = ")]]".toList then some (.vk i st) else none

/-- a decimal number that is the whole text -/
def readWholeNat (s : List Char) : Option Nat :=
  match readNat s with
  | some (n, []) => some n
  | _ => none

/-- `[[vk::offset(<bytes>)]]` inside `struct InlineDescriptor<set>` -/
def readOffset (st s : List Char) : Option Annot :=
  match expect "InlineDescriptor".toList st, expect "[[vk::offset(".toList s with
  | some g, some s1 =>
    match readWholeNat g, readNat s1 with
    | some g, some (o, s2) => if s2 = ")]]".toList then some (.offset o g) else none
    | _, _ => none
  | _, _ => none

/-- `[[id(<index>)]]` inside `struct ArgumentBuffer<set>` -/
def readId (st s : List Char) : Option Annot :=
  match expect "[[id(".toList s with
  | none => none
  | some s1 =>
    match readNat s1 with
    | some (i, s2) =>
      if s2 = ")]]".toList then
        match argumentBufferNames.findIdx? (fun n => n.toList = st) with
        | some g => some (.id i g)
        | none => none
      else none
    | none => none

/-- reader of (enclosing struct name, annotation text) -/
def readAnnot (x : List Char × List Char) : Option Annot :=
  if x.1 = [] then (readReg x.2).orElse fun _ => readVk x.2
  else (readOffset x.1 x.2).orElse fun _ => readId x.1 x.2

/-! ## reachability in the use graph -/

open RsslVerif.Model.MetaReach in
/-- `Reach direct k s`: symbol `s` is mentioned by `k` or by a symbol `k` can reach (functions through
    calls, default arguments and bodies; globals through their initialisers) -/
inductive Reach (direct : Sym → List Sym) : Sym → Sym → Prop
  | base {k s} : s ∈ direct k → Reach direct k s
  | step {k m s} : Reach direct k m → Reach direct m s → Reach direct k s

end RsslVerif.Spec.Meta

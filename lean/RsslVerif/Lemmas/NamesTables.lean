import RsslVerif.Model.Names
import RsslVerif.Model.NamesEmit
import RsslVerif.Spec.Names
import RsslVerif.Gen.Reserved
/-!
Finite facts about the regenerated tables and the concrete negation witnesses, proved by `decide`
(kept in their own module so that the kernel evaluation is cached between runs; `Thm/C15.lean` restates them).
-/
namespace RsslVerif.Lemmas.NamesTables
open RsslVerif.Model.Names

/-! ## the tables and the source facts the model rests on (re-extracted from /repo on every run) -/

/-- The lines of `NameMap::build` the model transcribes are still there, the candidate format is `{}_{}`,
symbols are pushed in the order namespace, struct, enum, global, function, and the two exporters pass
`intrinsics_are_reserved = true / false`. -/
theorem source_fingerprints :
    Gen.Reserved.candFormat = "{}_{}" ∧
    Gen.Reserved.pushOrder = ["Namespace", "Struct", "Enum", "EnumValue", "GlobalVariable", "Function"] ∧
    Gen.Reserved.fact_claimLoop = true ∧ Gen.Reserved.fact_keepCondition = true ∧
    Gen.Reserved.fact_scopeLoopInsert = true ∧
    Gen.Reserved.fact_scopeUsedStartsReserved = true ∧ Gen.Reserved.fact_allScopesStartsReserved = true ∧
    Gen.Reserved.fact_sortedByName = true ∧ Gen.Reserved.fact_usageOfAllFunctions = true ∧
    Gen.Reserved.fact_usageKinds = true ∧ Gen.Reserved.fact_usageReserves = true ∧
    Gen.Reserved.fact_localTest = true ∧
    Gen.Reserved.fact_localLoop = true ∧ Gen.Reserved.fact_localKeeps = true ∧
    Gen.Reserved.fact_counterStartsAtZero = true ∧
    Gen.Reserved.hlslIntrinsicsReserved = true ∧ Gen.Reserved.mslIntrinsicsReserved = false := by
  decide

/-- **reserved_complete** (full): every entry of the independent keyword / built-in lists of HLSL and MSL is
in the `RESERVED_NAMES` table of the corresponding exporter.  (False before /repo 05e2470: the HLSL table had
the entry `"SamplerState,"` and 90 HLSL / 43 MSL names were missing.) -/
theorem reserved_complete :
    (∀ n ∈ Spec.Names.hlslKeywords, n ∈ Gen.Reserved.hlsl) ∧
    (∀ n ∈ Spec.Names.mslKeywords, n ∈ Gen.Reserved.msl) := by
  decide +kernel

/-- the entries whose absence was the defect are present after the fix -/
example : "SamplerState" ∈ Gen.Reserved.hlsl ∧ "SamplerState," ∉ Gen.Reserved.hlsl ∧
    "device" ∈ Gen.Reserved.msl ∧ "threadgroup" ∈ Gen.Reserved.msl := by
  decide +kernel

/-! ## the identifiers the exporters introduce themselves (re-extracted from the generator sources on every run) -/

/-- every fixed identifier the Metal / HLSL generator puts into a declaring position next to user entities (implicit
parameters, stage locals, wrapper / stage struct / argument buffer names, the helper namespace), and every identifier
constant of `names.rs`, is in that target's `RESERVED_NAMES`.  (The numbered `format!` identifiers — `set<i>`,
`InlineDescriptor<n>`, `g_inlineDescriptor<n>`: `mslIntroducedPatterns`, `hlslIntroducedPatterns` — are **not** reserved:
`generated_name_clash_witness`, known finding `generated-names-not-reserved`.) -/
theorem introduced_names_reserved_as_modelled :
    (∀ n ∈ Gen.Reserved.mslIntroduced, n ∈ Gen.Reserved.msl) ∧
    (∀ n ∈ Gen.Reserved.mslFixed, n ∈ Gen.Reserved.msl) ∧
    (∀ n ∈ Gen.Reserved.hlslIntroduced, n ∈ Gen.Reserved.hlsl) ∧
    (∀ q ∈ Gen.Reserved.mslImplicitParams, q.2 ∈ Gen.Reserved.mslIntroduced) := by
  decide +kernel

/-- the implicit wave parameters of the model are the generator's: the identifiers (declaration in
`generate_function_inner`, call argument, entry wrapper and the text printed for the intrinsic all agree — the translator
refuses otherwise), which intrinsic asks for which parameter, and their order in front of the `Global` parameters
(`required_globals.sort()` with the derived `Ord` of `enum ImplicitFunctionParameter`) -/
theorem implicit_params_as_modelled :
    Gen.Reserved.mslImplicitParams.lookup "ThreadIndexInSimdgroup" = some (Model.NamesEmit.waveName 0) ∧
    Gen.Reserved.mslImplicitParams.lookup "ThreadsPerSimdgroup" = some (Model.NamesEmit.waveName 1) ∧
    Gen.Reserved.mslImplicitIntrinsics =
      [("WaveGetLaneCount", "ThreadsPerSimdgroup", Model.NamesEmit.waveName (Model.NamesEmit.waveCode true)),
       ("WaveGetLaneIndex", "ThreadIndexInSimdgroup", Model.NamesEmit.waveName (Model.NamesEmit.waveCode false))] ∧
    Gen.Reserved.mslImplicitOrder.take 2 = ["ThreadIndexInSimdgroup", "ThreadsPerSimdgroup"] ∧
    Gen.Reserved.mslImplicitOrder.getLast? = some "Global" ∧
    Gen.Reserved.fact_implicitSorted = true := by
  decide +kernel

/-- the two implicit parameter names are reserved on Metal (consequence of the two facts above, stated for the model's names) -/
theorem wave_names_reserved : ∀ w, Model.NamesEmit.waveName w ∈ Gen.Reserved.msl := by
  intro w
  unfold Model.NamesEmit.waveName
  split <;> decide +kernel

/-! ## the former negation witnesses, now examples of the repaired behaviour (/repo 0dfd8dd, 6bac604) -/

/-- overloads `a`, `a` and a function `a_0` in one scope -/
def witnessVerbatim : Input :=
  { nss := [], locals := [], used := []
    entries := [⟨⟨.func, 0⟩, none, "a"⟩, ⟨⟨.func, 1⟩, none, "a"⟩, ⟨⟨.func, 2⟩, none, "a_0"⟩] }

/-- the user's `a_0` is claimed first; the overloads take `a_1`, `a_2` (before 0dfd8dd: `a_0, a_1, a_0_0`) -/
theorem verbatim_witness_fixed :
    (build Gen.Reserved.hlsl witnessVerbatim).toOption.map (·.map (·.name)) = some ["a_1", "a_2", "a_0"] ∧
    (build Gen.Reserved.msl witnessVerbatim).toOption.map (·.map (·.name)) = some ["a_1", "a_2", "a_0"] := by
  decide +kernel

/-- a function `kernel_0` that the body of `f` calls, and `f`'s parameter `kernel` (reserved in MSL) -/
def witnessCapture : Input :=
  { nss := [], locals := ["kernel"], used := [⟨.func, 0⟩]
    entries := [⟨⟨.func, 0⟩, none, "kernel_0"⟩, ⟨⟨.func, 1⟩, none, "f"⟩] }

/-- the parameter skips `kernel_0` because a body uses the function of that name (before 6bac604 it took it) -/
theorem capture_witness_fixed :
    (build Gen.Reserved.msl witnessCapture).toOption.map (·.map (fun n => (n.sym.kind, n.name))) =
      some [(.func, "f"), (.func, "kernel_0"), (.localVar, "kernel_1")] := by
  decide +kernel

end RsslVerif.Lemmas.NamesTables

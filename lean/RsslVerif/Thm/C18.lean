import RsslVerif.Model.Targets
import RsslVerif.Model.SimplifyCbuffers
import RsslVerif.Model.HlslModule
import RsslVerif.Model.CompileSteps
import RsslVerif.Model.GenHlsl
import RsslVerif.Gen.CbufferTables
import RsslVerif.Lemmas.MacroLite
/-!
# C18 — targets agree on everything that is target-independent
-/
namespace RsslVerif.Thm.C18
open RsslVerif.Gen.SlotTables RsslVerif.Gen.CompileTables RsslVerif.Gen.TargetTables
open RsslVerif.Model.MacroLite RsslVerif.Model.Targets RsslVerif.Spec.Targets
open RsslVerif.Lemmas.MacroLite

deriving instance DecidableEq for Except

/-! ## 1. The front end -/

/-- General lemma (any set `S` of macro names, any two macro tables, any condition evaluator, files of any
    length, nesting of any depth): if the tables differ only in the bodies of the macros named in `S`, no other
    macro body mentions `S`, and the file never mentions `S` (text, `#if`/`#elif` conditions including
    `defined`, `#ifdef/#ifndef/#define/#undef` operands, bodies of the file's own macros), then preprocessing
    gives the same token stream or the same error. -/
theorem unmentioned_define_irrelevant (S : List String) (ev : List Tok → Option Bool) (ms ms' : Table)
    (hrel : TableRel S ms ms') (hc : TableClean S ms) (hc' : TableClean S ms')
    (file : List Line) (hfile : LinesClean S file) :
    run ev ms file = run ev ms' file :=
  run_rel ev hrel hc hc' file hfile

/-- Tie to the source: the generated defines whose value depends on the target are exactly these two. -/
theorem target_dependent_names : targetDependentNames = ["RSSL_TARGET_HLSL", "RSSL_TARGET_MSL"] := by decide

/-- Bool form of `TableRel` for concrete tables -/
def tableRelB (S : List String) : Table → Table → Bool
  | [], [] => true
  | m :: ms, m' :: ms' => m.name == m'.name && (S.contains m.name || m.body == m'.body) && tableRelB S ms ms'
  | _, _ => false

theorem tableRelB_sound (S : List String) : ∀ ms ms', tableRelB S ms ms' = true → TableRel S ms ms'
  | [], [], _ => .nil
  | m :: ms, m' :: ms', h => by
    simp only [tableRelB, Bool.and_eq_true, Bool.or_eq_true, beq_iff_eq, List.contains_eq_mem,
      decide_eq_true_eq] at h
    exact .cons h.1.1 (fun hn => h.1.2.resolve_left hn) (tableRelB_sound S ms ms' h.2)
  | [], _ :: _, h => by simp [tableRelB] at h
  | _ :: _, [], h => by simp [tableRelB] at h

/-- the generated parts of the macro table of any two targets differ only in the bodies of the
    target-dependent names (same names, same order, same length) -/
theorem builtin_tables_related (t t' : Target) :
    TableRel targetDependentNames (builtinTable t) (builtinTable t') := by
  apply tableRelB_sound
  cases t <;> cases t' <;> decide

/-- the generated macro bodies are single integer literals: they mention no name at all -/
theorem builtin_table_clean (S : List String) (t : Target) : TableClean S (builtinTable t) := by
  intro m hm _ s hs
  simp only [builtinTable, List.mem_map] at hm
  obtain ⟨d, _, rfl⟩ := hm
  simp at hs

theorem initial_tables_related (t t' : Target) (user : Table) :
    TableRel targetDependentNames (initialTable t user) (initialTable t' user) :=
  append_rel (builtin_tables_related t t') (TableRel.refl user)

theorem initial_table_clean (S : List String) (t : Target) (user : Table) (hu : TableClean S user) :
    TableClean S (initialTable t user) := by
  intro m hm
  rcases List.mem_append.1 hm with h | h
  · exact builtin_table_clean S t m h
  · exact hu m h

/-- **The front end is target independent.**  For every pair of targets, every user define list and every
    file: if neither the file nor the bodies of the user's defines mention `RSSL_TARGET_HLSL` / `RSSL_TARGET_MSL`,
    the preprocessor output (token stream or error) is the same.  (Macro model: object-like macros, conditional
    directives, `defined`; see `Model/MacroLite.lean` for what is outside.) -/
theorem frontend_target_independent (ev : List Tok → Option Bool) (t t' : Target) (user : Table)
    (file : List Line)
    (huser : TableClean ["RSSL_TARGET_HLSL", "RSSL_TARGET_MSL"] user)
    (hfile : LinesClean ["RSSL_TARGET_HLSL", "RSSL_TARGET_MSL"] file) :
    run ev (initialTable t user) file = run ev (initialTable t' user) file := by
  rw [← target_dependent_names] at huser hfile
  exact unmentioned_define_irrelevant _ ev _ _ (initial_tables_related t t' user)
    (initial_table_clean _ t user huser) (initial_table_clean _ t' user huser) file hfile

/-- every textual use of the target, reviewed: the buffer-address argument check, the two define values and the
    binding_params match in `compile`; the export match (with the `for_spirv` argument and the bytecode switch) in
    `build_pipeline`; `for_spirv` handed through `export_to_hlsl` to `generate_module`, which reads it once. -/
def reviewedTargetUses : List (String × String × String × Nat) := [
  ("hlsl/src/ast_generate.rs", "generate_module", "for_spirv", 2),
  ("hlsl/src/lib.rs", "export_to_hlsl", "for_spirv", 2),
  ("hlsl/src/lib.rs", "verif_generate_ast", "for_spirv", 2),
  ("src/compile.rs", "build_pipeline", "Target::HlslForDirectX", 1),
  ("src/compile.rs", "build_pipeline", "Target::HlslForVulkan", 2),
  ("src/compile.rs", "build_pipeline", "Target::MetalBytecode", 2),
  ("src/compile.rs", "build_pipeline", "Target::Msl", 1),
  ("src/compile.rs", "build_pipeline", "args.target", 3),
  ("src/compile.rs", "compile", "Target::HlslForDirectX", 2),
  ("src/compile.rs", "compile", "Target::HlslForVulkan", 3),
  ("src/compile.rs", "compile", "Target::MetalBytecode", 2),
  ("src/compile.rs", "compile", "Target::Msl", 2),
  ("src/compile.rs", "compile", "args.target", 4)]

/-- every textual use of the target-derived parameters / flags / generator context fields, reviewed:
    binding annotations (`requires_vk_binding` in generate_global_variable / generate_constant_buffer),
    buffer address lowering (`requires_buffer_address` in the type generator and the address-method intrinsic),
    per-primitive attributes (`per_primitive_semantics`, `pixel_entry_for_mesh`), slot assignment. -/
def reviewedFlagUses : List (String × String × String × Nat) := [
  ("hlsl/src/ast_generate.rs", "analyse_per_primitive_attributes", "per_primitive_semantics", 2),
  ("hlsl/src/ast_generate.rs", "analyse_per_primitive_attributes", "pixel_entry_for_mesh", 1),
  ("hlsl/src/ast_generate.rs", "build_single_param", "requires_buffer_address", 1),
  ("hlsl/src/ast_generate.rs", "generate_constant_buffer", "requires_vk_binding", 2),
  ("hlsl/src/ast_generate.rs", "generate_function_inner", "pixel_entry_for_mesh", 1),
  ("hlsl/src/ast_generate.rs", "generate_function_param", "per_primitive_semantics", 1),
  ("hlsl/src/ast_generate.rs", "generate_global_variable", "requires_vk_binding", 2),
  ("hlsl/src/ast_generate.rs", "generate_intrinsic_function", "requires_buffer_address", 1),
  ("hlsl/src/ast_generate.rs", "generate_struct", "per_primitive_semantics", 1),
  ("hlsl/src/ast_generate.rs", "new", "per_primitive_semantics", 1),
  ("hlsl/src/ast_generate.rs", "new", "pixel_entry_for_mesh", 1),
  ("hlsl/src/ast_generate.rs", "prepend_modifiers", "per_primitive_semantics", 1),
  ("hlsl/src/ast_generate.rs", "prepend_modifiers", "pixel_entry_for_mesh", 1),
  ("ir/src/ir_module.rs", "?", "metal_slot_layout", 1),
  ("ir/src/ir_module.rs", "?", "require_slot_type", 1),
  ("ir/src/ir_module.rs", "?", "requires_buffer_address", 1),
  ("ir/src/ir_module.rs", "?", "requires_vk_binding", 1),
  ("ir/src/ir_module.rs", "?", "static_samplers_have_slots", 1),
  ("ir/src/ir_module.rs", "?", "support_buffer_address", 1),
  ("ir/src/ir_module.rs", "assign_api_bindings", "require_slot_type", 1),
  ("ir/src/ir_module.rs", "assign_api_bindings", "requires_buffer_address", 1),
  ("ir/src/ir_module.rs", "assign_api_bindings", "requires_vk_binding", 1),
  ("ir/src/ir_module.rs", "assign_api_bindings", "support_buffer_address", 2),
  ("ir/src/ir_module.rs", "default", "metal_slot_layout", 1),
  ("ir/src/ir_module.rs", "default", "require_slot_type", 1),
  ("ir/src/ir_module.rs", "default", "static_samplers_have_slots", 1),
  ("ir/src/ir_module.rs", "default", "support_buffer_address", 1),
  ("ir/src/ir_module.rs", "process_definition", "metal_slot_layout", 1),
  ("ir/src/ir_module.rs", "process_definition", "require_slot_type", 2),
  ("ir/src/ir_module.rs", "process_definition", "static_samplers_have_slots", 1),
  ("ir/src/ir_module.rs", "process_definition", "support_buffer_address", 1),
  ("src/compile.rs", "build_pipeline", "support_buffer_address", 1),
  ("src/compile.rs", "compile", "metal_slot_layout", 2),
  ("src/compile.rs", "compile", "require_slot_type", 2),
  ("src/compile.rs", "compile", "static_samplers_have_slots", 2),
  ("src/compile.rs", "compile", "support_buffer_address", 4),
  ("src/compile.rs", "new", "support_buffer_address", 1),
  ("src/compile.rs", "support_buffer_address", "support_buffer_address", 2)]

/-- Tie to the source: compile()'s front end has the shape `Model.Targets.frontEnd` mirrors; the target is read
    nowhere but at the reviewed places; the flags derived from it are read nowhere but at the reviewed places. -/
theorem target_reads_covered :
    frontShape = ⟨true, true, true, true, true⟩ ∧
    frontEndArgReads = ["defines", "entry_file_name", "include_handler", "validate_layout_consistency"] ∧
    targetUses.all (fun u => reviewedTargetUses.contains u) = true ∧
    flagUses.all (fun u => reviewedFlagUses.contains u) = true ∧
    flagsDerivedAsModelled = true ∧ hlslFormatterTargetFixed = true := by decide

/-- **All targets share one front end**: for inputs that do not mention the two target macros, `compile()` up to
    the typed IR — verdict *and* rendered diagnostic, whatever parse / type check / layout check (`rest`) do with
    the tokens and however errors are rendered — is the same function for every target. -/
theorem targets_share_front_end {ρ : Type} (ev : List Tok → Option Bool) (render : PErr → String)
    (rest : List Tok → Except String ρ) (t t' : Target) (a : FrontArgs)
    (huser : TableClean ["RSSL_TARGET_HLSL", "RSSL_TARGET_MSL"] a.user)
    (hfile : LinesClean ["RSSL_TARGET_HLSL", "RSSL_TARGET_MSL"] a.file) :
    frontEnd ev render rest t a = frontEnd ev render rest t' a := by
  simp only [frontEnd, frontend_target_independent ev t t' a.user a.file huser hfile]

/-- Follows fix 03ca601 ("reject a second #else and an #elif after the #else of an #if block"), for every state
    and every evaluator: once an `#else` has been accepted, a further `#else` of that block is the error
    `ElseAfterElse` and a further `#elif` is `ElifAfterElse` (its condition is still evaluated first, as in the code:
    a malformed condition is reported before the chain is consulted).  Before the fix both lines were accepted.
    The rule never looks at the macro table, so it is the same for every target (`unmentioned_define_irrelevant`
    covers the new errors: `PErr` equality includes them). -/
theorem no_branch_after_else (ev : List Tok → Option Bool) (st st' : St)
    (h : step ev st .else_ = .ok st') :
    step ev st' .else_ = .error .elseAfterElse ∧
    ∀ c, step ev st' (.elif c) = .error .elifAfterElse ∨ step ev st' (.elif c) = .error .badCondition := by
  have hsw : ∀ a ch ch', switch a true ch = .ok ch' → ∃ g r, ch' = ⟨g, true⟩ :: r := by
    intro a ch ch' hs
    cases ch with
    | nil => cases hs
    | cons b r =>
      simp only [switch] at hs
      cases hb : b.seenElse with
      | true => simp [hb] at hs
      | false =>
        simp only [hb, Bool.false_eq_true, if_false, Except.ok.injEq] at hs
        exact ⟨_, r, hs.symm⟩
  simp only [step] at h
  cases hs : switch true true st.chain with
  | error e => simp [hs] at h
  | ok ch' =>
    simp only [hs, Except.ok.injEq] at h
    obtain ⟨g, r, rfl⟩ := hsw _ _ _ hs
    subst h
    refine ⟨by simp [step, switch], fun c => ?_⟩
    simp only [step, switch]
    cases condValue ev st.macros c with
    | none => exact .inr rfl
    | some a => exact .inl (by simp)

/-- non-vacuity of `no_branch_after_else`, and the first branch after the `#if` is unaffected: the two
    reproducers of the fix (`#if 0 / #else / a / #else / b / #endif`, `.. / #elif 1 / ..`) are rejected with the
    new errors, `#if / #elif / #else / #endif` is still accepted -/
example :
    run (fun ts => match ts with | [.lit n] => some (n != 0) | _ => none) (initialTable .HlslForDirectX [])
      [.if_ [.lit 0], .else_, .text [.id "a"], .else_, .text [.id "b"], .endif] = .error .elseAfterElse ∧
    run (fun ts => match ts with | [.lit n] => some (n != 0) | _ => none) (initialTable .Msl [])
      [.if_ [.lit 0], .else_, .text [.id "a"], .elif [.lit 1], .text [.id "b"], .endif] = .error .elifAfterElse ∧
    run (fun ts => match ts with | [.lit n] => some (n != 0) | _ => none) (initialTable .Msl [])
      [.if_ [.lit 0], .text [.id "a"], .elif [.lit 1], .text [.id "b"], .else_, .text [.id "c"], .endif]
      = .ok [.id "b"] := by decide

/-! ## 2. Stage reports and pipeline state -/

/-- Tie to the source: both HLSL flavours go through one match arm that zips the pipeline's stages (kind and
    thread-group size) with the entry point names the exporter generated; those names are read from the HLSL name
    map, which is built from the module and the reserved table only (never from `for_spirv`); Metal copies stage
    and size; the pipeline state is cloned from the pipeline definition before the target is looked at. -/
theorem build_shape_as_modelled :
    buildShape = ⟨true, true, true, true, true, true⟩ ∧ hlslReportsEmittedName = true ∧
    nameMapsFromModuleAndReserved = true := by decide

/-- DirectX and Vulkan HLSL report identical stages: kinds, (emitted) entry point names and thread-group sizes —
    whatever the HLSL name map does to function names. -/
theorem dx_vk_same_stage_reports (rnFn : String → String) (stages : List StageDef) :
    stageReports rnFn .HlslForDirectX stages = stageReports rnFn .HlslForVulkan stages := rfl

/-- Every target reports the same stage kinds with the same thread-group sizes, in the same order. -/
theorem all_targets_same_stage_kinds_sizes (rnFn : String → String) (t t' : Target) (stages : List StageDef) :
    (stageReports rnFn t stages).map (fun s => (s.stage, s.threads)) =
    (stageReports rnFn t' stages).map (fun s => (s.stage, s.threads)) := by
  have h : ∀ t, (stageReports rnFn t stages).map (fun s => (s.stage, s.threads)) =
      stages.map (fun s => (s.stage, s.threads)) := by
    intro t
    simp only [stageReports, List.map_map]
    apply List.map_congr_left
    intro s _
    cases backendOf t <;> rfl
  rw [h t, h t']

/-- **Partial.**  The HLSL text of an extern global / cbuffer declaration for DirectX and for Vulkan (any slots,
    any spelling of the object types) is the same once `[[vk::binding]]` and `: register` are erased, unless a
    buffer address is lowered (address kind *and* buffer addresses requested).  Missing for
    `dx_vk_differ_only_in_annotations`: function bodies, struct members and the per-primitive attributes are not
    modelled here (the harness compares the real sources token for token after erasure). -/
theorem dx_vk_declarations_differ_only_in_annotations_partial {σ τ : Type} (spell : ObjKind → String)
    (slot : σ) (slot' : τ) (name : String) (k : Option ObjKind) (arr : Arr) (sba : Bool)
    (h : sba = false ∨ ∀ k', k = some k' → isBufferAddress k' = false) :
    (declText (flagsOf (paramsFor .HlslForDirectX false)) spell slot name k arr).erase =
    (declText (flagsOf (paramsFor .HlslForVulkan sba)) spell slot' name k arr).erase := by
  cases k with
  | none => simp [declText, DeclText.erase]
  | some k' =>
    rcases h with rfl | h
    · simp [declText, DeclText.erase, flagsOf, paramsFor, paramsDefault]
    · simp [declText, DeclText.erase, h k' rfl]

/-- and the annotations themselves are where the property says: DirectX writes `: register`, Vulkan
    `[[vk::binding]]`, never both, never neither -/
theorem dx_register_vk_binding {σ : Type} (spell : ObjKind → String) (slot : σ) (name : String)
    (k : Option ObjKind) (arr : Arr) (sba : Bool) :
    let dx := declText (flagsOf (paramsFor .HlslForDirectX false)) spell slot name k arr
    let vk := declText (flagsOf (paramsFor .HlslForVulkan sba)) spell slot name k arr
    dx.register = some slot ∧ dx.vkBinding = none ∧ vk.register = none ∧ vk.vkBinding = some slot := by
  simp [declText, flagsOf, paramsFor, paramsDefault]

/-- the fuel bound of the macro model is sufficient (no result is an artefact of running out of fuel) -/
theorem expand_fuel_irrelevant (ms : Table) (k : Nat) (t : Tok) :
    expandTok ms (fuelFor ms + k) [] t = expandTok ms (fuelFor ms) [] t :=
  RsslVerif.Lemmas.MacroLite.expand_fuel_irrelevant ms k t

/-! ## 3. Reflected bindings -/

/-- Tie to the source: the two back ends' ObjectType ↦ DescriptorType tables are the same table, the count rule
    is the same text, cbuffers are one ConstantBuffer descriptor on both. -/
theorem descriptor_tables_equal :
    (∀ k, hlslDescriptorKind k = mslDescriptorKind k) ∧ hlslNonObjectKind = mslNonObjectKind ∧
    countRuleShared = true ∧ hlslCbufferIsOneConstantBuffer = true ∧
    mslCbufferBecomesConstantBufferGlobal = true ∧ mslDescriptorKind .ConstantBuffer = some .ConstantBuffer := by
  refine ⟨fun k => by cases k <;> rfl, by decide, by decide, by decide, by decide, by decide⟩

/-- what a declaration alone says about its descriptor: kind and count (no target, no parameters) -/
def declDescriptor (d : Decl) : Option (DescKind × Option Nat) :=
  match d.shape with
  | .cbuffer => some (.ConstantBuffer, some 1)
  | .object k arr _ => (hlslDescriptorKind k).map (·, countOf arr)
  | .plain _ => none

theorem kindTable_eq (b : Backend) (k : ObjKind) : kindTable b k = hlslDescriptorKind k := by
  cases b
  · rfl
  · exact (descriptor_tables_equal.1 k).symm

/-- Follows fix 774c0b4 ("a global of an object type that is not a resource is not given a register"): the object
    kinds either exporter can reflect are exactly kinds with a register class, so the allocator's new rule "no
    register class, no slot" (`hasSlot`) never hides a declaration that `analyse_bindings` would report. -/
theorem reflected_kinds_are_resources (b : Backend) (k : ObjKind) (dk : DescKind)
    (h : kindTable b k = some dk) : (registerType k).isSome = true := by
  rw [kindTable_eq] at h
  cases k <;> first | rfl | (exact nomatch h)

/-- ... and a global of a kind that is not a resource (`RayDesc`, `RayQuery`, `TriangleStream`, the mips views) is
    refused by every back end under every parameter set, array or not: the targets agree (before the fix DirectX
    panicked in `get_register_type` while the other configurations reported the export error).  Replayed on the real
    compiler by the `nonresource*` variants of `C18.cross`. -/
theorem non_resource_global_refused_on_every_target (rn : NameMaps) (b : Backend) (p : Params) (n : String)
    (k : ObjKind) (arr : Arr) (ss : Bool) (h : registerType k = none) :
    report rn b p ⟨n, .object k arr ss⟩ = .error .unsupportedObjectType ∧ hasSlot p (.object k arr ss) = false := by
  have hk : kindTable b k = none := by
    cases hd : kindTable b k with
    | none => rfl
    | some dk => have := reflected_kinds_are_resources b k dk hd; simp [h] at this
  simp [report, hk, hasSlot, h]

/-- non-vacuity: such kinds exist, and resource kinds are not affected -/
example : registerType .RayDesc = none ∧ registerType .RayQuery = none ∧ registerType .TriangleStream = none ∧
    (bindingsFor codeNameMaps .HlslForDirectX false [⟨"g", .object .Texture2D .single false⟩]).map List.length = .ok 1 := by
  decide

/-- Descriptor kind and count are functions of the declaration only: whatever the back end, the name maps and the
    binding parameters, a reflected binding carries `declDescriptor` of its declaration and the back end's
    reported name for it. -/
theorem kind_count_from_declaration (rn : NameMaps) (b : Backend) (p : Params) (d : Decl) (r : Binding)
    (h : report rn b p d = .ok (some r)) :
    r.name = reportedName rn b d ∧ declDescriptor d = some (r.kind, r.count) := by
  obtain ⟨name, shape⟩ := d
  cases shape with
  | cbuffer =>
    cases b with
    | hlsl => simp only [report] at h; cases h; exact ⟨rfl, rfl⟩
    | msl =>
      simp only [report, kindTable, descriptor_tables_equal.2.2.2.2.2] at h
      cases h; exact ⟨rfl, rfl⟩
  | object k arr ss =>
    simp only [report, kindTable_eq] at h
    cases hd : hlslDescriptorKind k with
    | none => rw [hd] at h <;> cases h
    | some dk =>
      rw [hd] at h
      simp only [Except.ok.injEq] at h
      split at h
      · cases h
        exact ⟨rfl, by simp [declDescriptor, hd]⟩
      · cases h
  | plain arr => simp [report] at h

/-- the declarations the property puts aside: static samplers and buffer addresses -/
def aside (d : Decl) : Bool :=
  match d.shape with
  | .object k _ ss => ss || isBufferAddress k
  | _ => false

/-- a declaration that is not put aside and whose reported name is the same on HLSL and Metal is reflected, or
    not, or fails the export, identically for every back end and every parameter set -/
theorem report_shared (rn : NameMaps) (b b' : Backend) (p p' : Params) (d : Decl)
    (h : aside d = false) (hn : reportedName rn .hlsl d = reportedName rn .msl d) :
    report rn b p d = report rn b' p' d := by
  have hnf : ∀ b, reportedName rn b d = reportedName rn .msl d := by
    intro b; cases b
    · exact hn
    · rfl
  obtain ⟨name, shape⟩ := d
  cases shape with
  | cbuffer =>
    cases b <;> cases b' <;>
      simp only [report, kindTable, descriptor_tables_equal.2.2.2.2.2, hn]
  | object k arr ss =>
    have hss : ss = false := by
      simp only [aside, Bool.or_eq_false_iff] at h
      exact h.1
    subst hss
    simp only [report, kindTable_eq, hasSlot, Bool.false_and, Bool.not_false, hnf]
  | plain arr => rfl

/-- a static sampler or buffer address contributes nothing to the compared part -/
theorem aside_not_comparable (rn : NameMaps) (b : Backend) (p : Params) (d : Decl) (r : Binding)
    (ha : aside d = true) (h : report rn b p d = .ok (some r)) :
    (!r.ss && !isAddressKind r.kind) = false := by
  obtain ⟨name, shape⟩ := d
  cases shape with
  | cbuffer => simp [aside] at ha
  | plain arr => simp [aside] at ha
  | object k arr ss =>
    simp only [report, kindTable_eq] at h
    cases hd : hlslDescriptorKind k with
    | none => rw [hd] at h <;> cases h
    | some dk =>
      rw [hd] at h
      simp only [Except.ok.injEq] at h
      split at h
      · cases h
        simp only [aside, Bool.or_eq_true] at ha
        rcases ha with rfl | hb
        · simp
        · have : isAddressKind dk = true := by
            cases k <;> simp [isBufferAddress] at hb <;> simp [hlslDescriptorKind] at hd <;> subst hd <;> rfl
          simp [this]
      · cases h

/-- the export fails with an unsupported object kind for one back end iff for the other (the tables agree),
    whatever the parameters -/
theorem report_error_shared (rn : NameMaps) (b b' : Backend) (p p' : Params) (d : Decl) (e : ReportErr)
    (h : report rn b p d = .error e) : report rn b' p' d = .error e := by
  obtain ⟨name, shape⟩ := d
  cases shape with
  | cbuffer =>
    cases b <;> simp [report, kindTable, descriptor_tables_equal.2.2.2.2.2] at h
  | plain arr => simp [report] at h
  | object k arr ss =>
    simp only [report, kindTable_eq] at h ⊢
    cases hd : hlslDescriptorKind k with
    | none => rw [hd] at h <;> exact h
    | some dk => rw [hd] at h <;> cases h

/-- For any list of declarations each of which is reported under the same name by HLSL and by Metal, any two back
    ends and parameter sets: both exports fail on an unsupported object kind, or both succeed and the compared
    parts — names, kinds, counts, in order — are equal. -/
theorem reports_shared (rn : NameMaps) (b b' : Backend) (p p' : Params) (ds : List Decl)
    (hn : ∀ d ∈ ds, reportedName rn .hlsl d = reportedName rn .msl d) :
    (reports rn b p ds).map comparable = (reports rn b' p' ds).map comparable := by
  induction ds with
  | nil => rfl
  | cons d ds ih =>
    have ih := ih (fun d' hd' => hn d' (by simp [hd']))
    simp only [reports]
    cases hr : report rn b p d with
    | error e => rw [report_error_shared rn b b' p p' d e hr]
    | ok r =>
      cases hr' : report rn b' p' d with
      | error e => rw [report_error_shared rn b' b p' p d e hr'] at hr <;> cases hr
      | ok r' =>
        simp only
        cases hrs : reports rn b p ds with
        | error e =>
          rw [hrs] at ih
          cases hrs' : reports rn b' p' ds with
          | error e' => rw [hrs'] at ih <;> exact ih
          | ok rs' => rw [hrs'] at ih <;> cases ih
        | ok rs =>
          rw [hrs] at ih
          cases hrs' : reports rn b' p' ds with
          | error e' => rw [hrs'] at ih <;> cases ih
          | ok rs' =>
            rw [hrs'] at ih
            simp only [Except.map, Except.ok.injEq] at ih ⊢
            have hhead : comparable r.toList = comparable r'.toList := by
              cases ha : aside d with
              | false =>
                rw [report_shared rn b b' p p' d ha (hn d (by simp)), hr'] at hr
                cases hr; rfl
              | true =>
                have e1 : comparable r.toList = [] := by
                  cases r with
                  | none => rfl
                  | some x => simp [comparable, aside_not_comparable rn b p d x ha hr]
                have e2 : comparable r'.toList = [] := by
                  cases r' with
                  | none => rfl
                  | some x => simp [comparable, aside_not_comparable rn b' p' d x ha hr']
                rw [e1, e2]
            simp only [comparable, List.filter_append, List.map_append] at hhead ih ⊢
            rw [hhead, ih]

/-- with the code's name maps, a declared name that both target languages treat alike (reserved in neither or in
    both; for a cbuffer block: not reserved in Metal) is reported under one name -/
theorem reservedAlike_same_name (d : Decl) (h : reservedAlike d = true) :
    reportedName codeNameMaps .hlsl d = reportedName codeNameMaps .msl d := by
  obtain ⟨name, shape⟩ := d
  cases shape with
  | cbuffer =>
    simp only [reservedAlike, Bool.not_eq_eq_eq_not, Bool.not_true] at h
    simp only [reportedName, nameFor, codeNameMaps, mslRename, h]
    rfl
  | object k arr ss =>
    simp only [reservedAlike, beq_iff_eq] at h
    simp only [reportedName, nameFor, codeNameMaps, hlslRename, mslRename, h]
  | plain arr =>
    simp only [reservedAlike, beq_iff_eq] at h
    simp only [reportedName, nameFor, codeNameMaps, hlslRename, mslRename, h]

/-- **Partial (names).**  All targets report the same binding names with the same descriptor kinds and counts,
    static samplers and buffer addresses aside — *provided every declared name is reserved in neither or in both
    target languages* (for a cbuffer block, which HLSL never renames: not reserved in Metal).  Missing for the full
    statement: the hypothesis `halike`; without it the statement is false on the current code
    (`binding_names_not_shared`).  (Name maps as modelled by `hlslRename` / `mslRename`: no declared `<name>_0`.) -/
theorem binding_names_kinds_counts_shared_partial (t t' : Target) (sba sba' : Bool)
    (ds : List Decl) (halike : ∀ d ∈ ds, reservedAlike d = true) :
    (bindingsFor codeNameMaps t sba ds).map comparable = (bindingsFor codeNameMaps t' sba' ds).map comparable :=
  reports_shared codeNameMaps _ _ _ _ ds (fun d hd => reservedAlike_same_name d (halike d hd))

/-- the two HLSL flavours always agree, names included (same exporter, same name map): no hypothesis -/
theorem dx_vk_bindings_shared (rn : NameMaps) (sba : Bool) (ds : List Decl) :
    (bindingsFor rn .HlslForDirectX false ds).map comparable =
    (bindingsFor rn .HlslForVulkan sba ds).map comparable := by
  simp only [bindingsFor, backendOf]
  induction ds with
  | nil => rfl
  | cons d ds ih =>
    have hrep : (report rn .hlsl (paramsFor .HlslForDirectX false) d).map (fun r => comparable r.toList) =
        (report rn .hlsl (paramsFor .HlslForVulkan sba) d).map (fun r => comparable r.toList) := by
      obtain ⟨name, shape⟩ := d
      cases shape with
      | cbuffer => rfl
      | plain arr => rfl
      | object k arr ss =>
        simp only [report]
        cases kindTable .hlsl k with
        | none => rfl
        | some dk =>
          cases ss <;> simp [Except.map, hasSlot, paramsFor, paramsDefault]
    simp only [reports]
    cases hr : report rn .hlsl (paramsFor .HlslForDirectX false) d with
    | error e =>
      rw [hr] at hrep
      cases hr' : report rn .hlsl (paramsFor .HlslForVulkan sba) d with
      | error e' => rw [hr'] at hrep <;> (simp only [Except.map] at hrep ⊢; exact hrep)
      | ok r' => rw [hr'] at hrep <;> cases hrep
    | ok r =>
      rw [hr] at hrep
      cases hr' : report rn .hlsl (paramsFor .HlslForVulkan sba) d with
      | error e' => rw [hr'] at hrep <;> cases hrep
      | ok r' =>
        rw [hr'] at hrep
        simp only [Except.map, Except.ok.injEq] at hrep
        simp only
        cases hrs : reports rn .hlsl (paramsFor .HlslForDirectX false) ds with
        | error e =>
          rw [hrs] at ih
          cases hrs' : reports rn .hlsl (paramsFor .HlslForVulkan sba) ds with
          | error e' => rw [hrs'] at ih <;> exact ih
          | ok rs' => rw [hrs'] at ih <;> cases ih
        | ok rs =>
          rw [hrs] at ih
          cases hrs' : reports rn .hlsl (paramsFor .HlslForVulkan sba) ds with
          | error e' => rw [hrs'] at ih <;> cases ih
          | ok rs' =>
            rw [hrs'] at ih
            simp only [Except.map, Except.ok.injEq] at ih ⊢
            simp only [comparable, List.filter_append, List.map_append] at hrep ih ⊢
            rw [hrep, ih]

def idMaps : NameMaps := ⟨id, id⟩

/-- forgetting the names, the name maps do not matter -/
theorem reports_names_erased (rn : NameMaps) (b : Backend) (p : Params) (ds : List Decl) :
    (reports rn b p ds).map comparableKindsCounts = (reports idMaps b p ds).map comparableKindsCounts := by
  induction ds with
  | nil => rfl
  | cons d ds ih =>
    have hrep : (report rn b p d).map (fun r => comparableKindsCounts r.toList) =
        (report idMaps b p d).map (fun r => comparableKindsCounts r.toList) := by
      obtain ⟨name, shape⟩ := d
      cases shape with
      | cbuffer =>
        cases b
        · rfl
        · rfl
      | plain arr => rfl
      | object k arr ss =>
        simp only [report]
        cases kindTable b k with
        | none => rfl
        | some dk =>
          simp only [Except.map]
          split
          · simp only [comparableKindsCounts, Option.toList, List.filter_cons, List.filter_nil]
            split <;> rfl
          · rfl
    simp only [reports]
    cases hr : report rn b p d with
    | error e =>
      rw [hr] at hrep
      cases hr' : report idMaps b p d with
      | error e' => rw [hr'] at hrep <;> (simp only [Except.map] at hrep ⊢; exact hrep)
      | ok r' => rw [hr'] at hrep <;> cases hrep
    | ok r =>
      rw [hr] at hrep
      cases hr' : report idMaps b p d with
      | error e' => rw [hr'] at hrep <;> cases hrep
      | ok r' =>
        rw [hr'] at hrep
        simp only [Except.map, Except.ok.injEq] at hrep
        simp only
        cases hrs : reports rn b p ds with
        | error e =>
          rw [hrs] at ih
          cases hrs' : reports idMaps b p ds with
          | error e' => rw [hrs'] at ih <;> exact ih
          | ok rs' => rw [hrs'] at ih <;> cases ih
        | ok rs =>
          rw [hrs] at ih
          cases hrs' : reports idMaps b p ds with
          | error e' => rw [hrs'] at ih <;> cases ih
          | ok rs' =>
            rw [hrs'] at ih
            simp only [Except.map, Except.ok.injEq] at ih ⊢
            simp only [comparableKindsCounts, List.filter_append, List.map_append] at hrep ih ⊢
            rw [hrep, ih]

theorem comparableKindsCounts_eq (bs : List Binding) :
    comparableKindsCounts bs = (comparable bs).map (·.2) := by
  simp [comparableKindsCounts, comparable, List.map_map, Function.comp_def]

/-- **All targets report the same descriptor kinds with the same counts, in the same order, static samplers and
    buffer addresses aside** — for any declaration list, any name maps, any two targets and buffer-address
    settings (full strength for the kinds/counts half of the statement). -/
theorem binding_kinds_counts_shared (rn : NameMaps) (t t' : Target) (sba sba' : Bool) (ds : List Decl) :
    (bindingsFor rn t sba ds).map comparableKindsCounts =
    (bindingsFor rn t' sba' ds).map comparableKindsCounts := by
  simp only [bindingsFor]
  rw [reports_names_erased rn, reports_names_erased rn (backendOf t')]
  have h := reports_shared idMaps (backendOf t) (backendOf t') (paramsFor t sba) (paramsFor t' sba') ds
    (fun d _ => by cases d with | mk n sh => cases sh <;> rfl)
  cases h1 : reports idMaps (backendOf t) (paramsFor t sba) ds with
  | error e =>
    rw [h1] at h
    cases h2 : reports idMaps (backendOf t') (paramsFor t' sba') ds with
    | error e' => rw [h2] at h <;> exact h
    | ok bs' => rw [h2] at h <;> cases h
  | ok bs =>
    rw [h1] at h
    cases h2 : reports idMaps (backendOf t') (paramsFor t' sba') ds with
    | error e' => rw [h2] at h <;> cases h
    | ok bs' =>
      rw [h2] at h
      simp only [Except.map, Except.ok.injEq] at h ⊢
      rw [comparableKindsCounts_eq, comparableKindsCounts_eq, h]

/-- **Negation of the full statement on the current code, with witnesses** for each way a name can be reserved in
    one target language only: a texture named `matrix` (HLSL only) is `matrix_0` on the HLSL targets and `matrix`
    on Metal; a texture named `kernel` (Metal only) is `kernel` on HLSL and `kernel_0` on Metal; a cbuffer block
    named `main` keeps its name on HLSL and becomes `main_0` on Metal.  Replayed on the real compiler by
    corpus/C18.txt (`reserved-matrix`, `reserved-kernel`, `reserved-cb-main`; known-finding class
    `binding-name-reserved-in-one-target`). -/
theorem binding_names_not_shared :
    (∀ ds ∈ ([[⟨"matrix", .object .Texture2D .single false⟩], [⟨"kernel", .object .Texture2D .single false⟩],
        [⟨"main", .cbuffer⟩]] : List (List Decl)),
      (bindingsFor codeNameMaps .HlslForDirectX false ds).map comparable ≠
      (bindingsFor codeNameMaps .Msl false ds).map comparable) ∧
    reservedAlike ⟨"matrix", .object .Texture2D .single false⟩ = false ∧
    reservedAlike ⟨"kernel", .object .Texture2D .single false⟩ = false ∧
    reservedAlike ⟨"main", .cbuffer⟩ = false := by decide

/-! ### The mode of `compile()`: all pipelines / one named pipeline / `no_pipeline_mode()` (seed C18-7)

`build_pipeline` hands the exporters a module with `selected_pipeline = Some _` in the first two modes and `None` in
the third.  The statements above are about `bindingsFor`, which looks at the declarations only; they describe the code
in *every* mode only if no exporter makes its reflection depend on a selected pipeline.  That is read from both
`generate_module`s on every run and pinned here; `bindingsInMode` interprets the extracted facts (an exporter that
reflects only under a selected pipeline reports nothing in no-pipeline mode), and the target-independence theorems
are restated with the mode quantified. -/

/-- pinned: both exporters run their `analyse_bindings` loop and hand its result on whether or not a pipeline is
    selected (hlsl: the loop precedes every look at `module.selected_pipeline`; msl: `generate_pipeline` takes an
    `Option`, is called unconditionally and analyses before it looks at the definition).  Seed C18-7 (Metal returns
    `PipelineDescription::default()` without a selected pipeline) falsifies the second conjunct. -/
theorem bindings_reported_without_pipeline :
    hlslBindingsReportedWithoutPipeline = true ∧ mslBindingsReportedWithoutPipeline = true := by decide

/-- for the extracted facts the reflection of every target is the same function of the declarations in every mode -/
theorem bindings_mode_independent (rn : NameMaps) (t : Target) (sba : Bool) (m : Mode) (ds : List Decl) :
    bindingsInMode codeReportsWithoutPipeline rn t sba m ds = bindingsFor rn t sba ds := by
  have h : ∀ b, codeReportsWithoutPipeline b = true := by
    intro b
    cases b
    · exact bindings_reported_without_pipeline.1
    · exact bindings_reported_without_pipeline.2
  simp [bindingsInMode, h]

/-- `binding_kinds_counts_shared` with the mode quantified: any declarations, any name maps, any two targets and
    buffer-address settings, **any mode** (all pipelines, a named pipeline, no pipeline): both exports fail or the
    kinds / counts of the compared part are equal in order -/
theorem binding_kinds_counts_shared_in_every_mode (rn : NameMaps) (t t' : Target) (sba sba' : Bool) (m : Mode)
    (ds : List Decl) :
    (bindingsInMode codeReportsWithoutPipeline rn t sba m ds).map comparableKindsCounts =
    (bindingsInMode codeReportsWithoutPipeline rn t' sba' m ds).map comparableKindsCounts := by
  rw [bindings_mode_independent, bindings_mode_independent]
  exact binding_kinds_counts_shared rn t t' sba sba' ds

/-- **Partial** (same missing part as `binding_names_kinds_counts_shared_partial`: names are shared only when every
    declared name is reserved in neither or in both target languages; the full statement is false, see
    `binding_names_not_shared`), with the mode quantified -/
theorem binding_names_kinds_counts_shared_in_every_mode_partial (t t' : Target) (sba sba' : Bool) (m : Mode)
    (ds : List Decl) (halike : ∀ d ∈ ds, reservedAlike d = true) :
    (bindingsInMode codeReportsWithoutPipeline codeNameMaps t sba m ds).map comparable =
    (bindingsInMode codeReportsWithoutPipeline codeNameMaps t' sba' m ds).map comparable := by
  rw [bindings_mode_independent, bindings_mode_independent]
  exact binding_names_kinds_counts_shared_partial t t' sba sba' ds halike

/-- DirectX and Vulkan agree on names, kinds and counts in every mode, no hypothesis -/
theorem dx_vk_bindings_shared_in_every_mode (rn : NameMaps) (sba : Bool) (m : Mode) (ds : List Decl) :
    (bindingsInMode codeReportsWithoutPipeline rn .HlslForDirectX false m ds).map comparable =
    (bindingsInMode codeReportsWithoutPipeline rn .HlslForVulkan sba m ds).map comparable := by
  rw [bindings_mode_independent, bindings_mode_independent]
  exact dx_vk_bindings_shared rn sba ds

/-- every target reports the same stage kinds and thread-group sizes in every mode (none at all without a pipeline) -/
theorem all_targets_same_stage_kinds_sizes_in_every_mode (rnFn : String → String) (t t' : Target) (m : Mode)
    (stages : List StageDef) :
    (stageReportsInMode rnFn t m stages).map (fun s => (s.stage, s.threads)) =
    (stageReportsInMode rnFn t' m stages).map (fun s => (s.stage, s.threads)) := by
  unfold stageReportsInMode
  cases m.selectsPipeline
  · rfl
  · exact all_targets_same_stage_kinds_sizes rnFn t t' stages

/-- an exporter table like seed C18-7's: Metal reflects only under a selected pipeline -/
def seedC18_7 : Backend → Bool := fun b => b != .msl

def modeDs : List Decl := [⟨"g_t", .object .Texture2D (.sized 3) false⟩, ⟨"g_c", .cbuffer⟩]

/-- non-vacuity: in no-pipeline mode the compared part is not empty and equal for DirectX and Metal; and the pinned
    fact matters - for an exporter table like the seed's (Metal reflects only under a selected pipeline) the kinds /
    counts of the two targets differ in no-pipeline mode and only there -/
example :
    (bindingsInMode codeReportsWithoutPipeline codeNameMaps .Msl false .none modeDs).map comparable =
      .ok [("g_t", .Texture2d, some 3), ("g_c", .ConstantBuffer, some 1)] := by decide
example :
    (bindingsInMode codeReportsWithoutPipeline codeNameMaps .HlslForDirectX false .none modeDs).map comparable =
      .ok [("g_t", .Texture2d, some 3), ("g_c", .ConstantBuffer, some 1)] := by decide
example :
    (bindingsInMode seedC18_7 codeNameMaps .Msl false .none modeDs).map comparableKindsCounts = .ok [] := by decide
example :
    (bindingsInMode seedC18_7 codeNameMaps .Msl false .none modeDs).map comparableKindsCounts ≠
      (bindingsInMode seedC18_7 codeNameMaps .HlslForDirectX false .none modeDs).map comparableKindsCounts := by decide
example :
    (bindingsInMode seedC18_7 codeNameMaps .Msl false .named modeDs).map comparableKindsCounts =
      (bindingsInMode seedC18_7 codeNameMaps .HlslForDirectX false .named modeDs).map comparableKindsCounts := by decide

/-! ## Non-vacuity -/

/-- a file with a user macro, nested conditionals and `defined`, clean of the target macros, expands to real
    output and identically for DirectX and Metal -/
example :
    run (fun ts => match ts with | [.lit n] => some (n != 0) | _ => none)
      (initialTable .HlslForDirectX [⟨"USER", [.id "x", .punct "+", .id "__HLSL_VERSION"]⟩])
      [.define "A" [.id "USER", .punct ";"], .ifdef false "A", .text [.id "A", .id "y"], .else_,
       .text [.id "z"], .endif, .if_ [.id "defined", .punct "(", .id "B", .punct ")"], .text [.id "w"], .endif]
    = .ok [.id "x", .punct "+", .lit 2021, .punct ";", .id "y"] := by decide

/-- the hypothesis matters: a file that does test the macro gives different streams -/
example :
    run (fun ts => match ts with | [.lit n] => some (n != 0) | _ => none) (initialTable .HlslForDirectX [])
      [.if_ [.id "RSSL_TARGET_HLSL"], .text [.id "a"], .else_, .text [.id "b"], .endif] ≠
    run (fun ts => match ts with | [.lit n] => some (n != 0) | _ => none) (initialTable .Msl [])
      [.if_ [.id "RSSL_TARGET_HLSL"], .text [.id "a"], .else_, .text [.id "b"], .endif] := by decide

/-- the compared part is not empty, and what is put aside really differs between targets -/
example :
    let ds : List Decl := [⟨"g_t", .object .Texture2D (.sized 3) false⟩, ⟨"g_s", .object .SamplerState .single true⟩,
      ⟨"g_a", .object .BufferAddress .single false⟩, ⟨"g_c", .cbuffer⟩]
    (bindingsFor codeNameMaps .HlslForDirectX false ds).map comparable =
      .ok [("g_t", .Texture2d, some 3), ("g_c", .ConstantBuffer, some 1)] ∧
    (bindingsFor codeNameMaps .HlslForDirectX false ds).map List.length = .ok 4 ∧
    (bindingsFor codeNameMaps .Msl false ds).map comparable =
      .ok [("g_t", .Texture2d, some 3), ("g_c", .ConstantBuffer, some 1)] := by decide


/-! ## 5. Metal rewrites cbuffer blocks before it reflects (`simplify_cbuffers`)

The Metal exporter does not see `cbuffer` blocks: `simplify_cbuffers` has turned each of them into a struct and a
`ConstantBuffer<struct>` global.  `Model.SimplifyCbuffers` mirrors that rewrite of the root-definition list; the theorems
say that reflecting the rewritten list on Metal gives, block for block, what the thin model (`report` on `.cbuffer`) says,
so that every statement above about `bindingsFor` holds for the composition bind -> rewrite -> analyse; in particular a
cbuffer block keeps exactly one binding on every target whatever its members are (none included). -/
section Simplify
open RsslVerif.Model.SimplifyCbuffers RsslVerif.Gen.CbufferTables

/-- Tie to the source: the pass has the modelled text (every cbuffer of the registry, unconditionally; root definitions
    rewritten one for two), Metal runs it first, slots are assigned before, and every cbuffer block gets a slot. -/
theorem simplify_cbuffers_as_modelled :
    simplifyEveryCbuffer = true ∧ mslSimplifiesFirst = true ∧ slotsAssignedBeforeExport = true ∧
    everyCbufferGetsASlot = true := by decide

/-- one root definition: Metal's analysis of what the pass makes of it = the thin model's report for the declaration -/
theorem mslReport_simplify_one (rn : NameMaps) (r : Root) :
    mslReports rn (paramsFor .Msl false) (simplify [r]) =
      (match toDecl r with
       | none => .ok []
       | some d => (report rn .msl (paramsFor .Msl false) d).map (·.toList)) := by
  cases r with
  | other => rfl
  | global n g =>
    simp only [simplify, mslReports, mslReport, toDecl, Bool.false_eq_true, if_false]
    cases report rn .msl (paramsFor .Msl false) ⟨n, g.toShape⟩ with
    | error e => rfl
    | ok b => simp [Except.map]
  | cbuffer n ms =>
    simp only [simplify, mslReports, mslReport, toDecl, if_true, report, reportedName]
    cases kindTable .msl .ConstantBuffer with
    | none => rfl
    | some dk => simp [Except.map, countOf]

theorem simplify_cons (r : Root) (rs : List Root) : simplify (r :: rs) = simplify [r] ++ simplify rs := by
  cases r <;> simp [simplify]

theorem mslReports_append (rn : NameMaps) (p : Params) (a b : List Root') :
    mslReports rn p (a ++ b) =
      (match mslReports rn p a with
       | .error e => .error e
       | .ok x => match mslReports rn p b with
         | .error e => .error e
         | .ok y => .ok (x ++ y)) := by
  induction a with
  | nil =>
    simp only [List.nil_append, mslReports]
    cases mslReports rn p b <;> simp
  | cons d ds ih =>
    simp only [List.cons_append, mslReports, ih]
    cases mslReport rn p d with
    | error e => rfl
    | ok r =>
      simp only
      cases mslReports rn p ds with
      | error e => rfl
      | ok x =>
        simp only
        cases mslReports rn p b with
        | error e => rfl
        | ok y => simp

/-- **Bind, rewrite, analyse = the thin model.**  For any list of root definitions (cbuffer blocks with any members,
    none included): Metal's reflection of the module `simplify_cbuffers` produces is `reports .. .msl` of the declaration
    list - one `ConstantBuffer` binding per block under the block's (Metal-mapped) name. -/
theorem msl_reflects_simplified_module (rn : NameMaps) (rs : List Root) :
    mslBindings rn rs = reports rn .msl (paramsFor .Msl false) (decls rs) := by
  unfold mslBindings
  induction rs with
  | nil => rfl
  | cons r rs ih =>
    rw [simplify_cons, mslReports_append, mslReport_simplify_one, ih]
    cases r with
    | other =>
      simp only [toDecl, decls, List.filterMap_cons]
      cases reports rn .msl (paramsFor .Msl false) (List.filterMap toDecl rs) <;> simp
    | global n g =>
      simp only [toDecl, decls, List.filterMap_cons, reports]
      cases report rn .msl (paramsFor .Msl false) ⟨n, g.toShape⟩ with
      | error e => rfl
      | ok b =>
        simp only [Except.map]
        cases reports rn .msl (paramsFor .Msl false) (List.filterMap toDecl rs) <;> rfl
    | cbuffer n ms =>
      simp only [toDecl, decls, List.filterMap_cons, reports]
      cases report rn .msl (paramsFor .Msl false) ⟨n, .cbuffer⟩ with
      | error e => rfl
      | ok b =>
        simp only [Except.map]
        cases reports rn .msl (paramsFor .Msl false) (List.filterMap toDecl rs) <;> rfl

/-- **All targets report the same descriptor kinds and counts for any module, the Metal rewrite included** (static
    samplers and buffer addresses aside): HLSL flavour `t` reflecting the module as written vs Metal reflecting the
    rewritten module.  Full strength for kinds / counts / order; any name maps, any cbuffer members. -/
theorem kinds_counts_shared_through_simplify (rn : NameMaps) (t : Target) (sba : Bool) (rs : List Root)
    (ht : backendOf t = .hlsl) :
    (hlslBindings rn t sba rs).map comparableKindsCounts = (mslBindings rn rs).map comparableKindsCounts := by
  rw [msl_reflects_simplified_module]
  have := binding_kinds_counts_shared rn t .Msl sba false (decls rs)
  unfold bindingsFor at this
  rw [ht] at this
  exact this

/-- **Partial (names)**: the same with the binding names, for the code's name maps, provided every declared name is
    reserved in neither or in both target languages (what is missing for the full statement is that hypothesis; without
    it the statement is false: `binding_names_not_shared`). -/
theorem bindings_shared_through_simplify_partial (t : Target) (sba : Bool) (rs : List Root)
    (ht : backendOf t = .hlsl) (halike : ∀ d ∈ decls rs, reservedAlike d = true) :
    (hlslBindings codeNameMaps t sba rs).map comparable = (mslBindings codeNameMaps rs).map comparable := by
  rw [msl_reflects_simplified_module]
  have := binding_names_kinds_counts_shared_partial t .Msl sba false (decls rs) halike
  unfold bindingsFor at this
  rw [ht] at this
  exact this

/-- a cbuffer block keeps exactly one binding on every target, whatever its members are -/
theorem cbuffer_block_one_binding_everywhere (n : String) (ms : List String) (hn : reservedAlike ⟨n, .cbuffer⟩ = true) :
    (hlslBindings codeNameMaps .HlslForDirectX false [.cbuffer n ms]).map comparable = .ok [(n, .ConstantBuffer, some 1)] ∧
    (hlslBindings codeNameMaps .HlslForVulkan true [.cbuffer n ms]).map comparable = .ok [(n, .ConstantBuffer, some 1)] ∧
    (mslBindings codeNameMaps [.cbuffer n ms]).map comparable = .ok [(n, .ConstantBuffer, some 1)] := by
  have h1 : (hlslBindings codeNameMaps .HlslForDirectX false [.cbuffer n ms]).map comparable =
      .ok [(n, .ConstantBuffer, some 1)] := by
    simp [hlslBindings, decls, toDecl, reports, report, reportedName, Except.map, comparable, isAddressKind]
  have h2 : (hlslBindings codeNameMaps .HlslForVulkan true [.cbuffer n ms]).map comparable =
      .ok [(n, .ConstantBuffer, some 1)] := by
    simp [hlslBindings, decls, toDecl, reports, report, reportedName, Except.map, comparable, isAddressKind]
  refine ⟨h1, h2, ?_⟩
  rw [← bindings_shared_through_simplify_partial .HlslForDirectX false [.cbuffer n ms] rfl
    (by intro d hd; simp [decls, toDecl] at hd; subst hd; exact hn)]
  exact h1

set_option maxRecDepth 8000 in
/-- non-vacuity: an empty block, a block with members and a texture array; the rewritten module has two more root
    definitions and no cbuffer, and all three targets agree on the compared part -/
example :
    let rs : List Root := [.cbuffer "g_empty" [], .global "g_t" (.object .Texture2D (.sized 2) false), .other,
      .cbuffer "g_cb" ["a", "b"]]
    simplify rs = [.struct "g_emptyType" [], .global "g_empty" (.object .ConstantBuffer .single false) true,
      .global "g_t" (.object .Texture2D (.sized 2) false) false, .other,
      .struct "g_cbType" ["a", "b"], .global "g_cb" (.object .ConstantBuffer .single false) true] ∧
    (mslBindings codeNameMaps rs).map comparable =
      .ok [("g_empty", .ConstantBuffer, some 1), ("g_t", .Texture2d, some 2), ("g_cb", .ConstantBuffer, some 1)] ∧
    (hlslBindings codeNameMaps .HlslForDirectX false rs).map comparable = (mslBindings codeNameMaps rs).map comparable := by
  decide

end Simplify


/-! ## 6. DirectX and Vulkan HLSL differ only in annotations - whole modules, function bodies included

`Model.HlslModule.genModule` puts every reader of the target-derived flags / context fields of hlsl/src/ast_generate.rs at
its place in the generated module (declarations, struct members, parameters and attributes of the pixel entry point of a
mesh pipeline); the generator of everything else of a function is a parameter that sees `requires_buffer_address` only. -/
section HlslModule
open RsslVerif.Model.HlslModule RsslVerif.Gen.CbufferTables

/-- Tie to the source: the readers of the flags / context fields in hlsl/src/ast_generate.rs are exactly these
    (function, field) pairs - each is a site of `genModule` - and the three per-primitive sites and the `for_spirv` guard
    have the modelled text.  (`new` / `prepend_modifiers`: the struct-literal initialisers of the two context fields.) -/
theorem hlsl_target_sites_as_modelled :
    ((flagUses.filter (fun u => u.1 == "hlsl/src/ast_generate.rs")).map (fun u => (u.2.1, u.2.2.1))) =
      [("analyse_per_primitive_attributes", "per_primitive_semantics"),
       ("analyse_per_primitive_attributes", "pixel_entry_for_mesh"),
       ("build_single_param", "requires_buffer_address"),
       ("generate_constant_buffer", "requires_vk_binding"),
       ("generate_function_inner", "pixel_entry_for_mesh"),
       ("generate_function_param", "per_primitive_semantics"),
       ("generate_global_variable", "requires_vk_binding"),
       ("generate_intrinsic_function", "requires_buffer_address"),
       ("generate_struct", "per_primitive_semantics"),
       ("new", "per_primitive_semantics"), ("new", "pixel_entry_for_mesh"),
       ("prepend_modifiers", "per_primitive_semantics"), ("prepend_modifiers", "pixel_entry_for_mesh")] ∧
    forSpirvOnlyGuardsPerPrimitiveAnalysis = true ∧ perPrimitiveSitesAsModelled = true := by decide

theorem declTextOpt_erase {σ σ' : Type} (f f' : Flags) (spell : ObjKind → String) (h : σ → σ') (g : GlobalDef σ)
    (hba : f.requiresBufferAddress = f'.requiresBufferAddress ∨ g.addressFree = true) :
    (declTextOpt f spell g).erase = (declTextOpt f' spell (g.reslot h)).erase := by
  obtain ⟨name, kind, arr, slot⟩ := g
  cases kind with
  | none => cases slot <;> simp [declTextOpt, GlobalDef.reslot, DeclText.erase, declText]
  | some k =>
    have hk : (isBufferAddress k && f.requiresBufferAddress) = (isBufferAddress k && f'.requiresBufferAddress) := by
      rcases hba with e | e
      · rw [e]
      · simp only [GlobalDef.addressFree, Bool.not_eq_eq_eq_not, Bool.not_true] at e
        simp [e]
    cases slot <;> simp [declTextOpt, GlobalDef.reslot, DeclText.erase, declText, hk]

/-- the hypothesis under which the buffer-address flag can not show: it is the same on both sides, or the module
    declares no buffer address and its function generator does not look at the flag -/
def AddressAgnostic {σ φ τ ε : Type} (f f' : Flags) (genFn : Bool → φ → Except ε τ) (m : Module σ φ) : Prop :=
  f.requiresBufferAddress = f'.requiresBufferAddress ∨
  ((∀ g, Root.global g ∈ m.roots → g.addressFree = true) ∧
   (∀ fd, Root.func fd ∈ m.roots → genFn true fd.code = genFn false fd.code))

theorem genRoot_erase {σ σ' φ τ ε : Type} (f f' : Flags) (pp pp' : PerPrim) (spell : ObjKind → String)
    (genFn : Bool → φ → Except ε τ) (h : σ → σ') (r : Root σ φ)
    (hg : ∀ g, r = .global g → (f.requiresBufferAddress = f'.requiresBufferAddress ∨ g.addressFree = true))
    (hf : ∀ fd, r = .func fd → genFn f.requiresBufferAddress fd.code = genFn f'.requiresBufferAddress fd.code) :
    (genRoot f pp spell genFn r).map RootText.erase = (genRoot f' pp' spell genFn (r.reslot h)).map RootText.erase := by
  cases r with
  | struct s => simp [genRoot, Root.reslot, RootText.erase, Except.map, List.map_map, Function.comp_def]
  | global g =>
    simp only [genRoot, Root.reslot, Except.map, RootText.erase]
    rw [declTextOpt_erase f f' spell h g (hg g rfl)]
  | func fd =>
    simp only [genRoot, Root.reslot]
    rw [hf fd rfl]
    cases genFn f'.requiresBufferAddress fd.code with
    | error e => rfl
    | ok code => simp [Except.map, RootText.erase, List.map_map, Function.comp_def]

theorem genRoots_erase {σ σ' φ τ ε : Type} (f f' : Flags) (pp pp' : PerPrim) (spell : ObjKind → String)
    (genFn : Bool → φ → Except ε τ) (h : σ → σ') (rs : List (Root σ φ))
    (hg : ∀ g, Root.global g ∈ rs → (f.requiresBufferAddress = f'.requiresBufferAddress ∨ g.addressFree = true))
    (hf : ∀ fd, Root.func fd ∈ rs → genFn f.requiresBufferAddress fd.code = genFn f'.requiresBufferAddress fd.code) :
    (genRoots f pp spell genFn rs).map (List.map RootText.erase) =
    (genRoots f' pp' spell genFn (rs.map (Root.reslot h))).map (List.map RootText.erase) := by
  induction rs with
  | nil => rfl
  | cons r rs ih =>
    have h1 := genRoot_erase f f' pp pp' spell genFn h r
      (fun g e => hg g (by simp [e])) (fun fd e => hf fd (by simp [e]))
    have h2 := ih (fun g hm => hg g (by simp [hm])) (fun fd hm => hf fd (by simp [hm]))
    simp only [genRoots, List.map_cons]
    cases hr : genRoot f pp spell genFn r with
    | error e =>
      rw [hr] at h1
      cases hr' : genRoot f' pp' spell genFn (r.reslot h) with
      | error e' => rw [hr'] at h1; simpa [Except.map] using h1
      | ok t' => rw [hr'] at h1; cases h1
    | ok t =>
      rw [hr] at h1
      cases hr' : genRoot f' pp' spell genFn (r.reslot h) with
      | error e' => rw [hr'] at h1; cases h1
      | ok t' =>
        rw [hr'] at h1
        simp only [Except.map, Except.ok.injEq] at h1
        simp only
        cases hrs : genRoots f pp spell genFn rs with
        | error e =>
          rw [hrs] at h2
          cases hrs' : genRoots f' pp' spell genFn (rs.map (Root.reslot h)) with
          | error e' => rw [hrs'] at h2; simpa [Except.map] using h2
          | ok ts' => rw [hrs'] at h2; cases h2
        | ok ts =>
          rw [hrs] at h2
          cases hrs' : genRoots f' pp' spell genFn (rs.map (Root.reslot h)) with
          | error e' => rw [hrs'] at h2; cases h2
          | ok ts' =>
            rw [hrs'] at h2
            simp only [Except.map, Except.ok.injEq] at h2 ⊢
            simp [h1, h2]

/-- **Two HLSL exports of one module differ only in annotations**: for any module (structs, extern globals, cbuffer
    blocks, functions with bodies of any size), any two settings of `for_spirv`, any two binding parameter sets, any api
    slots - with the annotations erased (`: register`, `[[vk::binding]]`, `[[vk::ext_decorate]]`, the
    `[[vk::ext_extension]]` pair) both exports fail alike or are equal root definition by root definition, *provided the
    buffer-address flag can not show* (`AddressAgnostic`). -/
theorem hlsl_exports_differ_only_in_annotations {σ σ' φ τ ε : Type} (fs fs' : Bool) (p p' : Params)
    (spell : ObjKind → String) (genFn : Bool → φ → Except ε τ) (h : σ → σ') (m : Module σ φ)
    (ha : AddressAgnostic (flagsOf p) (flagsOf p') genFn m) :
    (genModule fs p spell genFn m).map (List.map RootText.erase) =
    (genModule fs' p' spell genFn (m.reslot h)).map (List.map RootText.erase) := by
  unfold genModule
  simp only [Module.reslot]
  apply genRoots_erase
  · intro g hg
    rcases ha with e | ⟨e, _⟩
    · exact Or.inl e
    · exact Or.inr (e g hg)
  · intro fd hfd
    rcases ha with e | ⟨_, e⟩
    · rw [e]
    · have := e fd hfd
      cases (flagsOf p).requiresBufferAddress <;> cases (flagsOf p').requiresBufferAddress <;> simp_all

/-- **DirectX vs Vulkan**: `export_to_hlsl(ir, false)` on the module bound for DirectX and `export_to_hlsl(ir, true)` on
    the module bound for Vulkan (no buffer addresses requested) differ only in annotations - unconditionally. -/
theorem dx_vk_differ_only_in_annotations {σ σ' φ τ ε : Type} (spell : ObjKind → String)
    (genFn : Bool → φ → Except ε τ) (h : σ → σ') (m : Module σ φ) :
    (genModule false (paramsFor .HlslForDirectX false) spell genFn m).map (List.map RootText.erase) =
    (genModule true (paramsFor .HlslForVulkan false) spell genFn (m.reslot h)).map (List.map RootText.erase) :=
  hlsl_exports_differ_only_in_annotations false true _ _ spell genFn h m (Or.inl (by decide))

/-- **Vulkan with vs without buffer addresses**: beyond annotations the two differ only where a buffer address is
    declared or its methods are called - if the module declares none and no body depends on the flag, they are equal. -/
theorem vk_vkba_differ_only_where_addresses_are {σ σ' φ τ ε : Type} (spell : ObjKind → String)
    (genFn : Bool → φ → Except ε τ) (h : σ → σ') (m : Module σ φ)
    (hg : ∀ g, Root.global g ∈ m.roots → g.addressFree = true)
    (hf : ∀ fd, Root.func fd ∈ m.roots → genFn true fd.code = genFn false fd.code) :
    (genModule true (paramsFor .HlslForVulkan false) spell genFn m).map (List.map RootText.erase) =
    (genModule true (paramsFor .HlslForVulkan true) spell genFn (m.reslot h)).map (List.map RootText.erase) :=
  hlsl_exports_differ_only_in_annotations true true _ _ spell genFn h m (Or.inr ⟨hg, hf⟩)

/-- **Function level, citing C01's exporter model**: with `Model.GenHlsl.genFunc` (expressions, statements, literals,
    calls, intrinsics of the scalar subset - the generator C01 proves meaning-preserving) as the function generator, the
    DirectX and Vulkan exports of any module are equal up to annotations; `genFunc` takes the name context only, so the
    generated functions are literally the same terms on both sides. -/
theorem dx_vk_differ_only_in_annotations_c01 {σ σ' : Type} (spell : ObjKind → String) (cx : RsslVerif.Model.GenHlsl.Ctx)
    (h : σ → σ') (m : Module σ RsslVerif.Model.Ir.Func) :
    (genModule false (paramsFor .HlslForDirectX false) spell (fun _ => RsslVerif.Model.GenHlsl.genFunc cx) m).map
      (List.map RootText.erase) =
    (genModule true (paramsFor .HlslForVulkan false) spell (fun _ => RsslVerif.Model.GenHlsl.genFunc cx) (m.reslot h)).map
      (List.map RootText.erase) :=
  dx_vk_differ_only_in_annotations spell _ h m

theorem isPerPrim_noPerPrim (f : Field) : isPerPrim noPerPrim f = false := by
  unfold isPerPrim noPerPrim
  cases f.userSemantic <;> rfl

theorem counts_dx_aux {σ φ τ ε : Type} (spell : ObjKind → String) (genFn : Bool → φ → Except ε τ)
    (rs : List (Root σ φ)) (ts : List (RootText σ τ))
    (h : genRoots (flagsOf (paramsFor .HlslForDirectX false)) noPerPrim spell genFn rs = .ok ts) :
    (counts ts).2.1 = 0 ∧ (counts ts).2.2.1 = 0 ∧ (counts ts).2.2.2 = 0 := by
  induction rs generalizing ts with
  | nil => simp only [genRoots] at h; cases h; simp [counts]
  | cons r rs ih =>
    simp only [genRoots] at h
    cases hr : genRoot (flagsOf (paramsFor .HlslForDirectX false)) noPerPrim spell genFn r with
    | error e => simp [hr] at h
    | ok t =>
      cases hrs : genRoots (flagsOf (paramsFor .HlslForDirectX false)) noPerPrim spell genFn rs with
      | error e => simp [hr, hrs] at h
      | ok ts' =>
        simp only [hr, hrs] at h
        cases h
        obtain ⟨i1, i2, i3⟩ := ih ts' hrs
        cases r with
        | struct s =>
          simp only [genRoot] at hr; cases hr
          simp [counts, i1, i2, i3, isPerPrim_noPerPrim]
        | global g =>
          simp only [genRoot] at hr; cases hr
          obtain ⟨name, kind, arr, slot⟩ := g
          cases slot <;> simp [counts, i1, i2, i3, declTextOpt, declText, flagsOf, paramsFor, paramsDefault]
        | func fd =>
          simp only [genRoot] at hr
          cases hc : genFn (flagsOf (paramsFor .HlslForDirectX false)).requiresBufferAddress fd.code with
          | error e => simp [hc] at hr
          | ok code =>
            simp only [hc] at hr; cases hr
            simp [counts, i1, i2, i3, isPerPrim_noPerPrim, noPerPrim]

/-- a DirectX export carries no `[[vk::..]]` annotation of any kind -/
theorem dx_has_no_vk_annotations {σ φ τ ε : Type} (spell : ObjKind → String) (genFn : Bool → φ → Except ε τ)
    (m : Module σ φ) (ts : List (RootText σ τ))
    (h : genModule false (paramsFor .HlslForDirectX false) spell genFn m = .ok ts) :
    (counts ts).2.1 = 0 ∧ (counts ts).2.2.1 = 0 ∧ (counts ts).2.2.2 = 0 := by
  unfold genModule at h
  simp only [analyse, Bool.not_false, if_true] at h
  exact counts_dx_aux spell genFn m.roots ts h

/-- non-vacuity: a mesh pipeline whose mesh entry declares `MATERIAL` per-primitive, a struct with that member, a pixel
    entry reading it, a bound texture: the Vulkan export has one binding attribute, two decorations and the extension
    pair; the DirectX export has one register annotation and nothing else; erased they are equal -/
example :
    let m : Module Nat Unit :=
      { roots := [.struct ⟨"Prim", [⟨"material", some "MATERIAL"⟩, ⟨"pos", none⟩]⟩,
                  .global ⟨"g_t", some .Texture2D, .single, some 0⟩,
                  .func ⟨1, [], ["MATERIAL"], ()⟩,
                  .func ⟨2, [⟨"i_pos", none⟩, ⟨"i_material", some "MATERIAL"⟩], [], ()⟩],
        pipeline := some [(.Mesh, 1), (.Pixel, 2)] }
    let gen : Bool → Unit → Except Unit Unit := fun _ _ => .ok ()
    (genModule true (paramsFor .HlslForVulkan false) (fun _ => "T") gen m).map counts = .ok (0, 1, 2, 1) ∧
    (genModule false (paramsFor .HlslForDirectX false) (fun _ => "T") gen m).map counts = .ok (1, 0, 0, 0) := by
  decide

end HlslModule

section CompileSteps
open RsslVerif.Model.CompileSteps

/-- Tie to the source (pinned step order): in `compile()` the steps stand in the order argument check → preprocess →
    prepare_tokens → parse → type_check → layout check → binding parameters → build_pipeline; nothing else can leave
    `compile()` before the binding parameters are chosen (5 `return`s, no `?`); the Metal tool chain is named nowhere in
    `compile()` and in `build_pipeline()` only in the Msl/MetalBytecode arm, after the export and its error return,
    inside `if matches!(args.target, Target::MetalBytecode) { .. }`: lookup, then run.  A lookup moved to the top of
    `compile()` (seed C18-5) puts `.toolchainLookup` second in `compileSteps` and falsifies this. -/
theorem frontEndRunsBeforeAnyTargetSpecificStep :
    compileSteps = [.argsCheck, .preprocess, .prepareTokens, .parse, .typeCheck, .layoutCheck, .bindingParams,
      .buildPipelines] ∧
    buildPrefixSteps = [.selectPipeline, .assignBindings] ∧
    hlslArmSteps = [.exportSource, .stageRecords] ∧
    mslArmSteps = [.exportSource, .stageRecords, .bytecodeGuard, .toolchainLookup, .toolchainRun] ∧
    stepFacts = ⟨true, true, true, true, true, true⟩ := by decide

/-- Tie to the source: the Metal tool chain crate is named nowhere in the compiler crates (front end, IR, exporters)
    but in `build_pipeline` (the one lookup; the other two hits are the payload types of the two `CompileError` variants
    declared after it), the error's `Display`, and the re-export in src/lib.rs - no exporter or pass can ask for it. -/
theorem toolchain_uses_covered :
    toolchainUses = [
      ("src/compile.rs", "build_pipeline", "MetalCompiler", 1),
      ("src/compile.rs", "build_pipeline", "metal_invoker", 3),
      ("src/compile.rs", "fmt", "metal_invoker", 1),
      ("src/lib.rs", "?", "metal_invoker", 1)] := by decide

/-- **compile() = argument check, then the shared front end, then the per-pipeline builds** - for the step order of the
    current source (`frontEndRunsBeforeAnyTargetSpecificStep` is cited: the interpreter runs the *extracted* list), any
    world (parser, type checker, exporters, tool chain), any arguments.  In particular no step that looks at the target
    or at the tool chain runs before the front end has accepted the file. -/
theorem compile_factors_through_front_end {τ α ρ π σ : Type} (w : World τ α ρ π σ) (a : Args) :
    compile w a =
      if a.sba && a.target != Target.HlslForVulkan then .error .invalidArgs else
      match front w a with
      | .error e => .error (.text e)
      | .ok m =>
        match buildAll w a none m (w.pipelines m) with
        | .error e => .error e
        | .ok [] => .error (.text noPipelineText)
        | .ok (d :: ds) => .ok (d :: ds) := by
  have hs := frontEndRunsBeforeAnyTargetSpecificStep.1
  by_cases hg : (a.sba && a.target != Target.HlslForVulkan) = true
  · simp [compile, compileWith, hs, runSteps, Model.CompileSteps.step, hg]
  · cases hrun : run w.ev (initialTable a.target a.front.user) a.front.file with
    | error e => simp [compile, compileWith, hs, runSteps, Model.CompileSteps.step, front, frontEnd, hg, hrun]
    | ok ts =>
      cases hparse : w.parse (w.prepare ts) with
      | error e =>
        simp [compile, compileWith, hs, runSteps, Model.CompileSteps.step, front, frontEnd, afterTokens, hg, hrun, hparse]
      | ok x =>
        cases htc : w.typeCheck x with
        | error e =>
          simp [compile, compileWith, hs, runSteps, Model.CompileSteps.step, front, frontEnd, afterTokens, hg, hrun, hparse, htc]
        | ok m =>
          cases hvl : a.validateLayout with
          | false =>
            cases hb : buildAll w a none m (w.pipelines m) with
            | error e =>
              simp [compile, compileWith, hs, runSteps, Model.CompileSteps.step, front, frontEnd, afterTokens, hg, hrun, hparse, htc, hvl, hb]
            | ok out =>
              cases out <;>
              simp [compile, compileWith, hs, runSteps, Model.CompileSteps.step, front, frontEnd, afterTokens, hg, hrun, hparse, htc, hvl, hb]
          | true =>
            cases hl : w.layoutCheck m with
            | error e =>
              simp [compile, compileWith, hs, runSteps, Model.CompileSteps.step, front, frontEnd, afterTokens, hg, hrun, hparse, htc, hvl, hl]
            | ok u =>
              cases hb : buildAll w a none m (w.pipelines m) with
              | error e =>
                simp [compile, compileWith, hs, runSteps, Model.CompileSteps.step, front, frontEnd, afterTokens, hg, hrun, hparse, htc, hvl, hl, hb]
              | ok out =>
                cases out <;>
                simp [compile, compileWith, hs, runSteps, Model.CompileSteps.step, front, frontEnd, afterTokens, hg, hrun, hparse, htc, hvl, hl, hb]

/-- build_pipeline() for MetalBytecode on a host without the tool chain: the export's error, else MetalCompilerNotFound -/
theorem buildPipeline_metal_bytecode_no_toolchain {τ α ρ π σ : Type} (w : World τ α ρ π σ) (a : Args)
    (ht : a.target = Target.MetalBytecode) (hn : w.toolchain = none) (m : ρ) (p : π) :
    buildPipeline w a none m p =
      match w.exportMsl (paramsFor a.target a.sba) m p with
      | .error e => .error (.text e)
      | .ok _ => .error .metalCompilerNotFound := by
  obtain ⟨_, h1, _, h3, _⟩ := frontEndRunsBeforeAnyTargetSpecificStep
  obtain ⟨t, sba, vl, fr⟩ := a
  simp only at ht
  subst ht
  cases hx : w.exportMsl (paramsFor Target.MetalBytecode sba) m p <;>
    simp [buildPipeline, h1, h3, armSteps, backendOf, runBuild, hn, hx]

/-- build_pipeline() for Msl: the export's verdict; the tool chain is not consulted -/
theorem buildPipeline_msl {τ α ρ π σ : Type} (w : World τ α ρ π σ) (a : Args)
    (ht : a.target = Target.Msl) (m : ρ) (p : π) :
    buildPipeline w a none m p =
      match w.exportMsl (paramsFor a.target a.sba) m p with
      | .error e => .error (.text e)
      | .ok s => .ok s := by
  obtain ⟨_, h1, _, h3, _⟩ := frontEndRunsBeforeAnyTargetSpecificStep
  obtain ⟨t, sba, vl, fr⟩ := a
  simp only at ht
  subst ht
  cases hx : w.exportMsl (paramsFor Target.Msl sba) m p <;>
    simp [buildPipeline, h1, h3, armSteps, backendOf, runBuild, hx]

/-- **The front-end verdict and diagnostic are the same for every target configuration, MetalBytecode included, with or
    without a Metal tool chain on the host**: if the front end rejects the file with diagnostic `e` for one configuration
    (file and user defines not naming the two target macros), `compile()` returns exactly `Text(e)` for that and for
    every other admissible configuration, whatever `find()` would answer. -/
theorem front_end_diagnostic_same_for_every_target {τ α ρ π σ : Type} (w : World τ α ρ π σ)
    (tc : Option (σ → Option σ)) (a a' : Args)
    (hfront : a'.front = a.front) (hvl : a'.validateLayout = a.validateLayout)
    (hok : argsOk a = true) (hok' : argsOk a' = true)
    (huser : TableClean ["RSSL_TARGET_HLSL", "RSSL_TARGET_MSL"] a.front.user)
    (hfile : LinesClean ["RSSL_TARGET_HLSL", "RSSL_TARGET_MSL"] a.front.file)
    (e : String) (h : front w a = .error e) :
    compile w a = .error (.text e) ∧ compile { w with toolchain := tc } a' = .error (.text e) := by
  have h' : front { w with toolchain := tc } a' = .error e := by
    rw [← h]
    simp only [front, hfront, hvl]
    exact targets_share_front_end w.ev w.render _ a'.target a.target a.front huser hfile
  simp only [argsOk, Bool.not_eq_true'] at hok hok'
  constructor
  · rw [compile_factors_through_front_end, h]; simp [hok]
  · rw [compile_factors_through_front_end, h']; simp [hok']

/-- Tie to the source: Msl and MetalBytecode get the same define list (and the same binding parameters) -/
theorem msl_metal_bytecode_same_defines :
    targetDefineNums Target.MetalBytecode = targetDefineNums Target.Msl ∧
    (∀ sba, paramsFor Target.MetalBytecode sba = paramsFor Target.Msl sba) := by
  constructor
  · decide
  · intro sba; rfl

/-- Msl and MetalBytecode share the front end unconditionally (same macro table: no cleanliness hypothesis needed) -/
theorem front_metal_bytecode_eq_msl {τ α ρ π σ : Type} (w : World τ α ρ π σ) (sba sba' vl : Bool) (fr : FrontArgs) :
    front w ⟨Target.MetalBytecode, sba, vl, fr⟩ = front w ⟨Target.Msl, sba', vl, fr⟩ := by
  simp only [front, frontEnd, initialTable, builtinTable, msl_metal_bytecode_same_defines.1]

/-- **MetalBytecode on a host without the tool chain, closed form**: the front end's diagnostic; else "no pipeline";
    else the Metal export error of the *first* pipeline; else `MetalCompilerNotFound` (the driver predicts the fifth
    verdict of `C18.cross` with this). -/
theorem metal_bytecode_without_toolchain {τ α ρ π σ : Type} (w : World τ α ρ π σ) (a : Args)
    (ht : a.target = Target.MetalBytecode) (hsba : a.sba = false) (hn : w.toolchain = none) :
    compile w a =
      match front w a with
      | .error e => .error (.text e)
      | .ok m =>
        match w.pipelines m with
        | [] => .error (.text noPipelineText)
        | p :: _ =>
          match w.exportMsl (paramsFor Target.MetalBytecode false) m p with
          | .error e => .error (.text e)
          | .ok _ => .error .metalCompilerNotFound := by
  rw [compile_factors_through_front_end]
  simp only [hsba, Bool.false_and, Bool.false_eq_true, if_false]
  cases front w a with
  | error e => rfl
  | ok m =>
    simp only
    cases hp : w.pipelines m with
    | nil => simp [buildAll]
    | cons p ps =>
      simp only [buildAll, buildPipeline_metal_bytecode_no_toolchain w a ht hn, ht, hsba]
      cases w.exportMsl (paramsFor Target.MetalBytecode false) m p <;> rfl

/-- the same closed form for Msl (no argument error: buffer addresses are not requested) -/
theorem msl_verdict {τ α ρ π σ : Type} (w : World τ α ρ π σ) (a : Args)
    (_ht : a.target = Target.Msl) (hsba : a.sba = false) :
    compile w a =
      match front w a with
      | .error e => .error (.text e)
      | .ok m =>
        match buildAll w a none m (w.pipelines m) with
        | .error e => .error e
        | .ok [] => .error (.text noPipelineText)
        | .ok (d :: ds) => .ok (d :: ds) := by
  rw [compile_factors_through_front_end]
  simp only [hsba, Bool.false_and, Bool.false_eq_true, if_false]

/-- a file that compiles for Msl ends, for MetalBytecode on a host without the tool chain, in exactly the tool chain error -/
theorem valid_for_msl_metal_bytecode_ends_at_toolchain {τ α ρ π σ : Type} (w : World τ α ρ π σ)
    (vl : Bool) (fr : FrontArgs) (hn : w.toolchain = none) (out : List σ)
    (h : compile w ⟨Target.Msl, false, vl, fr⟩ = .ok out) :
    compile w ⟨Target.MetalBytecode, false, vl, fr⟩ = .error .metalCompilerNotFound := by
  rw [metal_bytecode_without_toolchain w _ rfl rfl hn, front_metal_bytecode_eq_msl w false false vl fr]
  rw [msl_verdict w _ rfl rfl] at h
  cases hf : front w ⟨Target.Msl, false, vl, fr⟩ with
  | error e => simp [hf] at h
  | ok m =>
    simp only [hf] at h ⊢
    cases hp : w.pipelines m with
    | nil => simp [hp, buildAll] at h
    | cons p ps =>
      simp only [hp, buildAll, buildPipeline_msl w ⟨Target.Msl, false, vl, fr⟩ rfl] at h ⊢
      rw [msl_metal_bytecode_same_defines.2]
      cases hx : w.exportMsl (paramsFor Target.Msl false) m p with
      | error e => simp [hx] at h
      | ok s => rfl

/-- a file rejected for Msl is rejected for MetalBytecode with the same error (front end, no pipeline, first pipeline's
    export), or - when a later pipeline was the one Metal refused - with the tool chain error of the first pipeline -/
theorem rejected_for_msl_metal_bytecode_same_or_toolchain {τ α ρ π σ : Type} (w : World τ α ρ π σ)
    (vl : Bool) (fr : FrontArgs) (hn : w.toolchain = none) (e : CErr)
    (h : compile w ⟨Target.Msl, false, vl, fr⟩ = .error e) :
    compile w ⟨Target.MetalBytecode, false, vl, fr⟩ = .error e ∨
    compile w ⟨Target.MetalBytecode, false, vl, fr⟩ = .error .metalCompilerNotFound := by
  rw [metal_bytecode_without_toolchain w _ rfl rfl hn, front_metal_bytecode_eq_msl w false false vl fr]
  rw [msl_verdict w _ rfl rfl] at h
  cases hf : front w ⟨Target.Msl, false, vl, fr⟩ with
  | error e' => left; simpa [hf] using h
  | ok m =>
    simp only [hf] at h ⊢
    cases hp : w.pipelines m with
    | nil => left; simpa [hp, buildAll] using h
    | cons p ps =>
      simp only [hp, buildAll, buildPipeline_msl w ⟨Target.Msl, false, vl, fr⟩ rfl] at h ⊢
      rw [msl_metal_bytecode_same_defines.2]
      cases hx : w.exportMsl (paramsFor Target.Msl false) m p with
      | error e' => left; simpa [hx] using h
      | ok s => right; rfl

/-- a small world for the non-vacuity examples: a file of three tokens is a type error, a module has as many pipelines
    as the file has tokens, Metal refuses the second pipeline, the tool chain is `tc` -/
def exWorld (tc : Option (String → Option String)) : World (List Tok) Nat Nat Nat String :=
  { ev := fun _ => some true, render := fun _ => "error: preprocessor", prepare := id,
    parse := fun ts => if ts.length == 0 then .error "error: unexpected end of file" else .ok ts.length,
    typeCheck := fun n => if n == 3 then .error "error: unknown identifier" else .ok n,
    layoutCheck := fun _ => .ok (), pipelines := fun n => List.range n,
    exportHlsl := fun _ _ _ _ => .ok "hlsl", toolchain := tc,
    exportMsl := fun _ _ p => if p == 1 then .error "error: metal generate: unsupported" else .ok "msl" }

def exFile (n : Nat) : FrontArgs := ⟨[], [.text ((List.range n).map fun _ => .id "a")]⟩

/-- non-vacuity: a front-end-invalid file gets the same diagnostic for every configuration, also for MetalBytecode on a
    host without the tool chain; a valid file compiles for the first four and ends in the tool chain error for the fifth;
    a file whose second pipeline Metal refuses is a back-end error for Msl and the tool chain error for MetalBytecode;
    and the order matters: with the lookup as the second step of compile() the diagnostic of the invalid file is lost -/
example :
    (∀ c ∈ [(Target.HlslForDirectX, false), (Target.HlslForVulkan, false), (Target.HlslForVulkan, true), (Target.Msl, false),
        (Target.MetalBytecode, false)],
      compile (exWorld none) ⟨c.1, c.2, false, exFile 3⟩ = .error (.text "error: unknown identifier")) ∧
    compile (exWorld none) ⟨Target.HlslForDirectX, false, false, exFile 1⟩ = .ok ["hlsl"] ∧
    compile (exWorld none) ⟨Target.Msl, false, false, exFile 1⟩ = .ok ["msl"] ∧
    compile (exWorld none) ⟨Target.MetalBytecode, false, false, exFile 1⟩ = .error .metalCompilerNotFound ∧
    compile (exWorld (some fun s => some (s ++ ".air"))) ⟨Target.MetalBytecode, false, false, exFile 1⟩ = .ok ["msl.air"] ∧
    compile (exWorld (some fun _ => none)) ⟨Target.MetalBytecode, false, false, exFile 1⟩ = .error .metalCompilerFailed ∧
    compile (exWorld none) ⟨Target.Msl, false, false, exFile 2⟩ = .error (.text "error: metal generate: unsupported") ∧
    compile (exWorld none) ⟨Target.MetalBytecode, false, false, exFile 2⟩ = .error .metalCompilerNotFound ∧
    compile (exWorld none) ⟨Target.Msl, true, false, exFile 1⟩ = .error .invalidArgs ∧
    compileWith [.argsCheck, .toolchainLookup, .preprocess, .prepareTokens, .parse, .typeCheck, .layoutCheck, .bindingParams,
      .buildPipelines] (exWorld none) ⟨Target.MetalBytecode, false, false, exFile 3⟩ = .error .metalCompilerNotFound := by
  refine ⟨?_, rfl, rfl, rfl, rfl, rfl, rfl, rfl, rfl, rfl⟩
  intro c hc
  simp only [List.mem_cons, List.not_mem_nil, or_false] at hc
  rcases hc with rfl | rfl | rfl | rfl | rfl <;> rfl
end CompileSteps

end RsslVerif.Thm.C18

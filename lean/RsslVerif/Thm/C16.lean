import RsslVerif.Lemmas.Overload
import RsslVerif.Lemmas.Conv
import RsslVerif.Lemmas.OverloadLazy
import RsslVerif.Lemmas.OverloadT
import RsslVerif.Lemmas.OverloadCall
import RsslVerif.Lemmas.OverloadSeq
import RsslVerif.Gen.ResolveShape
import RsslVerif.Model.OverloadSrc
/-!
# C16 — overload resolution is order-independent and prefers exact matches

All statements are about `Model.Overload.resolve`, the model of `find_function_type`, over **arbitrary**
candidate lists, arities and argument lists (no size bound), with the conversion ranks coming from
`Model.Conv.find`/`getRank` and the rank tables re-extracted from casting.rs on every run (`Gen.RankTable`).
-/
namespace RsslVerif.Thm.C16
open RsslVerif.Gen.RankTable RsslVerif.Model.Conv RsslVerif.Model.Overload RsslVerif.Spec.Overload
open RsslVerif.Lemmas.Overload RsslVerif.Lemmas.Conv RsslVerif.Lemmas.OverloadT RsslVerif.Lemmas.OverloadCall
open RsslVerif.Lemmas.OverloadSeq

/-! ## facts about the extracted tables (a one-cell change of casting.rs breaks one of these) -/

/-- `NumericRank::compare` never reaches its `unreachable!()` arm -/
theorem compare_total (a b : NumRank) : (a.compare b).isSome = true := by
  cases a <;> cases b <;> decide

/-- the `unreachable!()` arms of the `(source_scalar, dest_scalar)` match are exactly the diagonal, which `find`
    never asks for: `find` does not panic -/
theorem primaryRank_diag (s d : Scalar) : (primaryRank s d).isNone = decide (s = d) := by
  cases s <;> cases d <;> decide

/-- converting between different scalar kinds is never ranked `Exact` -/
theorem primaryRank_ne_exact (s d : Scalar) : primaryRank s d ≠ some .exact := by
  cases s <;> cases d <;> decide

/-- `NumericRank::order` is the priority list the property talks about -/
theorem order_agrees (r : NumRank) : r.order = numBadness r := order_eq_badness r

/-- `VectorRank::worst_to_best` lists every vector rank once, worst first, in the property's order -/
theorem worstToBest_agrees :
    VecRank.worstToBest.map vecBadness = [2, 1, 0] ∧ VecRank.worstToBest.length = VecRank.all.length := by
  decide

/-- `out` and `inout` parameters need an lvalue argument, `in` parameters do not -/
theorem needsLvalue_table :
    InputModifier.in.needsLvalue = false ∧ InputModifier.out.needsLvalue = true ∧
    InputModifier.inOut.needsLvalue = true := by decide

/-! ## order independence -/

/-- **Order independence.** For any two declaration orders of the same candidates (any permutation, any number of
    candidates, any arities, any arguments) `find_function_type` gives the same verdict: the same selected
    overload, or the same set of ambiguous overloads, or unmatched in both, or a panic in both. -/
theorem resolve_perm {cands cands' : List Cand} (h : List.Perm cands cands') (args : List ETy) :
    Outcome.Equiv (resolve cands args) (resolve cands' args) := by
  simp only [resolve]
  have hm := h.map (rankCand args)
  rw [any_perm hm]
  by_cases hp : (List.map (rankCand args) cands').any CandResult.isPanic = true
  · simp [hp, Outcome.Equiv]
  · simp only [hp, Bool.false_eq_true, if_false]
    exact resolveRanked_perm (hm.filterMap _)

/-- the same, for the verdict in the form the correspondence run compares (ambiguous ids sorted): **equal** -/
theorem resolve_perm_normalized {cands cands' : List Cand} (h : List.Perm cands cands') (args : List ETy) :
    (resolve cands args).normalize = (resolve cands' args).normalize :=
  normalize_eq_of_equiv (resolve_perm h args)

/-- non-vacuity of `resolve_perm`: a three-candidate set where the verdict is a selection, and one where it is an
    ambiguity listed in a different order -/
example :
    let fI : Cand := ⟨0, [⟨⟨{}, .scalar .int32⟩, .in⟩], 1⟩
    let fU : Cand := ⟨1, [⟨⟨{}, .scalar .uInt32⟩, .in⟩], 1⟩
    let fF : Cand := ⟨2, [⟨⟨{}, .scalar .float32⟩, .in⟩], 1⟩
    resolve [fI, fU, fF] [⟨⟨{}, .scalar .uInt32⟩, .rvalue⟩] = .selected 1 ∧
    resolve [fF, fU, fI] [⟨⟨{}, .scalar .uInt32⟩, .rvalue⟩] = .selected 1 ∧
    resolve [fI, fU, fF] [⟨⟨{}, .scalar .intLiteral⟩, .rvalue⟩] = .ambiguous [0, 1] ∧
    resolve [fF, fU, fI] [⟨⟨{}, .scalar .intLiteral⟩, .rvalue⟩] = .ambiguous [1, 0] := by decide

/-! ## soundness of the verdict -/

/-- a selected overload is one of the candidates and is viable for the call -/
theorem selected_is_viable {cands : List Cand} {args : List ETy} {i : Nat}
    (h : resolve cands args = .selected i) : ∃ c ∈ cands, c.id = i ∧ ∃ rc, Viable args c rc := by
  rcases resolve_cases cands args with hp | hr
  · rw [hp] at h; simp at h
  · rw [hr] at h
    obtain ⟨rc, hf⟩ := resolveRanked_selected h
    have hm : (i, rc) ∈ rankedList cands args :=
      winners_subset (finals_subset (by rw [hf]; exact List.mem_cons_self))
    obtain ⟨c, hc, hrc⟩ := mem_rankedList.mp hm
    have hid := rankCand_id hrc
    exact ⟨c, hc, hid.symm, rc, by unfold Viable; rw [hrc, hid]⟩

/-! ## the selected candidate is never dominated -/

/-- **Not dominated.** If a call is accepted, no viable candidate converts every argument at least as well as the
    selected one and some argument strictly better (ranks compared lexicographically: numeric rank, then vector rank). -/
theorem selected_not_dominated {cands : List Cand} {args : List ETy} {i : Nat}
    (hid : (cands.map (·.id)).Nodup) (h : resolve cands args = .selected i) :
    ∃ c ∈ cands, c.id = i ∧ ∃ rc, Viable args c rc ∧
      ∀ d ∈ cands, ∀ rd, Viable args d rd → ¬ Dominates rd rc := by
  rcases resolve_cases cands args with hp | hr
  · rw [hp] at h; simp at h
  · rw [hr] at h
    obtain ⟨rc, hm, hnd⟩ := ranked_not_dominated (rankedList_ids_nodup hid) h
    obtain ⟨c, hc, hrc⟩ := mem_rankedList.mp hm
    have hcid := rankCand_id hrc
    refine ⟨c, hc, hcid.symm, rc, by unfold Viable; rw [hrc, hcid], ?_⟩
    intro d hd rd hv
    exact hnd (d.id, rd) (mem_rankedList.mpr ⟨d, hd, hv⟩)

/-- componentwise domination (no argument worse in either component, one strictly better) is a special case -/
theorem selected_not_dominated_componentwise {cands : List Cand} {args : List ETy} {i : Nat}
    (hid : (cands.map (·.id)).Nodup) (h : resolve cands args = .selected i) :
    ∃ c ∈ cands, c.id = i ∧ ∃ rc, Viable args c rc ∧
      ∀ d ∈ cands, ∀ rd, Viable args d rd → ¬ (AllLeBoth rd rc ∧ SomeLt rd rc) := by
  obtain ⟨c, hc, hci, rc, hv, hnd⟩ := selected_not_dominated hid h
  refine ⟨c, hc, hci, rc, hv, ?_⟩
  intro d hd rd hvd ⟨hall, hsome⟩
  apply hnd d hd rd hvd
  refine ⟨?_, hsome⟩
  have : ∀ (x y : List Rank), AllLeBoth x y → AllLe x y := by
    intro x
    induction x with
    | nil => intro y hy; cases y <;> simp_all [AllLeBoth, AllLe]
    | cons a x ih =>
      intro y hy
      cases y with
      | nil => simp [AllLeBoth] at hy
      | cons b y =>
        simp only [AllLeBoth] at hy
        refine ⟨?_, ih y hy.2⟩
        unfold Rank.leBoth at hy
        unfold Rank.le
        omega
  exact this rd rc hall

/-! ## exact matches -/

/-- **Exact matches decide the call.** If some candidate matches the arguments exactly (and no panic site is
    reached), the candidates left at the end of `find_function_type` are precisely the exactly matching ones. -/
theorem finals_are_the_exact_matches {cands : List Cand} {args : List ETy}
    (hid : (cands.map (·.id)).Nodup) {c : Cand} (hc : c ∈ cands) (hex : ExactMatch args c)
    (y : Nat × List Rank) :
    y ∈ finals (winners (rankedList cands args)) ↔ y ∈ rankedList cands args ∧ RankExact y.2 := by
  obtain ⟨rs, hv, hre⟩ := hex
  have hx : (c.id, rs) ∈ rankedList cands args := mem_rankedList.mpr ⟨c, hc, hv⟩
  exact mem_finals_winners_iff_exact (rankedList_ids_nodup hid) (n := args.length)
    (fun z hz => by
      obtain ⟨d, _, hr⟩ := mem_rankedList.mp (show (z.1, z.2) ∈ _ from hz)
      exact rankCand_length hr)
    hx hre y

/-- **A unique exact match is selected.** -/
theorem unique_exact_selected {cands : List Cand} {args : List ETy}
    (hid : (cands.map (·.id)).Nodup) {c : Cand} (hc : c ∈ cands)
    (hex : ExactMatch args c) (huniq : ∀ d ∈ cands, ExactMatch args d → d.id = c.id) :
    resolve cands args = .selected c.id := by
  rw [resolve_of_noPanic (noPanic_always cands args)]
  have hiff := finals_are_the_exact_matches hid hc hex
  obtain ⟨rs, hv, hre⟩ := hex
  have hx : (c.id, rs) ∈ rankedList cands args := mem_rankedList.mpr ⟨c, hc, hv⟩
  have hnd := rankedList_ids_nodup (args := args) hid
  have hsingle : finals (winners (rankedList cands args)) = [(c.id, rs)] := by
    apply eq_singleton_of_nodup (finals_winners_nodup (nodup_of_ids hnd)) ((hiff _).mpr ⟨hx, hre⟩)
    intro y hy
    obtain ⟨hyl, hye⟩ := (hiff y).mp hy
    obtain ⟨d, hd, hr⟩ := mem_rankedList.mp (show (y.1, y.2) ∈ _ from hyl)
    have hdid := rankCand_id hr
    have : d.id = c.id := huniq d hd ⟨y.2, by unfold Viable; rw [hr, hdid], hye⟩
    exact eq_of_id_eq hnd hyl hx (by rw [hdid, this])
  exact resolveRanked_of_singleton hsingle

/-- **Two exact matches are ambiguous** (the reading recorded in DESIGN.md: `f(int)` / `f(out int)` called with an
    lvalue, or `f(int)` / `f(int, int = 0)` called with one argument).  The reported set contains both and consists of
    exactly matching candidates only. -/
theorem twin_exact_ambiguous {cands : List Cand} {args : List ETy}
    (hid : (cands.map (·.id)).Nodup) {c d : Cand} (hc : c ∈ cands) (hd : d ∈ cands)
    (hne : c.id ≠ d.id) (hexc : ExactMatch args c) (hexd : ExactMatch args d) :
    ∃ ids, resolve cands args = .ambiguous ids ∧ c.id ∈ ids ∧ d.id ∈ ids ∧
      ∀ i ∈ ids, ∃ e ∈ cands, e.id = i ∧ ExactMatch args e := by
  rw [resolve_of_noPanic (noPanic_always cands args)]
  have hiff := finals_are_the_exact_matches hid hc hexc
  obtain ⟨rc, hvc, hrec⟩ := hexc
  obtain ⟨rd, hvd, hred⟩ := hexd
  have hxc : (c.id, rc) ∈ finals (winners (rankedList cands args)) :=
    (hiff _).mpr ⟨mem_rankedList.mpr ⟨c, hc, hvc⟩, hrec⟩
  have hxd : (d.id, rd) ∈ finals (winners (rankedList cands args)) :=
    (hiff _).mpr ⟨mem_rankedList.mpr ⟨d, hd, hvd⟩, hred⟩
  refine ⟨_, resolveRanked_ambiguous_of_two hxc hxd (by intro e; exact hne (congrArg Prod.fst e)), ?_, ?_, ?_⟩
  · exact List.mem_map.mpr ⟨_, hxc, rfl⟩
  · exact List.mem_map.mpr ⟨_, hxd, rfl⟩
  · intro i hi
    obtain ⟨y, hy, rfl⟩ := List.mem_map.mp hi
    obtain ⟨hyl, hye⟩ := (hiff y).mp hy
    obtain ⟨e, he, hr⟩ := mem_rankedList.mp (show (y.1, y.2) ∈ _ from hyl)
    have heid := rankCand_id hr
    exact ⟨e, he, heid.symm, y.2, by unfold Viable; rw [hr, heid], hye⟩

/-! ### non-vacuity and the recorded readings, on concrete inputs -/

/-- `f(int)`, `f(uint)`, `f(float3)` called with an `int` lvalue: hypotheses of `unique_exact_selected` hold -/
example :
    let fI : Cand := ⟨0, [⟨⟨{}, .scalar .int32⟩, .in⟩], 1⟩
    let fU : Cand := ⟨1, [⟨⟨{}, .scalar .uInt32⟩, .in⟩], 1⟩
    let fV : Cand := ⟨2, [⟨⟨{}, .vector .float32 3⟩, .in⟩], 1⟩
    let a : List ETy := [⟨⟨{}, .scalar .int32⟩, .lvalue⟩]
    rankCand a fI = .ranked 0 [⟨.exact, .exact⟩] ∧ rankCand a fU = .ranked 1 [⟨.promotion, .exact⟩] ∧
    rankCand a fV = .ranked 2 [⟨.conversion, .expand⟩] ∧ resolve [fV, fU, fI] a = .selected 0 := by decide

/-- the recorded reading: `f(int)` / `f(out int)` with an lvalue argument are both exact, hence ambiguous -/
theorem in_out_twin_is_ambiguous :
    resolve [⟨0, [⟨⟨{}, .scalar .int32⟩, .in⟩], 1⟩, ⟨1, [⟨⟨{}, .scalar .int32⟩, .out⟩], 1⟩]
      [⟨⟨{}, .scalar .int32⟩, .lvalue⟩] = .ambiguous [0, 1] := by decide

/-- the second reading: a defaulted trailing parameter takes no part, `f(int3)` / `f(int3, double4 = ..)` tie -/
theorem default_twin_is_ambiguous :
    resolve [⟨0, [⟨⟨{}, .vector .int32 3⟩, .in⟩], 1⟩,
             ⟨1, [⟨⟨{}, .vector .int32 3⟩, .in⟩, ⟨⟨{}, .vector .float64 4⟩, .in⟩], 1⟩]
      [⟨⟨{}, .vector .int32 3⟩, .lvalue⟩] = .ambiguous [0, 1] := by decide

/-- outside the property's grid: with 1-vectors `int → int1` is ranked as exact as `int → int`, so `f(int)` is
    **not** preferred over `f(int1)` for an `int` argument (confirmed on the real code, see notes/C16.md) -/
theorem vec1_twin_is_ambiguous :
    resolve [⟨0, [⟨⟨{}, .scalar .int32⟩, .in⟩], 1⟩, ⟨1, [⟨⟨{}, .vector .int32 1⟩, .in⟩], 1⟩]
      [⟨⟨{}, .scalar .int32⟩, .lvalue⟩] = .ambiguous [0, 1] := by decide

/-- the tournament can have no winner although every candidate is viable: the call is then unmatched -/
theorem tournament_without_winner :
    resolve [⟨0, [⟨⟨{}, .vector .float32 2⟩, .in⟩, ⟨⟨{}, .scalar .int32⟩, .in⟩], 2⟩,
             ⟨1, [⟨⟨{}, .scalar .int32⟩, .in⟩, ⟨⟨{}, .scalar .float32⟩, .in⟩], 2⟩]
      [⟨⟨{}, .scalar .intLiteral⟩, .rvalue⟩, ⟨⟨{}, .scalar .intLiteral⟩, .rvalue⟩] = .unmatched := by decide

/-- the former panic of `get_rank` (scalar argument, matrix parameter; fixed in /repo 368a51b): now ranked
    `Expand` and selected; corpus lines replay it on the real code -/
theorem scalar_to_matrix_selected :
    rankCand [⟨⟨{}, .scalar .float32⟩, .rvalue⟩] ⟨0, [⟨⟨{}, .matrix .float32 2 2⟩, .in⟩], 1⟩
      = .ranked 0 [⟨.exact, .expand⟩] ∧
    resolve [⟨0, [⟨⟨{}, .matrix .float32 2 2⟩, .in⟩], 1⟩] [⟨⟨{}, .scalar .float32⟩, .rvalue⟩] = .selected 0 ∧
    resolve [⟨0, [⟨⟨{}, .matrix .float32 2 2⟩, .in⟩], 1⟩, ⟨1, [⟨⟨{}, .scalar .int32⟩, .in⟩], 1⟩]
      [⟨⟨{}, .scalar .float32⟩, .rvalue⟩] = .selected 0 := by decide

/-! ## the conversion model: panic freedom, and the property as worded on its own quantifier -/

/-- `ImplicitConversion::find` never reaches the `unreachable!()` arms of its rank table -/
theorem find_total (s d : ETy) : ∃ r, find s d = .ok r := find_no_panic s d

/-- `get_rank` after `find` does not panic for a non-matrix destination (kept from before /repo 368a51b; subsumed by
    `findRank_total`) -/
theorem findRank_total_off_matrix {a d : ETy} (hd : ¬ IsMatrix d.ty.layer) : ∃ r, findRank a d = .ok r :=
  findRank_no_panic hd

/-- **since /repo 368a51b** (`get_rank` ranks scalar → matrix as `Expand`): `find` followed by `get_rank` never
    panics, for any two expression types — every dimension cast `find` can build has an arm in `get_rank` -/
theorem findRank_total (a d : ETy) : ∃ r, findRank a d = .ok r := RsslVerif.Lemmas.Conv.findRank_total a d

/-- overload resolution reaches no panic site, for **any** candidates and arguments -/
theorem resolve_no_panic (cands : List Cand) (args : List ETy) : resolve cands args ≠ .panic := by
  rw [resolve_of_noPanic (noPanic_always cands args)]
  unfold resolveRanked
  split <;> simp

/-- on the property's grid, the rank-level notion used above is literally "parameter types equal argument types" -/
theorem exact_rank_iff_same_type_on_grid {args : List ETy} {c : Cand}
    (hp : ∀ p ∈ c.params, OnGrid p.ty.layer) (ha : ∀ a ∈ args, ArgOnGrid a.ty.layer) :
    ExactMatch args c ↔ TypeExact args c := exactMatch_iff_typeExact hp ha

/-- **The property's second sentence on its own quantifier.** Candidates over
    {bool,int,uint,half,float,double} × {scalar,2,3,4-vector} × in/out/inout, arguments of those types or untyped
    literals: a viable candidate whose parameter types equal the argument types, if it is the only such candidate,
    is selected — whatever else is declared, in whatever order. -/
theorem exact_type_match_selected_on_grid {cands : List Cand} {args : List ETy}
    (hid : (cands.map (·.id)).Nodup)
    (hgrid : ∀ c ∈ cands, ∀ p ∈ c.params, OnGrid p.ty.layer) (hargs : ∀ a ∈ args, ArgOnGrid a.ty.layer)
    {c : Cand} (hc : c ∈ cands) (hex : TypeExact args c)
    (huniq : ∀ d ∈ cands, TypeExact args d → d.id = c.id) :
    resolve cands args = .selected c.id := by
  apply unique_exact_selected hid hc
    ((exactMatch_iff_typeExact (hgrid c hc) hargs).mpr hex)
  intro d hd hde
  exact huniq d hd ((exactMatch_iff_typeExact (hgrid d hd) hargs).mp hde)

/-- ... and with several such candidates the call is ambiguous between exactly those -/
theorem exact_type_twins_ambiguous_on_grid {cands : List Cand} {args : List ETy}
    (hid : (cands.map (·.id)).Nodup)
    (hgrid : ∀ c ∈ cands, ∀ p ∈ c.params, OnGrid p.ty.layer) (hargs : ∀ a ∈ args, ArgOnGrid a.ty.layer)
    {c d : Cand} (hc : c ∈ cands) (hd : d ∈ cands) (hne : c.id ≠ d.id)
    (hexc : TypeExact args c) (hexd : TypeExact args d) :
    ∃ ids, resolve cands args = .ambiguous ids ∧ c.id ∈ ids ∧ d.id ∈ ids ∧
      ∀ i ∈ ids, ∃ e ∈ cands, e.id = i ∧ TypeExact args e := by
  obtain ⟨ids, hr, h1, h2, h3⟩ := twin_exact_ambiguous hid hc hd hne
    ((exactMatch_iff_typeExact (hgrid c hc) hargs).mpr hexc)
    ((exactMatch_iff_typeExact (hgrid d hd) hargs).mpr hexd)
  refine ⟨ids, hr, h1, h2, ?_⟩
  intro i hi
  obtain ⟨e, he, hei, hee⟩ := h3 i hi
  exact ⟨e, he, hei, (exactMatch_iff_typeExact (hgrid e he) hargs).mp hee⟩

/-- non-vacuity: hypotheses of `exact_type_match_selected_on_grid` on a 3-candidate, 2-argument call with an
    `out` parameter and an untyped literal -/
example :
    let c0 : Cand := ⟨0, [⟨⟨{}, .vector .float32 3⟩, .out⟩, ⟨⟨{}, .scalar .int32⟩, .in⟩], 2⟩
    let c1 : Cand := ⟨1, [⟨⟨{}, .vector .float32 3⟩, .out⟩, ⟨⟨{}, .scalar .float32⟩, .in⟩], 2⟩
    let c2 : Cand := ⟨2, [⟨⟨{}, .vector .float32 2⟩, .in⟩, ⟨⟨{}, .scalar .bool⟩, .in⟩], 2⟩
    let a : List ETy := [⟨⟨{}, .vector .float32 3⟩, .lvalue⟩, ⟨⟨{}, .scalar .float32⟩, .rvalue⟩]
    let lit : List ETy := [⟨⟨{}, .vector .float32 3⟩, .lvalue⟩, ⟨⟨{}, .scalar .intLiteral⟩, .rvalue⟩]
    resolve [c0, c1, c2] a = .selected 1 ∧ resolve [c2, c1, c0] a = .selected 1 ∧
    resolve [c0, c1, c2] lit = .selected 0 ∧ resolve [c1, c2, c0] lit = .selected 0 := by decide

/-! ## the literal transcription -/

/-- **Refinement.** `resolveLazy` transcribes `find_function_type` with `get_rank` evaluated exactly where the Rust
    code evaluates it (inside the tournament's `zip` loop, with the `continue`/`break` of the `against` loop, and again
    in `count_by_rank`).  For pairwise distinct `FunctionId`s it computes the same outcome — including *whether* a
    panic is reached — as `resolve`, which ranks everything first.  Every theorem above is therefore a theorem about
    the literal transcription. -/
theorem resolveLazy_eq_resolve (cands : List Cand) (args : List ETy) (hid : (cands.map (·.id)).Nodup) :
    resolveLazy cands args = resolve cands args :=
  RsslVerif.Lemmas.OverloadLazy.resolveLazy_eq cands args hid

/-- order independence, stated for the literal transcription -/
theorem resolveLazy_perm {cands cands' : List Cand} (h : List.Perm cands cands') (args : List ETy)
    (hid : (cands.map (·.id)).Nodup) :
    (resolveLazy cands args).normalize = (resolveLazy cands' args).normalize := by
  rw [resolveLazy_eq_resolve cands args hid,
      resolveLazy_eq_resolve cands' args ((h.map (·.id)).nodup_iff.mp hid)]
  exact resolve_perm_normalized h args

/-! ## candidates of every kind: function templates, default arguments, methods, intrinsics

`GCand` is a candidate whose first half of `find_overload_casts` (template argument deduction and instantiation) is an
**arbitrary** function of the argument types that may succeed, fail or panic, with an arbitrary arity range
(`nonDefault ≤ #args ≤ arity`).  Ordinary functions (`Cand.toG`) and the function templates of the correspondence run
(`TCand.toG`: `T`, `vector<T, n>`, `matrix<T, x, y>`, `T p[n]`, type and value template parameters, explicit template
arguments) are instances.  `WF` says that instantiating does not change the number of parameters. -/

/-- **Order independence, candidates of every kind.**  Whatever the deduction relation, the arity ranges and the
    arguments: permuting the declaration order leaves the verdict unchanged (also *whether* a panic site is reached). -/
theorem resolveG_perm {cands cands' : List GCand} (h : List.Perm cands cands') (args : List ETy) :
    Outcome.Equiv (resolveG cands args) (resolveG cands' args) := by
  simp only [resolveG, resolveResults]
  have hm := h.map (rankG args)
  rw [any_perm hm]
  by_cases hp : (List.map (rankG args) cands').any CandResult.isPanic = true
  · simp [hp, Outcome.Equiv]
  · simp only [hp, Bool.false_eq_true, if_false]
    exact resolveRanked_perm (hm.filterMap _)

theorem resolveG_perm_normalized {cands cands' : List GCand} (h : List.Perm cands cands') (args : List ETy) :
    (resolveG cands args).normalize = (resolveG cands' args).normalize :=
  normalize_eq_of_equiv (resolveG_perm h args)

/-- ordinary functions seen as `GCand`s resolve exactly as in the model of the first round -/
theorem resolveG_of_plain (cands : List Cand) (args : List ETy) :
    resolveG (cands.map Cand.toG) args = resolve cands args := resolveG_plain cands args

/-- ordinary functions and the generator's function templates are well-formed -/
theorem plain_wf (c : Cand) : WF c.toG := toG_wf c
theorem template_wf (explicit : List TArg) (c : TCand) : WF (c.toG explicit) := tcand_wf explicit c

/-- **Not dominated, candidates of every kind** (default arguments and templates included): the selected candidate
    is viable and no viable candidate converts every argument at least as well and one strictly better. -/
theorem selectedG_not_dominated {cands : List GCand} {args : List ETy} {i : Nat}
    (hwf : ∀ g ∈ cands, WF g) (hid : (cands.map (·.id)).Nodup) (h : resolveG cands args = .selected i) :
    ∃ g ∈ cands, g.id = i ∧ ∃ rc, ViableG args g rc ∧
      ∀ d ∈ cands, ∀ rd, ViableG args d rd → ¬ Dominates rd rc := by
  have hnp := not_instPanics_of_ne_panic (by rw [h]; simp : resolveG cands args ≠ .panic)
  rw [resolveG_eq_resolve_instances hwf hnp] at h
  obtain ⟨c, hc, hci, rc, hv, hnd⟩ := selected_not_dominated (instances_ids_nodup hid) h
  obtain ⟨g, hg, hgc⟩ := mem_instances.mp hc
  refine ⟨g, hg, by rw [← instOf_id hgc]; exact hci, rc, (viableG_iff (hwf g hg)).mpr ⟨c, hgc, hv⟩, ?_⟩
  intro d hd rd hvd
  obtain ⟨c', hc', hv'⟩ := (viableG_iff (hwf d hd)).mp hvd
  exact hnd c' (mem_instances.mpr ⟨d, hd, hc'⟩) rd hv'

/-- a selected candidate of any kind is one of the declared candidates and viable -/
theorem selectedG_is_viable {cands : List GCand} {args : List ETy} {i : Nat}
    (hwf : ∀ g ∈ cands, WF g) (hid : (cands.map (·.id)).Nodup) (h : resolveG cands args = .selected i) :
    ∃ g ∈ cands, g.id = i ∧ ∃ rc, ViableG args g rc := by
  obtain ⟨g, hg, hi, rc, hv, _⟩ := selectedG_not_dominated hwf hid h
  exact ⟨g, hg, hi, rc, hv⟩

/-- **A unique exact match is selected, candidates of every kind** — provided no candidate's instantiation panics
    (`GCand.inst` is an arbitrary function; for the declared overloads of the correspondence run the hypothesis is
    discharged by `Thm.C16.templates_never_panic`). -/
theorem unique_exact_selectedG {cands : List GCand} {args : List ETy}
    (hwf : ∀ g ∈ cands, WF g) (hid : (cands.map (·.id)).Nodup) (hnp : NoPanicG cands args)
    {g : GCand} (hg : g ∈ cands) (hex : ExactMatchG args g)
    (huniq : ∀ d ∈ cands, ExactMatchG args d → d.id = g.id) :
    resolveG cands args = .selected g.id := by
  rw [resolveG_eq_resolve_instances hwf (not_instPanics_of_noPanicG hnp)]
  obtain ⟨rs, hv, hre⟩ := hex
  obtain ⟨c, hc, hvc⟩ := (viableG_iff (hwf g hg)).mp hv
  rw [← instOf_id hc]
  apply unique_exact_selected (instances_ids_nodup hid) (mem_instances.mpr ⟨g, hg, hc⟩) ⟨rs, hvc, hre⟩
  intro d hd ⟨rd, hvd, hred⟩
  obtain ⟨g', hg', hgd⟩ := mem_instances.mp hd
  rw [instOf_id hgd, instOf_id hc]
  exact huniq g' hg' ⟨rd, (viableG_iff (hwf g' hg')).mpr ⟨d, hgd, hvd⟩, hred⟩

/-- **Two exact matches are ambiguous, candidates of every kind** (e.g. `template<typename T> f(T)` next to `f(int)`
    for an `int` argument: the type checker does not prefer the non-template). -/
theorem twin_exact_ambiguousG {cands : List GCand} {args : List ETy}
    (hwf : ∀ g ∈ cands, WF g) (hid : (cands.map (·.id)).Nodup) (hnp : NoPanicG cands args)
    {g d : GCand} (hg : g ∈ cands) (hd : d ∈ cands) (hne : g.id ≠ d.id)
    (hexg : ExactMatchG args g) (hexd : ExactMatchG args d) :
    ∃ ids, resolveG cands args = .ambiguous ids ∧ g.id ∈ ids ∧ d.id ∈ ids ∧
      ∀ i ∈ ids, ∃ e ∈ cands, e.id = i ∧ ExactMatchG args e := by
  rw [resolveG_eq_resolve_instances hwf (not_instPanics_of_noPanicG hnp)]
  obtain ⟨rg, hvg, hreg⟩ := hexg
  obtain ⟨rd, hvd, hred⟩ := hexd
  obtain ⟨cg, hcg, hvcg⟩ := (viableG_iff (hwf g hg)).mp hvg
  obtain ⟨cd, hcd, hvcd⟩ := (viableG_iff (hwf d hd)).mp hvd
  obtain ⟨ids, hr, h1, h2, h3⟩ := twin_exact_ambiguous (instances_ids_nodup hid)
    (mem_instances.mpr ⟨g, hg, hcg⟩) (mem_instances.mpr ⟨d, hd, hcd⟩)
    (by rw [instOf_id hcg, instOf_id hcd]; exact hne) ⟨rg, hvcg, hreg⟩ ⟨rd, hvcd, hred⟩
  refine ⟨ids, hr, by rw [← instOf_id hcg]; exact h1, by rw [← instOf_id hcd]; exact h2, ?_⟩
  intro i hi
  obtain ⟨e, he, hei, re, hve, hree⟩ := h3 i hi
  obtain ⟨g', hg', hge⟩ := mem_instances.mp he
  exact ⟨g', hg', by rw [← instOf_id hge]; exact hei, re, (viableG_iff (hwf g' hg')).mpr ⟨e, hge, hve⟩, hree⟩

/-- **Refinement, candidates of every kind.**  `resolveGLazy` follows the source's evaluation order: the arity guard,
    then the template step of `find_overload_casts` (where a panic aborts the whole call), then the `zip` loop, then the
    lazily ranked tournament.  It computes the same outcome as `resolveG`. -/
theorem resolveGLazy_eq_resolveG (cands : List GCand) (args : List ETy) (hwf : ∀ g ∈ cands, WF g)
    (hid : (cands.map (·.id)).Nodup) : resolveGLazy cands args = resolveG cands args :=
  resolveGLazy_eq cands args hwf hid

theorem resolveGLazy_perm {cands cands' : List GCand} (h : List.Perm cands cands') (args : List ETy)
    (hwf : ∀ g ∈ cands, WF g) (hid : (cands.map (·.id)).Nodup) :
    (resolveGLazy cands args).normalize = (resolveGLazy cands' args).normalize := by
  rw [resolveGLazy_eq_resolveG cands args hwf hid,
      resolveGLazy_eq_resolveG cands' args (fun g hg => hwf g (h.mem_iff.mpr hg)) ((h.map (·.id)).nodup_iff.mp hid)]
  exact resolveG_perm_normalized h args

/-! ### the function templates of the correspondence run -/

/-- order independence of `find_function_type` on declared overloads with function templates among them, for any
    explicit template arguments -/
theorem resolveT_perm {cands cands' : List TCand} (h : List.Perm cands cands') (explicit : List TArg) (args : List ETy) :
    (resolveT cands explicit args).normalize = (resolveT cands' explicit args).normalize :=
  resolveG_perm_normalized (h.map _) args

/-- the literal transcription (what answers the correspondence requests) equals the form the theorems are about -/
theorem resolveTLazy_eq_resolveT (cands : List TCand) (explicit : List TArg) (args : List ETy)
    (hid : (cands.map (·.id)).Nodup) : resolveTLazy cands explicit args = resolveT cands explicit args := by
  apply resolveGLazy_eq_resolveG
  · intro g hg
    obtain ⟨c, _, rfl⟩ := List.mem_map.mp hg
    exact tcand_wf explicit c
  · simpa [List.map_map, Function.comp_def, TCand.toG] using hid

/-- non-vacuity of the `G` theorems: a template, an ordinary function and a defaulted parameter in one set -/
example :
    let tT : TCand := ⟨0, [.type], [⟨.tvar 0, .in⟩], 1⟩
    let fF : TCand := ⟨1, [], [⟨.conc ⟨{}, .scalar .float32⟩, .in⟩], 1⟩
    let fD : TCand := ⟨2, [], [⟨.conc ⟨{}, .scalar .float64⟩, .in⟩, ⟨.conc ⟨{}, .scalar .int32⟩, .in⟩], 1⟩
    let i : List ETy := [⟨⟨{}, .scalar .int32⟩, .lvalue⟩]
    let f : List ETy := [⟨⟨{}, .scalar .float32⟩, .rvalue⟩]
    let h : List ETy := [⟨⟨{}, .scalar .float16⟩, .rvalue⟩]
    resolveT [tT, fF, fD] [] i = .selected 0 ∧ resolveT [fD, fF, tT] [] i = .selected 0 ∧
    resolveT [tT, fF, fD] [] f = .ambiguous [0, 1] ∧ resolveT [fD, fF, tT] [] f = .ambiguous [1, 0] ∧
    resolveT [fF, fD] [] h = .selected 1 ∧ resolveT [fD, fF] [] h = .selected 1 ∧
    resolveT [tT, fF, fD] [.type ⟨{}, .scalar .float64⟩] h = .selected 0 := by decide

/-- recorded reading: a function template whose deduced signature matches exactly ties with an exactly matching
    ordinary function (C++ would prefer the non-template); replayed on the real code by corpus/C16.txt -/
theorem template_twin_is_ambiguous :
    resolveT [⟨0, [.type], [⟨.tvar 0, .in⟩], 1⟩, ⟨1, [], [⟨.conc ⟨{}, .scalar .int32⟩, .in⟩], 1⟩] []
      [⟨⟨{}, .scalar .int32⟩, .lvalue⟩] = .ambiguous [0, 1] := by decide

/-- an untyped literal deduces `T = int` (`normalize_template_type`), which the literal then reaches by a promotion -/
theorem template_literal_deduces_int :
    (TCand.mk 0 [.type] [⟨.tvar 0, .in⟩] 1).targs [] [⟨⟨{}, .scalar .intLiteral⟩, .rvalue⟩]
      = some [.type ⟨{}, .scalar .int32⟩] ∧
    rankG [⟨⟨{}, .scalar .intLiteral⟩, .rvalue⟩] ((TCand.mk 0 [.type] [⟨.tvar 0, .in⟩] 1).toG [])
      = .ranked 0 [⟨.promotion, .exact⟩] := by decide

/-- `vector<T, 3>` is not deduced from a `const float3` (the modifier layer hides the vector), `T` is -/
theorem template_const_vector_argument :
    resolveT [⟨0, [.type], [⟨.tvec 0 3, .in⟩], 1⟩] [] [⟨⟨{ isConst := true }, .vector .float32 3⟩, .lvalue⟩] = .unmatched ∧
    resolveT [⟨0, [.type], [⟨.tvar 0, .in⟩], 1⟩] [] [⟨⟨{ isConst := true }, .vector .float32 3⟩, .lvalue⟩] = .selected 0 := by
  decide

/-- explicit template arguments make every ordinary function non-viable -/
theorem explicit_args_exclude_plain_functions :
    resolveT [⟨0, [], [⟨.conc ⟨{}, .scalar .float32⟩, .in⟩], 1⟩] [.type ⟨{}, .scalar .float32⟩]
      [⟨⟨{}, .scalar .float32⟩, .lvalue⟩] = .unmatched := by decide

/-- **Template arguments that do not fit the signature make the candidate not viable** (the defect
    `template_vector_of_vector_panics` of the previous round, repaired by /repo 5dca4fc): with `T` bound to `float3` —
    deduced from the first parameter or given explicitly — `vector<T, 2>` is no type, the template is dropped from the
    candidate set, and the call resolves among the others (here: the ordinary overload is selected / nothing is left).
    Corpus lines replay both on the real code. -/
theorem template_vector_of_vector_not_viable :
    resolveT [⟨0, [.type], [⟨.tvar 0, .in⟩, ⟨.tvec 0 2, .in⟩], 2⟩, ⟨1, [], [⟨.conc ⟨{}, .vector .float32 3⟩, .in⟩,
      ⟨.conc ⟨{}, .vector .float32 2⟩, .in⟩], 2⟩] []
      [⟨⟨{}, .vector .float32 3⟩, .lvalue⟩, ⟨⟨{}, .vector .float32 2⟩, .lvalue⟩] = .selected 1 ∧
    resolveT [⟨0, [.type], [⟨.tvec 0 2, .in⟩], 1⟩] [.type ⟨{}, .vector .float32 3⟩]
      [⟨⟨{}, .vector .float32 2⟩, .lvalue⟩] = .unmatched ∧
    -- a constant where the signature names a type (`b.Load<4>(0)`; was `todo!("Non-type template arguments")`)
    rankG [⟨⟨{}, .scalar .uInt32⟩, .rvalue⟩]
      ((TCand.mk 1000 [.type] [⟨.conc ⟨{}, .scalar .uInt32⟩, .in⟩, ⟨.tvar 0, .in⟩] 1).toG [.const]) = .notViable := by
  decide

/-- **`T` matches every argument exactly**: a template `f(T a)` called with any argument whose type is not an
    untyped literal (any value category, any qualifiers, scalars, vectors, matrices, structs, enums, arrays) is viable
    with rank Exact/Exact — so next to it no ordinary overload can be selected unless it is exact as well -/
theorem template_param_matches_exactly (id : Nat) (a : ETy) (h : NonLiteral a.ty.layer) :
    rankG [a] ((TCand.mk id [.type] [⟨.tvar 0, .in⟩] 1).toG []) = .ranked id [⟨.exact, .exact⟩] :=
  tvar_in_param_matches_exactly id a h

/-- **The template half of `find_overload_casts` reaches no panic site** (the hypothesis `NoPanicG` of the theorems
    above holds for every declared overload set): ordinary functions and function templates whose parameters are
    concrete types, `T`, `vector<T, n>` or `matrix<T, x, y>` with declared template parameters of either kind, whatever
    the explicit template arguments and the call.  Before /repo 5dca4fc this held for bare `T` parameters only. -/
theorem templates_never_panic (cands : List TCand) (h : ∀ c ∈ cands, ScopedTemplate c) (explicit : List TArg)
    (args : List ETy) : NoPanicG (cands.map (TCand.toG explicit)) args := by
  intro g hg
  obtain ⟨c, hc, rfl⟩ := List.mem_map.mp hg
  exact scoped_template_never_panics c (h c hc) explicit args

/-- hence `find_function_type` on declared overloads never panics -/
theorem resolveT_no_panic (cands : List TCand) (h : ∀ c ∈ cands, ScopedTemplate c) (explicit : List TArg)
    (args : List ETy) : resolveT cands explicit args ≠ .panic := by
  have hnp := templates_never_panic cands h explicit args
  unfold resolveT resolveG resolveResults
  have : (List.map (rankG args) (cands.map (TCand.toG explicit))).any CandResult.isPanic = false := by
    rw [List.any_eq_false]
    intro r hr
    obtain ⟨g, hg, rfl⟩ := List.mem_map.mp hr
    simp [hnp g hg]
  rw [this]
  simp only [Bool.false_eq_true, if_false]
  unfold resolveRanked
  split <;> simp

/-- and a unique exact match is selected — no panic hypothesis -/
theorem unique_exact_selectedT {cands : List TCand} (hs : ∀ c ∈ cands, ScopedTemplate c) (explicit : List TArg)
    {args : List ETy} (hid : (cands.map (·.id)).Nodup) {c : TCand} (hc : c ∈ cands)
    (hex : ExactMatchG args (c.toG explicit))
    (huniq : ∀ d ∈ cands, ExactMatchG args (d.toG explicit) → d.id = c.id) :
    resolveT cands explicit args = .selected c.id := by
  have h := unique_exact_selectedG (cands := cands.map (TCand.toG explicit)) (args := args)
    (fun g hg => by obtain ⟨d, _, rfl⟩ := List.mem_map.mp hg; exact tcand_wf explicit d)
    (by simpa [List.map_map, Function.comp_def, TCand.toG] using hid)
    (templates_never_panic cands hs explicit args)
    (List.mem_map.mpr ⟨c, hc, rfl⟩) hex
    (by
      intro g hg hge
      obtain ⟨d, hd, rfl⟩ := List.mem_map.mp hg
      exact huniq d hd hge)
  exact h

/-- non-vacuity: a set with `vector<T, n>` / `matrix<T, x, y>` parameters and a value parameter is `ScopedTemplate` -/
example : ∀ c ∈ [TCand.mk 0 [.type, .value] [⟨.tvar 0, .in⟩, ⟨.tvec 0 2, .out⟩] 2,
    TCand.mk 1 [.type] [⟨.tmat 0 2 2, .in⟩, ⟨.conc ⟨{}, .scalar .int32⟩, .inOut⟩] 2], ScopedTemplate c := by
  intro c hc
  simp only [List.mem_cons, List.not_mem_nil, or_false] at hc
  rcases hc with rfl | rfl <;> intro p hp <;> simp only [List.mem_cons, List.not_mem_nil, or_false] at hp <;>
    rcases hp with rfl | rfl <;> simp

/-! ## the call after the resolution: `apply_casts`, `check_output_arguments` (/repo b359800, 3758fdd) -/

/-- **An out or inout argument can not be the result of a conversion.**  For any signature and arguments with the
    casts `find_overload_casts` found: `check_output_arguments` passes iff every argument given for an `out` / `inout`
    parameter is a non-const lvalue whose type *is* the parameter's type.  (`find` allows two other conversions to an
    lvalue destination — scalar ↔ 1-vector of the same scalar kind, and an added qualifier; both now end in
    "lvalue is required".) -/
theorem output_arguments_checked (ps : List Param) (as : List ETy) (cs : List Conversion)
    (h : zipFind ps as = .ok (some cs)) : checkOutputs ps cs = none ↔ OutputsExact ps as :=
  checkOutputs_none_iff ps as cs h

/-- **Order independence of the verdict on the whole call** (resolution, then the output-argument check): accepted
    with the same overload / refused for the same reason / ambiguous between the same overloads / unmatched, under
    every permutation of the declaration order — for declared overloads of every kind and any explicit template
    arguments.  `callT` follows the evaluation order of the source (`resolveTLazy`). -/
theorem callT_perm {cands cands' : List TCand} (h : List.Perm cands cands') (explicit : List TArg) (args : List ETy)
    (hid : (cands.map (·.id)).Nodup) :
    (callT cands explicit args).normalize = (callT cands' explicit args).normalize := by
  rw [callT_eq_finish_resolveT cands explicit args hid,
      callT_eq_finish_resolveT cands' explicit args ((h.map (·.id)).nodup_iff.mp hid)]
  exact finishCall_perm h hid explicit args (resolveG_perm_normalized (h.map _) args)

/-- **An accepted call names the overload the resolution selected**, so `selectedG_is_viable` /
    `selectedG_not_dominated` speak about every accepted call; and its `out` / `inout` arguments are mutable lvalues of
    exactly the (instantiated) parameter types. -/
theorem callT_accepted {cands : List TCand} {explicit : List TArg} {args : List ETy} {i : Nat}
    (hid : (cands.map (·.id)).Nodup) (h : callT cands explicit args = .accepted i) :
    resolveT cands explicit args = .selected i ∧
    ∃ c ∈ cands, c.id = i ∧ ∃ ps, c.inst explicit args = .ok (some ps) ∧ OutputsExact ps args := by
  rw [callT_eq_finish_resolveT cands explicit args hid] at h
  cases hr : resolveT cands explicit args with
  | selected j =>
    rw [hr] at h
    simp only [finishCall] at h
    split at h
    · simp at h
    · rename_i ps casts hsel
      split at h
      · simp at h
      · rename_i hchk
        simp only [CallOutcome.accepted.injEq] at h
        subst h
        refine ⟨rfl, ?_⟩
        unfold selectedCasts at hsel
        split at hsel
        · simp at hsel
        · rename_i c hfind
          have hc := List.mem_of_find?_eq_some hfind
          have hci : c.id = j := by simpa using List.find?_some hfind
          split at hsel
          · rename_i ps' hinst
            split at hsel
            · rename_i casts' hz
              simp only [Option.some.injEq, Prod.mk.injEq] at hsel
              obtain ⟨rfl, rfl⟩ := hsel
              exact ⟨c, hc, hci, ps', hinst, (checkOutputs_none_iff ps' args casts' hz).mp hchk⟩
            · simp at hsel
          · simp at hsel
  | ambiguous l => rw [hr] at h; simp [finishCall] at h
  | unmatched => rw [hr] at h; simp [finishCall] at h
  | panic => rw [hr] at h; simp [finishCall] at h

/-- a refused call was resolved: the refusal comes after `find_function_type` selected an overload, and never turns an
    ambiguous or unmatched call into something else -/
theorem callT_refused {cands : List TCand} {explicit : List TArg} {args : List ETy} {e : OutErr}
    (hid : (cands.map (·.id)).Nodup) (h : callT cands explicit args = .refused e) :
    ∃ i, resolveT cands explicit args = .selected i := by
  rw [callT_eq_finish_resolveT cands explicit args hid] at h
  cases hr : resolveT cands explicit args with
  | selected j => exact ⟨j, rfl⟩
  | ambiguous l => rw [hr] at h; simp [finishCall] at h
  | unmatched => rw [hr] at h; simp [finishCall] at h
  | panic => rw [hr] at h; simp [finishCall] at h

/-- recorded readings (corpus lines replay them on the real code): an `int` lvalue for `out int1` (and `int1` for
    `inout int`) is ranked Exact/Exact by the resolution, the overload is selected — and the call is then refused,
    because the reshaped argument is an rvalue; next to an `in` overload of the argument's own type the call is
    *ambiguous* (both Exact/Exact), not rescued; with the argument's own type as the `out` parameter it is accepted. -/
theorem out_vec1_is_refused :
    let i : List ETy := [⟨⟨{}, .scalar .int32⟩, .lvalue⟩]
    let i1 : List ETy := [⟨⟨{}, .vector .int32 1⟩, .lvalue⟩]
    let fOut1 : TCand := ⟨0, [], [⟨.conc ⟨{}, .vector .int32 1⟩, .out⟩], 1⟩
    let fInOut : TCand := ⟨0, [], [⟨.conc ⟨{}, .scalar .int32⟩, .inOut⟩], 1⟩
    let fIn : TCand := ⟨1, [], [⟨.conc ⟨{}, .scalar .int32⟩, .in⟩], 1⟩
    let fOut : TCand := ⟨2, [], [⟨.conc ⟨{}, .scalar .int32⟩, .out⟩], 1⟩
    resolveT [fOut1] [] i = .selected 0 ∧ callT [fOut1] [] i = .refused .lvalueRequired ∧
    callT [fInOut] [] i1 = .refused .lvalueRequired ∧
    callT [fOut1, fIn] [] i = .ambiguous [0, 1] ∧ callT [fIn, fOut1] [] i = .ambiguous [1, 0] ∧
    callT [fOut] [] i = .accepted 2 ∧
    -- through a template: `template<typename T> f(out T)` binds `T = int1` for an `int1` argument: accepted
    callT [⟨3, [.type], [⟨.tvar 0, .out⟩], 1⟩] [] i1 = .accepted 3 := by decide

/-! ## the tie of the hand-written model to the source text

`Gen.ResolveShape` is re-extracted from typer/src/typer/{expressions,scopes}.rs on every run. -/

/-! ## calls interleaved with declarations (`Model/OverloadSeq.lean`)

The type checker walks a translation unit once; `runSeq` is that walk for the overloads of one name: declarations push
onto the symbol vector of their scope, a struct registers all its methods first, the compiler's own overloads lead the
root vector, definitions of declared functions insert nothing, call sites resolve against the vector `find_identifier`
hands over at that moment, and a call inside a template body is resolved when the first call of that instance is
type checked.  `Spec.visibleAt` says, without any walk, which candidates the property calls *visible* at a place. -/

/-- **The verdict at a call site is the resolution on the candidates visible at the site, and on nothing else.**
    For every translation unit `pre ++ [site] ++ post` on every path: what the site shows is `callT` (resolution,
    then the output-argument check) on `Spec.visibleAt` — the overloads declared above the call in the scope the
    lookup reaches (all methods for a method call) — or "unknown name" when there is none.  No other item of the
    unit takes part: not what is declared below the call, not the definitions of declared functions, not the call
    sites, template helpers and instantiations above it (`visibleAt` does not look at them): **no state is carried from
    one call site to the next**. -/
theorem site_verdict_is_resolution_of_visible (p : SeqPath) (pre post : List SeqItem) (m : Nat) (x : List TArg)
    (a : List ETy) (o : SiteObs) :
    (pre.length, o) ∈ runSeq p (pre ++ .site m x a :: post) ↔ o = siteObs (visibleAt p pre post m) x a :=
  site_obs_iff p pre post m x a o

/-- **`visible_prefix_independent`: the verdict of a site is a function of the *set* visible at it.**  Two call sites
    with the same arguments — in the same unit or in different ones, on the same path or on different ones, at any
    places, looked up in any way, with whatever calls, definitions, helpers and later declarations around them — that
    see the same candidates in any two orders show the same verdict (accepted with the same overload / refused for the
    same reason / ambiguous between the same overloads / unmatched). -/
theorem visible_prefix_independent (p p' : SeqPath) (pre post pre' post' : List SeqItem) (m m' : Nat)
    (x : List TArg) (a : List ETy) (v v' : List TCand) (o o' : SiteObs)
    (hv : visibleAt p pre post m = .functions v) (hv' : visibleAt p' pre' post' m' = .functions v')
    (hperm : List.Perm v v') (hid : (v.map (·.id)).Nodup)
    (ho : (pre.length, o) ∈ runSeq p (pre ++ .site m x a :: post))
    (ho' : (pre'.length, o') ∈ runSeq p' (pre' ++ .site m' x a :: post')) :
    o.normalize = o'.normalize := by
  rw [(site_obs_iff p pre post m x a o).mp ho, (site_obs_iff p' pre' post' m' x a o').mp ho', hv, hv']
  simp only [siteObs, SiteObs.normalize]
  rw [callT_perm hperm x a hid]

/-! ### symbols of the same name that are not functions (seeded defect C16-5)

A scope's vector for a name may hold, next to the overloads, a `Type` (struct, typedef, enum), a `ConstantBuffer`, a
`Namespace` and an `EnumScope` symbol, in any order (legal since 31dddea).  `find_identifier_in_scope` walks the whole
vector and collects every function; `Model.gatherLoop` is that loop. -/

/-- **`gathering_ignores_non_function_symbols`**: the candidate list `find_identifier_in_scope` hands over is the filter
    of the symbol vector by `isFunction`, in the vector's order — whatever else the vector contains and wherever it
    stands (before all overloads, between any two, after all).  No overload is dropped, none is added. -/
theorem gathering_ignores_non_function_symbols (syms : List Sym) :
    gatherLoop [] syms = (syms.filter Sym.isFunction).filterMap Sym.fn? ∧
    (gatherLoop [] syms).map Sym.fn = syms.filter Sym.isFunction := by
  have h1 : ∀ syms : List Sym, (syms.filter Sym.isFunction).filterMap Sym.fn? = syms.filterMap Sym.fn? := by
    intro syms
    induction syms with
    | nil => rfl
    | cons x xs ih => cases x <;> simp [List.filter_cons, List.filterMap_cons, Sym.isFunction, Sym.fn?, ih]
  have h2 : ∀ syms : List Sym, (syms.filterMap Sym.fn?).map Sym.fn = syms.filter Sym.isFunction := by
    intro syms
    induction syms with
    | nil => rfl
    | cons x xs ih => cases x <;> simp [List.filter_cons, List.filterMap_cons, Sym.isFunction, Sym.fn?, ih]
  rw [gatherLoop_nil]
  exact ⟨(h1 syms).symm, h2 syms⟩

/-- inserting any symbol that is not a function anywhere into a vector changes nothing of what is gathered; and as long
    as the vector holds a function, nothing of what `find_identifier_in_scope` answers -/
theorem non_function_symbol_changes_no_candidate (xs ys : List Sym) (s : Sym) (hs : s.isFunction = false) :
    gatherLoop [] (xs ++ s :: ys) = gatherLoop [] (xs ++ ys) ∧
    (gatherLoop [] (xs ++ ys) ≠ [] → findInScope (xs ++ s :: ys) = findInScope (xs ++ ys)) := by
  have hg : gatherLoop [] (xs ++ s :: ys) = gatherLoop [] (xs ++ ys) := by
    rw [gatherLoop_nil, gatherLoop_nil]
    cases s <;> simp_all [Sym.isFunction, List.filterMap_append, List.filterMap_cons, Sym.fn?]
  refine ⟨hg, fun hne => ?_⟩
  unfold findInScope
  simp only [hg]
  have : (gatherLoop [] (xs ++ ys)).isEmpty = false := by
    cases h : gatherLoop [] (xs ++ ys) with
    | nil => exact absurd h hne
    | cons _ _ => rfl
  simp [this]

/-- non-vacuity, and the seeded defect C16-5 itself: `int f(int); struct f {..}; int f(float);` (and the same with an
    enum, a cbuffer, and a namespace in front) — the call with a `float` sees both overloads and selects `f(float)`; a loop
    that stopped at the first non-function symbol after an overload would hand over `[f(int)]` only -/
example :
    let fi : TCand := ⟨0, [], [⟨.conc ⟨{}, .scalar .int32⟩, .in⟩], 1⟩
    let ff : TCand := ⟨1, [], [⟨.conc ⟨{}, .scalar .float32⟩, .in⟩], 1⟩
    let arg : List ETy := [⟨⟨{}, .scalar .float32⟩, .lvalue⟩]
    gatherLoop [] [.fn fi, .type, .fn ff] = [fi, ff] ∧
    gatherLoop [] [.namespace, .fn fi, .enumScope, .type, .cbuffer, .fn ff, .cbuffer] = [fi, ff] ∧
    (runSeq .free [.decl 0 fi, .other 0 .struct, .decl 0 ff, .site 0 [] arg]).map (fun x => (x.1, x.2.normalize)) =
      [(3, .verdict (.accepted 1))] ∧
    (runSeq .free [.other 0 .namespace, .decl 0 fi, .other 0 .enum, .site 0 [] arg, .decl 0 ff, .other 0 .cbuffer,
        .site 0 [] arg]).map (fun x => (x.1, x.2.normalize)) = [(3, .verdict (.accepted 0)), (6, .verdict (.accepted 1))] := by
  decide

/-- **same-name symbols take no candidate away**: at a call site whose lookup reaches a scope with at least one function
    of the name declared above the call, the verdict is the resolution on *all* functions of the name declared above the
    call in that scope (`Spec.declared`, which does not look at `other` items) — for every unit, every number, kind
    and placement of structs / enums / typedefs / cbuffers / namespaces of that name among the declarations. -/
theorem same_name_symbols_take_no_candidate_away (pre post : List SeqItem) (m : Nat) (x : List TArg) (a : List ETy)
    (o : SiteObs) (hm : m ≠ 2) (hne : declared (if m = 1 then 1 else 0) pre ≠ [])
    (ho : (pre.length, o) ∈ runSeq .free (pre ++ .site m x a :: post)) :
    o = .verdict (callT (declared (if m = 1 then 1 else 0) pre) x a) := by
  rw [(site_obs_iff .free pre post m x a o).mp ho]
  have key : ∀ (v : List TCand) (t : Bool), v ≠ [] → scopeKnows v t = .functions v := by
    intro v t hv
    cases v with
    | nil => exact absurd rfl hv
    | cons c cs => simp [scopeKnows]
  match m with
  | 0 => simp only [visibleAt]; rw [key _ _ (by simpa using hne)]; simp [siteObs]
  | 1 => simp only [visibleAt]; rw [key _ _ (by simpa using hne)]; simp [siteObs]
  | 2 => exact absurd rfl hm
  | n + 3 =>
    have h3 : (if n + 3 = 1 then 1 else 0) = 0 := by simp
    rw [h3] at hne ⊢
    simp only [visibleAt]; rw [key _ _ hne]; simp [siteObs]

/-- a scope that declares a type of the name and no function hides the outer overloads: an unqualified call inside
    `namespace N` whose N holds `struct f` / `enum f` / `typedef .. f` above the call and no function `f` is not a
    call of a function, whatever the root scope declares; a cbuffer block or a namespace of that name alone hides nothing -/
theorem inner_type_hides_outer_overloads (pre post : List SeqItem) (x : List TArg) (a : List ETy) (o : SiteObs)
    (hf : declared 1 pre = []) (ho : (pre.length, o) ∈ runSeq .free (pre ++ .site 2 x a :: post)) :
    (declaresType 1 pre = true → o = .isType) ∧
    (declaresType 1 pre = false → o = siteObs (scopeKnows (declared 0 pre) (declaresType 0 pre)) x a) := by
  rw [(site_obs_iff .free pre post 2 x a o).mp ho]
  constructor
  · intro ht; simp [visibleAt, scopeKnows, hf, ht, siteObs]
  · intro ht; simp [visibleAt, scopeKnows, hf, ht]

example :
    let fi : TCand := ⟨0, [], [⟨.conc ⟨{}, .scalar .int32⟩, .in⟩], 1⟩
    let arg : List ETy := [⟨⟨{}, .scalar .int32⟩, .lvalue⟩]
    (runSeq .free [.decl 0 fi, .other 1 .cbuffer, .site 2 [] arg, .other 1 .typedef, .site 2 [] arg, .site 0 [] arg,
        .site 1 [] arg]).map (fun x => (x.1, x.2.normalize)) =
      [(2, .verdict (.accepted 0)), (4, .isType), (5, .verdict (.accepted 0)), (6, .isType)] := by decide

/-- the same when nothing is visible at either site: both report the unknown name -/
theorem nothing_visible_is_unknown_name (p : SeqPath) (pre post : List SeqItem) (m : Nat) (x : List TArg)
    (a : List ETy) (o : SiteObs) (hv : visibleAt p pre post m = .nothing)
    (ho : (pre.length, o) ∈ runSeq p (pre ++ .site m x a :: post)) : o = .noname := by
  rw [(site_obs_iff p pre post m x a o).mp ho, hv]; rfl

/-- **The instantiation registry is transparent.**  The one thing a resolution leaves behind for later call sites is
    the function registry's table of template instantiations (`find_instantiation`, consulted by
    `build_function_template_signature` / `build_intrinsic_template` before they substitute).  `runSeqR` threads that
    table through every candidate of every call of the unit, in the order the type checker meets them; for every unit
    whose declarations have distinct ids it shows exactly what `runSeq` — every call resolved from scratch — shows:
    with the state the code really carries, **no call site influences a later one**. -/
theorem registry_is_transparent (p : SeqPath) (items : List SeqItem)
    (hD : ((allDeclared items).map (·.id)).Nodup) : runSeqR p items = runSeq p items :=
  runSeqR_eq p items hD

/-- non-vacuity: the second call of `template<T0, T1> f(T0, T1)` with the same argument types finds the instantiation the
    first one registered, a call with another second argument registers a second one -/
example :
    let t : TCand := ⟨0, [.type, .type], [⟨.tvar 0, .in⟩, ⟨.tvar 1, .in⟩], 2⟩
    let i : ETy := ⟨⟨{}, .scalar .int32⟩, .lvalue⟩
    let f : ETy := ⟨⟨{}, .scalar .float32⟩, .lvalue⟩
    let r1 := (callTR [] [t] [] [i, f]).2
    r1.length = 1 ∧ (callTR r1 [t] [] [i, f]).2 = r1 ∧ ((callTR r1 [t] [] [i, i]).2).length = 2 := by decide

/-- **A call in a template body** shows, when the call that instantiates the helper is type checked: nothing, if that
    instance has a body already; else the resolution on what is visible *at the instantiating call* (in the scope the
    helper was declared in) — not at the place of the template.  (`noname` alone: no helper of that number.) -/
theorem template_body_site_resolved_at_first_instantiation (p : SeqPath) (pre post : List SeqItem) (j z : Nat)
    (o : SiteObs) (h : (pre.length, o) ∈ runSeq p (pre ++ .trigger j z :: post)) :
    o = .cached ∨ o = .noname ∨
      ∃ m a, lookupHelper j (stateAfter p (SeqState.init p (pre ++ .trigger j z :: post)) pre).helpers = some (m, a) ∧
        o = siteObs (visibleAt p pre post m) [] a :=
  trigger_obs p pre post j z o h

/-- every observation belongs to a call site or an instantiating call of the unit, at its place -/
theorem observations_are_at_places (p : SeqPath) (items : List SeqItem) (n : Nat) (o : SiteObs)
    (h : (n, o) ∈ runSeq p items) : n < items.length := by
  have := runFrom_pos p (SeqState.init p items) 0 items n o h
  omega

/-! ### A function declared more than once with different default arguments (wave 13)

`parse_function` asks `check_existing_functions` whether the name already has an overload with the same `param_types`;
if so the **earlier id** is used and the later signature — with it the later `non_default_params` — is dropped
(`SeqItem.redecl`: no change of state).  So the arity range of a candidate is the one of its *first* declaration. -/

private theorem declared_skip_redecl (s : Nat) (pre₁ pre₂ : List SeqItem) (id nd : Nat) :
    declared s (pre₁ ++ .redecl id nd :: pre₂) = declared s (pre₁ ++ pre₂) := by
  induction pre₁ with
  | nil => simp [declared]
  | cons i is ih => cases i <;> simp [declared, ih]

private theorem declaresType_skip_redecl (s : Nat) (pre₁ pre₂ : List SeqItem) (id nd : Nat) :
    declaresType s (pre₁ ++ .redecl id nd :: pre₂) = declaresType s (pre₁ ++ pre₂) := by
  induction pre₁ with
  | nil => simp [declaresType]
  | cons i is ih => cases i <;> simp [declaresType, ih]

private theorem declaresTypeAnywhere_skip_redecl (pre₁ pre₂ : List SeqItem) (id nd : Nat) :
    declaresTypeAnywhere (pre₁ ++ .redecl id nd :: pre₂) = declaresTypeAnywhere (pre₁ ++ pre₂) := by
  induction pre₁ with
  | nil => simp [declaresTypeAnywhere]
  | cons i is ih => cases i <;> simp [declaresTypeAnywhere, ih]

private theorem allDeclared_skip_redecl (pre₁ pre₂ : List SeqItem) (id nd : Nat) :
    allDeclared (pre₁ ++ .redecl id nd :: pre₂) = allDeclared (pre₁ ++ pre₂) := by
  induction pre₁ with
  | nil => simp [allDeclared]
  | cons i is ih => cases i <;> simp [allDeclared, ih]

/-- **What the code does with a redeclaration: nothing.**  For every unit, on every path, at every place: a later
    declaration (prototype or definition) of a function that is already declared — whatever default arguments it
    carries — changes the verdict of no call site below it: the site shows the resolution on the *first* declarations
    (`site_verdict_is_resolution_of_visible` on the unit with and without the redeclaration).  This is the model's (= the
    code's) behaviour, not the property: see `redeclared_defaults_are_order_dependent`. -/
theorem first_declaration_fixes_the_defaults (p : SeqPath) (pre₁ pre₂ post : List SeqItem) (id nd m : Nat)
    (x : List TArg) (a : List ETy) (o : SiteObs) :
    ((pre₁ ++ .redecl id nd :: pre₂).length, o) ∈ runSeq p ((pre₁ ++ .redecl id nd :: pre₂) ++ .site m x a :: post) ↔
      ((pre₁ ++ pre₂).length, o) ∈ runSeq p ((pre₁ ++ pre₂) ++ .site m x a :: post) := by
  rw [site_verdict_is_resolution_of_visible, site_verdict_is_resolution_of_visible]
  have : visibleAt p (pre₁ ++ .redecl id nd :: pre₂) post m = visibleAt p (pre₁ ++ pre₂) post m := by
    cases p <;>
      simp [visibleAt, declared_skip_redecl, declaresType_skip_redecl, declaresTypeAnywhere_skip_redecl,
        allDeclared_skip_redecl, List.append_assoc]
  rw [this]

/-- **Witness against the property** (the negation of "never on the order the candidates were declared in", for the
    declarations of ONE function; replayed on the real type checker by the last lines of corpus/C16.txt, recorded in
    known_findings.jsonl).  The same two declarations `R0 f(int, int);` and `R0 f(int, int = 0);` followed by the same
    call `f(x)`: *unmatched* when the one without the default value stands first, *accepted* when it stands second.
    With a second overload `R1 f(float)` around, the same unit **selects another overload** depending on which
    declaration of `f(int, float)` comes first. -/
theorem redeclared_defaults_are_order_dependent :
    let i : TParam := ⟨.conc ⟨{}, .scalar .int32⟩, .in⟩
    let fl : TParam := ⟨.conc ⟨{}, .scalar .float32⟩, .in⟩
    let arg : List ETy := [⟨⟨{}, .scalar .int32⟩, .lvalue⟩]
    let obs := fun (u : List SeqItem) => (runSeq .free u).map (fun x => (x.1, x.2.normalize))
    obs [.decl 0 ⟨0, [], [i, i], 2⟩, .redecl 0 1, .site 0 [] arg] = [(2, .verdict .unmatched)] ∧
    obs [.decl 0 ⟨0, [], [i, i], 1⟩, .redecl 0 2, .site 0 [] arg] = [(2, .verdict (.accepted 0))] ∧
    obs [.decl 0 ⟨0, [], [i, fl], 2⟩, .decl 0 ⟨1, [], [fl], 1⟩, .redecl 0 1, .site 0 [] arg] = [(3, .verdict (.accepted 1))] ∧
    obs [.decl 0 ⟨0, [], [i, fl], 1⟩, .decl 0 ⟨1, [], [fl], 1⟩, .redecl 0 2, .site 0 [] arg] = [(3, .verdict (.accepted 0))] := by
  decide

/-- **Witness against the property, function templates** (replayed by corpus/C16.txt, recorded in known_findings.jsonl).
    `template<typename T> R0 f(T a);` followed by its definition `template<typename T> R0 f(T a) { .. }` - one function
    template, declared and then defined - and the call `f(x)`: the two declarations are two overloads for the type
    checker (`elaborate`), both match exactly, the call is *ambiguous between the function and itself*; the same call
    between the two declarations is accepted.  With parameter types that mention no template parameter the later
    declaration is combined with the first (`redecl`), and the call after both is accepted. -/
theorem redeclared_template_is_a_second_overload :
    let t : TCand := ⟨0, [.type], [⟨.tvar 0, .in⟩], 1⟩
    let u : TCand := ⟨0, [.type], [⟨.conc ⟨{}, .scalar .int32⟩, .in⟩], 1⟩
    let arg : List ETy := [⟨⟨{}, .scalar .int32⟩, .lvalue⟩]
    let obs := fun (u : List SeqItem) => (runSeq .free (elaborate u)).map (fun x => (x.1, x.2.normalize))
    obs [.decl 0 t, .site 0 [] arg, .redecl 0 1, .site 0 [] arg] =
      [(1, .verdict (.accepted 0)), (3, .verdict (.ambiguous [0, 0]))] ∧
    obs [.decl 0 u, .site 0 [.type ⟨{}, .scalar .int32⟩] arg, .redecl 0 1, .site 0 [.type ⟨{}, .scalar .int32⟩] arg] =
      [(1, .verdict (.accepted 0)), (3, .verdict (.accepted 0))] := by
  decide

/-- non-vacuity, and the shape of the seeded defect "memoised resolution": `f(float)`; call `f(int_var)`; `f(int)`;
    the same call again, once more after the definition of `f(float)`, and from inside a template instantiated before
    and after: the second call sees two candidates and selects the exact one -/
example :
    let fl : TCand := ⟨0, [], [⟨.conc ⟨{}, .scalar .float32⟩, .in⟩], 1⟩
    let it : TCand := ⟨1, [], [⟨.conc ⟨{}, .scalar .int32⟩, .in⟩], 1⟩
    let arg : List ETy := [⟨⟨{}, .scalar .int32⟩, .lvalue⟩]
    (runSeq .free [.decl 0 fl, .helper 0 0 arg, .site 0 [] arg, .trigger 0 0, .decl 0 it, .site 0 [] arg, .define 0,
        .site 0 [] arg, .trigger 0 0, .trigger 0 1, .site 1 [] arg]).map (fun x => (x.1, x.2.normalize)) =
      [(2, .verdict (.accepted 0)), (3, .verdict (.accepted 0)), (5, .verdict (.accepted 1)), (7, .verdict (.accepted 1)),
       (8, .cached), (9, .verdict (.accepted 1)), (10, .noname)] := by decide

/-- non-vacuity of `visible_prefix_independent`: a site in `namespace N` after `N::f` was declared in two reopened blocks
    in one order, and a method call in a struct that declares the same two overloads in the other order *below* the caller -/
example :
    let c0 : TCand := ⟨0, [], [⟨.conc ⟨{}, .scalar .float32⟩, .in⟩], 1⟩
    let c1 : TCand := ⟨1, [], [⟨.conc ⟨{}, .vector .int32 2⟩, .in⟩], 1⟩
    visibleAt .free [.decl 0 c1, .decl 1 c0, .site 2 [] [], .decl 1 c1] [.decl 1 ⟨2, [], [], 0⟩] 2 = .functions [c0, c1] ∧
    visibleAt .method [] [.decl 0 c1, .decl 0 c0] 0 = .functions [c1, c0] ∧ List.Perm [c0, c1] [c1, c0] := by
  refine ⟨by decide, by decide, ?_⟩
  exact List.Perm.swap _ _ _

/-- every syntactic fact the transcription relies on holds in the current source: the arity guard precedes
    `find_overload_casts`; the tournament compares all pairs, skips the candidate itself, loses only on `Worse`, its `zip`
    loop has no early exit and the `against` loop breaks; `count_by_rank` counts equal vector ranks, worst first; the
    minimum is taken with `<` and exactly the minimal ones are kept; one ⇒ selected, several ⇒ ambiguous, none ⇒
    unmatched; template arguments: too many ⇒ not viable, explicit first, the first parameter that infers wins, value
    parameters are never inferred, every argument is normalized, template arguments on an ordinary function ⇒ not
    viable; an instantiation that cannot be built (`build_function_template_signature` / `build_intrinsic_template`
    return `None`, which `apply_templates` does as soon as one parameter type or the return type cannot be formed) ⇒ not
    viable; the `zip` loop over `ImplicitConversion::find` stops at the first failure; `write_function` and
    `write_method` apply the casts and then check the output arguments of the selected overload;
    `ImplicitConversion::apply` returns the expression itself only when there is no dimension, primary or modifier cast
    and otherwise an `Expression::Cast`, whose type is an rvalue; the innermost scope that knows the
    name supplies the whole overload list, in insertion order; a struct supplies all its methods of that name; an
    intrinsic object all its functions of that name; `find_function_type` is called from `write_function` and
    `write_method` only; and — what `Model/OverloadSeq.lean` walks through — a declaration that matches no earlier one
    is registered and pushed, a definition of a declared function takes its id and pushes nothing, the body of an
    ordinary function is type checked at its definition and that of a template is not, a struct registers all its
    methods before it type checks the first body, a call that selects a template instance builds the instance's body
    only if it has none, in the scope the template was declared in, and a struct template is instantiated once per
    argument list, in the scope it was declared in; the instantiation of a function template is found again by the
    template and *all* its arguments (so the registry is a cache of `substParams`, a function of that key); the loop of
    `find_identifier_in_scope` that gathers the overloads visits **every** symbol of the vector (no `break`, no
    `continue`, no guarded or catch-all arm; `Type` / `ConstantBuffer` / `Namespace` / `EnumScope` have empty arms) and the
    overloads are handed over right after it (`overloadGatheringVisitsAllSymbols`: the seeded defect C16-5 is a `break`
    in that loop) -/
theorem resolve_shape_as_modelled :
    RsslVerif.Gen.ResolveShape.shape =
      { arityGuardThenCasts := true, tournamentComparesAllPairsSkippingSelf := true,
        zipLoopHasNoEarlyExitAndOnlyWorseLoses := true, againstLoopBreaksOnWorseAndWinnersArePushed := true,
        countByRankCountsEqualVectorRank := true, orderVectorIsWorstToBestCounts := true,
        bestOrderIsTheMinimumByLess := true, keepsExactlyTheMinimal := true,
        oneSelectedSeveralAmbiguousElseUnmatched := true, tooManyTemplateArgsNotViable := true,
        explicitArgsFirstThenInferredValueParamsNever := true, firstParameterThatInfersWins := true,
        everyTemplateArgIsNormalized := true, templateArgsOnPlainFunctionNotViable := true,
        zipFindStopsAtFirstFailure := true, uninstantiableTemplateNotViable := true,
        signatureSubstitutionFailsAsAWhole := true, templateInstantiationPropagatesTheFailure := true,
        intrinsicInstantiationPropagatesTheFailure := true, functionCallChecksOutputsAfterCasts := true,
        methodCallChecksOutputsAfterCasts := true, applyKeepsTheExpressionOnlyWithoutAnyCast := true,
        aCastIsAnRvalue := true,
        declarationIsPushedADefinitionOfItReusesTheId := true, bodyIsCheckedAtTheDefinitionATemplateBodyIsNot := true,
        allMethodsAreRegisteredBeforeTheFirstBody := true,
        templateBodyIsBuiltOncePerInstanceInTheDeclaringScope := true, aCallOfAnInstanceBuildsItsBody := true,
        structTemplateIsInstantiatedOncePerArgumentsInTheDeclaringScope := true,
        instantiationIsFoundAgainByTemplateAndAllArguments := true, instantiationIsLookedUpBeforeItIsBuilt := true,
        innermostScopeWithTheNameWins := true,
        scopeContributesItsOwnFunctionsOnly := true, overloadGatheringVisitsAllSymbols := true,
        overloadsAreHandedOverRightAfterTheGatheringLoop := true, overloadsAreAppended := true,
        methodsAreAllMethodsOfThatName := true } ∧
    RsslVerif.Gen.ResolveShape.callers = ["write_function", "write_method"] ∧
    RsslVerif.Gen.ResolveShape.objectMethodsAreAllFunctionsOfThatName = true := by decide

/-- **`resolutionReadsNoCallHistory`**: the state the resolution can reach.  `find_function_type`,
    `find_overload_casts`, `try_infer_template_type` and `normalize_template_type` go through their `context` only to
    the function registry (`get_function_signature`, `get_intrinsic_data`), the type registry (`get_type_layer`,
    `register_type`: hash-consing), `&mut context.module` handed to `ImplicitConversion::find`, each other, and the two
    routines that instantiate a candidate's signature; those two read and extend the function registry (the
    instantiation of a template for given arguments is found again, `find_instantiation`: a function of its key —
    the signature is `apply_templates` of the template's), the scope table of the *template* (`function_to_scope`,
    `scopes`, `make_scope`) and the template parameter tables.  None of it is written by a call site except the
    instantiation registry.  And a `Context` has no field besides the module, the scope table, the current scope,
    `function_to_scope` and the struct template table: there is no place where one call could leave its verdict for
    the next (a memo of resolved calls would be a new field and a new path: the seeded defect C16-3). -/
theorem resolution_reads_no_call_history :
    RsslVerif.Gen.ResolveShape.resolutionContextUses =
      ["context", "context.build_function_template_signature", "context.build_intrinsic_template", "context.module",
       "context.module.function_registry.get_function_signature", "context.module.function_registry.get_intrinsic_data",
       "context.module.type_registry.get_type_layer", "context.module.type_registry.register_type"] ∧
    RsslVerif.Gen.ResolveShape.instantiationContextUses =
      ["self.function_to_scope", "self.function_to_scope.insert", "self.make_scope",
       "self.module.function_registry.find_instantiation", "self.module.function_registry.get_function_name_definition",
       "self.module.function_registry.get_function_signature", "self.module.function_registry.get_intrinsic_data",
       "self.module.function_registry.register_function", "self.module.function_registry.set_intrinsic_data",
       "self.module.function_registry.set_template_instantiation_data", "self.module.type_registry.get_template_type",
       "self.module.variable_registry.get_template_value", "self.scopes"] ∧
    RsslVerif.Gen.ResolveShape.contextFields =
      ["module", "scopes", "current_scope", "function_to_scope", "struct_template_data"] := by decide

/-- the eight transcribed functions (the eighth: `find_identifier_in_scope`, whose gathering loop decides which overloads
    reach the resolution at all) are, character for character (comments and white space aside), the text the model
    was transcribed from -/
theorem resolve_source_as_transcribed :
    RsslVerif.Gen.ResolveShape.findFunctionTypeSrc = RsslVerif.Model.OverloadSrc.findFunctionType ∧
    RsslVerif.Gen.ResolveShape.findOverloadCastsSrc = RsslVerif.Model.OverloadSrc.findOverloadCasts ∧
    RsslVerif.Gen.ResolveShape.tryInferTemplateTypeSrc = RsslVerif.Model.OverloadSrc.tryInferTemplateType ∧
    RsslVerif.Gen.ResolveShape.normalizeTemplateTypeSrc = RsslVerif.Model.OverloadSrc.normalizeTemplateType ∧
    RsslVerif.Gen.ResolveShape.applyTemplateTypeSubstitutionSrc = RsslVerif.Model.OverloadSrc.applyTemplateTypeSubstitution ∧
    RsslVerif.Gen.ResolveShape.checkOutputArgumentsSrc = RsslVerif.Model.OverloadSrc.checkOutputArguments ∧
    RsslVerif.Gen.ResolveShape.checkMutablePlaceSrc = RsslVerif.Model.OverloadSrc.checkMutablePlace ∧
    RsslVerif.Gen.ResolveShape.findIdentifierInScopeSrc = RsslVerif.Model.OverloadSrc.findIdentifierInScope :=
  ⟨rfl, rfl, rfl, rfl, rfl, rfl, rfl, rfl⟩

end RsslVerif.Thm.C16

//! Vector stream of C02 (`C02.vfn`): the syntax tree the Metal exporter emits (hook `rssl_msl::verif_generate_ast`) →
//! s-expressions.  Nothing is re-parsed: the tree is the one handed to the formatter.
//!
//! types   : a (qualified) name `float3`, `metal::float2x3`, `NS1::S1`, `E0`, or `(arr <ty> <n>)`
//! items   : `(struct Name (m <name> <ty>)... (method <fn>)...)` `(enum Name (v <name> <expr>?)...)`
//!           `(const <name> <ty> <init>?)` (file scope, address space `constant`) `(proto <name> <nparams>)`
//!           `(fn <name> <ret> (params P...) (block ...))`, P = `(val <ty> <name> <default>?)` | `(ref <space> <ty> <name>)`
//!           | `(tag <ty>)`; members of `namespace N { }` are listed under their qualified names `N::x`
//! exprs   : `(lit k v)` `(id n)` `(un Op e)` `(bin Op l r)` `(tern c t f)` `(idx o i)` `(mem o name)` `(cast ty e)`
//!           `(call name args...)` (function, constructor or `metal::` built-in: decided by name)
//!           `(tcall name (targs ty...) args...)` `(mcall obj name args...)` `(binit ty init...)`; init = expr | `(agg init...)`
//! stmts   : as in the HLSL text forms of `c01/vconv.rs` (`(var (d name ty init?)...)`, `(for init cond inc body)`, ...)
#![allow(dead_code)]
use super::sx::*;
use rssl_ast as ast;

fn unsup(what: &str) -> Sx {
    node("unsupported", vec![a(what)])
}

fn ident(id: &ast::ScopedIdentifier) -> Option<String> {
    if id.base == ast::ScopedIdentifierBase::Relative && !id.identifiers.is_empty() {
        Some(id.identifiers.iter().map(|x| x.node.clone()).collect::<Vec<_>>().join("::"))
    } else {
        None
    }
}

fn space_name(s: ast::AddressSpace) -> &'static str {
    match s {
        ast::AddressSpace::Thread => "thread",
        ast::AddressSpace::Constant => "constant",
        ast::AddressSpace::ThreadGroup => "threadgroup",
        ast::AddressSpace::Device => "device",
        _ => "otherspace",
    }
}

/// base type name + modifiers
fn base_type(t: &ast::Type) -> Option<(Sx, Vec<ast::TypeModifier>)> {
    if !t.layout.1.is_empty() {
        return None;
    }
    let n = ident(&t.layout.0)?;
    Some((a(&n), t.modifiers.modifiers.iter().map(|m| m.node).collect()))
}

/// declared name, full type and "is a reference" of a declarator over a base type
fn declarator(base: &Sx, d: &ast::Declarator) -> Option<(Option<String>, Sx, bool)> {
    match d {
        ast::Declarator::Empty => Some((None, base.clone(), false)),
        ast::Declarator::Identifier(id, attrs) if attrs.is_empty() => Some((Some(ident(id)?), base.clone(), false)),
        ast::Declarator::Array(ad) if ad.attributes.is_empty() => {
            let n = match ad.array_size.as_ref().map(|e| &e.node) {
                Some(ast::Expression::Literal(ast::Literal::IntUntyped(n))) => *n,
                Some(ast::Expression::Literal(ast::Literal::IntUnsigned32(n))) => *n,
                _ => return None,
            };
            // `x[2][3]` is Array(Array(x,2),3): this layer's size applies to the element type first
            let elem = node("arr", vec![base.clone(), a(&n.to_string())]);
            declarator(&elem, &ad.inner)
        }
        ast::Declarator::Reference(r) if r.attributes.is_empty() => {
            let (n, t, _) = declarator(base, &r.inner)?;
            Some((n, t, true))
        }
        _ => None,
    }
}

fn type_id(ty: &ast::TypeId) -> Option<Sx> {
    let (base, mods) = base_type(&ty.base)?;
    if !mods.is_empty() {
        return None;
    }
    match declarator(&base, &ty.abstract_declarator)? {
        (None, t, false) => Some(t),
        _ => None,
    }
}

pub fn expr(e: &ast::Expression) -> Sx {
    match e {
        ast::Expression::Literal(lit) => match lit {
            ast::Literal::Bool(b) => node("lit", vec![a("bool"), a(if *b { "1" } else { "0" })]),
            ast::Literal::IntUntyped(n) => node("lit", vec![a("int"), a(&n.to_string())]),
            ast::Literal::IntUnsigned32(n) => node("lit", vec![a("uint"), a(&n.to_string())]),
            ast::Literal::Float32(f) => node("lit", vec![a("f32"), a(&format!("{:08x}", f.to_bits()))]),
            ast::Literal::FloatUntyped(f) => node("lit", vec![a("flt"), a(&format!("{:016x}", f.to_bits()))]),
            _ => unsup("Literal"),
        },
        ast::Expression::Identifier(id) => match ident(id) {
            Some(n) => node("id", vec![a(&n)]),
            None => unsup("ScopedIdentifier"),
        },
        ast::Expression::UnaryOperation(op, x) => node("un", vec![a(&format!("{:?}", op)), expr(&x.node)]),
        ast::Expression::BinaryOperation(op, x, y) => node("bin", vec![a(&format!("{:?}", op)), expr(&x.node), expr(&y.node)]),
        ast::Expression::TernaryConditional(c, t, f) => node("tern", vec![expr(&c.node), expr(&t.node), expr(&f.node)]),
        ast::Expression::ArraySubscript(o, i) => node("idx", vec![expr(&o.node), expr(&i.node)]),
        ast::Expression::Member(o, name) => match ident(name) {
            Some(n) if name.identifiers.len() == 1 => node("mem", vec![expr(&o.node), a(&n)]),
            _ => unsup("MemberName"),
        },
        ast::Expression::Cast(ty, x) => match type_id(ty) {
            Some(t) => node("cast", vec![t, expr(&x.node)]),
            None => unsup("CastType"),
        },
        ast::Expression::BracedInit(ty, inits) => match type_id(ty) {
            Some(t) => {
                let mut v = vec![t];
                v.extend(inits.iter().map(init));
                node("binit", v)
            }
            None => unsup("BracedInitType"),
        },
        ast::Expression::Call(f, targs, args) => {
            let mut tas = Vec::new();
            for t in targs {
                match t {
                    ast::ExpressionOrType::Type(ty) => match type_id(ty) {
                        Some(t) => tas.push(t),
                        None => return unsup("TemplateArgType"),
                    },
                    // a value argument: the instantiation is a definition of its own, the value is already in its body
                    ast::ExpressionOrType::Expression(e) => tas.push(node("tv", vec![expr(&e.node)])),
                    ast::ExpressionOrType::Either(e, _) => tas.push(node("tv", vec![expr(&e.node)])),
                }
            }
            match &f.node {
                ast::Expression::Identifier(id) => match ident(id) {
                    Some(n) => {
                        let mut v = vec![a(&n)];
                        let head = if tas.is_empty() {
                            "call"
                        } else {
                            v.push(node("targs", tas));
                            "tcall"
                        };
                        v.extend(args.iter().map(|x| expr(&x.node)));
                        node(head, v)
                    }
                    None => unsup("CallTarget"),
                },
                ast::Expression::Member(obj, name) if name.identifiers.len() == 1 && tas.is_empty() => match ident(name) {
                    Some(n) => {
                        let mut v = vec![expr(&obj.node), a(&n)];
                        v.extend(args.iter().map(|x| expr(&x.node)));
                        node("mcall", v)
                    }
                    None => unsup("CallTarget"),
                },
                _ => unsup("CallTarget"),
            }
        }
        ast::Expression::SizeOf(_) => unsup("SizeOf"),
        ast::Expression::AmbiguousParseBranch(_) => unsup("AmbiguousParseBranch"),
    }
}

fn init(i: &ast::Initializer) -> Sx {
    match i {
        ast::Initializer::Expression(e) => expr(&e.node),
        ast::Initializer::Aggregate(items) => node("agg", items.iter().map(init).collect()),
        _ => unsup("Init"),
    }
}

/// `(d <name> <ty> <init>?)` per declarator
fn defs(base: &Sx, ds: &[ast::InitDeclarator]) -> Option<Vec<Sx>> {
    let mut v = Vec::new();
    for def in ds {
        if !def.location_annotations.is_empty() {
            return None;
        }
        let (name, ty, is_ref) = declarator(base, &def.declarator)?;
        if is_ref {
            return None;
        }
        let mut items = vec![a(&name?), ty];
        if let Some(i) = &def.init {
            items.push(init(i));
        }
        v.push(node("d", items));
    }
    Some(v)
}

fn vardef(d: &ast::VarDef) -> Option<Vec<Sx>> {
    let (base, mods) = base_type(&d.local_type)?;
    if mods.iter().any(|m| !matches!(m, ast::TypeModifier::Const)) {
        return None;
    }
    defs(&base, &d.defs)
}

pub fn stmt(s: &ast::Statement) -> Sx {
    if !s.attributes.is_empty() {
        return unsup("Attribute");
    }
    match &s.kind {
        ast::StatementKind::Expression(e) => node("expr", vec![expr(e)]),
        ast::StatementKind::Var(d) => match vardef(d) {
            Some(v) => node("var", v),
            None => unsup("VarDef"),
        },
        ast::StatementKind::Block(b) => node("block", b.iter().map(stmt).collect()),
        ast::StatementKind::If(c, b) => node("if", vec![expr(&c.node), stmt(b)]),
        ast::StatementKind::IfElse(c, t, f) => node("ifelse", vec![expr(&c.node), stmt(t), stmt(f)]),
        ast::StatementKind::For(i, cond, inc, b) => {
            let i = match i {
                ast::InitStatement::Empty => node("none", vec![]),
                ast::InitStatement::Expression(e) => node("e", vec![expr(&e.node)]),
                ast::InitStatement::Declaration(d) => match vardef(d) {
                    Some(v) => node("decl", v),
                    None => unsup("VarDef"),
                },
            };
            let c = match cond {
                None => node("none", vec![]),
                Some(e) => expr(&e.node),
            };
            let n = match inc {
                None => node("none", vec![]),
                Some(e) => expr(&e.node),
            };
            node("for", vec![i, c, n, stmt(b)])
        }
        ast::StatementKind::While(c, b) => node("while", vec![expr(&c.node), stmt(b)]),
        ast::StatementKind::DoWhile(b, c) => node("dowhile", vec![stmt(b), expr(&c.node)]),
        ast::StatementKind::Break => node("break", vec![]),
        ast::StatementKind::Continue => node("continue", vec![]),
        ast::StatementKind::Return(None) => node("ret", vec![]),
        ast::StatementKind::Return(Some(e)) => node("ret", vec![expr(&e.node)]),
        ast::StatementKind::Empty => node("empty", vec![]),
        ast::StatementKind::Switch(c, b) => node("switch", vec![expr(&c.node), stmt(b)]),
        ast::StatementKind::CaseLabel(e, st) => node("case", vec![expr(&e.node), stmt(st)]),
        ast::StatementKind::DefaultLabel(st) => node("default", vec![stmt(st)]),
        _ => unsup("Statement"),
    }
}

/// `(val ty name default?)` | `(ref space ty name)` | `(tag ty)`
fn param(p: &ast::FunctionParam) -> Sx {
    let (base, mods) = match base_type(&p.param_type) {
        Some(x) => x,
        None => return unsup("ParamType"),
    };
    if !p.location_annotations.is_empty() {
        return unsup("ParamAnnotation");
    }
    let (name, ty, is_ref) = match declarator(&base, &p.declarator) {
        Some(x) => x,
        None => return unsup("ParamDeclarator"),
    };
    let mut space = None;
    for m in &mods {
        match m {
            ast::TypeModifier::AddressSpace(s) => space = Some(*s),
            ast::TypeModifier::Const => {}
            _ => return unsup("ParamModifier"),
        }
    }
    match (name, is_ref, space) {
        (None, false, None) if p.default_expr.is_none() => node("tag", vec![ty]),
        (Some(n), false, None) => {
            let mut items = vec![ty, a(&n)];
            if let Some(d) = &p.default_expr {
                items.push(expr(d));
            }
            node("val", items)
        }
        (Some(n), true, Some(s)) if p.default_expr.is_none() => node("ref", vec![a(space_name(s)), ty, a(&n)]),
        _ => unsup("Param"),
    }
}

fn unnamed_params(f: &ast::FunctionDefinition) -> bool {
    f.template_params.0.iter().all(|p| match p {
        ast::TemplateParam::Type(t) => t.name.is_none() && t.default.is_none(),
        ast::TemplateParam::Value(v) => v.name.is_none() && v.default.is_none(),
    })
}

pub fn func(f: &ast::FunctionDefinition) -> Sx {
    let ret = match base_type(&f.returntype.return_type) {
        Some((n, mods)) if mods.is_empty() && f.returntype.location_annotations.is_empty() => n,
        _ => unsup("ReturnType"),
    };
    let ps = f.params.iter().map(param).collect();
    let body = match &f.body {
        Some(b) => node("block", b.iter().map(stmt).collect()),
        None => unsup("NoBody"),
    };
    let mut items = vec![a(&f.name.node), ret, node("params", ps), body];
    // `template<typename>` around an instantiation: the parameters are unnamed, nothing in the definition depends on them
    if !f.attributes.is_empty() || !unnamed_params(f) || f.is_const || f.is_volatile {
        items.push(unsup("FunctionAttribute"));
    }
    node("fn", items)
}

fn rename(item: Sx, prefix: &str) -> Sx {
    match item {
        Sx::L(mut v) if v.len() >= 2 && !prefix.is_empty() && matches!(v[0].atom(), "fn" | "struct" | "enum" | "const" | "proto") => {
            v[1] = a(&format!("{}{}", prefix, v[1].atom()));
            Sx::L(v)
        }
        other => other,
    }
}

fn definitions(ds: &[ast::RootDefinition], prefix: &str, all: &mut Vec<Sx>) {
    for rd in ds {
        let item = match rd {
            ast::RootDefinition::Namespace(n, inner) => {
                definitions(inner, &format!("{}{}::", prefix, n.node), all);
                continue;
            }
            ast::RootDefinition::Function(f) if f.body.is_none() => node("proto", vec![a(&f.name.node), a(&f.params.len().to_string())]),
            ast::RootDefinition::Function(f) => func(f),
            ast::RootDefinition::Struct(s) => {
                let mut v = vec![a(&s.name.node)];
                if !s.base_types.is_empty() || !s.template_params.0.is_empty() {
                    v.push(unsup("StructHeader"));
                }
                for e in &s.members {
                    match e {
                        ast::StructEntry::Variable(mem) if mem.attributes.is_empty() => match base_type(&mem.ty) {
                            Some((base, mods)) if mods.is_empty() => {
                                for def in &mem.defs {
                                    match declarator(&base, &def.declarator) {
                                        Some((Some(n), ty, false)) if def.init.is_none() && def.location_annotations.is_empty() => v.push(node("m", vec![a(&n), ty])),
                                        _ => v.push(unsup("StructMember")),
                                    }
                                }
                            }
                            _ => v.push(unsup("StructMemberType")),
                        },
                        ast::StructEntry::Method(fd) if fd.body.is_none() => v.push(node("proto", vec![a(&fd.name.node), a(&fd.params.len().to_string())])),
                        ast::StructEntry::Method(fd) => v.push(node("method", vec![func(fd)])),
                        _ => v.push(unsup("StructEntry")),
                    }
                }
                node("struct", v)
            }
            ast::RootDefinition::Enum(e) => {
                let mut v = vec![a(&e.name.node)];
                for val in &e.values {
                    let mut items = vec![a(&val.name.node)];
                    if let Some(x) = &val.value {
                        items.push(expr(&x.node));
                    }
                    v.push(node("v", items));
                }
                node("enum", v)
            }
            ast::RootDefinition::GlobalVariable(g) => match base_type(&g.global_type) {
                Some((base, mods)) if g.attributes.is_empty() && mods.iter().all(|m| matches!(m, ast::TypeModifier::AddressSpace(ast::AddressSpace::Constant) | ast::TypeModifier::Const)) && mods.contains(&ast::TypeModifier::AddressSpace(ast::AddressSpace::Constant)) => {
                    for def in &g.defs {
                        let item = match declarator(&base, &def.declarator) {
                            Some((Some(n), ty, false)) if def.location_annotations.is_empty() => {
                                let mut items = vec![a(&n), ty];
                                if let Some(i) = &def.init {
                                    items.push(init(i));
                                }
                                node("const", items)
                            }
                            _ => unsup("GlobalDeclarator"),
                        };
                        all.push(rename(item, prefix));
                    }
                    continue;
                }
                _ => unsup("GlobalType"),
            },
            _ => unsup("RootDefinition"),
        };
        all.push(rename(item, prefix));
    }
}

/// every definition of the emitted module, namespace members under their qualified names
pub fn module(m: &ast::Module) -> Vec<Sx> {
    let mut out = Vec::new();
    definitions(&m.root_definitions, "", &mut out);
    out
}
